#!/usr/bin/env python3
"""Evaluate seeded changes produced by independent sub-agents.  usage: seedtest.py <seed dir (contains patch.diff, demo_test.go, meta.json)> [<check id> ...]
Confirms: patch applies, builds, the demo fails with it and passes without it (existing suite: run by the author, spot-checked here for
the touched packages); then runs the given checks (default: the property named in meta.json) against the patched worktree."""
import json, os, shutil, subprocess, sys, time
ROOT = os.path.dirname(os.path.dirname(os.path.abspath(__file__)))
ENV = dict(os.environ, GOFLAGS="-mod=mod", GOPROXY="off", GOSUMDB="off", GOTOOLCHAIN="local")

def sh(cmd, cwd=None, timeout=3600):
    p = subprocess.run(cmd, shell=True, cwd=cwd, env=ENV, stdout=subprocess.PIPE, stderr=subprocess.STDOUT, timeout=timeout)
    return p.returncode, p.stdout.decode("utf-8", "replace")

def main():
    sd = os.path.abspath(sys.argv[1])
    meta = json.load(open(os.path.join(sd, "meta.json")))
    props = sys.argv[2:] or [meta["property"]]
    tier = os.environ.get("SEED_TIER", "quick")
    wt = "/tmp/wt-seed-%d" % os.getpid()
    sh("git -C /repo worktree add --detach %s HEAD" % wt)
    res = {"seed": sd, "property": meta["property"], "checks": {}}
    try:
        demo_dir = os.path.join(wt, meta["demo_pkg_dir"].strip("/"))
        demo = os.path.join(demo_dir, "zz_seed_demo_test.go")
        shutil.copy(os.path.join(sd, "demo_test.go"), demo)
        pkg = "./" + meta["demo_pkg_dir"].strip("/") + "/"
        code0, out0 = sh("go test -vet=off -count=1 -run 'Seed|Demo|C[0-9][0-9]' %s" % pkg, cwd=wt)
        res["demo_passes_without_patch"] = code0 == 0
        code, out = sh("git apply %s" % os.path.join(sd, "patch.diff"), cwd=wt)
        res["patch_applies"] = code == 0
        codeb, outb = sh("go build ./...", cwd=wt)
        res["builds"] = codeb == 0
        code1, out1 = sh("go test -vet=off -count=1 -run 'Seed|Demo|C[0-9][0-9]' %s" % pkg, cwd=wt)
        res["demo_fails_with_patch"] = code1 != 0
        os.remove(demo)
        touched = sorted({"./" + os.path.dirname(f) + "/" for f in meta.get("files_touched", [])} | {"./compose/"})
        codes, outs = sh("go test -vet=off -count=1 %s" % " ".join(touched), cwd=wt)
        res["touched_pkgs_tests_pass"] = codes == 0
        if codes != 0:
            res["touched_pkgs_tail"] = outs[-600:]
        for prop in props:
            t0 = time.time()
            c, o = sh("%s/bin/check %s --tier %s --repo %s" % (ROOT, prop, tier, wt), cwd=ROOT)
            sigs = sorted({l.split("sig=")[1].split()[0] for l in o.splitlines() if l.strip().startswith("sig=")})
            res["checks"][prop] = {"exit": c, "sigs": sigs[:6], "wall_s": round(time.time() - t0), "tail": "" if c == 1 else o[-400:]}
    finally:
        sh("git -C /repo worktree remove --force %s" % wt)
    print(json.dumps(res, indent=1))
    json.dump(res, open(os.path.join(sd, "result.json"), "w"), indent=1)

main()
