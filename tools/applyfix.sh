#!/bin/sh
# applyfix.sh <diff> "<commit message starting with fix:>" : apply one repair to /repo as its own commit after build + package tests
set -e
cd /repo
export GOFLAGS=-mod=mod GOPROXY=off GOSUMDB=off GOTOOLCHAIN=local
git apply --check "$1"
git apply "$1"
go build ./...
go test -vet=off -count=1 ./compose/ ./schema/ ./internal/... ./callbacks/ ./flow/... 2>&1 | grep -v "no test files" | grep -v "^ok" || true
git add -A
git commit -qm "$2"
git log --oneline | head -1
