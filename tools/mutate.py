#!/usr/bin/env python3
"""Sensitivity runner: apply each catalogue mutation (DESIGN 7.1) in a scratch worktree, make sure it builds and that the package's own
tests still pass, run the property's check against it and report whether the check exits 1.  usage: mutate.py <catalogue.json> [name ...]"""
import json, os, subprocess, sys, time
ROOT = os.path.dirname(os.path.dirname(os.path.abspath(__file__)))
ENV = dict(os.environ, GOFLAGS="-mod=mod", GOPROXY="off", GOSUMDB="off", GOTOOLCHAIN="local")

def sh(cmd, cwd=None, timeout=1800):
    p = subprocess.run(cmd, shell=True, cwd=cwd, env=ENV, stdout=subprocess.PIPE, stderr=subprocess.STDOUT, timeout=timeout)
    return p.returncode, p.stdout.decode("utf-8", "replace")

def main():
    cat = json.load(open(sys.argv[1]))
    only = set(sys.argv[2:])
    wt = "/tmp/wt-mut-%d" % os.getpid()
    sh("git -C /repo worktree add --detach %s HEAD" % wt)
    results = []
    try:
        for m in cat:
            if only and m["name"] not in only:
                continue
            sh("git checkout -- .", cwd=wt)
            path = os.path.join(wt, m["file"])
            src = open(path).read()
            if m["old"] not in src:
                results.append((m["name"], "PATTERN-NOT-FOUND")); print(results[-1], flush=True); continue
            open(path, "w").write(src.replace(m["old"], m["new"], 1))
            code, out = sh("go build ./... && go test -vet=off -count=1 %s" % m.get("tests", "./compose/"), cwd=wt)
            if code != 0:
                results.append((m["name"], "BREAKS-BUILD-OR-TESTS: " + out[-300:].replace("\n", " | "))); print(results[-1], flush=True); continue
            t0 = time.time()
            verdicts = []
            for prop in m["props"]:
                code, out = sh("%s/bin/check %s --tier %s --repo %s" % (ROOT, prop, m.get("tier", "quick"), wt), cwd=ROOT, timeout=3600)
                sigs = sorted({l.split("sig=")[1].split()[0] for l in out.splitlines() if l.strip().startswith("sig=")})
                verdicts.append("%s:exit%d%s" % (prop, code, (" " + ",".join(sigs[:4])) if sigs else ""))
            results.append((m["name"], " ".join(verdicts), "%.0fs" % (time.time() - t0))); print(results[-1], flush=True)
    finally:
        sh("git -C /repo worktree remove --force %s" % wt)
    json.dump(results, open(sys.argv[1] + ".results.json", "w"), indent=1)

main()
