#!/usr/bin/env python3
"""Copy evaluated seeded changes (/tmp/seedout-<P>/<k>/ with result.json) into /verif/seeded/<P>-<k>/ (patch.diff, demo_test.go, meta.json)."""
import glob, json, os, shutil
for rj in sorted(glob.glob("/tmp/seedout-*/*/result.json")):
    d = os.path.dirname(rj)
    prop = os.path.basename(os.path.dirname(d)).replace("seedout-", "")
    k = os.path.basename(d)
    res = json.load(open(rj))
    if not (res.get("patch_applies") and res.get("builds") and res.get("demo_fails_with_patch") and res.get("demo_passes_without_patch")):
        print("skip (not confirmed)", d, {x: res.get(x) for x in ("patch_applies", "builds", "demo_fails_with_patch", "demo_passes_without_patch")})
        continue
    dst = "/verif/seeded/%s-%s" % (prop, k)
    os.makedirs(dst, exist_ok=True)
    for f in ("patch.diff", "demo_test.go"):
        shutil.copy(os.path.join(d, f), os.path.join(dst, f))
    meta = json.load(open(os.path.join(d, "meta.json")))
    meta["breaks_property"] = meta.get("property", prop)
    meta["origin"] = "independent sub-agent given only the property text and a scratch worktree"
    meta["confirmed_by_coordinator"] = {"patch_applies_to_HEAD": True, "go_build": True, "demo_passes_without_patch": True, "demo_fails_with_patch": True,
                                         "existing_tests_of_touched_packages_pass": res.get("touched_pkgs_tests_pass")}
    meta["what_was_run"] = "tools/seedtest.py: scratch worktree of /repo HEAD; demo before and after `git apply patch.diff`; go build ./...; go test of the touched packages; bin/check <id> --repo <worktree>"
    prev = {}
    if os.path.exists(os.path.join(dst, "meta.json")):
        prev = json.load(open(os.path.join(dst, "meta.json"))).get("check_results", {})
    cr = dict(prev)
    for p, c in res.get("checks", {}).items():
        cr[p] = {"exit": c["exit"], "detected": c["exit"] == 1, "signatures": c["sigs"], "wall_s": c["wall_s"]}
    meta["check_results"] = cr
    json.dump(meta, open(os.path.join(dst, "meta.json"), "w"), indent=1)
    print(dst, {p: ("CAUGHT " + ",".join(c["signatures"][:2])) if c["detected"] else "missed(exit %d)" % c["exit"] for p, c in cr.items()})
