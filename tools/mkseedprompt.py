#!/usr/bin/env python3
"""Prepare a fresh seeding round for properties: scratch worktree + OUT dir + PROMPT.txt (property text only, plus the titles of earlier
seeds so the agent looks elsewhere).  usage: mkseedprompt.py <round letter> <P> [<P> ...]"""
import json, os, glob, subprocess, sys
ROOT = os.path.dirname(os.path.dirname(os.path.abspath(__file__)))
TEMPLATE = open(os.path.join(ROOT, "tools", "seedprompt.txt")).read()
props = {json.loads(l)["id"]: json.loads(l) for l in open(os.path.join(ROOT, "properties.jsonl"))}
rnd = sys.argv[1]
for pid in sys.argv[2:]:
    p = props[pid]
    tag = pid + rnd
    wt, out = "/tmp/seedwt-" + tag, "/tmp/seedout-" + tag
    subprocess.run("git -C /repo worktree add -q --detach %s HEAD" % wt, shell=True, check=True)
    os.makedirs(out, exist_ok=True)
    prev = []
    for m in sorted(glob.glob(os.path.join(ROOT, "seeded", pid + "*", "meta.json"))):
        prev.append("- " + json.load(open(m)).get("title", "?"))
    text = "%s: %s\n\nStatement: %s\n\nQuantified over: %s\n\nAnchored in: %s" % (
        pid, p["title"], p["statement"], p["quantifier"]["text"], ", ".join(p["anchors"]["files"]))
    open(os.path.join(out, "PROPERTY.txt"), "w").write(text)
    open(os.path.join(out, "PROMPT.txt"), "w").write(
        TEMPLATE.replace("@PROPERTY@", text).replace("@PREVIOUS@", "\n".join(prev) or "- (none)").replace("@WT@", wt).replace("@OUT@", out))
    print(tag, wt, out, len(prev), "earlier")
