#!/usr/bin/env python3
"""Regenerate DESIGN.md section 0.6 (seeded changes and which check catches them) from seeded/*/meta.json."""
import glob, json, os, re
ROOT = os.path.dirname(os.path.dirname(os.path.abspath(__file__)))
rows = []
for mj in sorted(glob.glob(os.path.join(ROOT, "seeded", "*", "meta.json"))):
    m = json.load(open(mj))
    sid = os.path.basename(os.path.dirname(mj))
    res = []
    for p, c in sorted(m.get("check_results", {}).items()):
        res.append("%s: %s" % (p, ("**caught** (`%s`)" % ", ".join(c["signatures"][:2])) if c["detected"] else "missed (exit %d)" % c["exit"]))
    title = (m.get("title") or "")[:110].replace("|", "/")
    needs = re.sub(r"\s+", " ", m.get("needs_to_manifest", ""))[:170].replace("|", "/")
    files = ", ".join(os.path.basename(f) for f in m.get("files_touched", [])[:2])
    rows.append("| %s | %s | %s | %s | %s |" % (sid, files, title, needs, "; ".join(res)))
caught = sum(1 for r in rows if "**caught**" in r)
text = ["### 0.6 Independently seeded breaking changes and which check catches them", "",
        "Produced by fresh sub-agents that saw only the property text and a scratch worktree (never /verif); every one compiles, passes the",
        "repository's own test-suite and comes with a demonstration test that fails with the change and passes without it (all confirmed",
        "by `tools/seedtest.py` in a scratch worktree; patch, demonstration and meta.json are in `seeded/<id>/`). A change first missed was",
        "used to strengthen the check (what was added is in notes/*.md and in 0.7); the table shows the state at the last evaluation.",
        "%d of %d seeded changes are detected by the check of the property they were aimed at (or, where noted, by a sibling check)." % (caught, len(rows)), "",
        "| id | touches | change | needs to manifest | result |", "|---|---|---|---|---|"] + rows + [""]
d = open(os.path.join(ROOT, "DESIGN.md")).read()
start = d.find("### 0.6 Independently seeded")
block = "\n".join(text) + "\n"
if start >= 0:
    end = d.find("\n### 0.7", start)
    if end < 0:
        end = d.find("\nContents\n", start)
    d = d[:start] + block + d[end + 1:]
else:
    d = d.replace("\nContents\n", "\n" + block + "\nContents\n", 1)
open(os.path.join(ROOT, "DESIGN.md"), "w").write(d)
print("%d/%d caught" % (caught, len(rows)))
