#!/bin/sh
# test every seed directory given that has no result.json yet, one at a time, after any running seedtest has finished
cd /verif
for d in "$@"; do
  while pgrep -f "tools/seedtest.py" > /dev/null; do sleep 15; done
  [ -f $d/result.json ] && continue
  python3 tools/seedtest.py $d > $d/result.log 2>&1
done
