#!/bin/sh
# test every seed directory given that has no result.json yet, one at a time across all queues (flock)
cd /verif
for d in "$@"; do
  [ -f $d/result.json ] && continue
  flock /tmp/.verif-seedqueue.lock python3 tools/seedtest.py $d $SEED_CHECKS > $d/result.log 2>&1
  # every patched worktree leaves its own test binaries in the Go build cache: drop entries not used for two hours
  find /root/.cache/go-build -type f -mmin +120 -delete 2>/dev/null
done
