package compose

// Conformance harness for the run engine (C01, C02, C03(engine level), C05, C06, C11, C13).
// Reads scenarios (ndjson, produced by TLC from spec/EinoGen*.tla or by the thorough-tier sampler), builds each one through the
// public API with self-describing term nodes, runs it (interrupt/resume through a byte-only store) and writes
// one observation trace (ndjson) that TLC validates against spec/RunObs.tla.  No expectation is computed here.

import (
	"bufio"
	"context"
	"encoding/json"
	"errors"
	"fmt"
	"os"
	"regexp"
	"runtime"
	"sort"
	"strings"
	"sync"
	"testing"
	"time"

	"github.com/cloudwego/eino/callbacks"
	"github.com/cloudwego/eino/schema"
)

type vfBranch struct {
	From  string     `json:"from"`
	Ends  []string   `json:"ends"`
	Multi bool       `json:"multi"`
	Pol   [][]string `json:"pol"`
	Strm  bool       `json:"strm"` // condition implemented on the stream form
}

type vfStage struct {
	K  string   `json:"k"` // l (single node) | p (parallel, merged by output key) | b (branch stage)
	Ns []string `json:"ns"`
}

type vfFail struct {
	N    string `json:"n"`
	Kind string `json:"kind"` // err | panic | cancel
}

type vfScenario struct {
	ID       string                 `json:"id"`
	Mode     string                 `json:"mode"` // pregel | dag | wf
	Nodes    []string               `json:"nodes"`
	Edges    [][]string             `json:"edges"` // [from, to, kind]  kind: cd (default) | c | d
	Branches []vfBranch             `json:"branches"`
	Max      int                    `json:"max"`
	NilOut   []string               `json:"nilout"` // nodes whose output type is `any` and whose body returns nil: their state post-handler supplies the value
	CCB      bool                   `json:"ccb"`    // the top-level graph is compiled with a (no-op) graph compile callback
	StoreFail bool                  `json:"storefail"` // the checkpoint store refuses every write
	Pipe     bool                   `json:"pipe"`   // streaming nodes (snodes) hand out pipe-backed streams of two chunks instead of one array-backed chunk
	DOpt     bool                   `json:"dopt"`   // every call carries a node-designated callbacks option in front of the other options
	AnyOut   bool                   `json:"anyout"` // the top-level graph is a Graph[map[string]any, any]: input and output type differ (checkpoint stream converters)
	Chunks   int                    `json:"chunks"` // Collect/Transform calls hand the input over in this many chunks (0/1: one)
	RMax     int                    `json:"rmax"` // per-call step limit (WithRuntimeMaxSteps) given at every call of the top-level graph; 0: none
	Before   []string               `json:"before"`
	After    []string               `json:"after"`
	Rerun    []string               `json:"rerun"`
	State    bool                   `json:"state"`
	Fail     []vfFail               `json:"fail"`
	Calls    []string               `json:"calls"`
	NoID     bool                   `json:"noid"`
	Sub      map[string]*vfScenario `json:"sub"`
	SNodes   []string               `json:"snodes"` // nodes implemented as streamable lambdas
	Delay    map[string]int         `json:"delay"`  // node -> completion rank (engine-level C03): larger finishes later
	MaxCalls int                    `json:"maxcalls"`
	Post     bool                   `json:"post"` // stateful graphs: also install state post-handlers
	HMod     bool                   `json:"hmod"` // state handlers modify the value they pass on (pre adds key "pre", post adds key "q<node>")
	SMod     int                    `json:"smod"` // k > 0: the k-th resume call passes a state modifier that adds 100 to the counter
	PState   bool                   `json:"pstate"` // (nested scenario without state of its own) its node bodies use the state inherited from the parent graph
	SHand    bool                   `json:"shand"`  // state handlers installed in their stream form (WithStreamStatePre/PostHandler)
	Lower    string                 `json:"lower"`  // "chain": build with compose.Chain from Stages; Edges/Branches hold the lowered graph the rule judges by
	Stages   []vfStage              `json:"stages"`
	Echo     []string               `json:"echo"` // nodes that return their input unchanged (so equal keys can meet at a fan-in)
	Wrap     bool                   `json:"wrap"` // (nested scenario) the inner graph is compiled alone and called from a lambda that wraps its errors
}

type vfSub struct{ X int }

type vfKey string

// an exported struct type embedded in the state (an anonymous field is carried like any other exported field)
type VfAudit struct{ Visits int }

type vfState struct {
	// fields that only have to survive the checkpoint round trip unchanged (pointers nil and non-nil, containers)
	NilP   *int
	P      *int
	M      map[string]int
	L      []string
	Sub    *vfSub
	NilSub *vfSub
	RK     map[vfKey]int // a map keyed by a named string type
	Owner  string        // id of the run whose context the state generator was called with
	VfAudit

	Trail   []string
	Count   int // number of critical sections performed on this state (read, yield, write back: lost updates show)
	Saved   map[string]any
	Pending map[string]bool
}

func init() {
	_ = RegisterSerializableType[vfState]("_verif_engine_state")
	_ = RegisterSerializableType[vfSub]("_verif_engine_substate")
	_ = RegisterSerializableType[vfKey]("_verif_engine_key")
	_ = RegisterSerializableType[VfAudit]("_verif_engine_audit")
}

func vfNewState() *vfState {
	seven := 7
	return &vfState{P: &seven, M: map[string]int{"k": 1}, L: []string{"u", "v"}, Sub: &vfSub{X: 5}, RK: map[vfKey]int{"role": 3}, VfAudit: VfAudit{Visits: 9}}
}

// digest of the carried fields; the fresh value is "true|7|1|u,v|5|true|3|9|own"
func (s *vfState) digest(cur string) string {
	p, sub := "nil", "nil"
	if s.P != nil {
		p = fmt.Sprint(*s.P)
	}
	if s.Sub != nil {
		sub = fmt.Sprint(s.Sub.X)
	}
	own := "own"
	if s.Owner != cur {
		own = "foreign" // generated with another context than the run's own (e.g. the one Compile was called with, or another run's)
	}
	return fmt.Sprintf("%v|%s|%d|%s|%s|%v|%d|%d|%s", s.NilP == nil, p, s.M["k"], strings.Join(s.L, ","), sub, s.NilSub == nil, s.RK["role"], s.Visits, own)
}

type vfErr struct{ Node string }

func (e *vfErr) Error() string { return "verif injected failure at " + e.Node }

var vfSentinel = errors.New("verif sentinel cause")

// ---------------------------------------------------------------------------------------------- logging

type vfRec struct {
	mu     sync.Mutex
	lines  []string
	closed bool // set when the scenario is over: late observations of still-running bodies are dropped
}

func vfNorm(v any) any {
	switch x := v.(type) {
	case nil:
		return map[string]any{}
	case map[string]any:
		out := make(map[string]any, len(x))
		for k, e := range x {
			out[k] = vfNorm(e)
		}
		return out
	case []string:
		if x == nil {
			return []string{}
		}
		return x
	case []any:
		out := make([]any, 0, len(x))
		for _, e := range x {
			out = append(out, vfNorm(e))
		}
		return out
	}
	return v
}

func (r *vfRec) emit(kv map[string]any) {
	if r.closed {
		return
	}
	for k, v := range kv {
		kv[k] = vfNorm(v)
	}
	// "ev" first so that the trace splitter can recognise case lines cheaply
	ev := kv["ev"]
	delete(kv, "ev")
	b, err := json.Marshal(kv)
	if err != nil {
		panic(err)
	}
	evb, _ := json.Marshal(ev)
	line := `{"ev":` + string(evb)
	if len(b) > 2 {
		line += "," + string(b[1:])
	} else {
		line += "}"
	}
	r.lines = append(r.lines, line)
}

func (r *vfRec) finish() []string {
	r.mu.Lock()
	defer r.mu.Unlock()
	r.closed = true
	return r.lines
}

func (r *vfRec) log(kv map[string]any) {
	r.mu.Lock()
	defer r.mu.Unlock()
	r.emit(kv)
}

func vfSorted(xs []string) []string {
	out := append([]string{}, xs...)
	sort.Strings(out)
	return out
}

func vfIn(xs []string, x string) bool {
	for _, e := range xs {
		if e == x {
			return true
		}
	}
	return false
}

// depth of a value: number of node hops it went through (terms are {"n":name,"i":input}; the initial term is {"n":"x","i":{}})
func vfDepth(v any) int {
	m, ok := v.(map[string]any)
	if !ok {
		return 0
	}
	if n, isTerm := m["n"]; isTerm && len(m) == 2 {
		if ns, _ := n.(string); strings.HasPrefix(ns, "x") { // the initial term ("x", or "x<k>" for the k-th concurrent run)
			return 0
		}
		return 1 + vfDepth(m["i"])
	}
	d := 0
	for _, e := range m {
		if x := vfDepth(e); x > d {
			d = x
		}
	}
	return d
}

// ---------------------------------------------------------------------------------------------- byte-only store

type vfStore struct {
	mu    sync.Mutex
	m     map[string][]byte
	sets  []string
	known map[string]bool // checkpoint ids of the logical runs sharing this store
	fail  bool            // every write is refused (the run must then fail instead of reporting an interrupt nobody can resume)
}

func (s *vfStore) Get(_ context.Context, id string) ([]byte, bool, error) {
	s.mu.Lock()
	defer s.mu.Unlock()
	b, ok := s.m[id]
	if !ok {
		return nil, false, nil
	}
	return append([]byte{}, b...), true, nil
}

func (s *vfStore) Set(_ context.Context, id string, cp []byte) error {
	s.mu.Lock()
	defer s.mu.Unlock()
	if s.fail {
		return errors.New("verif store: write refused")
	}
	s.m[id] = append([]byte{}, cp...)
	s.sets = append(s.sets, id)
	return nil
}

// takeSets returns (and forgets) the ids written since the last call that belong to run `id` (checkpoint id "cp-<id>"), plus any
// write under an id that belongs to no run of this store's scenario (so a stray write is still seen by exactly one run)
func (s *vfStore) takeSets(id string) []string {
	s.mu.Lock()
	defer s.mu.Unlock()
	out, rest := []string{}, []string{}
	for _, k := range s.sets {
		if k == "cp-"+id || !s.known[k] {
			out = append(out, k)
		} else {
			rest = append(rest, k)
		}
	}
	s.sets = rest
	return out
}

// ---------------------------------------------------------------------------------------------- building

// vfRun is one built scenario (closures of node bodies, handlers, branch conditions); vfCall is one logical run of it (a first
// call plus its resume calls): the recorder, the rerun bookkeeping and the identity of the run travel in the context, so that several
// runs of the SAME compiled runnable can be observed separately (C09).
type vfRun struct {
	sc    *vfScenario
	def   *vfCall
	gates *vfGates
}

type vfCall struct {
	rec      *vfRec
	attempts sync.Map // path -> *int (rerun bookkeeping)
	cancel   context.CancelFunc
	k        int    // index of this logical run among the concurrent runs of one compiled runnable (0 when alone)
	id       string // run id (case id)
	x0       string // name of the initial term: distinct per concurrent run, so cross-talk changes a value
	stash    sync.Map // path -> output kept back by a nilout node for its post-handler
}

type vfCallKey struct{}

func (r *vfRun) cur(ctx context.Context) *vfCall {
	if c, ok := ctx.Value(vfCallKey{}).(*vfCall); ok && c != nil {
		return c
	}
	return r.def
}

// completion-order gates: node bodies finish in the order given by Delay ranks (per superstep batch, best effort)
type vfGates struct {
	mu      sync.Mutex
	cond    *sync.Cond
	running map[string]int // path -> rank of bodies currently inside
}

func newVfGates() *vfGates {
	g := &vfGates{running: map[string]int{}}
	g.cond = sync.NewCond(&g.mu)
	return g
}

func (r *vfRun) nodeLambda(prefix string, sc *vfScenario, name string) *Lambda {
	path := prefix + name
	isRerun := vfIn(sc.Rerun, name)
	var fail *vfFail
	for i := range sc.Fail {
		if sc.Fail[i].N == name {
			fail = &sc.Fail[i]
		}
	}
	body := func(ctx context.Context, in map[string]any) (map[string]any, error) {
		rc := r.cur(ctx)
		abort := false
		if isRerun {
			p, _ := rc.attempts.LoadOrStore(path, new(int))
			cnt := p.(*int)
			rc.rec.mu.Lock()
			*cnt++
			abort = *cnt == 1
			rc.rec.mu.Unlock()
		}
		ev := "exec"
		if abort {
			ev = "abort"
		}
		if sc.State {
			// read the state and write the exec line inside the state lock: log order = lock order
			err := ProcessState[*vfState](ctx, func(_ context.Context, st *vfState) error {
				r.cs(rc.rec, st, prefix, "body", name)
				rc.rec.log(map[string]any{"ev": ev, "p": prefix, "n": name, "i": in, "st": append([]string{}, st.Trail...), "sx": st.digest(rc.id)})
				if isRerun && !abort {
					delete(st.Pending, name)
				}
				return nil
			})
			if err != nil {
				return nil, fmt.Errorf("verif harness: state unavailable in node %s: %w", path, err)
			}
		} else {
			if sc.PState && prefix != "" {
				// the nested graph declares no state: ProcessState reaches the parent's state object (one more critical section on it)
				_ = ProcessState[*vfState](ctx, func(_ context.Context, st *vfState) error {
					r.cs(rc.rec, st, "", "body", name)
					if isRerun {
						// no state of its own, so no pre-handler: the node keeps the input of its aborted attempt in the parent's
						// state and takes it back when it is run again (the re-run itself gets the zero value)
						if abort {
							if st.Saved == nil {
								st.Saved = map[string]any{}
							}
							if in == nil {
								in = map[string]any{}
							}
							st.Saved[path] = in
						} else if saved, ok := st.Saved[path].(map[string]any); ok {
							in = saved
							delete(st.Saved, path)
						}
					}
					return nil
				})
			}
			rc.rec.log(map[string]any{"ev": ev, "p": prefix, "n": name, "i": in})
		}
		if abort {
			return nil, InterruptAndRerun
		}
		if fail != nil && fail.Kind == "cspanic" && sc.State {
			// a state callback that panics (recovered by the node itself): the state lock must have been released
			func() {
				defer func() { _ = recover() }()
				_ = ProcessState[*vfState](ctx, func(_ context.Context, st *vfState) error { panic("verif: panic inside a ProcessState callback") })
			}()
			_ = ProcessState[*vfState](ctx, func(_ context.Context, st *vfState) error {
				r.cs(rc.rec, st, prefix, "body", name)
				return nil
			})
		}
		if rank, ok := sc.Delay[name]; ok && rank > 0 && sc.State && !abort {
			// a slow node sits inside ProcessState for a while: handlers of faster siblings must wait for it
			_ = ProcessState[*vfState](ctx, func(_ context.Context, st *vfState) error {
				r.csHold(rc.rec, st, prefix, "body", name, time.Duration(rank)*120*time.Microsecond)
				return nil
			})
		}
		if rank, ok := sc.Delay[name]; ok && r.gates != nil {
			// wait until no body with a smaller rank is still running (bounded: never block forever)
			g := r.gates
			g.mu.Lock()
			g.running[path] = rank
			g.cond.Broadcast()
			g.mu.Unlock()
			time.Sleep(time.Duration(rank) * 300 * time.Microsecond)
			g.mu.Lock()
			delete(g.running, path)
			g.cond.Broadcast()
			g.mu.Unlock()
		}
		if fail != nil {
			switch fail.Kind {
			case "err":
				return nil, fmt.Errorf("wrapped: %w", &vfErrWrap{Node: path, cause: vfSentinel})
			case "panic":
				panic("verif injected panic at " + rc.id + "::" + path)
			case "cancel":
				if rc.cancel != nil {
					rc.cancel()
				}
			case "cspanic", "prerr", "posterr", "empty":
				// handled elsewhere: a state callback of the node panics / its state pre- or post-handler fails (the body itself is fine)
			case "serr", "spanic":
				// the body succeeds; its output stream carries an error item / a panicking convert (see below)
			}
		}
		rc.rec.log(map[string]any{"ev": "done", "p": prefix, "n": name})
		if vfIn(sc.Echo, name) {
			if in == nil {
				in = map[string]any{}
			}
			return in, nil
		}
		if vfBare(sc, name) {
			// member of a chain's parallel stage: the stage stores this value under the output key <name>
			return map[string]any{"n": name, "i": vfNorm(in)}, nil
		}
		return map[string]any{name: map[string]any{"n": name, "i": vfNorm(in)}}, nil
	}
	if fail != nil && fail.Kind == "spanic" {
		// the node's output stream is a lazily converted stream of 8 chunks whose convert function panics at the 7th:
		// the forwarder goroutine must turn the panic into an error item even when its buffer is full
		return StreamableLambda(func(ctx context.Context, in map[string]any) (*schema.StreamReader[map[string]any], error) {
			rc := r.cur(ctx)
			out, err := body(ctx, in)
			if err != nil {
				return nil, err
			}
			chunks := []map[string]any{out}
			for j := 0; j < 7; j++ {
				chunks = append(chunks, map[string]any{})
			}
			n := 0
			return schema.StreamReaderWithConvert(schema.StreamReaderFromArray(chunks), func(m map[string]any) (map[string]any, error) {
				n++
				if n == 7 {
					panic("verif injected panic at " + rc.id + "::" + path + " (stream convert)")
				}
				return m, nil
			}), nil
		})
	}
	if fail != nil && fail.Kind == "empty" {
		// the node works normally but its output stream ends without a single chunk (only meaningful when the graph runs in stream mode)
		return StreamableLambda(func(ctx context.Context, in map[string]any) (*schema.StreamReader[map[string]any], error) {
			if _, err := body(ctx, in); err != nil {
				return nil, err
			}
			return schema.StreamReaderFromArray([]map[string]any{}), nil
		})
	}
	if fail != nil && fail.Kind == "serr" {
		return StreamableLambda(func(ctx context.Context, in map[string]any) (*schema.StreamReader[map[string]any], error) {
			out, err := body(ctx, in)
			if err != nil {
				return nil, err
			}
			sr, sw := schema.Pipe[map[string]any](2)
			sw.Send(out, nil)
			sw.Send(nil, &vfErrWrap{Node: path, cause: vfEOFish{}})
			sw.Close()
			return sr, nil
		})
	}
	if vfIn(sc.SNodes, name) {
		return StreamableLambda(func(ctx context.Context, in map[string]any) (*schema.StreamReader[map[string]any], error) {
			out, err := body(ctx, in)
			if err != nil {
				return nil, err
			}
			if sc.Pipe {
				// a real (pipe-backed) stream of two chunks written by a goroutine: closing a copy of it matters, unlike an array-backed one
				sr, sw := schema.Pipe[map[string]any](0)
				go func() {
					defer sw.Close()
					if sw.Send(out, nil) {
						return
					}
					sw.Send(map[string]any{}, nil)
				}()
				return sr, nil
			}
			return schema.StreamReaderFromArray([]map[string]any{out}), nil
		})
	}
	if vfIn(sc.NilOut, name) && sc.State && sc.Post {
		// declared output type any, the body hands nil on: the node's state post-handler must run all the same and supplies the value
		return InvokableLambda(func(ctx context.Context, in map[string]any) (any, error) {
			out, err := body(ctx, in)
			if err != nil {
				return nil, err
			}
			r.cur(ctx).stash.Store(path, out)
			return nil, nil
		})
	}
	return InvokableLambda(body)
}

// cause of a mid-stream failure: matches both the harness sentinel and io.EOF (an error that merely WRAPS io.EOF is not end of stream)
type vfEOFish struct{}

func (vfEOFish) Error() string        { return "verif sentinel cause wrapping EOF" }
func (vfEOFish) Is(target error) bool { return target == vfSentinel || target == ioEOF }

type vfErrWrap struct {
	Node  string
	cause error
}

func (e *vfErrWrap) Error() string { return "verif injected failure at " + e.Node }
func (e *vfErrWrap) Unwrap() error { return e.cause }

// one critical section on the state: read-modify-write of the counter with a yield in between, logged inside the lock
func (r *vfRun) cs(rec *vfRec, st *vfState, prefix, kind, name string) {
	r.csHold(rec, st, prefix, kind, name, 15*time.Microsecond)
}

// csHold: the section keeps the state (and, if the framework does its job, the lock) for `hold` between reading and writing the counter
func (r *vfRun) csHold(rec *vfRec, st *vfState, prefix, kind, name string, hold time.Duration) {
	seq := st.Count
	runtime.Gosched()
	time.Sleep(hold)
	st.Count = seq + 1
	rec.log(map[string]any{"ev": "cs", "p": prefix, "k": kind, "n": name, "seq": seq})
}

func vfFailKind(sc *vfScenario, name string) string {
	for _, f := range sc.Fail {
		if f.N == name {
			return f.Kind
		}
	}
	return ""
}

func (r *vfRun) postHandler(prefix string, sc *vfScenario, name string) StatePostHandler[map[string]any, *vfState] {
	failing := vfFailKind(sc, name) == "posterr"
	return func(ctx context.Context, out map[string]any, st *vfState) (map[string]any, error) {
		r.cs(r.cur(ctx).rec, st, prefix, "post", name)
		if failing {
			// the node's state post-handler fails: the run must fail naming this node, with the cause recoverable
			return nil, fmt.Errorf("wrapped: %w", &vfErrWrap{Node: prefix + name, cause: vfSentinel})
		}
		if sc.HMod {
			o2 := map[string]any{}
			for k, v := range out {
				o2[k] = v
			}
			o2["q"+name] = map[string]any{"n": "post", "i": map[string]any{}}
			return o2, nil
		}
		return out, nil
	}
}

func (r *vfRun) preHandler(prefix string, sc *vfScenario, name string) StatePreHandler[map[string]any, *vfState] {
	isRerun := vfIn(sc.Rerun, name)
	failing := vfFailKind(sc, name) == "prerr"
	return func(ctx context.Context, in map[string]any, st *vfState) (map[string]any, error) {
		if isRerun && st.Pending[name] && len(in) == 0 {
			in, _ = st.Saved[name].(map[string]any) // rebuild the input of the aborted attempt from state
			r.cs(r.cur(ctx).rec, st, prefix, "pre", name)
			r.cur(ctx).rec.log(map[string]any{"ev": "pre", "p": prefix, "n": name, "rebuilt": true})
			return in, nil
		}
		if sc.HMod {
			i2 := map[string]any{}
			for k, v := range in {
				i2[k] = v
			}
			i2["pre"] = map[string]any{"n": "pre", "i": map[string]any{}}
			in = i2
		}
		r.cs(r.cur(ctx).rec, st, prefix, "pre", name)
		st.Trail = append(st.Trail, name)
		if isRerun {
			if st.Saved == nil {
				st.Saved = map[string]any{}
			}
			if st.Pending == nil {
				st.Pending = map[string]bool{}
			}
			if in == nil {
				in = map[string]any{}
			}
			st.Saved[name] = in
			st.Pending[name] = true
		}
		r.cur(ctx).rec.log(map[string]any{"ev": "pre", "p": prefix, "n": name, "rebuilt": false})
		if failing {
			return nil, fmt.Errorf("wrapped: %w", &vfErrWrap{Node: prefix + name, cause: vfSentinel})
		}
		return in, nil
	}
}

func (r *vfRun) branch(prefix string, idx int, b vfBranch) *GraphBranch {
	ends := map[string]bool{}
	for _, e := range b.Ends {
		ends[e] = true
	}
	decide := func(ctx context.Context, in map[string]any) []string {
		d := vfDepth(in)
		if d >= len(b.Pol) {
			d = len(b.Pol) - 1
		}
		// concurrent runs of one runnable take different branch outcomes (the rule judges by the observed decision)
		d = (d + r.cur(ctx).k) % len(b.Pol)
		chosen := b.Pol[d]
		r.cur(ctx).rec.log(map[string]any{"ev": "branch", "p": prefix, "b": idx + 1, "i": in, "to": vfSorted(chosen)})
		return chosen
	}
	concat := func(sr *schema.StreamReader[map[string]any]) (map[string]any, error) {
		defer sr.Close()
		out := map[string]any{}
		for {
			c, err := sr.Recv()
			if err != nil {
				if err == ioEOF { // identity: an error that merely wraps io.EOF is a failure, not end of stream
					return out, nil
				}
				return nil, err
			}
			vfMergeInto(out, c)
		}
	}
	if b.Multi {
		if b.Strm {
			return NewStreamGraphMultiBranch(func(ctx context.Context, sr *schema.StreamReader[map[string]any]) (map[string]bool, error) {
				in, err := concat(sr)
				if err != nil {
					return nil, err
				}
				out := map[string]bool{}
				for _, c := range decide(ctx, in) {
					out[c] = true
				}
				return out, nil
			}, ends)
		}
		return NewGraphMultiBranch(func(ctx context.Context, in map[string]any) (map[string]bool, error) {
			out := map[string]bool{}
			for _, c := range decide(ctx, in) {
				out[c] = true
			}
			return out, nil
		}, ends)
	}
	if b.Strm {
		return NewStreamGraphBranch(func(ctx context.Context, sr *schema.StreamReader[map[string]any]) (string, error) {
			in, err := concat(sr)
			if err != nil {
				return "", err
			}
			return decide(ctx, in)[0], nil
		}, ends)
	}
	return NewGraphBranch(func(ctx context.Context, in map[string]any) (string, error) {
		return decide(ctx, in)[0], nil
	}, ends)
}

// chunk concatenation as the library does it for maps: values under the same key are concatenated too (maps key by key)
func vfMergeInto(dst, src map[string]any) {
	for k, v := range src {
		if dm, ok := dst[k].(map[string]any); ok {
			if sm, ok2 := v.(map[string]any); ok2 {
				nm := make(map[string]any, len(dm)+len(sm))
				vfMergeInto(nm, dm)
				vfMergeInto(nm, sm)
				dst[k] = nm
				continue
			}
		}
		dst[k] = v
	}
}

func vfConcatMaps(sr *schema.StreamReader[map[string]any]) (map[string]any, error) {
	defer sr.Close()
	var out map[string]any
	for {
		c, err := sr.Recv()
		if err != nil {
			if err == ioEOF {
				return out, nil
			}
			return nil, err
		}
		if out == nil {
			out = map[string]any{}
		}
		vfMergeInto(out, c)
	}
}

func vfHasFail(sc *vfScenario, kind string) bool {
	for _, f := range sc.Fail {
		if f.Kind == kind {
			return true
		}
	}
	for _, sub := range sc.Sub {
		if vfHasFail(sub, kind) {
			return true
		}
	}
	return false
}

// members of a chain's parallel stages: their output is stored under the output key <name>
func vfBareList(sc *vfScenario) []string {
	var out []string
	for _, st := range sc.Stages {
		if st.K == "p" {
			out = append(out, st.Ns...)
		}
	}
	return out
}

func vfBare(sc *vfScenario, name string) bool {
	for _, st := range sc.Stages {
		if st.K == "p" && vfIn(st.Ns, name) {
			return true
		}
	}
	return false
}

// buildChain builds the scenario with the Chain front-end (stages: node, parallel, branch)
func (r *vfRun) buildChain(sc *vfScenario) (*Chain[map[string]any, map[string]any], error) {
	ch := NewChain[map[string]any, map[string]any]()
	bi := 0
	for _, st := range sc.Stages {
		subGraph := func(n string) (AnyGraph, []GraphAddNodeOpt, error) {
			sub := sc.Sub[n]
			g, err := r.build(n+"/", sub)
			return g, []GraphAddNodeOpt{WithGraphCompileOptions(r.compileOpts(sub, nil)...)}, err
		}
		switch st.K {
		case "l":
			if _, ok := sc.Sub[st.Ns[0]]; ok {
				g, opts, err := subGraph(st.Ns[0])
				if err != nil {
					return nil, err
				}
				ch.AppendGraph(g, opts...)
			} else {
				ch.AppendLambda(r.nodeLambda("", sc, st.Ns[0]))
			}
		case "p":
			par := NewParallel()
			for _, n := range st.Ns {
				if _, ok := sc.Sub[n]; ok {
					g, opts, err := subGraph(n)
					if err != nil {
						return nil, err
					}
					par.AddGraph(n, g, opts...)
				} else {
					par.AddLambda(n, r.nodeLambda("", sc, n))
				}
			}
			ch.AppendParallel(par)
		case "b":
			b := sc.Branches[bi]
			idx := bi
			bi++
			cb := NewChainBranch(func(ctx context.Context, in map[string]any) (string, error) {
				d := vfDepth(in)
				if d >= len(b.Pol) {
					d = len(b.Pol) - 1
				}
				chosen := b.Pol[d]
				r.cur(ctx).rec.log(map[string]any{"ev": "branch", "p": "", "b": idx + 1, "i": in, "to": vfSorted(chosen)})
				return chosen[0], nil
			})
			for _, n := range st.Ns {
				if _, ok := sc.Sub[n]; ok {
					g, opts, err := subGraph(n)
					if err != nil {
						return nil, err
					}
					cb.AddGraph(n, g, opts...)
				} else {
					cb.AddLambda(n, r.nodeLambda("", sc, n))
				}
			}
			ch.AppendBranch(cb)
		}
	}
	return ch, nil
}

func (r *vfRun) nodeOpts(prefix string, sc *vfScenario, name string) []GraphAddNodeOpt {
	var opts []GraphAddNodeOpt
	if sc.State {
		if sc.SHand {
			pre, post := r.preHandler(prefix, sc, name), r.postHandler(prefix, sc, name)
			opts = append(opts, WithStreamStatePreHandler(func(ctx context.Context, in *schema.StreamReader[map[string]any], st *vfState) (*schema.StreamReader[map[string]any], error) {
				v, err := vfConcatMaps(in)
				if err != nil {
					return nil, err
				}
				v, err = pre(ctx, v, st)
				if err != nil {
					return nil, err
				}
				return schema.StreamReaderFromArray([]map[string]any{v}), nil
			}))
			if sc.Post {
				opts = append(opts, WithStreamStatePostHandler(func(ctx context.Context, out *schema.StreamReader[map[string]any], st *vfState) (*schema.StreamReader[map[string]any], error) {
					v, err := vfConcatMaps(out)
					if err != nil {
						return nil, err
					}
					v, err = post(ctx, v, st)
					if err != nil {
						return nil, err
					}
					return schema.StreamReaderFromArray([]map[string]any{v}), nil
				}))
			}
		} else {
			opts = append(opts, WithStatePreHandler(r.preHandler(prefix, sc, name)))
			if sc.Post && vfIn(sc.NilOut, name) {
				post, path := r.postHandler(prefix, sc, name), prefix+name
				opts = append(opts, WithStatePostHandler(func(ctx context.Context, out any, st *vfState) (any, error) {
					if out != nil {
						return nil, fmt.Errorf("verif harness: nilout node %s handed on %T", path, out)
					}
					kept, _ := r.cur(ctx).stash.LoadAndDelete(path)
					m, _ := kept.(map[string]any)
					return post(ctx, m, st)
				}))
			} else if sc.Post {
				opts = append(opts, WithStatePostHandler(r.postHandler(prefix, sc, name)))
			}
		}
	}
	if sub, ok := sc.Sub[name]; ok {
		opts = append(opts, WithGraphCompileOptions(r.compileOpts(sub, nil)...))
	}
	return opts
}

func (r *vfRun) compileOpts(sc *vfScenario, store CheckPointStore) []GraphCompileOption {
	var opts []GraphCompileOption
	if sc.Mode == "dag" {
		opts = append(opts, WithNodeTriggerMode(AllPredecessor))
	}
	if sc.Mode == "pregel" && sc.Max > 0 {
		opts = append(opts, WithMaxRunSteps(sc.Max))
	}
	if len(sc.Before) > 0 {
		opts = append(opts, WithInterruptBeforeNodes(append([]string{}, sc.Before...)))
	}
	if len(sc.After) > 0 {
		opts = append(opts, WithInterruptAfterNodes(append([]string{}, sc.After...)))
	}
	if store != nil {
		opts = append(opts, WithCheckPointStore(store))
		if sc.CCB {
			// a compile callback on the top-level graph: nested graphs are then compiled through the callback path, with the options their nodes carry
			opts = append(opts, WithGraphCompileCallbacks(vfCompileCB{}))
		}
	}
	return opts
}

type vfCompileCB struct{}

func (vfCompileCB) OnFinish(ctx context.Context, info *GraphInfo) {}

func (r *vfRun) newGraphOpts(sc *vfScenario) []NewGraphOption {
	if sc.State {
		return []NewGraphOption{WithGenLocalState(func(ctx context.Context) *vfState {
			st := vfNewState()
			st.Owner = r.cur(ctx).id // the generator is handed the context of the run it generates the state for
			return st
		})}
	}
	return nil
}

// what build needs from a Graph[I, O], whatever I and O are
type vfGraphAPI interface {
	AnyGraph
	AddLambdaNode(key string, node *Lambda, opts ...GraphAddNodeOpt) error
	AddGraphNode(key string, node AnyGraph, opts ...GraphAddNodeOpt) error
	AddEdge(startNode, endNode string) error
	AddBranch(startNode string, branch *GraphBranch) error
}

// a Runnable[map, any] seen as a Runnable[map, map] (the values that reach END are maps)
type vfAnyOutRun struct {
	r Runnable[map[string]any, any]
}

func vfAsMap(v any) (map[string]any, error) {
	if v == nil {
		return nil, nil
	}
	m, ok := v.(map[string]any)
	if !ok {
		return nil, fmt.Errorf("verif: result of type %T", v)
	}
	return m, nil
}
func (a vfAnyOutRun) Invoke(ctx context.Context, in map[string]any, opts ...Option) (map[string]any, error) {
	o, err := a.r.Invoke(ctx, in, opts...)
	if err != nil {
		return nil, err
	}
	return vfAsMap(o)
}
func (a vfAnyOutRun) Collect(ctx context.Context, in *schema.StreamReader[map[string]any], opts ...Option) (map[string]any, error) {
	o, err := a.r.Collect(ctx, in, opts...)
	if err != nil {
		return nil, err
	}
	return vfAsMap(o)
}
func (a vfAnyOutRun) Stream(ctx context.Context, in map[string]any, opts ...Option) (*schema.StreamReader[map[string]any], error) {
	sr, err := a.r.Stream(ctx, in, opts...)
	if err != nil {
		return nil, err
	}
	return schema.StreamReaderWithConvert(sr, vfAsMap), nil
}
func (a vfAnyOutRun) Transform(ctx context.Context, in *schema.StreamReader[map[string]any], opts ...Option) (*schema.StreamReader[map[string]any], error) {
	sr, err := a.r.Transform(ctx, in, opts...)
	if err != nil {
		return nil, err
	}
	return schema.StreamReaderWithConvert(sr, vfAsMap), nil
}

// build returns the AnyGraph for a scenario (Graph for pregel/dag, Workflow for wf)
func (r *vfRun) build(prefix string, sc *vfScenario) (AnyGraph, error) {
	if sc.Mode == "wf" {
		wf := NewWorkflow[map[string]any, map[string]any](r.newGraphOpts(sc)...)
		nodes := map[string]*WorkflowNode{}
		for _, n := range sc.Nodes {
			if sub, ok := sc.Sub[n]; ok {
				g, err := r.build(prefix+n+"/", sub)
				if err != nil {
					return nil, err
				}
				nodes[n] = wf.AddGraphNode(n, g, r.nodeOpts(prefix, sc, n)...)
			} else {
				nodes[n] = wf.AddLambdaNode(n, r.nodeLambda(prefix, sc, n), r.nodeOpts(prefix, sc, n)...)
			}
		}
		nodes[END] = wf.End()
		for _, e := range sc.Edges {
			kind := "cd"
			if len(e) > 2 {
				kind = e[2]
			}
			key := e[0]
			if key == START {
				key = "in"
			}
			switch kind {
			case "cd":
				nodes[e[1]].AddInput(e[0], MapFields(key, key))
			case "c":
				nodes[e[1]].AddDependency(e[0])
			case "d":
				nodes[e[1]].AddInputWithOptions(e[0], []*FieldMapping{MapFields(key, key)}, WithNoDirectDependency())
			}
		}
		for i, b := range sc.Branches {
			wf.AddBranch(b.From, r.branch(prefix, i, b))
		}
		return wf, nil
	}
	var g vfGraphAPI
	if sc.AnyOut && prefix == "" {
		g = NewGraph[map[string]any, any](r.newGraphOpts(sc)...)
	} else {
		g = NewGraph[map[string]any, map[string]any](r.newGraphOpts(sc)...)
	}
	for _, n := range sc.Nodes {
		if sub, ok := sc.Sub[n]; ok {
			sg, err := r.build(prefix+n+"/", sub)
			if err != nil {
				return nil, err
			}
			if sub.Wrap {
				// the inner graph compiled on its own and called from a lambda that wraps whatever it returns (as ToolsNode or user code do)
				var inner Runnable[map[string]any, map[string]any]
				if wf, isWf := sg.(*Workflow[map[string]any, map[string]any]); isWf {
					inner, err = wf.Compile(context.Background(), r.compileOpts(sub, nil)...)
				} else {
					inner, err = sg.(*Graph[map[string]any, map[string]any]).Compile(context.Background(), r.compileOpts(sub, nil)...)
				}
				if err != nil {
					return nil, err
				}
				name := n
				lam := InvokableLambda(func(ctx context.Context, in map[string]any) (map[string]any, error) {
					out, e := inner.Invoke(ctx, in)
					if e != nil {
						return nil, fmt.Errorf("wrapped by %s: %w", name, e)
					}
					return out, nil
				})
				var lopts []GraphAddNodeOpt
				if sc.State {
					lopts = append(lopts, WithStatePreHandler(r.preHandler(prefix, sc, n)))
					if sc.Post {
						lopts = append(lopts, WithStatePostHandler(r.postHandler(prefix, sc, n)))
					}
				}
				if err = g.AddLambdaNode(n, lam, lopts...); err != nil {
					return nil, err
				}
				continue
			}
			if err = g.AddGraphNode(n, sg, r.nodeOpts(prefix, sc, n)...); err != nil {
				return nil, err
			}
		} else if err := g.AddLambdaNode(n, r.nodeLambda(prefix, sc, n), r.nodeOpts(prefix, sc, n)...); err != nil {
			return nil, err
		}
	}
	for _, e := range sc.Edges {
		if err := g.AddEdge(e[0], e[1]); err != nil {
			return nil, err
		}
	}
	for i, b := range sc.Branches {
		if err := g.AddBranch(b.From, r.branch(prefix, i, b)); err != nil {
			return nil, err
		}
	}
	return g, nil
}

// ---------------------------------------------------------------------------------------------- running

var vfPathRe = regexp.MustCompile(`node path: \[([^\]]*)\]`)

// a failing state pre-handler is reported by the run loop of the graph that owns the node: the message names the node key
var vfPreRe = regexp.MustCompile(`run node\[([^\]]*)\] pre processor fail`)

func vfClassify(err error) map[string]any {
	msg := err.Error()
	out := map[string]any{"ev": "error"}
	path := []string{}
	if m := vfPathRe.FindStringSubmatch(msg); m != nil {
		for _, p := range strings.Split(m[1], ",") {
			path = append(path, strings.TrimSpace(p))
		}
	}
	out["path"] = path
	out["prenode"] = ""
	if m := vfPreRe.FindStringSubmatch(msg); m != nil {
		out["prenode"] = m[1]
	}
	var we *vfErrWrap
	out["as"] = errors.As(err, &we)
	out["asnode"] = ""
	if we != nil {
		out["asnode"] = we.Node
	}
	out["is"] = false
	switch {
	case strings.Contains(msg, "exceeds max steps"):
		out["class"] = "maxsteps"
		out["is"] = errors.Is(err, ErrExceedMaxSteps)
	case strings.Contains(msg, "verif injected panic"):
		out["class"] = "panic"
	case strings.Contains(msg, "verif injected failure"):
		out["class"] = "node"
		out["is"] = errors.Is(err, vfSentinel)
	case strings.Contains(msg, "context has been canceled") || strings.Contains(msg, "context canceled"):
		out["class"] = "canceled"
		out["is"] = errors.Is(err, context.Canceled)
	case strings.Contains(msg, "stream reader is empty") && !strings.Contains(msg, "convert checkpoint"):
		out["class"] = "emptystream"
	case strings.Contains(msg, "verif store: write refused"):
		out["class"] = "store"
	case strings.Contains(msg, "duplicated key"):
		out["class"] = "dup"
	case strings.Contains(msg, "no tasks to execute"):
		out["class"] = "stuck"
	case strings.Contains(msg, "unknown node: end"):
		out["class"] = "endskipped"
	default:
		out["class"] = "other"
		if len(msg) > 300 {
			msg = msg[:300]
		}
		out["msg"] = msg
	}
	return out
}

func vfInfo(info *InterruptInfo) map[string]any {
	out := map[string]any{
		"before": vfSorted(info.BeforeNodes),
		"after":  vfSorted(info.AfterNodes),
		"rerun":  vfSorted(info.RerunNodes),
	}
	sub := map[string]any{}
	for k, v := range info.SubGraphs {
		sub[k] = vfInfo(v)
	}
	out["sub"] = sub
	st := []string{}
	has := false
	if s, ok := info.State.(*vfState); ok && s != nil {
		st = append(st, s.Trail...)
		has = true
		out["cnt"] = s.Count
	}
	out["st"] = st
	out["hasst"] = has
	if _, ok := out["cnt"]; !ok {
		out["cnt"] = 0
	}
	return out
}

type vfOutcome struct {
	out map[string]any
	err error
	pan any
}

func (r *vfRun) call(rc *vfCall, run Runnable[map[string]any, map[string]any], paradigm string, opts []Option) vfOutcome {
	// cancellation carries a cause: the run error must still match context.Canceled (ctx.Err()), whatever the cause is
	ctx, cancelCause := context.WithCancelCause(context.WithValue(context.Background(), vfCallKey{}, rc))
	cancel := func() { cancelCause(errors.New("verif cancellation cause")) }
	rc.cancel = cancel
	defer cancel()
	ch := make(chan vfOutcome, 1)
	go func() {
		var o vfOutcome
		defer func() {
			if p := recover(); p != nil {
				buf := make([]byte, 4096)
				buf = buf[:runtime.Stack(buf, false)]
				o.pan = fmt.Sprintf("%v\n%s", p, buf)
			}
			ch <- o
		}()
		in := map[string]any{"in": map[string]any{"n": rc.x0, "i": map[string]any{}}}
		inStream := func() *schema.StreamReader[map[string]any] {
			chunks := []map[string]any{in}
			for j := 1; j < r.sc.Chunks; j++ {
				chunks = append(chunks, map[string]any{})
			}
			return schema.StreamReaderFromArray(chunks)
		}
		switch paradigm {
		case "stream", "transform":
			var sr *schema.StreamReader[map[string]any]
			var err error
			if paradigm == "stream" {
				sr, err = run.Stream(ctx, in, opts...)
			} else {
				sr, err = run.Transform(ctx, inStream(), opts...)
			}
			if err != nil {
				o.err = err
				return
			}
			acc := map[string]any{}
			if vfHasFail(r.sc, "spanic") {
				time.Sleep(3 * time.Millisecond) // a lagging consumer: the forwarders' buffers fill up
			}
			for {
				c, e := sr.Recv()
				if e != nil {
					if e != ioEOF {
						o.err = e
					}
					break
				}
				vfMergeInto(acc, c)
			}
			sr.Close()
			if o.err == nil {
				o.out = acc
			}
		case "collect":
			o.out, o.err = run.Collect(ctx, inStream(), opts...)
		default:
			o.out, o.err = run.Invoke(ctx, in, opts...)
		}
	}()
	select {
	case o := <-ch:
		return o
	case <-time.After(vfWatchdog):
		return vfOutcome{err: errors.New("verif watchdog: call did not return in time")}
	}
}

// compile builds and compiles the scenario once; the runnable may then be driven by several logical runs
func (r *vfRun) compile(store *vfStore) (run Runnable[map[string]any, map[string]any], err error) {
	sc := r.sc
	defer func() {
		if p := recover(); p != nil {
			err = fmt.Errorf("compile panic: %v", p)
		}
	}()
	if sc.Lower == "chain" {
		ch, cerr := r.buildChain(sc)
		if cerr != nil {
			return nil, cerr
		}
		return ch.Compile(context.Background(), WithCheckPointStore(store))
	}
	g, err := r.build("", sc)
	if err != nil {
		return nil, err
	}
	copts := r.compileOpts(sc, store)
	if wf, ok := g.(*Workflow[map[string]any, map[string]any]); ok {
		return wf.Compile(context.Background(), copts...)
	}
	if ga, ok := g.(*Graph[map[string]any, any]); ok {
		ra, cerr := ga.Compile(context.Background(), copts...)
		if cerr != nil {
			return nil, cerr
		}
		return vfAnyOutRun{ra}, nil
	}
	return g.(*Graph[map[string]any, map[string]any]).Compile(context.Background(), copts...)
}

func (r *vfRun) runScenario() {
	rc := r.def
	line := vfCaseLine(r.sc)
	rc.rec.log(line)
	store := &vfStore{m: map[string][]byte{}, fail: r.sc.StoreFail}
	run, err := r.compile(store)
	if err != nil {
		rc.rec.log(map[string]any{"ev": "builderror", "msg": err.Error()})
		return
	}
	r.drive(rc, run, store)
}

// drive performs one logical run: the first call and every resume call until a result, an error or the call bound
func (r *vfRun) drive(rc *vfCall, run Runnable[map[string]any, map[string]any], store *vfStore) {
	sc := r.sc
	rec := rc.rec
	maxCalls := sc.MaxCalls
	if maxCalls == 0 {
		maxCalls = 12
	}
	calls := sc.Calls
	if len(calls) == 0 {
		calls = []string{"invoke"}
	}
	for k := 0; k < maxCalls; k++ {
		paradigm := calls[k%len(calls)]
		var opts []Option
		if k > 0 {
			mod := 0
			if sc.SMod == k && sc.State {
				mod = 100
				opts = append(opts, WithStateModifier(func(ctx context.Context, path NodePath, state any) error {
					// (called for the top-level state and for the state of every nested graph that is resumed from its checkpoint)
					if s, ok := state.(*vfState); ok {
						s.Count += 100
					}
					return nil
				}))
			}
			rec.log(map[string]any{"ev": "resume", "call": paradigm, "mod": mod})
		}
		if sc.DOpt && len(sc.Nodes) > 0 {
			// an option addressed to one node must not change how the options behind it are read
			opts = append([]Option{WithCallbacks(callbacks.NewHandlerBuilder().Build()).DesignateNode(sc.Nodes[0])}, opts...)
		}
		if !sc.NoID {
			opts = append(opts, WithCheckPointID("cp-"+rc.id))
		}
		if sc.RMax > 0 {
			opts = append(opts, WithRuntimeMaxSteps(sc.RMax))
		}
		o := r.call(rc, run, paradigm, opts)
		sets := store.takeSets(rc.id)
		switch {
		case o.pan != nil:
			msg := fmt.Sprint(o.pan)
			if len(msg) > 1500 {
				msg = msg[:1500]
			}
			rec.log(map[string]any{"ev": "error", "class": "escaped-panic", "msg": msg, "path": []string{}, "is": false, "as": false, "asnode": "", "sets": sets, "call": paradigm})
			return
		case o.err != nil:
			if info, ok := ExtractInterruptInfo(o.err); ok {
				line := vfInfo(info)
				line["ev"] = "interrupt"
				line["sets"] = sets
				line["call"] = paradigm
				rec.log(line)
				if sc.NoID {
					rec.log(map[string]any{"ev": "abandon"})
					return
				}
				// cyclic graphs interrupted at every step never end (the step counter restarts with every call) and their
				// terms double per step: stop after a bounded number of node executions
				rec.mu.Lock()
				n := 0
				for _, l := range rec.lines {
					if strings.HasPrefix(l, `{"ev":"exec"`) {
						n++
					}
				}
				rec.mu.Unlock()
				if n > 12 {
					rec.log(map[string]any{"ev": "giveup"})
					return
				}
				continue
			}
			line := vfClassify(o.err)
			if strings.Contains(o.err.Error(), "verif watchdog") {
				line["class"] = "hang"
			}
			line["sets"] = sets
			line["call"] = paradigm
			rec.log(line)
			return
		default:
			rec.log(map[string]any{"ev": "result", "v": o.out, "sets": sets, "call": paradigm})
			return
		}
	}
	rec.log(map[string]any{"ev": "giveup"})
}

func vfL(xs []string) []any {
	out := make([]any, 0, len(xs))
	for _, x := range xs {
		out = append(out, x)
	}
	return out
}

// the case line: every list-valued field is a JSON list (never null / {}), nested scenarios likewise
func vfCaseLine(sc *vfScenario) map[string]any {
	edges := []any{}
	for _, e := range sc.Edges {
		k := "cd"
		if len(e) > 2 {
			k = e[2]
		}
		edges = append(edges, []any{e[0], e[1], k})
	}
	brs := []any{}
	for _, b := range sc.Branches {
		brs = append(brs, map[string]any{"from": b.From, "ends": vfL(b.Ends), "multi": b.Multi, "data": sc.Mode != "wf"})
	}
	fails := []any{}
	for _, f := range sc.Fail {
		fails = append(fails, map[string]any{"n": f.N, "kind": f.Kind})
	}
	subs := []any{}
	var subNames []string
	for k := range sc.Sub {
		subNames = append(subNames, k)
	}
	sort.Strings(subNames)
	for _, k := range subNames {
		subs = append(subs, map[string]any{"node": k, "g": vfCaseLine(sc.Sub[k])})
	}
	// (the limit in force for the described graph: a per-call limit overrides the compiled one; it is not handed down to nested graphs)
	max := sc.Max
	if sc.RMax > 0 {
		max = sc.RMax
	}
	return map[string]any{"ev": "case", "id": sc.ID, "mode": sc.Mode, "nodes": vfL(sc.Nodes), "edges": edges, "branches": brs,
		"max": max, "before": vfL(sc.Before), "after": vfL(sc.After), "rerun": vfL(sc.Rerun), "state": sc.State,
		"fail": fails, "noid": sc.NoID, "subs": subs, "calls": vfL(sc.Calls), "post": sc.Post, "hmod": sc.HMod, "echo": vfL(sc.Echo), "x0": "x", "bare": vfL(vfBareList(sc)), "lower": sc.Lower, "storefail": sc.StoreFail}
}

var ioEOF = func() error {
	sr := schema.StreamReaderFromArray([]int{})
	_, err := sr.Recv()
	return err
}()

func TestVerifEngine(t *testing.T) {
	in, out := os.Getenv("VERIF_CASES"), os.Getenv("VERIF_OUT")
	if in == "" || out == "" {
		t.Skip("VERIF_CASES / VERIF_OUT not set")
	}
	f, err := os.Open(in)
	if err != nil {
		t.Fatal(err)
	}
	defer f.Close()
	var scs []*vfScenario
	rd := bufio.NewReaderSize(f, 1<<20)
	for {
		line, err := rd.ReadBytes('\n')
		if len(strings.TrimSpace(string(line))) > 0 {
			sc := &vfScenario{}
			if e := json.Unmarshal(line, sc); e != nil {
				t.Fatalf("bad scenario line: %v: %s", e, line)
			}
			scs = append(scs, sc)
		}
		if err != nil {
			break
		}
	}
	of, err := os.Create(out)
	if err != nil {
		t.Fatal(err)
	}
	w := bufio.NewWriterSize(of, 1<<20)
	var wmu sync.Mutex
	workers := runtime.NumCPU()
	if workers > 16 {
		workers = 16
	}
	var wg sync.WaitGroup
	next := make(chan *vfScenario, 64)
	for i := 0; i < workers; i++ {
		wg.Add(1)
		go func() {
			defer wg.Done()
			for sc := range next {
				r := &vfRun{sc: sc, def: &vfCall{rec: &vfRec{}, id: sc.ID, x0: "x"}}
				if len(sc.Delay) > 0 {
					r.gates = newVfGates()
				}
				r.runScenario()
				lines := r.def.rec.finish()
				wmu.Lock()
				for _, l := range lines {
					w.WriteString(l)
					w.WriteByte('\n')
				}
				wmu.Unlock()
			}
		}()
	}
	for _, sc := range scs {
		next <- sc
	}
	close(next)
	wg.Wait()
	w.Flush()
	of.Close()
	fmt.Printf("VERIF-ENGINE scenarios=%d\n", len(scs))
}

// per-call watchdog: a call on these graphs takes microseconds; VERIF_WATCHDOG_MS overrides (default 5000)
var vfWatchdog = func() time.Duration {
	ms := 5000
	if s := os.Getenv("VERIF_WATCHDOG_MS"); s != "" {
		fmt.Sscanf(s, "%d", &ms)
	}
	return time.Duration(ms) * time.Millisecond
}()


// TestVerifConcurrent (C09): every scenario is compiled ONCE and driven by VERIF_CALLERS logical runs at the same time (each with
// its own checkpoint id, its own initial term and its own recorder); every run's observations form a case of their own, so the
// trace validator decides for each run whether it is the run it would have been alone.
func TestVerifConcurrent(t *testing.T) {
	in, out := os.Getenv("VERIF_CASES"), os.Getenv("VERIF_OUT")
	if in == "" || out == "" {
		t.Skip("VERIF_CASES / VERIF_OUT not set")
	}
	callers := 4
	if s := os.Getenv("VERIF_CALLERS"); s != "" {
		fmt.Sscanf(s, "%d", &callers)
	}
	data, err := os.ReadFile(in)
	if err != nil {
		t.Fatal(err)
	}
	of, err := os.Create(out)
	if err != nil {
		t.Fatal(err)
	}
	w := bufio.NewWriterSize(of, 1<<20)
	n := 0
	sem := make(chan struct{}, 4) // scenarios in flight
	var wmu sync.Mutex
	var swg sync.WaitGroup
	for _, raw := range strings.Split(string(data), "\n") {
		if strings.TrimSpace(raw) == "" {
			continue
		}
		sc := &vfScenario{}
		if e := json.Unmarshal([]byte(raw), sc); e != nil {
			t.Fatalf("bad scenario line: %v", e)
		}
		n++
		sem <- struct{}{}
		swg.Add(1)
		go func(sc *vfScenario) {
			defer func() { <-sem; swg.Done() }()
			r := &vfRun{sc: sc, def: &vfCall{rec: &vfRec{}, id: sc.ID, x0: "x"}}
			store := &vfStore{m: map[string][]byte{}, known: map[string]bool{}}
			run, cerr := r.compile(store)
			calls := make([]*vfCall, callers)
			for k := range calls {
				calls[k] = &vfCall{rec: &vfRec{}, k: k, id: fmt.Sprintf("%s#%d", sc.ID, k), x0: fmt.Sprintf("x%d", k)}
				store.known["cp-"+calls[k].id] = true
				line := vfCaseLine(sc)
				line["id"] = calls[k].id
				line["x0"] = calls[k].x0
				calls[k].rec.log(line)
			}
			var wg sync.WaitGroup
			start := make(chan struct{})
			for k := range calls {
				wg.Add(1)
				go func(rc *vfCall) {
					defer wg.Done()
					if cerr != nil {
						rc.rec.log(map[string]any{"ev": "builderror", "msg": cerr.Error()})
						return
					}
					<-start
					r.drive(rc, run, store)
				}(calls[k])
			}
			close(start)
			wg.Wait()
			wmu.Lock()
			for _, rc := range calls {
				for _, l := range rc.rec.finish() {
					w.WriteString(l)
					w.WriteByte('\n')
				}
			}
			wmu.Unlock()
		}(sc)
	}
	swg.Wait()
	w.Flush()
	of.Close()
	fmt.Printf("VERIF-CONCURRENT scenarios=%d callers=%d\n", n, callers)
}
