//go:build verif

package compose

// Conformance harness of C19 (a finished streaming run leaves no blocked producer or goroutine behind).
//
// Reads TLC-generated scenarios (VERIF_CASES), builds each graph through the public API of compose with harness-owned node bodies
// (streaming producers on schema.Pipe with a writer goroutine, stream transformers, value nodes, a stream branch reading a prefix,
// callback handlers closing / draining their copies), calls Stream, reads 0..k chunks or to EOF, closes, waits (bounded, on explicit
// producer signals) for the producers, then takes a goroutine dump filtered to frames in eino/schema, eino/compose and the producers.
// It writes the lifecycle trace (VERIF_OUT); spec/StreamRunObs.tla decides.

import (
	"bufio"
	"bytes"
	"context"
	"encoding/json"
	"fmt"
	"io"
	"os"
	"regexp"
	"runtime"
	"sort"
	"strings"
	"sync"
	"sync/atomic"
	"testing"
	"time"

	"github.com/cloudwego/eino/callbacks"
	"github.com/cloudwego/eino/schema"
)

type vflNode struct {
	Name   string `json:"name"`
	Kind   string `json:"kind"` // S | T | V
	Cap    int    `json:"cap"`
	K      int    `json:"k"`
	OKey   bool   `json:"okey"`
	Err    int    `json:"err"`    // 1-based position of an error chunk (0 = none)
	Cancel bool   `json:"cancel"` // the node's body cancels the caller's context right before it returns (cancellation arriving while the
	// last step of the run completes: the run still reaches END and returns its stream)
	Pan int `json:"pan"` // S node: its stream is wrapped by StreamReaderWithConvert whose convert function panics on its pan-th chunk
}

type vflBranch struct {
	From string   `json:"from"`
	Ends []string `json:"ends"`
	Pick int      `json:"pick"`
	Pre  int      `json:"pre"`
	// workflow only: the selected target maps the branch source's output (true) or, like the other target, the graph input (false:
	// then the branch condition is the only consumer of the source's stream and the copy routed by the branch is surplus)
	BData bool `json:"bdata"`
	// workflow only: the branch targets take no data from any node at all (their whole input is a static value), so the copy the
	// runner routes to the selected one has no data predecessor set to be matched against and must be closed on the spot
	BNone bool `json:"bnone"`
}

type vflCase struct {
	ID      string      `json:"id"`
	Mode    string      `json:"mode"`
	Nodes   []vflNode   `json:"nodes"`
	Edges   [][]string  `json:"edges"`
	Branch  []vflBranch `json:"branch"`
	Handler string      `json:"handler"` // none | close | read1 | drain
	Read    int         `json:"read"`    // chunks the caller reads before closing; -1 = to EOF
	ExpErr  bool        `json:"experr"`  // the scenario contains an error chunk: the run may end with an error
}

type vflRec struct {
	mu      sync.Mutex
	lines   []string
	started int32
	ended   int32
	hwg     sync.WaitGroup
	cancel  context.CancelFunc
}

func (r *vflRec) emit(format string, a ...interface{}) {
	r.mu.Lock()
	r.lines = append(r.lines, fmt.Sprintf(format, a...))
	r.mu.Unlock()
}

type vflChunkErr struct{ node string }

func (e *vflChunkErr) Error() string { return "verif error chunk of " + e.node }

// the writer goroutine of a streaming producer
func vflProduce(r *vflRec, n vflNode, sw *schema.StreamWriter[map[string]any]) {
	how := "done"
	for i := 1; i <= n.K; i++ {
		var closed bool
		if n.Err == i {
			closed = sw.Send(nil, &vflChunkErr{n.Name})
		} else {
			closed = sw.Send(map[string]any{n.Name: "x"}, nil)
		}
		r.emit(`{"ev":"send","n":%q,"i":%d,"closed":%v}`, n.Name, i, closed)
		if closed {
			how = "told"
			break
		}
	}
	sw.Close()
	r.emit(`{"ev":"fin","n":%q,"how":%q}`, n.Name, how)
	atomic.AddInt32(&r.ended, 1)
}

// the goroutine of a stream transformer: one output chunk per input chunk (at most K), then EOF
func vflTransform(r *vflRec, n vflNode, in *schema.StreamReader[map[string]any], sw *schema.StreamWriter[map[string]any]) {
	how := "done"
	i := 0
	for {
		_, err := in.Recv()
		if err == io.EOF {
			break
		}
		i++
		var closed bool
		if err != nil {
			closed = sw.Send(nil, err)
		} else {
			closed = sw.Send(map[string]any{n.Name: "x"}, nil)
		}
		r.emit(`{"ev":"send","n":%q,"i":%d,"closed":%v}`, n.Name, i, closed)
		if closed {
			how = "told"
			break
		}
	}
	in.Close()
	sw.Close()
	r.emit(`{"ev":"fin","n":%q,"how":%q}`, n.Name, how)
	atomic.AddInt32(&r.ended, 1)
}

func vflLambda(r *vflRec, n vflNode) *Lambda {
	switch n.Kind {
	case "S":
		return StreamableLambda(func(ctx context.Context, in map[string]any) (*schema.StreamReader[map[string]any], error) {
			sr, sw := schema.Pipe[map[string]any](n.Cap)
			atomic.AddInt32(&r.started, 1)
			r.emit(`{"ev":"start","n":%q}`, n.Name)
			go vflProduce(r, n, sw)
			if n.Cancel {
				r.cancel()
			}
			if n.Pan > 0 {
				calls := 0
				return schema.StreamReaderWithConvert(sr, func(m map[string]any) (map[string]any, error) {
					calls++
					if calls == n.Pan {
						panic("vfl convert panic")
					}
					return m, nil
				}), nil
			}
			return sr, nil
		})
	case "T":
		return TransformableLambda(func(ctx context.Context, in *schema.StreamReader[map[string]any]) (*schema.StreamReader[map[string]any], error) {
			sr, sw := schema.Pipe[map[string]any](n.Cap)
			atomic.AddInt32(&r.started, 1)
			r.emit(`{"ev":"start","n":%q}`, n.Name)
			go vflTransform(r, n, in, sw)
			if n.Cancel {
				r.cancel()
			}
			return sr, nil
		})
	default:
		return InvokableLambda(func(ctx context.Context, in map[string]any) (map[string]any, error) {
			if n.Cancel {
				r.cancel()
			}
			return map[string]any{n.Name: "x"}, nil
		})
	}
}

func vflBranchOf(r *vflRec, b vflBranch) *GraphBranch {
	ends := map[string]bool{}
	for _, e := range b.Ends {
		ends[e] = true
	}
	return NewStreamGraphBranch(func(ctx context.Context, sr *schema.StreamReader[map[string]any]) (string, error) {
		defer sr.Close()
		for i := 0; i < b.Pre; i++ {
			if _, err := sr.Recv(); err != nil {
				break
			}
		}
		return b.Ends[b.Pick], nil
	}, ends)
}

func vflHandler(r *vflRec, kind string) callbacks.Handler {
	return callbacks.NewHandlerBuilder().OnEndWithStreamOutputFn(func(ctx context.Context, info *callbacks.RunInfo, out *schema.StreamReader[callbacks.CallbackOutput]) context.Context {
		switch kind {
		case "close":
			out.Close()
		case "read1":
			r.hwg.Add(1)
			go func() {
				defer r.hwg.Done()
				_, _ = out.Recv()
				out.Close()
			}()
		default: // drain
			r.hwg.Add(1)
			go func() {
				defer r.hwg.Done()
				defer out.Close()
				for {
					if _, err := out.Recv(); err != nil {
						if err == io.EOF {
							return
						}
					}
				}
			}()
		}
		return ctx
	}).OnStartWithStreamInputFn(func(ctx context.Context, info *callbacks.RunInfo, in *schema.StreamReader[callbacks.CallbackInput]) context.Context {
		in.Close()
		return ctx
	}).Build()
}

func vflKey(n string) string {
	if n == START {
		return "in"
	}
	return n
}

func vflBuild(r *vflRec, c *vflCase) (Runnable[map[string]any, map[string]any], error) {
	ctx := context.Background()
	byName := map[string]vflNode{}
	for _, n := range c.Nodes {
		byName[n.Name] = n
	}
	opts := func(n vflNode) []GraphAddNodeOpt {
		o := []GraphAddNodeOpt{WithNodeName(n.Name)}
		if n.OKey {
			o = append(o, WithOutputKey(n.Name+"k"))
		}
		return o
	}
	if c.Mode == "wf" {
		wf := NewWorkflow[map[string]any, map[string]any]()
		nodes := map[string]*WorkflowNode{}
		for _, n := range c.Nodes {
			nodes[n.Name] = wf.AddLambdaNode(n.Name, vflLambda(r, n), WithNodeName(n.Name))
		}
		nodes[END] = wf.End()
		for _, e := range c.Edges {
			nodes[e[1]].AddInput(e[0], MapFields(vflKey(e[0]), vflKey(e[0])))
		}
		for _, b := range c.Branch {
			wf.AddBranch(b.From, vflBranchOf(r, b))
			// a workflow branch carries no data: the target the scenario's branch selects maps the branch source's output, the other
			// one maps the graph input -- so that every produced value has a consumer (a skipped node consumes nothing)
			for i, e := range b.Ends {
				if b.BNone {
					if e != END {
						nodes[e].SetStaticValue(FieldPath{"static"}, "s")
					}
					continue
				}
				from := b.From
				if i != b.Pick || !b.BData {
					from = START
				}
				nodes[e].AddInputWithOptions(from, []*FieldMapping{MapFields(vflKey(from), vflKey(from))}, WithNoDirectDependency())
			}
		}
		return wf.Compile(ctx)
	}
	g := NewGraph[map[string]any, map[string]any]()
	for _, n := range c.Nodes {
		if err := g.AddLambdaNode(n.Name, vflLambda(r, n), opts(n)...); err != nil {
			return nil, err
		}
	}
	for _, e := range c.Edges {
		if err := g.AddEdge(e[0], e[1]); err != nil {
			return nil, err
		}
	}
	for _, b := range c.Branch {
		if err := g.AddBranch(b.From, vflBranchOf(r, b)); err != nil {
			return nil, err
		}
	}
	if c.Mode == "dag" {
		return g.Compile(ctx, WithNodeTriggerMode(AllPredecessor))
	}
	return g.Compile(ctx)
}

var vflGoRe = regexp.MustCompile(`^goroutine (\d+) \[([^\]]*)\]`)
var vflTypeParams = regexp.MustCompile(`\[[^\]]*\]`)

// goroutines with a frame in eino/schema, eino/compose (the harness producers live there too), not the test's own goroutine
func vflParked(seen map[string]bool) (ids []string, sigs []string) {
	buf := make([]byte, 1<<20)
	for {
		n := runtime.Stack(buf, true)
		if n < len(buf) {
			buf = buf[:n]
			break
		}
		buf = make([]byte, 2*len(buf))
	}
	for _, g := range bytes.Split(buf, []byte("\n\n")) {
		txt := string(g)
		m := vflGoRe.FindStringSubmatch(txt)
		if m == nil || seen[m[1]] {
			continue
		}
		if strings.Contains(txt, "TestVerifLeak") || strings.Contains(txt, "testing.(*T).Run") || strings.Contains(txt, "testing.tRunner") && !strings.Contains(txt, "eino/") {
			continue
		}
		if !strings.Contains(txt, "github.com/cloudwego/eino/schema.") && !strings.Contains(txt, "github.com/cloudwego/eino/compose.") {
			continue
		}
		var frames []string
		for _, ln := range strings.Split(txt, "\n")[1:] {
			if strings.HasPrefix(ln, "github.com/cloudwego/eino/") {
				f := strings.TrimPrefix(ln, "github.com/cloudwego/eino/")
				if i := strings.LastIndex(f, "("); i > 0 {
					f = f[:i]
				}
				f = vflTypeParams.ReplaceAllString(f, "")
				frames = append(frames, f)
			}
		}
		sig := "?"
		if len(frames) > 0 {
			sig = frames[0]
			if len(frames) > 1 {
				sig += "<" + frames[len(frames)-1]
			}
		}
		ids = append(ids, m[1])
		sigs = append(sigs, sig)
	}
	return ids, sigs
}

func vflRun(c *vflCase, w *bufio.Writer, seen map[string]bool) {
	r := &vflRec{}
	var prods []string
	for _, n := range c.Nodes {
		if n.Kind == "S" || n.Kind == "T" {
			prods = append(prods, fmt.Sprintf(`{"n":%q,"k":%d}`, n.Name, n.K))
		}
	}
	cj, _ := json.Marshal(c)
	fmt.Fprintf(w, "{\"ev\":\"case\",\"id\":%q,\"prods\":[%s],\"sc\":%s}\n", c.ID, strings.Join(prods, ","), cj)
	run, err := vflBuild(r, c)
	if err != nil {
		fmt.Fprintf(w, "{\"ev\":\"caller\",\"read\":0,\"eof\":false,\"err\":%q,\"experr\":false}\n", "build: "+err.Error())
		fmt.Fprintf(w, "{\"ev\":\"settled\",\"timeout\":false,\"blocked\":[]}\n{\"ev\":\"dump\",\"parked\":[]}\n")
		return
	}
	var opts []Option
	if c.Handler != "none" && c.Handler != "" {
		opts = append(opts, WithCallbacks(vflHandler(r, c.Handler)))
	}
	read, eof, errs := 0, false, ""
	func() {
		defer func() {
			if p := recover(); p != nil {
				errs = fmt.Sprint("panic: ", p)
			}
		}()
		cctx, cancel := context.WithCancel(context.Background())
		defer cancel()
		r.cancel = cancel
		sr, err := run.Stream(cctx, map[string]any{"in": "x"}, opts...)
		if err != nil {
			errs = err.Error()
			return
		}
		for c.Read < 0 || read < c.Read {
			_, err := sr.Recv()
			if err == io.EOF {
				eof = true
				break
			}
			if err != nil {
				errs = err.Error()
				break
			}
			read++
		}
		sr.Close()
	}()
	r.emit(`{"ev":"caller","read":%d,"eof":%v,"err":%q,"experr":%v}`, read, eof, errs, c.ExpErr)
	// settle: explicit producer signals, bounded
	deadline := time.Now().Add(3 * time.Second) // generous: a loaded machine must not turn a slow producer into a "blocked" one
	timeout := false
	for atomic.LoadInt32(&r.ended) < atomic.LoadInt32(&r.started) {
		if time.Now().After(deadline) {
			timeout = true
			break
		}
		time.Sleep(100 * time.Microsecond)
	}
	hdone := make(chan struct{})
	go func() { r.hwg.Wait(); close(hdone) }()
	select {
	case <-hdone:
	case <-time.After(time.Until(deadline) + 50*time.Millisecond):
		timeout = true
	}
	r.mu.Lock()
	lines := append([]string(nil), r.lines...)
	r.mu.Unlock()
	blocked := []string{}
	fin := map[string]bool{}
	for _, ln := range lines {
		if strings.HasPrefix(ln, `{"ev":"fin"`) {
			var e struct{ N string }
			_ = json.Unmarshal([]byte(ln), &e)
			fin[e.N] = true
		}
	}
	for _, ln := range lines {
		if strings.HasPrefix(ln, `{"ev":"start"`) {
			var e struct{ N string }
			_ = json.Unmarshal([]byte(ln), &e)
			if !fin[e.N] {
				blocked = append(blocked, e.N)
			}
		}
	}
	for _, ln := range lines {
		w.WriteString(ln)
		w.WriteByte('\n')
	}
	bj, _ := json.Marshal(blocked)
	fmt.Fprintf(w, "{\"ev\":\"settled\",\"timeout\":%v,\"blocked\":%s}\n", timeout, bj)
	// goroutines need a moment to unwind after their last signal: poll until the filtered dump is empty (bounded)
	var ids, sigs []string
	for i := 0; i < 60; i++ {
		ids, sigs = vflParked(seen)
		if len(ids) == 0 {
			break
		}
		time.Sleep(time.Duration(200+100*i) * time.Microsecond)
		if i > 20 {
			time.Sleep(5 * time.Millisecond)
		}
	}
	for _, id := range ids {
		seen[id] = true
	}
	sort.Strings(sigs)
	sj, _ := json.Marshal(append([]string{}, sigs...))
	fmt.Fprintf(w, "{\"ev\":\"dump\",\"parked\":%s}\n", sj)
}

func TestVerifLeak(t *testing.T) {
	cases, out := os.Getenv("VERIF_CASES"), os.Getenv("VERIF_OUT")
	if cases == "" || out == "" {
		t.Skip("VERIF_CASES / VERIF_OUT not set")
	}
	in, err := os.Open(cases)
	if err != nil {
		t.Fatal(err)
	}
	defer in.Close()
	of, err := os.Create(out)
	if err != nil {
		t.Fatal(err)
	}
	w := bufio.NewWriterSize(of, 1<<20)
	sc := bufio.NewScanner(in)
	sc.Buffer(make([]byte, 1<<20), 1<<24)
	n := 0
	seen := map[string]bool{}
	for sc.Scan() {
		if len(sc.Bytes()) == 0 {
			continue
		}
		var c vflCase
		if err := json.Unmarshal(sc.Bytes(), &c); err != nil {
			t.Fatalf("bad case line: %v", err)
		}
		if c.Branch == nil {
			c.Branch = []vflBranch{}
		}
		vflRun(&c, w, seen)
		n++
	}
	if err := w.Flush(); err != nil {
		t.Fatal(err)
	}
	of.Close()
	fmt.Printf("VERIF-LEAK cases=%d\n", n)
}
