package compose

// Conformance harness for C10 (callback handlers fire exactly once per execution, paired, for the right node).
//
// Reads the cases TLC generated from spec/Callbacks.tla (Gen = TRUE): unit tree, handler supply (global handlers, undesignated
// handlers split over several WithCallbacks options, handlers designated to node paths), failing node, and a schedule of the
// steps this harness can hold back (startR = the scan of the handler list for a start event, endW = leaving the node body,
// endR = the scan for the end event).  It builds the graph through the public API, supplies recording handlers (own Handler
// type with a TimingChecker, or callbacks.NewHandlerBuilder), forces the schedule with gates in Needed() and in the node
// bodies, and writes the handler event log as ndjson.  It computes NO expectation: spec/CbObs.tla (TLC) judges the log.

import (
	"bufio"
	"context"
	"encoding/json"
	"errors"
	"fmt"
	"io"
	"os"
	"sort"
	"strings"
	"sync"
	"sync/atomic"
	"testing"
	"time"

	"github.com/cloudwego/eino/callbacks"
	"github.com/cloudwego/eino/components"
	"github.com/cloudwego/eino/components/tool"
	"github.com/cloudwego/eino/schema"
)

type vcbDerive struct {
	Base [][]string `json:"base"` // the base option is designated to these nodes one call at a time
	X    []string   `json:"x"`    // first  := base.Designate(x)
	Y    []string   `json:"y"`    // second := base.Designate(y)   (derived after first)
	Use  string     `json:"use"`  // first | second: the sibling that is passed to the call
}

type vcbHandlerSpec struct {
	ID     string      `json:"id"`
	Kind   string      `json:"kind"` // global | undes | des
	Paths  [][]string  `json:"paths"`
	Derive *vcbDerive  `json:"derive,omitempty"` // the option is one of two siblings derived from a common base option value
}

func vcbDesignate(o Option, p []string) Option {
	if len(p) == 1 {
		return o.DesignateNode(p[0])
	}
	return o.DesignateNodeWithPath(NewNodePath(p...))
}

type vcbUnit struct {
	U      string   `json:"u"`
	Path   []string `json:"path"`
	Name   string   `json:"name"`
	Comp   string   `json:"comp"`
	Typ    string   `json:"typ"`
	Graph  bool     `json:"graph"`
	Parent string   `json:"parent"`
	Src    string   `json:"src"`
	SrcIn  bool     `json:"srcin"`
	Pred   string   `json:"pred"`
	Host   string   `json:"host"`  // the unit runs inside the body of that leaf, under a detached callback scope
	Fresh  bool     `json:"fresh"` // only global handlers apply to it
}

type vcbCase struct {
	ID       string            `json:"id"`
	Shape    string            `json:"shape"`
	Handlers []vcbHandlerSpec  `json:"handlers"`
	Units    []vcbUnit         `json:"units"`
	Ends     []string          `json:"ends"`
	Split    []int             `json:"split"`
	NG       int               `json:"ng"`
	Fail     string            `json:"fail"`
	BadOpt    string           `json:"badopt"`    // none | t1 | t2 | s1 | s2: the handler list contains an option ("dx") the (sub) graph rejects
	Reject    string           `json:"reject"`    // nested graph unit whose run is rejected for its options ("" = none)
	RejectTop bool             `json:"rejecttop"` // the top-level run itself is rejected
	BSel     string            `json:"bsel"`    // shapes sbr / nsbr: what the branch on START does: node | end | fail | int
	BStream  bool              `json:"bstream"` // the branch condition is given in its stream form
	Sched    [][]string        `json:"sched"`
	Mode     string            `json:"mode"`  // invoke | stream
	Kinds    map[string]string `json:"kinds"` // leaf unit -> i | s | t
	Pol      map[string]string `json:"pol"`   // handler -> read | close | half | slow   (what it does with a stream copy)
	HB       map[string]bool   `json:"hb"`    // handler built with callbacks.NewHandlerBuilder (cannot gate scans)
	MBad     string            `json:"mbad"`
}

// ---------------------------------------------------------------------------------------------- log

type vcbRec struct {
	mu    sync.Mutex
	lines []string
}

func (r *vcbRec) log(ev string, kv map[string]any) {
	b, err := json.Marshal(kv)
	if err != nil {
		panic(err)
	}
	line := `{"ev":"` + ev + `"`
	if len(b) > 2 {
		line += "," + string(b[1:])
	} else {
		line += "}"
	}
	r.mu.Lock()
	r.lines = append(r.lines, line)
	r.mu.Unlock()
}

func vcbDigest(v any) string {
	switch x := v.(type) {
	case nil:
		return "<nil>"
	case string:
		return x
	case map[string]any:
		flat := map[string]string{}
		vcbFlatten(x, flat)
		keys := make([]string, 0, len(flat))
		for k := range flat {
			keys = append(keys, k)
		}
		sort.Strings(keys)
		var sb strings.Builder
		for _, k := range keys {
			sb.WriteString(k + "=" + flat[k] + ";")
		}
		return sb.String()
	case error:
		return "err"
	case *schema.Message:
		if x == nil {
			return "<nil>"
		}
		return x.Content
	case []*schema.Message:
		m := map[string]any{}
		vcbMergeMsgs(m, x)
		return vcbDigest(m)
	}
	return fmt.Sprintf("%T:%v", v, v)
}

// tool results: one message per tool call, keyed by the tool-call id (= unit id); stream chunks carry nil for the other calls
func vcbMergeMsgs(acc map[string]any, msgs []*schema.Message) {
	for _, m := range msgs {
		if m == nil {
			continue
		}
		prev, _ := acc[m.ToolCallID].(string)
		acc[m.ToolCallID] = prev + m.Content
	}
}

func vcbFlatten(m map[string]any, out map[string]string) {
	for k, v := range m {
		switch x := v.(type) {
		case map[string]any:
			vcbFlatten(x, out)
		case string:
			out[k] += x
		default:
			out[k] += fmt.Sprint(x)
		}
	}
}

// ---------------------------------------------------------------------------------------------- schedule forcing

var vcbTimeouts int32

type vcbSeq struct {
	mu        sync.Mutex
	ch        chan struct{}
	pos       map[string]int
	done      []bool
	units     map[string]*vcbUnit // by id
	byName    map[string]*vcbUnit
	arrived   map[string]bool
	seen      map[string]bool // unit/startR, unit/endR: a scan for that event has begun
	cbSeen    map[string]bool
	unmanaged map[string]bool
	broken    bool
	rec       *vcbRec
}

func newVcbSeq(c *vcbCase, rec *vcbRec) *vcbSeq {
	s := &vcbSeq{ch: make(chan struct{}), pos: map[string]int{}, units: map[string]*vcbUnit{}, byName: map[string]*vcbUnit{},
		arrived: map[string]bool{}, seen: map[string]bool{}, cbSeen: map[string]bool{}, unmanaged: map[string]bool{}, rec: rec}
	for i, st := range c.Sched {
		s.pos[st[0]+"/"+st[1]] = i
	}
	s.done = make([]bool, len(c.Sched))
	for i := range c.Units {
		u := &c.Units[i]
		s.units[u.U] = u
		s.byName[u.Name] = u
	}
	return s
}

func (s *vcbSeq) bcast() {
	close(s.ch)
	s.ch = make(chan struct{})
}

// caller holds mu
func (s *vcbSeq) completeL(key string) {
	if i, ok := s.pos[key]; ok && !s.done[i] {
		s.done[i] = true
		s.bcast()
	}
}

func (s *vcbSeq) siblingsArrivedL(u *vcbUnit) bool {
	for _, v := range s.units {
		if v.Parent == u.Parent && v.Pred == "" && v.Host == "" && !s.arrived[v.U] {
			return false
		}
	}
	return true
}

// caller holds mu: unit u reached its first gate (its handler list has been initialised)
func (s *vcbSeq) arriveL(u *vcbUnit) {
	if s.arrived[u.U] {
		return
	}
	s.arrived[u.U] = true
	if p, ok := s.units[u.Parent]; ok && p.Parent != "" {
		// a child can only be here if its graph unit is past its own initialisation (an unmanaged graph unit has no gate of its own)
		s.arriveL(p)
		if !s.seen[p.U+"/startR"] && !s.unmanaged[p.U] {
			s.unmanaged[p.U] = true
			s.completeL(p.U + "/startR")
			s.completeL(p.U + "/endR")
		}
		if s.siblingsArrivedL(u) {
			s.completeL(p.U + "/startR")
		}
	}
	s.bcast()
}

func (s *vcbSeq) readyL(key string, u *vcbUnit, barrier bool) bool {
	if s.broken {
		return true
	}
	if barrier && u.Pred == "" && !s.siblingsArrivedL(u) {
		return false
	}
	i, ok := s.pos[key]
	if !ok {
		return true
	}
	for j := 0; j < i; j++ {
		if !s.done[j] {
			return false
		}
	}
	return true
}

func (s *vcbSeq) waitTurn(key string, u *vcbUnit, barrier bool) {
	d := time.Second
	if atomic.LoadInt32(&vcbTimeouts) > 3 {
		d = 40 * time.Millisecond
	}
	deadline := time.After(d)
	for {
		s.mu.Lock()
		if s.readyL(key, u, barrier) {
			s.mu.Unlock()
			break
		}
		ch := s.ch
		s.mu.Unlock()
		select {
		case <-ch:
		case <-deadline:
			s.mu.Lock()
			s.broken = true
			s.bcast()
			s.mu.Unlock()
			atomic.AddInt32(&vcbTimeouts, 1)
			s.rec.log("note", map[string]any{"msg": "schedule not forced: timeout waiting for " + key})
		}
	}
	// let the trailing un-gateable steps (init / append of On of units that were just released) settle
	time.Sleep(15 * time.Microsecond)
}

// a scan of the handler list of unit `name` for a start (class "startR") or end (class "endR") event begins
func (s *vcbSeq) gate(name, class string) {
	u, ok := s.byName[name]
	if !ok || u.Parent == "" || u.Host != "" {
		return
	}
	key := u.U + "/" + class
	s.mu.Lock()
	if s.seen[key] {
		s.mu.Unlock()
		return
	}
	s.seen[key] = true
	if class == "startR" {
		s.arriveL(u)
	} else {
		// the unit's thread is past its start scan (a graph unit whose run ends inside its START step has no child that says so)
		s.completeL(u.U + "/startR")
		s.completeL(u.U + "/endW")
	}
	s.mu.Unlock()
	s.waitTurn(key, u, class == "startR")
}

// a handler callback of unit `name` is running: the scan is over
func (s *vcbSeq) callback(name, class string) {
	u, ok := s.byName[name]
	if !ok || u.Parent == "" {
		return
	}
	s.mu.Lock()
	if !s.cbSeen[u.U+"/"+class] {
		s.cbSeen[u.U+"/"+class] = true
		if class == "endR" {
			s.completeL(u.U + "/endR")
		}
	}
	s.mu.Unlock()
}

func (s *vcbSeq) bodyEnter(id string) {
	u := s.units[id]
	s.mu.Lock()
	s.arriveL(u)
	if !s.seen[id+"/startR"] {
		s.unmanaged[id] = true
		s.completeL(id + "/endR")
	}
	s.completeL(id + "/startR")
	s.mu.Unlock()
}

func (s *vcbSeq) bodyLeave(id string) {
	u := s.units[id]
	s.waitTurn(id+"/endW", u, false)
	s.mu.Lock()
	if s.unmanaged[id] {
		s.completeL(id + "/endW")
	}
	s.mu.Unlock()
}

// ---------------------------------------------------------------------------------------------- recording handlers

type vcbRun struct {
	c   *vcbCase
	rec *vcbRec
	seq *vcbSeq
	wg  sync.WaitGroup
}

type vcbHandler struct {
	id  string
	pol string
	run *vcbRun
}

func (h *vcbHandler) ev(t string, info *callbacks.RunInfo, pl string, strm bool) {
	name, comp, typ := "<nil>", "", ""
	if info != nil {
		name, comp, typ = info.Name, string(info.Component), info.Type
	}
	class := "endR"
	if t == "start" || t == "start_s" {
		class = "startR"
	}
	h.run.seq.callback(name, class)
	h.run.rec.log("cb", map[string]any{"h": h.id, "t": t, "name": name, "comp": comp, "typ": typ, "pl": pl, "strm": strm})
}

func vcbDrain(h *vcbHandler, info *callbacks.RunInfo, t string, recv func() (any, error), closeFn func()) {
	name := "<nil>"
	if info != nil {
		name = info.Name
	}
	h.run.wg.Add(1)
	go func() {
		defer h.run.wg.Done()
		defer func() {
			// closing or reading a handler's own copy must never panic
			if p := recover(); p != nil {
				h.run.rec.log("crash", map[string]any{"msg": fmt.Sprintf("handler %s: using its stream copy panicked: %v", h.id, p)})
			}
		}()
		defer closeFn()
		if h.pol == "close" {
			h.run.rec.log("cbdata", map[string]any{"h": h.id, "name": name, "t": t, "pl": "", "full": false})
			return
		}
		var acc any
		n := 0
		for {
			v, err := recv()
			if err == io.EOF {
				break
			}
			if err != nil {
				h.run.rec.log("cbdata", map[string]any{"h": h.id, "name": name, "t": t, "pl": "recv-error:" + err.Error(), "full": true})
				return
			}
			n++
			switch x := v.(type) {
			case string:
				if acc == nil {
					acc = ""
				}
				acc = acc.(string) + x
			case map[string]any:
				if acc == nil {
					acc = map[string]any{}
				}
				m := acc.(map[string]any)
				flat := map[string]string{}
				vcbFlatten(x, flat)
				for k, e := range flat {
					prev, _ := m[k].(string)
					m[k] = prev + e
				}
			case *schema.Message:
				if acc == nil {
					acc = ""
				}
				if x != nil {
					acc = acc.(string) + x.Content
				}
			case []*schema.Message:
				if acc == nil {
					acc = map[string]any{}
				}
				vcbMergeMsgs(acc.(map[string]any), x)
			default:
				acc = fmt.Sprintf("%T:%v", v, v)
			}
			if h.pol == "half" && n == 1 {
				h.run.rec.log("cbdata", map[string]any{"h": h.id, "name": name, "t": t, "pl": vcbDigest(acc), "full": false})
				return
			}
			if h.pol == "slow" {
				time.Sleep(30 * time.Microsecond)
			}
		}
		if acc == nil {
			acc = ""
		}
		h.run.rec.log("cbdata", map[string]any{"h": h.id, "name": name, "t": t, "pl": vcbDigest(acc), "full": true})
	}()
}

func (h *vcbHandler) OnStart(ctx context.Context, info *callbacks.RunInfo, input callbacks.CallbackInput) context.Context {
	h.ev("start", info, vcbDigest(input), false)
	return ctx
}

func (h *vcbHandler) OnEnd(ctx context.Context, info *callbacks.RunInfo, output callbacks.CallbackOutput) context.Context {
	h.ev("end", info, vcbDigest(output), false)
	return ctx
}

func (h *vcbHandler) OnError(ctx context.Context, info *callbacks.RunInfo, err error) context.Context {
	h.ev("error", info, "err", false)
	return ctx
}

func (h *vcbHandler) OnStartWithStreamInput(ctx context.Context, info *callbacks.RunInfo, input *schema.StreamReader[callbacks.CallbackInput]) context.Context {
	h.ev("start_s", info, "", true)
	vcbDrain(h, info, "start", func() (any, error) { return input.Recv() }, input.Close)
	return ctx
}

func (h *vcbHandler) OnEndWithStreamOutput(ctx context.Context, info *callbacks.RunInfo, output *schema.StreamReader[callbacks.CallbackOutput]) context.Context {
	h.ev("end_s", info, "", true)
	vcbDrain(h, info, "end", func() (any, error) { return output.Recv() }, output.Close)
	return ctx
}

// gating handler: additionally implements callbacks.TimingChecker; every timing is needed, and the first Needed() call of a
// scan is the point where the harness holds the scan back until the schedule says so.
type vcbGatingHandler struct{ vcbHandler }

func (h *vcbGatingHandler) Needed(_ context.Context, info *callbacks.RunInfo, timing callbacks.CallbackTiming) bool {
	if info != nil {
		class := "endR"
		if timing == callbacks.TimingOnStart || timing == callbacks.TimingOnStartWithStreamInput {
			class = "startR"
		}
		h.run.seq.gate(info.Name, class)
	}
	return true
}

func (r *vcbRun) newHandler(spec vcbHandlerSpec) callbacks.Handler {
	pol := r.c.Pol[spec.ID]
	if pol == "" {
		pol = "read"
	}
	base := vcbHandler{id: spec.ID, pol: pol, run: r}
	if r.c.HB[spec.ID] {
		b := &base
		return callbacks.NewHandlerBuilder().
			OnStartFn(b.OnStart).OnEndFn(b.OnEnd).OnErrorFn(b.OnError).
			OnStartWithStreamInputFn(b.OnStartWithStreamInput).OnEndWithStreamOutputFn(b.OnEndWithStreamOutput).Build()
	}
	return &vcbGatingHandler{base}
}

// ---------------------------------------------------------------------------------------------- graph construction

var errVcbInjected = errors.New("verif injected failure")

// the body of a leaf unit (node body / tool call): gated, logs what it consumed and produced
func (r *vcbRun) produce(ctx context.Context, id, in string) (string, error) {
	fail := r.c.Fail == id
	r.seq.bodyEnter(id)
	r.rec.log("enter", map[string]any{"u": id, "in": in})
	out := id + "(" + in + ")"
	// units hosted by this body: a component run under a DETACHED callback scope, the way user code opens one
	for i := range r.c.Units {
		h := &r.c.Units[i]
		if h.Host != id {
			continue
		}
		dctx := callbacks.InitCallbacks(ctx, &callbacks.RunInfo{Name: h.Name, Type: h.Typ, Component: components.Component(h.Comp)})
		din := "d:" + in
		dout := h.U + "(" + din + ")"
		dctx = callbacks.OnStart(dctx, din)
		r.rec.log("enter", map[string]any{"u": h.U, "in": din})
		r.rec.log("exit", map[string]any{"u": h.U, "out": dout, "fail": false})
		callbacks.OnEnd(dctx, dout)
	}
	r.seq.bodyLeave(id)
	r.rec.log("exit", map[string]any{"u": id, "out": out, "fail": fail})
	if fail {
		return "", errVcbInjected
	}
	return out, nil
}

// tools of the ToolsNode shape: own tool types; the ToolsNode wraps them with the callback aspect (they do not implement Checker),
// with run info {tool name, GetType(), Tool} installed by callbacks.ReuseHandlers per tool call
type vcbTool struct {
	r *vcbRun
	u *vcbUnit
}

func (t *vcbTool) Info(context.Context) (*schema.ToolInfo, error) {
	return &schema.ToolInfo{Name: t.u.Name, Desc: "verif tool " + t.u.U}, nil
}
func (t *vcbTool) GetType() string { return t.u.Typ }

type vcbInvTool struct{ vcbTool }

func (t *vcbInvTool) InvokableRun(ctx context.Context, args string, _ ...tool.Option) (string, error) {
	return t.r.produce(ctx, t.u.U, args)
}

type vcbStrTool struct{ vcbTool }

func (t *vcbStrTool) StreamableRun(ctx context.Context, args string, _ ...tool.Option) (*schema.StreamReader[string], error) {
	out, err := t.r.produce(ctx, t.u.U, args)
	if err != nil {
		return nil, err
	}
	n := len(t.u.U) + 1
	return schema.StreamReaderFromArray([]string{out[:n], out[n:]}), nil
}

// shape tools: START -> ToolsNode(tn) -> END; the input message asks for one call of every tool (tool-call id = unit id)
func (r *vcbRun) compileToolsShape() (func(opts []Option) (map[string]any, error), error) {
	c := r.c
	var tnUnit *vcbUnit
	var tools []tool.BaseTool
	var calls []schema.ToolCall
	for i := range c.Units {
		u := &c.Units[i]
		if u.Comp == "ToolsNode" {
			tnUnit = u
		}
		if u.Comp == "Tool" {
			if c.Kinds[u.U] == "s" || c.Kinds[u.U] == "t" {
				tools = append(tools, &vcbStrTool{vcbTool{r: r, u: u}})
			} else {
				tools = append(tools, &vcbInvTool{vcbTool{r: r, u: u}})
			}
			calls = append(calls, schema.ToolCall{ID: u.U, Function: schema.FunctionCall{Name: u.Name, Arguments: "x"}})
		}
	}
	if tnUnit == nil {
		return nil, fmt.Errorf("no ToolsNode unit")
	}
	tn, err := NewToolNode(context.Background(), &ToolsNodeConfig{Tools: tools})
	if err != nil {
		return nil, err
	}
	g := NewGraph[*schema.Message, []*schema.Message]()
	key := tnUnit.Path[len(tnUnit.Path)-1]
	if err := g.AddToolsNode(key, tn, WithNodeName(tnUnit.Name)); err != nil {
		return nil, err
	}
	if err := g.AddEdge(START, key); err != nil {
		return nil, err
	}
	if err := g.AddEdge(key, END); err != nil {
		return nil, err
	}
	run, err := g.Compile(context.Background(), WithGraphName("N_top"))
	if err != nil {
		return nil, err
	}
	return func(opts []Option) (map[string]any, error) {
		in := &schema.Message{Role: schema.Assistant, Content: "x", ToolCalls: calls}
		res := map[string]any{}
		if c.Mode == "stream" {
			sr, err := run.Stream(context.Background(), in, opts...)
			if err != nil {
				return nil, err
			}
			defer sr.Close()
			for {
				chunk, e := sr.Recv()
				if e == io.EOF {
					return res, nil
				}
				if e != nil {
					return nil, e
				}
				vcbMergeMsgs(res, chunk)
			}
		}
		out, err := run.Invoke(context.Background(), in, opts...)
		if err != nil {
			return nil, err
		}
		vcbMergeMsgs(res, out)
		return res, nil
	}, nil
}

func (r *vcbRun) leafLambda(u *vcbUnit) *Lambda {
	id := u.U
	produce := func(ctx context.Context, in string) (string, error) { return r.produce(ctx, id, in) }
	typ := WithLambdaType(u.Typ)
	switch r.c.Kinds[id] {
	case "s":
		return StreamableLambda(func(ctx context.Context, in string) (*schema.StreamReader[string], error) {
			out, err := produce(ctx, in)
			if err != nil {
				return nil, err
			}
			return schema.StreamReaderFromArray([]string{out[:len(id)+1], out[len(id)+1 : len(out)-1], ")"}), nil
		}, typ)
	case "t":
		return TransformableLambda(func(ctx context.Context, sr *schema.StreamReader[string]) (*schema.StreamReader[string], error) {
			in := ""
			for {
				x, err := sr.Recv()
				if err == io.EOF {
					break
				}
				if err != nil {
					sr.Close()
					return nil, err
				}
				in += x
			}
			sr.Close()
			out, err := produce(ctx, in)
			if err != nil {
				return nil, err
			}
			rd, wr := schema.Pipe[string](0)
			go func() {
				defer wr.Close()
				for _, part := range []string{out[:len(id)+1], out[len(id)+1:]} {
					if wr.Send(part, nil) {
						return
					}
				}
			}()
			return rd, nil
		}, typ)
	}
	return InvokableLambda(func(ctx context.Context, in string) (string, error) { return produce(ctx, in) }, typ)
}

func vcbIn(xs []string, x string) bool {
	for _, e := range xs {
		if e == x {
			return true
		}
	}
	return false
}

// builds the graph of the children of graph unit `gid`
func (r *vcbRun) buildGraph(gid string) (*Graph[string, map[string]any], error) {
	g := NewGraph[string, map[string]any]()
	key := func(u *vcbUnit) string { return u.Path[len(u.Path)-1] }
	var kids []*vcbUnit
	for i := range r.c.Units {
		if r.c.Units[i].Parent == gid && r.c.Units[i].Host == "" {
			kids = append(kids, &r.c.Units[i])
		}
	}
	hasSucc := map[string]bool{}
	for _, u := range kids {
		if u.Pred != "" {
			hasSucc[u.Pred] = true
		}
	}
	byID := map[string]*vcbUnit{}
	for _, u := range kids {
		byID[u.U] = u
		opts := []GraphAddNodeOpt{WithNodeName(u.Name)}
		if u.Graph {
			sub, err := r.buildGraph(u.U)
			if err != nil {
				return nil, err
			}
			if err := g.AddGraphNode(key(u), sub, opts...); err != nil {
				return nil, err
			}
			continue
		}
		if !hasSucc[u.U] {
			opts = append(opts, WithOutputKey(u.U))
		}
		if err := g.AddLambdaNode(key(u), r.leafLambda(u), opts...); err != nil {
			return nil, err
		}
	}
	for _, u := range kids {
		from := START
		if u.Pred != "" {
			from = key(byID[u.Pred])
		}
		if err := g.AddEdge(from, key(u)); err != nil {
			return nil, err
		}
		if !hasSucc[u.U] {
			if err := g.AddEdge(key(u), END); err != nil {
				return nil, err
			}
		}
	}
	return g, nil
}

func (r *vcbRun) emitCase() {
	c := r.c
	r.rec.log("case", map[string]any{"id": c.ID, "shape": c.Shape, "handlers": c.Handlers, "units": c.Units, "ends": c.Ends,
		"split": c.Split, "ng": c.NG, "fail": c.Fail, "badopt": c.BadOpt, "reject": c.Reject, "rejecttop": c.RejectTop, "bsel": c.BSel, "bstream": c.BStream, "sched": c.Sched, "mode": c.Mode,
		"kinds": c.Kinds, "pol": c.Pol, "hb": c.HB})
}

type vcbStore struct {
	mu sync.Mutex
	m  map[string][]byte
}

func (s *vcbStore) Get(_ context.Context, id string) ([]byte, bool, error) {
	s.mu.Lock()
	defer s.mu.Unlock()
	v, ok := s.m[id]
	return v, ok, nil
}

func (s *vcbStore) Set(_ context.Context, id string, v []byte) error {
	s.mu.Lock()
	defer s.mu.Unlock()
	s.m[id] = append([]byte{}, v...)
	return nil
}

// shapes sbr / nsbr: graph `gid` = one leaf + a branch on START with the targets {leaf, END}; what the branch does is c.BSel.
// A run of this graph can end inside the initial START step of runner.run (END selected directly, failing condition,
// interrupt-before hit on the selected leaf).
func (r *vcbRun) buildBranchGraph(gid string) (*Graph[string, string], string, error) {
	g := NewGraph[string, string]()
	var leaf *vcbUnit
	for i := range r.c.Units {
		if r.c.Units[i].Parent == gid && !r.c.Units[i].Graph {
			leaf = &r.c.Units[i]
		}
	}
	if leaf == nil {
		return nil, "", fmt.Errorf("no leaf under %s", gid)
	}
	key := leaf.Path[len(leaf.Path)-1]
	if err := g.AddLambdaNode(key, r.leafLambda(leaf), WithNodeName(leaf.Name)); err != nil {
		return nil, "", err
	}
	decide := func(in string) (string, error) {
		if gid != "top" {
			r.rec.log("enter", map[string]any{"u": gid, "in": in})
		}
		switch r.c.BSel {
		case "end":
			return END, nil
		case "fail":
			if gid != "top" {
				r.rec.log("exit", map[string]any{"u": gid, "out": "", "fail": true})
			}
			return "", errVcbInjected
		}
		return key, nil
	}
	ends := map[string]bool{key: true, END: true}
	var br *GraphBranch
	if r.c.BStream {
		br = NewStreamGraphBranch(func(ctx context.Context, sr *schema.StreamReader[string]) (string, error) {
			in := ""
			for {
				x, err := sr.Recv()
				if err == io.EOF {
					break
				}
				if err != nil {
					sr.Close()
					return "", err
				}
				in += x
			}
			sr.Close()
			return decide(in)
		}, ends)
	} else {
		br = NewGraphBranch(func(ctx context.Context, in string) (string, error) { return decide(in) }, ends)
	}
	if err := g.AddBranch(START, br); err != nil {
		return nil, "", err
	}
	if err := g.AddEdge(key, END); err != nil {
		return nil, "", err
	}
	return g, key, nil
}

// compiles the graph of shapes sbr / nsbr and returns a function that performs the call
func (r *vcbRun) compileBranchShape() (func(opts []Option) (map[string]any, error), error) {
	c := r.c
	var g *Graph[string, string]
	var copts []GraphCompileOption
	var callOpts []Option
	copts = append(copts, WithGraphName("N_top"))
	if c.Shape == "sbr" {
		bg, key, err := r.buildBranchGraph("top")
		if err != nil {
			return nil, err
		}
		g = bg
		if c.BSel == "int" {
			copts = append(copts, WithCheckPointStore(&vcbStore{m: map[string][]byte{}}), WithInterruptBeforeNodes([]string{key}))
			callOpts = append(callOpts, WithCheckPointID("cp-"+c.ID))
		}
	} else {
		var sub *vcbUnit
		for i := range c.Units {
			if c.Units[i].Graph && c.Units[i].Parent == "top" {
				sub = &c.Units[i]
			}
		}
		if sub == nil {
			return nil, fmt.Errorf("no nested graph unit")
		}
		bg, _, err := r.buildBranchGraph(sub.U)
		if err != nil {
			return nil, err
		}
		g = NewGraph[string, string]()
		skey := sub.Path[len(sub.Path)-1]
		if err := g.AddGraphNode(skey, bg, WithNodeName(sub.Name)); err != nil {
			return nil, err
		}
		if err := g.AddEdge(START, skey); err != nil {
			return nil, err
		}
		if err := g.AddEdge(skey, END); err != nil {
			return nil, err
		}
	}
	run, err := g.Compile(context.Background(), copts...)
	if err != nil {
		return nil, err
	}
	return func(opts []Option) (map[string]any, error) {
		opts = append(append([]Option{}, opts...), callOpts...)
		var out string
		var err error
		if c.Mode == "stream" {
			var sr *schema.StreamReader[string]
			sr, err = run.Stream(context.Background(), "x", opts...)
			if err == nil {
				for {
					chunk, e := sr.Recv()
					if e == io.EOF {
						break
					}
					if e != nil {
						err = e
						break
					}
					out += chunk
				}
				sr.Close()
			}
		} else {
			out, err = run.Invoke(context.Background(), "x", opts...)
		}
		if err != nil {
			return nil, err
		}
		// the result is a plain string: present it as {the unit that feeds END: value}; "" key when END was selected by START itself
		k := ""
		if len(c.Ends) == 1 {
			k = c.Ends[0]
		}
		return map[string]any{k: out}, nil
	}, nil
}

func (r *vcbRun) runCase() {
	c := r.c
	defer r.rec.log("done", map[string]any{})
	note := func(msg string) { r.rec.log("note", map[string]any{"msg": msg}) }

	var err error
	var call func(opts []Option) (map[string]any, error)
	if c.Shape == "sbr" || c.Shape == "nsbr" {
		call, err = r.compileBranchShape()
		if err != nil {
			note("BUILD-FAILED: " + err.Error())
			return
		}
	} else if c.Shape == "tools" {
		call, err = r.compileToolsShape()
		if err != nil {
			note("BUILD-FAILED: " + err.Error())
			return
		}
	} else {
		g, berr := r.buildGraph("top")
		if berr != nil {
			note("BUILD-FAILED: " + berr.Error())
			return
		}
		run, cerr := g.Compile(context.Background(), WithGraphName("N_top"))
		if cerr != nil {
			note("BUILD-FAILED: compile: " + cerr.Error())
			return
		}
		call = func(opts []Option) (map[string]any, error) {
			// transform / collect: the caller hands over an array-backed input stream of which it has already consumed the first
			// chunk; what the graph (and every handler copy of its input) consumes is the rest, "x"
			partly := func() *schema.StreamReader[string] {
				in := schema.StreamReaderFromArray([]string{"HEADER", "x"})
				_, _ = in.Recv()
				return in
			}
			if c.Mode == "collect" {
				return run.Collect(context.Background(), partly(), opts...)
			}
			if c.Mode != "stream" && c.Mode != "transform" {
				return run.Invoke(context.Background(), "x", opts...)
			}
			var sr *schema.StreamReader[map[string]any]
			var e error
			if c.Mode == "transform" {
				sr, e = run.Transform(context.Background(), partly(), opts...)
			} else {
				sr, e = run.Stream(context.Background(), "x", opts...)
			}
			if e != nil {
				return nil, e
			}
			defer sr.Close()
			res := map[string]any{}
			for {
				chunk, e := sr.Recv()
				if e == io.EOF {
					return res, nil
				}
				if e != nil {
					return nil, e
				}
				flat := map[string]string{}
				vcbFlatten(chunk, flat)
				for k, v := range flat {
					prev, _ := res[k].(string)
					res[k] = prev + v
				}
			}
		}
	}
	// handlers
	var globals, undes []callbacks.Handler
	var opts []Option
	for _, hs := range c.Handlers {
		h := r.newHandler(hs)
		switch hs.Kind {
		case "global":
			globals = append(globals, h)
		case "undes":
			undes = append(undes, h)
		case "des":
			if hs.Derive != nil {
				// built the way user code derives options from a shared base VALUE
				base := WithCallbacks(h)
				for _, p := range hs.Derive.Base {
					base = vcbDesignate(base, p)
				}
				first := vcbDesignate(base, hs.Derive.X)
				second := vcbDesignate(base, hs.Derive.Y)
				if hs.Derive.Use == "first" {
					opts = append(opts, first)
				} else {
					opts = append(opts, second)
				}
				continue
			}
			paths := make([]*NodePath, 0, len(hs.Paths))
			repeated := false
			for i, p := range hs.Paths {
				paths = append(paths, NewNodePath(p...))
				for _, q := range hs.Paths[:i] {
					if strings.Join(p, "/") == strings.Join(q, "/") {
						repeated = true
					}
				}
			}
			if repeated {
				// a list that names a node more than once arises from accumulating designations: one call per entry, a
				// single-element path by DesignateNode, the others by DesignateNodeWithPath
				o := WithCallbacks(h)
				for i, p := range hs.Paths {
					if len(p) == 1 && i == 0 {
						o = o.DesignateNode(p[0])
					} else {
						o = o.DesignateNodeWithPath(NewNodePath(p...))
					}
				}
				opts = append(opts, o)
			} else {
				opts = append(opts, WithCallbacks(h).DesignateNodeWithPath(paths...))
			}
		}
	}
	// undesignated handlers split over several WithCallbacks options, in front of the designated ones
	var uopts []Option
	k := 0
	for _, n := range c.Split {
		uopts = append(uopts, WithCallbacks(undes[k:k+n:k+n]...))
		k += n
	}
	opts = append(uopts, opts...)
	// global handlers: process-wide state, restored afterwards
	callbacks.InitCallbackHandlers(nil)
	for _, gh := range globals {
		callbacks.AppendGlobalHandlers(gh)
	}
	defer callbacks.InitCallbackHandlers(nil)

	r.rec.log("enter", map[string]any{"u": "top", "in": "x"})
	var res map[string]any
	done := make(chan struct{})
	go func() {
		defer close(done)
		defer func() {
			if p := recover(); p != nil {
				err = fmt.Errorf("panic: %v", p)
			}
		}()
		res, err = call(opts)
	}()
	select {
	case <-done:
	case <-time.After(20 * time.Second):
		note("RUN-HANGS")
		return
	}
	wdone := make(chan struct{})
	go func() { r.wg.Wait(); close(wdone) }()
	select {
	case <-wdone:
	case <-time.After(5 * time.Second):
		note("HANDLER-COPY-NEVER-ENDS")
	}
	outs := map[string]string{}
	if err == nil {
		vcbFlatten(res, outs)
	}
	out := vcbDigest(res)
	if c.Shape == "sbr" || c.Shape == "nsbr" {
		// string-valued graphs: the handlers see the plain string
		out = ""
		for _, v := range outs {
			out = v
		}
		delete(outs, "")
	}
	r.rec.log("ret", map[string]any{"err": err != nil, "out": out, "outs": outs})
}

func TestVerifCb(t *testing.T) {
	in, out := os.Getenv("VERIF_CASES"), os.Getenv("VERIF_OUT")
	if in == "" || out == "" {
		t.Skip("VERIF_CASES / VERIF_OUT not set")
	}
	f, err := os.Open(in)
	if err != nil {
		t.Fatal(err)
	}
	defer f.Close()
	of, err := os.Create(out)
	if err != nil {
		t.Fatal(err)
	}
	w := bufio.NewWriterSize(of, 1<<20)
	rd := bufio.NewReaderSize(f, 1<<20)
	n := 0
	for {
		line, rerr := rd.ReadBytes('\n')
		if len(strings.TrimSpace(string(line))) > 0 {
			c := &vcbCase{}
			if e := json.Unmarshal(line, c); e != nil {
				t.Fatalf("bad case line: %v: %s", e, line)
			}
			if c.Kinds == nil {
				c.Kinds = map[string]string{}
			}
			if c.Pol == nil {
				c.Pol = map[string]string{}
			}
			if c.HB == nil {
				c.HB = map[string]bool{}
			}
			rec := &vcbRec{}
			r := &vcbRun{c: c, rec: rec}
			r.seq = newVcbSeq(c, rec)
			// a panic inside a library goroutine kills the process: the case line of the running case must be on disk before it runs
			r.emitCase()
			w.WriteString(rec.lines[0])
			w.WriteByte('\n')
			w.Flush()
			r.runCase()
			rec.mu.Lock()
			for _, l := range rec.lines[1:] {
				w.WriteString(l)
				w.WriteByte('\n')
			}
			rec.mu.Unlock()
			w.Flush()
			n++
		}
		if rerr != nil {
			break
		}
	}
	if err := w.Flush(); err != nil {
		t.Fatal(err)
	}
	of.Close()
	fmt.Printf("VERIF-CB cases=%d schedule_timeouts=%d\n", n, atomic.LoadInt32(&vcbTimeouts))
}
