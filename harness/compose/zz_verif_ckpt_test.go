//go:build verif

package compose

// C12, clause "a checkpoint read back from a store restores the channels ... that were written".
//
// (1) every channel state enumerated by TLC from spec/CkptGen.tla (VERIF_CASES) is built as a real dagChannel /
//     pregelChannel, put into a real checkpoint, written through the real checkPointer into a byte-only store, read back,
//     and loaded into a fresh channel made by the runner's channel builder (channel.load);
// (2) a real DAG run with a branch that skips a node is interrupted, its checkpoint bytes are taken from the byte-only
//     store, decoded, and every stored channel is loaded into a fresh channel the same way.
// Written and restored channels are rendered by the same walk (VERIF_OUT).  spec/CkptObs.tla decides.

import (
	"bufio"
	"context"
	"encoding/json"
	"fmt"
	"os"
	"sort"
	"testing"
)

type vfCkKV struct {
	K string `json:"k"`
	V any    `json:"v"`
}
type vfCkChan struct {
	Kind    string   `json:"kind"`
	Skipped bool     `json:"skipped"`
	Ctrl    []vfCkKV `json:"ctrl"`
	Data    []vfCkKV `json:"data"`
	Vals    []vfCkKV `json:"vals"`
}
type vfCkLine struct {
	Ev       string   `json:"ev"`
	ID       string   `json:"id"`
	Written  vfCkChan `json:"written"`
	Restored vfCkChan `json:"restored"`
	Outcome  string   `json:"outcome"`
	Msg      string   `json:"msg"`
}

type vfCkStore struct{ m map[string][]byte }

func (s *vfCkStore) Get(_ context.Context, id string) ([]byte, bool, error) {
	v, ok := s.m[id]
	return v, ok, nil
}
func (s *vfCkStore) Set(_ context.Context, id string, cp []byte) error {
	s.m[id] = append([]byte(nil), cp...)
	return nil
}

func vfCkSorted(keys []string) []string { sort.Strings(keys); return keys }

func vfCkRender(c channel) vfCkChan {
	r := vfCkChan{Ctrl: []vfCkKV{}, Data: []vfCkKV{}, Vals: []vfCkKV{}}
	vals := func(m map[string]any) {
		ks := []string{}
		for k := range m {
			ks = append(ks, k)
		}
		for _, k := range vfCkSorted(ks) {
			r.Vals = append(r.Vals, vfCkKV{k, fmt.Sprint(m[k])})
		}
	}
	switch ch := c.(type) {
	case *dagChannel:
		r.Kind, r.Skipped = "dag", ch.Skipped
		ks := []string{}
		for k := range ch.ControlPredecessors {
			ks = append(ks, k)
		}
		for _, k := range vfCkSorted(ks) {
			r.Ctrl = append(r.Ctrl, vfCkKV{k, int(ch.ControlPredecessors[k])})
		}
		ks = []string{}
		for k := range ch.DataPredecessors {
			ks = append(ks, k)
		}
		for _, k := range vfCkSorted(ks) {
			v := "f"
			if ch.DataPredecessors[k] {
				v = "t"
			}
			r.Data = append(r.Data, vfCkKV{k, v})
		}
		vals(ch.Values)
	case *pregelChannel:
		r.Kind = "pregel"
		vals(ch.Values)
	default:
		r.Kind = fmt.Sprintf("%T", c)
	}
	return r
}

func vfCkBuild(a vfCkChan) channel {
	values := map[string]any{}
	for _, kv := range a.Vals {
		values[kv.K] = kv.V.(string)
	}
	if a.Kind == "pregel" {
		return &pregelChannel{Values: values}
	}
	ch := &dagChannel{ControlPredecessors: map[string]dependencyState{}, DataPredecessors: map[string]bool{}, Skipped: a.Skipped, Values: values}
	for _, kv := range a.Ctrl {
		ch.ControlPredecessors[kv.K] = dependencyState(int(kv.V.(float64)))
	}
	for _, kv := range a.Data {
		ch.DataPredecessors[kv.K] = kv.V.(string) == "t"
	}
	return ch
}

func vfCkFresh(c channel) channel {
	if _, ok := c.(*pregelChannel); ok {
		return pregelChannelBuilder(nil, nil, nil, nil)
	}
	return dagChannelBuilder(nil, nil, nil, nil)
}

// through the store: checkPointer.set (Marshal) -> bytes -> checkPointer.get (Unmarshal) -> fresh.load
func vfCkRestore(id string, cp *checkpoint, key string) (restored channel, outcome, msg string) {
	defer func() {
		if r := recover(); r != nil {
			outcome, msg = "panic", fmt.Sprint(r)
		}
	}()
	ctx := context.Background()
	store := &vfCkStore{m: map[string][]byte{}}
	cpr := newCheckPointer(nil, nil, nil, store)
	if err := cpr.set(ctx, id, cp); err != nil {
		return nil, "err", err.Error()
	}
	back, ok, err := cpr.get(ctx, id)
	if err != nil || !ok {
		return nil, "err", fmt.Sprint("get: ", ok, err)
	}
	stored, ok := back.Channels[key]
	if !ok {
		return nil, "err", "channel missing from the restored checkpoint"
	}
	fresh := vfCkFresh(cp.Channels[key])
	if err := fresh.load(stored); err != nil {
		return nil, "err", err.Error()
	}
	return fresh, "ok", ""
}

func TestVerifCkpt(t *testing.T) {
	casesPath, outPath := os.Getenv("VERIF_CASES"), os.Getenv("VERIF_OUT")
	if casesPath == "" || outPath == "" {
		t.Skip("VERIF_CASES / VERIF_OUT not set")
	}
	in, err := os.Open(casesPath)
	if err != nil {
		t.Fatal(err)
	}
	defer in.Close()
	outf, err := os.Create(outPath)
	if err != nil {
		t.Fatal(err)
	}
	defer outf.Close()
	w := bufio.NewWriter(outf)
	defer w.Flush()
	enc := json.NewEncoder(w)
	emit := func(id string, written channel, restored channel, outcome, msg string) {
		ln := vfCkLine{Ev: "ckpt", ID: id, Written: vfCkRender(written), Outcome: outcome, Msg: msg}
		if outcome == "ok" {
			ln.Restored = vfCkRender(restored)
		} else {
			ln.Restored = ln.Written
		}
		if err := enc.Encode(ln); err != nil {
			t.Fatal(err)
		}
	}
	sc := bufio.NewScanner(in)
	sc.Buffer(make([]byte, 1<<20), 1<<24)
	for sc.Scan() {
		if len(sc.Bytes()) == 0 {
			continue
		}
		var c struct {
			ID string   `json:"id"`
			Ch vfCkChan `json:"ch"`
		}
		if err := json.Unmarshal(sc.Bytes(), &c); err != nil {
			t.Fatal(err)
		}
		written := vfCkBuild(c.Ch)
		cp := &checkpoint{Channels: map[string]channel{"n": vfCkBuild(c.Ch)}, Inputs: map[string]any{}, SkipPreHandler: map[string]bool{}}
		restored, outcome, msg := vfCkRestore(c.ID, cp, "n")
		emit(c.ID, written, restored, outcome, msg)
	}

	// (2) a real interrupted DAG run:  START -> route -(branch: b)-> a -> END ;  b -> c -> END   (a is skipped)
	ctx := context.Background()
	store := &vfCkStore{m: map[string][]byte{}}
	g := NewGraph[string, string]()
	for _, n := range []string{"route", "a", "b", "c"} {
		name := n
		_ = g.AddLambdaNode(name, InvokableLambda(func(ctx context.Context, in string) (string, error) { return in + name, nil }))
	}
	_ = g.AddEdge(START, "route")
	_ = g.AddEdge("a", END)
	_ = g.AddEdge("b", "c")
	_ = g.AddEdge("c", END)
	_ = g.AddBranch("route", NewGraphBranch(func(ctx context.Context, in string) (string, error) { return "b", nil }, map[string]bool{"a": true, "b": true}))
	r, err := g.Compile(ctx, WithNodeTriggerMode(AllPredecessor), WithCheckPointStore(store), WithInterruptBeforeNodes([]string{"b"}))
	if err != nil {
		t.Fatal(err)
	}
	_, err = r.Invoke(ctx, "x-", WithCheckPointID("cp"))
	if _, ok := ExtractInterruptInfo(err); !ok {
		t.Fatalf("verif: expected an interrupt, got %v", err)
	}
	cpr := newCheckPointer(nil, nil, nil, store)
	back, ok, err := cpr.get(ctx, "cp")
	if err != nil || !ok {
		t.Fatalf("verif: stored checkpoint unreadable: %v %v", ok, err)
	}
	names := []string{}
	for k := range back.Channels {
		names = append(names, k)
	}
	for _, k := range vfCkSorted(names) {
		fresh := vfCkFresh(back.Channels[k])
		if err := fresh.load(back.Channels[k]); err != nil {
			emit("real-dag/"+k, back.Channels[k], nil, "err", err.Error())
			continue
		}
		emit("real-dag/"+k, back.Channels[k], fresh, "ok", "")
	}
}
