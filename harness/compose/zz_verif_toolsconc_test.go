package compose

// Concurrency harness for the tools level of C09: ONE compiled graph START -> ToolsNode -> END is run by VERIF_CALLERS goroutines
// at the same time, mixing Invoke and Stream, for VERIF_ROUNDS rounds.  The tools are stateless: "t" echoes t(args), "tp" panics
// from a deep recursion.  Conversation of (caller, round): an assistant message with nc = 2..3 tool calls (ids c<tag>.<i>,
// arguments <tag>.<i>); in some of them call p > 1 goes to "tp" (the first call runs inline on the caller's goroutine, the others in
// worker goroutines whose panic the node must turn into an error of the run).  One case per (caller, round) with two calls; the
// observations (the returned list, or the error) are validated by TLC against spec/AgentIsoObs.tla.  No expectation is computed
// here.  The Invoke rounds are written out before the Stream rounds start, so that a dying process loses as little as possible.

import (
	"bufio"
	"context"
	"encoding/json"
	"fmt"
	"io"
	"os"
	"regexp"
	"sort"
	"strconv"
	"strings"
	"sync"
	"testing"

	"github.com/cloudwego/eino/components/tool"
	"github.com/cloudwego/eino/schema"
)

var vcTagRe = regexp.MustCompile(`v[0-9]+k[0-9]+r[0-9]+`)

func vcJSON(v any) string {
	b, err := json.Marshal(v)
	if err != nil {
		panic(err)
	}
	return string(b)
}

func vcLine(ev string, kv ...any) string {
	var sb strings.Builder
	sb.WriteString(`{"ev":` + vcJSON(ev))
	for i := 0; i+1 < len(kv); i += 2 {
		sb.WriteString("," + vcJSON(kv[i].(string)) + ":" + vcJSON(kv[i+1]))
	}
	sb.WriteString("}")
	return sb.String()
}

func vcTags(text string) []string {
	seen := map[string]bool{}
	out := []string{}
	for _, t := range vcTagRe.FindAllString(text, -1) {
		if !seen[t] {
			seen[t] = true
			out = append(out, t)
		}
	}
	sort.Strings(out)
	return out
}

type vcTool struct {
	name  string
	panic bool
}

func (t *vcTool) Info(context.Context) (*schema.ToolInfo, error) {
	return &schema.ToolInfo{Name: t.name, Desc: "verif tool"}, nil
}

//go:noinline
func vcDeepPanic(n int, v string) int {
	if n == 0 {
		panic(v)
	}
	return vcDeepPanic(n-1, v) + 1
}

func (t *vcTool) InvokableRun(_ context.Context, args string, _ ...tool.Option) (string, error) {
	if t.panic {
		vcDeepPanic(30000, "vcpanic["+args+"]") // the long unwinding widens the window between the panic and the stored error
	}
	return t.name + "(" + args + ")", nil
}

func vcList(msgs []*schema.Message) []map[string]any {
	out := make([]map[string]any, 0, len(msgs))
	for _, m := range msgs {
		if m == nil {
			out = append(out, map[string]any{"id": "", "role": "", "content": "", "nil": true})
		} else {
			out = append(out, map[string]any{"id": m.ToolCallID, "role": string(m.Role), "content": m.Content, "nil": false})
		}
	}
	return out
}

func vcEnvInt(name string, def int) int {
	if v, err := strconv.Atoi(os.Getenv(name)); err == nil && v > 0 {
		return v
	}
	return def
}

func vcCall(ctx context.Context, run Runnable[*schema.Message, []*schema.Message], mode string, in *schema.Message) (line string) {
	defer func() {
		if p := recover(); p != nil {
			s := fmt.Sprint(p)
			if len(s) > 160 {
				s = s[:160]
			}
			line = vcLine("terror", "panic", true, "escaped", true, "text", "PANIC reached the caller: "+s)
		}
	}()
	fail := func(err error) string {
		s := err.Error()
		p := strings.Contains(s, "panic")
		if len(s) > 160 {
			s = s[:160]
		}
		return vcLine("terror", "panic", p, "escaped", false, "text", s)
	}
	var out []*schema.Message
	if mode == "generate" {
		var err error
		if out, err = run.Invoke(ctx, in); err != nil {
			return fail(err)
		}
	} else {
		sr, err := run.Stream(ctx, in)
		if err != nil {
			return fail(err)
		}
		var frames [][]*schema.Message
		for {
			f, err := sr.Recv()
			if err == io.EOF {
				break
			}
			if err != nil {
				sr.Close()
				return fail(err)
			}
			frames = append(frames, f)
		}
		sr.Close()
		if len(frames) == 0 {
			return vcLine("tresult", "out", []any{}, "tags", []string{})
		}
		if out, err = concatStreamReader(schema.StreamReaderFromArray(frames)); err != nil {
			return fail(err)
		}
	}
	l := vcList(out)
	return vcLine("tresult", "out", l, "tags", vcTags(vcJSON(l)))
}

func TestVerifToolsConc(t *testing.T) {
	outPath := os.Getenv("VERIF_OUT")
	if outPath == "" {
		t.Skip("VERIF_OUT not set")
	}
	callers, rounds := vcEnvInt("VERIF_CALLERS", 4), vcEnvInt("VERIF_ROUNDS", 12)
	ctx := context.Background()
	tn, err := NewToolNode(ctx, &ToolsNodeConfig{Tools: []tool.BaseTool{&vcTool{"t", false}, &vcTool{"tp", true}}})
	if err != nil {
		t.Fatal(err)
	}
	g := NewGraph[*schema.Message, []*schema.Message]()
	if err = g.AddToolsNode("tools", tn); err == nil {
		if err = g.AddEdge(START, "tools"); err == nil {
			err = g.AddEdge("tools", END)
		}
	}
	if err != nil {
		t.Fatal(err)
	}
	run, err := g.Compile(ctx)
	if err != nil {
		t.Fatal(err)
	}
	plan := func(k, r int) (tag string, nc, p int) {
		tag = fmt.Sprintf("v8k%dr%d", k, r)
		nc = 2 + (k+r)%2
		if (k+2*r)%3 != 0 {
			p = 2 + (k+r)%(nc-1) // a call other than the first goes to the panicking tool
		}
		return
	}
	message := func(k, r int) *schema.Message {
		tag, nc, p := plan(k, r)
		m := &schema.Message{Role: schema.Assistant}
		for i := 1; i <= nc; i++ {
			name := "t"
			if i == p {
				name = "tp"
			}
			sfx := tag + "." + strconv.Itoa(i)
			m.ToolCalls = append(m.ToolCalls, schema.ToolCall{ID: "c" + sfx, Type: "function", Function: schema.FunctionCall{Name: name, Arguments: sfx}})
		}
		return m
	}
	of, err := os.Create(outPath)
	if err != nil {
		t.Fatal(err)
	}
	w := bufio.NewWriter(of)
	ncases := 0
	// phase 1: all callers Invoke; phase 2: all callers Stream; phase 3: mixed.  Every phase is written out when it is over.
	for phase, modesOf := range []func(k, r int) []string{
		func(k, r int) []string { return []string{"generate"} },
		func(k, r int) []string { return []string{"stream"} },
		func(k, r int) []string {
			if (k+r)%2 == 1 {
				return []string{"stream", "generate"}
			}
			return []string{"generate", "stream"}
		}} {
		results := map[string][]string{}
		var rmu sync.Mutex
		for r := 1; r <= rounds; r++ {
			var start, done sync.WaitGroup
			start.Add(1)
			for k := 1; k <= callers; k++ {
				done.Add(1)
				go func(k, r int) {
					defer done.Done()
					tag, _, _ := plan(k, r)
					var res []string
					start.Wait()
					for _, mode := range modesOf(k, r) {
						res = append(res, vcCall(ctx, run, mode, message(k, r)))
					}
					rmu.Lock()
					results[tag] = res
					rmu.Unlock()
				}(k, r)
			}
			start.Done()
			done.Wait()
		}
		for r := 1; r <= rounds; r++ {
			for k := 1; k <= callers; k++ {
				tag, nc, p := plan(k, r)
				w.WriteString(vcLine("case", "id", fmt.Sprintf("tools/ph%d/%s", phase+1, tag), "agent", "tools", "variant", "tools", "tag", tag, "user", "",
					"n", 0, "d", 0, "w", 0, "modifier", false, "alt", false, "nc", nc, "p", p, "callers", callers) + "\n")
				for ci, mode := range modesOf(k, r) {
					w.WriteString(vcLine("call", "mode", mode) + "\n" + results[tag][ci] + "\n" + vcLine("endcall") + "\n")
				}
				w.WriteString(vcLine("end") + "\n")
				ncases++
			}
		}
		w.Flush()
	}
	of.Close()
	fmt.Printf("VERIF-TOOLSCONC cases=%d callers=%d rounds=%d\n", ncases, callers, rounds)
}
