package compose

// Conformance harness for the callback part of C09 (concurrent runs do not share callback context), judged by the C10 rule
// (spec/CbRule.tla through spec/CbObs.tla) with a PER-RUN PROJECTION.
//
// A case = two OVERLAPPING runs of one compiled runnable (START -> a -> END), each passing its own per-call handler with
// compose.WithCallbacks, started from a context that already carries `ninh` handlers registered one by one (so that the inherited
// handler slice has spare capacity for ninh = 3, 5, 6, 7):
//   mode "ctx"    the parent context is made with callbacks.InitCallbacks(ctx, info, inherited...)
//   mode "outer"  the two runs are made by two parallel nodes of an outer graph that was called with `ninh` separate
//                 compose.WithCallbacks options
// The overlap is forced: run 2 is started while run 1 sits in its node body; run 1 finishes while run 2 sits in its body.
// Every handler logs what it sees; an event is attributed to a run by the payload (the call's tag travels in the value).
// For every run the harness writes one CbObs case: the inherited handlers and the run's OWN handler apply to all its units, the
// OTHER run's handler applies to none of them.  No expectation is computed here.

import (
	"bufio"
	"context"
	"encoding/json"
	"fmt"
	"os"
	"strings"
	"sync"
	"testing"
	"time"

	"github.com/cloudwego/eino/callbacks"
)

type vciCase struct {
	ID   string `json:"id"`
	Mode string `json:"mode"` // ctx | outer
	NInh int    `json:"ninh"`
}

type vciEvent struct {
	h, t, name, comp, typ, pl string
}

type vciLog struct {
	mu     sync.Mutex
	events []vciEvent
	bodies []string // ndjson lines (enter / exit) with a "tag" prefix: tag|line
}

func (l *vciLog) handler(id string) callbacks.Handler {
	ev := func(t string, info *callbacks.RunInfo, pl any) {
		name, comp, typ := "<nil>", "", ""
		if info != nil {
			name, comp, typ = info.Name, string(info.Component), info.Type
		}
		s, _ := pl.(string)
		l.mu.Lock()
		l.events = append(l.events, vciEvent{id, t, name, comp, typ, s})
		l.mu.Unlock()
	}
	return callbacks.NewHandlerBuilder().
		OnStartFn(func(ctx context.Context, info *callbacks.RunInfo, in callbacks.CallbackInput) context.Context {
			ev("start", info, in)
			return ctx
		}).
		OnEndFn(func(ctx context.Context, info *callbacks.RunInfo, out callbacks.CallbackOutput) context.Context {
			ev("end", info, out)
			return ctx
		}).
		OnErrorFn(func(ctx context.Context, info *callbacks.RunInfo, err error) context.Context {
			ev("error", info, "err")
			return ctx
		}).Build()
}

func vciWait(ch chan struct{}) {
	select {
	case <-ch:
	case <-time.After(2 * time.Second):
	}
}

func vciRunCase(c *vciCase, w *bufio.Writer) {
	lg := &vciLog{}
	inBody := map[string]chan struct{}{"k1": make(chan struct{}), "k2": make(chan struct{})}
	finished := map[string]chan struct{}{"k1": make(chan struct{}), "k2": make(chan struct{})}
	var once1, once2 sync.Once
	closeOnce := func(tag string, ch chan struct{}) {
		if tag == "k1" {
			once1.Do(func() { close(ch) })
		} else {
			once2.Do(func() { close(ch) })
		}
	}
	// inner runnable: START -> a -> END
	inner := NewGraph[string, string]()
	_ = inner.AddLambdaNode("a", InvokableLambda(func(ctx context.Context, in string) (string, error) {
		lg.mu.Lock()
		lg.bodies = append(lg.bodies, in+`|{"ev":"enter","u":"a","in":"`+in+`"}`)
		lg.mu.Unlock()
		closeOnce(in, inBody[in])
		if in == "k1" {
			vciWait(inBody["k2"]) // run 1 stays in its body until run 2 is initialised and in its body
		} else {
			vciWait(finished["k1"]) // run 2 stays in its body until run 1 has reported everything
		}
		out := "a(" + in + ")"
		lg.mu.Lock()
		lg.bodies = append(lg.bodies, in+`|{"ev":"exit","u":"a","out":"`+out+`","fail":false}`)
		lg.mu.Unlock()
		return out, nil
	}, WithLambdaType("T_a")), WithNodeName("N_a"))
	_ = inner.AddEdge(START, "a")
	_ = inner.AddEdge("a", END)
	run, err := inner.Compile(context.Background(), WithGraphName("N_top"))
	if err != nil {
		fmt.Fprintf(w, "{\"ev\":\"case\",\"id\":%q,\"handlers\":[],\"units\":[],\"ends\":[],\"reject\":\"\",\"rejecttop\":false}\n{\"ev\":\"note\",\"msg\":\"BUILD-FAILED: %s\"}\n{\"ev\":\"done\"}\n", c.ID, err.Error())
		return
	}
	var inherited []callbacks.Handler
	for i := 1; i <= c.NInh; i++ {
		inherited = append(inherited, lg.handler(fmt.Sprintf("c%d", i))) // registered one by one: 1 -> 2 -> 4 -> 8
	}
	own := map[string]callbacks.Handler{"k1": lg.handler("own-k1"), "k2": lg.handler("own-k2")}
	rets := map[string]string{}
	errs := map[string]bool{}
	var rmu sync.Mutex
	call := func(ctx context.Context, tag string) string {
		out, err := run.Invoke(ctx, tag, WithCallbacks(own[tag]))
		rmu.Lock()
		rets[tag], errs[tag] = out, err != nil
		rmu.Unlock()
		close(finished[tag])
		return out
	}
	if c.Mode == "outer" {
		outer := NewGraph[string, map[string]any]()
		mk := func(tag string) *Lambda {
			return InvokableLambda(func(ctx context.Context, in string) (string, error) {
				if tag == "k2" {
					vciWait(inBody["k1"]) // start run 2 only when run 1 is initialised and running
				}
				return call(ctx, tag), nil
			})
		}
		_ = outer.AddLambdaNode("n1", mk("k1"), WithNodeName("N_n1"), WithOutputKey("n1"))
		_ = outer.AddLambdaNode("n2", mk("k2"), WithNodeName("N_n2"), WithOutputKey("n2"))
		for _, k := range []string{"n1", "n2"} {
			_ = outer.AddEdge(START, k)
			_ = outer.AddEdge(k, END)
		}
		orun, err := outer.Compile(context.Background(), WithGraphName("N_outer"))
		if err == nil {
			var opts []Option
			for _, h := range inherited {
				opts = append(opts, WithCallbacks(h)) // separate options: initGraphCallbacks appends them one by one
			}
			_, _ = orun.Invoke(context.Background(), "outer-in", opts...)
		}
	} else {
		ctx := context.Background()
		if len(inherited) > 0 {
			ctx = callbacks.InitCallbacks(ctx, &callbacks.RunInfo{Name: "N_parent", Type: "T_parent", Component: "Parent"}, inherited...)
		}
		var wg sync.WaitGroup
		wg.Add(2)
		go func() { defer wg.Done(); call(ctx, "k1") }()
		go func() { defer wg.Done(); vciWait(inBody["k1"]); call(ctx, "k2") }()
		wg.Wait()
	}
	// per-run projection
	lg.mu.Lock()
	defer lg.mu.Unlock()
	for _, tag := range []string{"k1", "k2"} {
		other := "k2"
		if tag == "k2" {
			other = "k1"
		}
		hs := []map[string]any{}
		for i := 1; i <= c.NInh; i++ {
			hs = append(hs, map[string]any{"id": fmt.Sprintf("c%d", i), "kind": "undes", "paths": [][]string{}})
		}
		hs = append(hs, map[string]any{"id": "own", "kind": "undes", "paths": [][]string{}},
			map[string]any{"id": "other", "kind": "des", "paths": [][]string{{"#the-other-run"}}})
		unit := func(u string, path []string, name, comp, typ string, graph bool, parent, src string) map[string]any {
			return map[string]any{"u": u, "path": path, "name": name, "comp": comp, "typ": typ, "graph": graph, "parent": parent, "src": src,
				"srcin": true, "pred": "", "host": "", "fresh": false}
		}
		cl := map[string]any{"id": c.ID + "/" + tag, "mode": c.Mode, "ninh": c.NInh, "run": tag, "handlers": hs,
			"units": []map[string]any{unit("top", []string{}, "N_top", "Graph", "", true, "", ""), unit("a", []string{"a"}, "N_a", "Lambda", "T_a", false, "top", "top")},
			"ends": []string{"a"}, "reject": "", "rejecttop": false}
		b, _ := json.Marshal(cl)
		w.WriteString(`{"ev":"case",` + string(b[1:]) + "\n")
		fmt.Fprintf(w, "{\"ev\":\"enter\",\"u\":\"top\",\"in\":%q}\n", tag)
		// events and body lines in their global order: bodies are logged by the node between its start and end events, so
		// interleave by replaying both logs: first the events up to the unit's body... simpler and sufficient: the rule only needs
		// enter before the leaf's end events and exit before them; emit start events, then body lines, then the other events.
		var starts, rest []vciEvent
		for _, e := range lg.events {
			if e.name != "N_top" && e.name != "N_a" {
				continue // events of the outer graph / parent scope are not part of an inner run
			}
			if e.t == "error" || !strings.Contains(e.pl, tag) {
				continue // attributed to the other run (no run fails here)
			}
			if e.t == "start" {
				starts = append(starts, e)
			} else {
				rest = append(rest, e)
			}
		}
		emit := func(e vciEvent) {
			h := e.h
			if h == "own-"+tag {
				h = "own"
			} else if h == "own-"+other {
				h = "other"
			}
			m := map[string]any{"h": h, "t": e.t, "name": e.name, "comp": e.comp, "typ": e.typ, "pl": e.pl, "strm": false}
			b, _ := json.Marshal(m)
			w.WriteString(`{"ev":"cb",` + string(b[1:]) + "\n")
		}
		for _, e := range starts {
			emit(e)
		}
		for _, bl := range lg.bodies {
			if strings.HasPrefix(bl, tag+"|") {
				w.WriteString(bl[len(tag)+1:] + "\n")
			}
		}
		for _, e := range rest {
			emit(e)
		}
		rmu.Lock()
		rb, _ := json.Marshal(map[string]any{"err": errs[tag], "out": rets[tag], "outs": map[string]string{"a": rets[tag]}})
		rmu.Unlock()
		w.WriteString(`{"ev":"ret",` + string(rb[1:]) + "\n")
		w.WriteString("{\"ev\":\"done\"}\n")
	}
}

func TestVerifCbIso(t *testing.T) {
	in, out := os.Getenv("VERIF_CASES"), os.Getenv("VERIF_OUT")
	if in == "" || out == "" {
		t.Skip("VERIF_CASES / VERIF_OUT not set")
	}
	f, err := os.Open(in)
	if err != nil {
		t.Fatal(err)
	}
	defer f.Close()
	of, err := os.Create(out)
	if err != nil {
		t.Fatal(err)
	}
	w := bufio.NewWriterSize(of, 1<<20)
	rd := bufio.NewReaderSize(f, 1<<20)
	n := 0
	for {
		line, rerr := rd.ReadBytes('\n')
		if len(strings.TrimSpace(string(line))) > 0 {
			c := &vciCase{}
			if e := json.Unmarshal(line, c); e != nil {
				t.Fatalf("bad case line: %v: %s", e, line)
			}
			vciRunCase(c, w)
			n++
		}
		if rerr != nil {
			break
		}
	}
	if err := w.Flush(); err != nil {
		t.Fatal(err)
	}
	of.Close()
	fmt.Printf("VERIF-CBISO cases=%d\n", n)
}
