package compose

// Conformance harness for C17 (ToolsNode answers every tool call, in call order, whatever the completion order).
// Reads the cases that TLC generated from spec/ToolsNode.tla (VERIF_CASES), drives the REAL ToolsNode through its public API
// (standalone Invoke/Stream, or as the only node of a compiled graph), with harness-owned tools that block on gates so that the
// completion order / chunk order of the case's schedule is forced without hooks, and writes the observations (VERIF_OUT) that
// TLC validates against spec/ToolsObs.tla (rule: spec/ToolsRule.tla).  No expectation is computed here.

import (
	"bufio"
	"context"
	"encoding/json"
	"errors"
	"fmt"
	"io"
	"os"
	"regexp"
	"runtime"
	"strings"
	"sync"
	"sync/atomic"
	"testing"
	"time"

	"github.com/cloudwego/eino/callbacks"
	"github.com/cloudwego/eino/components/tool"
	toolutils "github.com/cloudwego/eino/components/tool/utils"
	"github.com/cloudwego/eino/schema"
)

type vtTool struct {
	Name   string `json:"name"`
	Kind   string `json:"kind"` // inv | str | both
	Beh    string `json:"beh"`  // ok | fail | panic | failmid
	Chunks int    `json:"chunks"`
}

type vtCall struct {
	ID   string `json:"id"`
	Name string `json:"name"`
	Args string `json:"args"`
}

type vtCase struct {
	ID      string   `json:"id"`
	Mode    string   `json:"mode"` // invoke | stream
	Graph   bool     `json:"graph"`
	Handler string   `json:"handler"` // none | ok | fail
	Calls   []vtCall `json:"calls"`
	Tools   []vtTool `json:"tools"`
	Sched   []int    `json:"sched"` // 1-based call indexes: the k-th occurrence of i releases the k-th gated step of call i
	Term    string   `json:"term"`  // outcome of the model (statistics only, never compared here)
	Wrap    bool     `json:"wrap"`  // invokable-only / streamable-only tools are built with components/tool/utils (NewTool / NewStreamTool)
	OptList bool     `json:"optlist"` // the tools are given per call (WithToolList); the node is configured with another decoy only
	Shape   string   `json:"shape"`   // graph cases: "" tools -> END | "branch" non-stream branch condition + invokable successor |
	// "fanout" two invokable successors | "callback" a callback handler on the tools node + an invokable successor: in the stream
	// form the node's output is then concatenated by two consumers that share the frames
	MFail   bool     `json:"mfail"`   // wrap cases: a failing invokable tool fails in its custom output encoder (WithMarshalOutput)
	EOFWrap bool     `json:"eofwrap"` // the error a stream fails with in the middle has io.EOF in its chain
	Deep    bool     `json:"deep"`    // panicking tools panic from a deep recursion (long unwinding widens the window after the panic)
	JSONArg bool     `json:"jsonargs"` // arguments are JSON objects {"v":..,"o":..} ("o" omitted in some calls); with wrap, the tools are built
	// by components/tool/utils with the DEFAULT unmarshalling into a pointer-to-struct (ta, tc) or map (tb) input
}

// typed input of the tools built with components/tool/utils in jsonargs cases
type vtIn struct {
	V string `json:"v"`
	O string `json:"o,omitempty"`
}

// canonical argument text of a decoded input: what the tool body sees is what it reports and answers
func vtCanon(v, o string) string {
	if o == "" {
		return `{"v":"` + v + `"}`
	}
	return `{"v":"` + v + `","o":"` + o + `"}`
}

//go:noinline
func vtDeepPanic(n int, v string) int {
	if n == 0 {
		panic(v)
	}
	return vtDeepPanic(n-1, v) + 1
}

func (r *vtRun) doPanic(v string) {
	if r.c.Deep {
		vtDeepPanic(300000, v)
	}
	panic(v)
}

type vtErr struct{ Name, Args string }

func (e *vtErr) Error() string { return "vferr[" + e.Name + "|" + e.Args + "]" }

// vtEOFErr is a tool's stream error whose chain contains io.EOF (e.g. "connection reset: EOF"): still an error, not the end of the stream
type vtEOFErr struct{ Name, Args string }

func (e *vtEOFErr) Error() string { return "vferr[" + e.Name + "|" + e.Args + "] conn reset: EOF" }
func (e *vtEOFErr) Unwrap() error { return io.EOF }

var vtErrRe = regexp.MustCompile(`vferr\[([^|\]]*)\|([^\]]*)\]`)

const vtStepTimeout = 1500 * time.Millisecond

// ------------------------------------------------------------------------------------------------ one run

type vtInv struct {
	call   int // index into Calls, -1 when the invocation matches no call of the case
	gate   chan struct{}
	ack    chan struct{}
	steps  int32 // released steps
}

type vtRun struct {
	c        *vtCase
	mu       sync.Mutex
	lines    []string
	inv      []*vtInv // per call
	started  []chan struct{}
	taken    []bool
	free     chan struct{} // closed: every gate is open (drain)
	freeOnce sync.Once
	callDone chan struct{}
	active   int32 // tool bodies and producers still running
	consumed []int32        // chunks logged per position (stream form)
	termSeen int32
	forced   bool
	sink     *bufio.Writer // serial mode: every line is written and flushed at once (a process crash loses nothing)
	gone     bool          // the watchdog gave the case up: later lines are dropped
}

func vtJSON(v any) string {
	b, err := json.Marshal(v)
	if err != nil {
		panic(err)
	}
	return string(b)
}

// emit writes {"ev":ev, fields...}; fields is an already ordered list of key, value pairs
func (r *vtRun) emit(ev string, kv ...any) {
	var sb strings.Builder
	sb.WriteString(`{"ev":` + vtJSON(ev))
	for i := 0; i+1 < len(kv); i += 2 {
		sb.WriteString("," + vtJSON(kv[i].(string)) + ":" + vtJSON(kv[i+1]))
	}
	sb.WriteString("}")
	r.mu.Lock()
	if r.gone {
		r.mu.Unlock()
		return
	}
	r.lines = append(r.lines, sb.String())
	if r.sink != nil {
		r.sink.WriteString(sb.String() + "\n")
		r.sink.Flush()
	}
	r.mu.Unlock()
}

func (r *vtRun) openAll() { r.freeOnce.Do(func() { close(r.free) }) }

// enter registers a tool (handler) invocation and binds it to the first not yet started call with the same name and arguments
func (r *vtRun) enter(name, args string) *vtInv {
	atomic.AddInt32(&r.active, 1)
	r.mu.Lock()
	defer r.mu.Unlock()
	for i, c := range r.c.Calls {
		if !r.taken[i] && c.Name == name && c.Args == args {
			r.taken[i] = true
			close(r.started[i])
			return r.inv[i]
		}
	}
	r.openAll() // an invocation that matches no call of the case: the schedule cannot be forced any more
	return &vtInv{call: -1, gate: make(chan struct{}, 8), ack: make(chan struct{}, 8)}
}

func (r *vtRun) wait(inv *vtInv) {
	select {
	case <-inv.gate:
	case <-r.free:
	}
}

func (inv *vtInv) acked() {
	select {
	case inv.ack <- struct{}{}:
	default:
	}
}

func vtChunks(name, args string, n int) []string {
	if n <= 1 {
		return []string{name + "(" + args + ")"}
	}
	return []string{name + "(", args + ")"}
}

// body of the invokable form of a tool / of the unknown-tool handler
func (r *vtRun) invokable(name, args, beh string, handler bool) (string, error) {
	inv := r.enter(name, args)
	defer atomic.AddInt32(&r.active, -1)
	r.wait(inv)
	switch beh {
	case "fail", "failmid":
		r.emit("tend", "name", name, "args", args, "h", handler, "res", "err", "out", "")
		inv.acked()
		return "", &vtErr{name, args}
	case "failm": // the tool fails in the output encoder it was built with (components/tool/utils WithMarshalOutput)
		r.emit("tend", "name", name, "args", args, "h", handler, "res", "err", "out", "")
		inv.acked()
		return "\x00vfmfail|" + name + "|" + args, nil
	case "panic":
		r.emit("tend", "name", name, "args", args, "h", handler, "res", "panic", "out", "")
		inv.acked()
		r.doPanic("vfpanic[" + name + "|" + args + "]")
	}
	out := name + "(" + args + ")"
	if beh == "empty" { // the tool works; its whole output is the empty string
		out = ""
	}
	r.emit("tend", "name", name, "args", args, "h", handler, "res", "ok", "out", out)
	inv.acked()
	return out, nil
}

// body of the streamable form of a tool
func (r *vtRun) streamable(ctx context.Context, name, args, beh string, nchunks int) (*schema.StreamReader[string], error) {
	inv := r.enter(name, args)
	r.wait(inv)
	switch beh {
	case "fail":
		r.emit("tend", "name", name, "args", args, "h", false, "res", "err", "out", "")
		atomic.AddInt32(&r.active, -1)
		inv.acked()
		return nil, &vtErr{name, args}
	case "panic":
		r.emit("tend", "name", name, "args", args, "h", false, "res", "panic", "out", "")
		atomic.AddInt32(&r.active, -1)
		inv.acked()
		r.doPanic("vfpanic[" + name + "|" + args + "]")
	}
	chunks := vtChunks(name, args, nchunks)
	if beh == "empty" { // only "" frames
		for k := range chunks {
			chunks[k] = ""
		}
	}
	capacity := 0
	if r.c.Mode == "stream" {
		capacity = 4 // nobody may ever read (the call can fail at assembly): never block the producer
	}
	sr, sw := schema.Pipe[string](capacity)
	if beh == "failmid" {
		r.emit("tend", "name", name, "args", args, "h", false, "res", "errmid", "out", "")
	} else {
		r.emit("tend", "name", name, "args", args, "h", false, "res", "ok", "out", strings.Join(chunks, ""))
	}
	// the chunks are produced asynchronously, after StreamableRun has returned; like a well-behaved tool the producer looks at its
	// context between chunks and gives up (with the context's error) when it has been cancelled
	cancelled := func() bool {
		if ctx == nil || ctx.Err() == nil {
			return false
		}
		sw.Send("", ctx.Err())
		sw.Close()
		inv.acked()
		return true
	}
	go func() {
		defer atomic.AddInt32(&r.active, -1)
		if beh == "failmid" {
			r.wait(inv)
			if cancelled() {
				return
			}
			sw.Send(chunks[0], nil)
			inv.acked()
			r.wait(inv)
			if r.c.EOFWrap {
				sw.Send("", &vtEOFErr{name, args})
			} else {
				sw.Send("", &vtErr{name, args})
			}
			sw.Close()
			inv.acked()
			return
		}
		for k, ch := range chunks {
			r.wait(inv)
			if cancelled() {
				return
			}
			sw.Send(ch, nil)
			if k == len(chunks)-1 {
				sw.Close()
			}
			inv.acked()
		}
	}()
	inv.acked()
	return sr, nil
}

type vtBase struct {
	r *vtRun
	t vtTool
}

func (b *vtBase) Info(context.Context) (*schema.ToolInfo, error) {
	return &schema.ToolInfo{Name: b.t.Name, Desc: "verif tool"}, nil
}

type vtInvTool struct{ vtBase }

func (t *vtInvTool) InvokableRun(ctx context.Context, args string, _ ...tool.Option) (string, error) {
	return t.r.invokable(t.t.Name, args, t.t.Beh, false)
}

type vtStrTool struct{ vtBase }

func (t *vtStrTool) StreamableRun(ctx context.Context, args string, _ ...tool.Option) (*schema.StreamReader[string], error) {
	return t.r.streamable(ctx, t.t.Name, args, t.t.Beh, t.t.Chunks)
}

type vtBothTool struct{ vtBase }

func (t *vtBothTool) InvokableRun(ctx context.Context, args string, _ ...tool.Option) (string, error) {
	return t.r.invokable(t.t.Name, args, t.t.Beh, false)
}

func (t *vtBothTool) StreamableRun(ctx context.Context, args string, _ ...tool.Option) (*schema.StreamReader[string], error) {
	return t.r.streamable(ctx, t.t.Name, args, t.t.Beh, t.t.Chunks)
}

// ------------------------------------------------------------------------------------------------ controller

func vtSpinUntil(cond func() bool, d time.Duration) bool {
	deadline := time.Now().Add(d)
	for i := 0; ; i++ {
		if cond() {
			return true
		}
		if i < 200 {
			runtime.Gosched()
		} else {
			time.Sleep(20 * time.Microsecond)
			if time.Now().After(deadline) {
				return false
			}
		}
	}
}

// control releases the gated steps in the order of the schedule; every release waits for the step to be done
// (stream form: until the caller has received the chunk), so the schedule's order is the real order.
func (r *vtRun) control(done chan struct{}) {
	defer close(done)
	defer r.openAll()
	for _, ci := range r.c.Sched {
		i := ci - 1
		if i < 0 || i >= len(r.inv) {
			return
		}
		select {
		case <-r.started[i]:
		case <-r.callDone:
			return
		case <-time.After(vtStepTimeout):
			return
		}
		inv := r.inv[i]
		step := atomic.AddInt32(&inv.steps, 1)
		before := atomic.LoadInt32(&r.consumed[i])
		inv.gate <- struct{}{}
		select {
		case <-inv.ack:
		case <-time.After(vtStepTimeout):
			return
		}
		if r.c.Mode == "stream" && step > 1 && r.c.Shape == "" { // (with a consumer node behind the tools node the caller gets one frame at the end)
			ok := vtSpinUntil(func() bool {
				return atomic.LoadInt32(&r.consumed[i]) > before || atomic.LoadInt32(&r.termSeen) != 0
			}, 400*time.Millisecond)
			if !ok {
				return
			}
		} else {
			// let the released task run to its completion point (return of the run function -> task record written)
			for k := 0; k < 4; k++ {
				runtime.Gosched()
			}
		}
	}
	r.forced = true
}

// ------------------------------------------------------------------------------------------------ observations of the outcome

func vtMsgList(msgs []*schema.Message) []map[string]any {
	out := make([]map[string]any, 0, len(msgs))
	for _, m := range msgs {
		if m == nil {
			out = append(out, map[string]any{"id": "", "role": "", "content": "", "nil": true})
		} else {
			out = append(out, map[string]any{"id": m.ToolCallID, "role": string(m.Role), "content": m.Content, "nil": false})
		}
	}
	return out
}

func (r *vtRun) logError(err error, where string) {
	atomic.StoreInt32(&r.termSeen, 1)
	errs := make([]map[string]any, 0)
	seen := map[string]bool{}
	var te *vtErr
	if errors.As(err, &te) {
		seen[te.Name+"|"+te.Args] = true
		errs = append(errs, map[string]any{"name": te.Name, "args": te.Args})
	}
	var tee *vtEOFErr
	if te == nil && errors.As(err, &tee) { // the other error type of the harness's tools: the cause is recoverable all the same
		te = &vtErr{tee.Name, tee.Args}
		seen[te.Name+"|"+te.Args] = true
		errs = append(errs, map[string]any{"name": te.Name, "args": te.Args})
	}
	text := err.Error()
	for _, m := range vtErrRe.FindAllStringSubmatch(text, -1) {
		if !seen[m[1]+"|"+m[2]] {
			seen[m[1]+"|"+m[2]] = true
			errs = append(errs, map[string]any{"name": m[1], "args": m[2]})
		}
	}
	short := text
	if len(short) > 160 {
		short = short[:160]
	}
	r.emit("error", "errs", errs, "panic", strings.Contains(text, "panic"), "where", where, "as", te != nil, "text", short)
}

func (r *vtRun) logEscaped(p any, where string) {
	atomic.StoreInt32(&r.termSeen, 1)
	s := fmt.Sprint(p)
	if len(s) > 160 {
		s = s[:160]
	}
	r.emit("escaped", "where", where, "value", s)
}

func (r *vtRun) consume(sr *schema.StreamReader[[]*schema.Message]) {
	var chunks [][]*schema.Message
	defer sr.Close()
	for {
		var msgs []*schema.Message
		var err error
		var pv any
		func() {
			defer func() { pv = recover() }()
			msgs, err = sr.Recv()
		}()
		if pv != nil {
			r.logEscaped(pv, "recv")
			return
		}
		if err == io.EOF {
			break
		}
		if err != nil {
			r.logError(err, "recv")
			return
		}
		items := make([]map[string]any, 0, 1)
		for i, m := range msgs {
			if m != nil {
				items = append(items, map[string]any{"i": i + 1, "id": m.ToolCallID, "role": string(m.Role), "content": m.Content})
			}
		}
		r.emit("chunk", "n", len(msgs), "items", items)
		for i, m := range msgs {
			if m != nil && i < len(r.consumed) {
				atomic.AddInt32(&r.consumed[i], 1)
			}
		}
		chunks = append(chunks, msgs)
	}
	if len(chunks) == 0 {
		atomic.StoreInt32(&r.termSeen, 1)
		r.emit("result", "out", []any{}, "chunks", 0)
		return
	}
	// the library's own concatenation of the streamed form (what a downstream non-streaming node receives)
	var whole []*schema.Message
	var err error
	var pv any
	func() {
		defer func() { pv = recover() }()
		whole, err = concatStreamReader(schema.StreamReaderFromArray(chunks))
	}()
	if pv != nil {
		r.logEscaped(pv, "concat")
		return
	}
	if err != nil {
		r.logError(err, "concat")
		return
	}
	atomic.StoreInt32(&r.termSeen, 1)
	r.emit("result", "out", vtMsgList(whole), "chunks", len(chunks))
}

// ------------------------------------------------------------------------------------------------ one case

const vtCaseTimeout = 4 * time.Second
const vtMaxHangs = 20

var vtHangs int32

// vtRunCase runs one case under a watchdog.  The gates make a case take microseconds; a case that is still running after
// vtCaseTimeout is recorded as the observation `hang`, its goroutines are abandoned (gates opened) and the harness goes on.
func vtRunCase(c *vtCase, sink *bufio.Writer) []string {
	n := len(c.Calls)
	r := &vtRun{c: c, sink: sink, free: make(chan struct{}), callDone: make(chan struct{}), inv: make([]*vtInv, n), started: make([]chan struct{}, n),
		taken: make([]bool, n), consumed: make([]int32, n)}
	done := make(chan []string, 1)
	go func() { done <- vtRunCaseBody(r) }()
	select {
	case ls := <-done:
		return ls
	case <-time.After(vtCaseTimeout):
	}
	atomic.AddInt32(&vtHangs, 1)
	r.openAll()
	r.mu.Lock()
	defer r.mu.Unlock()
	r.gone = true
	for _, l := range []string{`{"ev":"hang","after_ms":` + vtJSON(int(vtCaseTimeout/time.Millisecond)) + `}`, `{"ev":"end","forced":false,"note":"case abandoned by the watchdog"}`} {
		r.lines = append(r.lines, l)
		if r.sink != nil {
			r.sink.WriteString(l + "\n")
			r.sink.Flush()
		}
	}
	return append([]string(nil), r.lines...)
}

func vtRunCaseBody(r *vtRun) []string {
	c := r.c
	n := len(c.Calls)
	for i := range r.inv {
		r.inv[i] = &vtInv{call: i, gate: make(chan struct{}, 8), ack: make(chan struct{}, 8)}
		r.started[i] = make(chan struct{})
	}
	calls := make([]map[string]any, 0, n)
	for _, k := range c.Calls {
		calls = append(calls, map[string]any{"id": k.ID, "name": k.Name, "args": k.Args})
	}
	tools := make([]map[string]any, 0, len(c.Tools))
	for _, t := range c.Tools {
		tools = append(tools, map[string]any{"name": t.Name, "kind": t.Kind, "beh": t.Beh, "chunks": t.Chunks})
	}
	sched := c.Sched
	if sched == nil {
		sched = []int{}
	}
	r.emit("case", "id", c.ID, "mode", c.Mode, "graph", c.Graph, "handler", c.Handler, "calls", calls, "tools", tools, "sched", sched, "wrap", c.Wrap, "optlist", c.OptList, "deep", c.Deep, "jsonargs", c.JSONArg, "shape", c.Shape, "eofwrap", c.EOFWrap, "mfail", c.MFail)

	ctx := context.Background()
	bts := make([]tool.BaseTool, 0, len(c.Tools))
	for _, t := range c.Tools {
		b := vtBase{r: r, t: t}
		t := t
		um := toolutils.WithUnmarshalArguments(func(_ context.Context, a string) (interface{}, error) { return a, nil })
		// custom output encoder of the utils-built tools; in mfail cases a failing invokable tool fails HERE (its body succeeds)
		ms := toolutils.WithMarshalOutput(func(_ context.Context, o interface{}) (string, error) {
			out := o.(string)
			if strings.HasPrefix(out, "\x00vfmfail|") {
				p := strings.SplitN(out, "|", 3)
				return "", &vtErr{p[1], p[2]}
			}
			return out, nil
		})
		ibeh := t.Beh
		if c.MFail && t.Beh == "fail" {
			ibeh = "failm"
		}
		info := &schema.ToolInfo{Name: t.Name, Desc: "verif tool"}
		// in the Invoke form a tool with both forms is used through its invokable form only
		invForm := t.Kind == "inv" || (t.Kind == "both" && c.Mode == "invoke")
		switch {
		case invForm && c.Wrap && c.JSONArg && t.Name == "tb":
			bts = append(bts, toolutils.NewTool(info, func(_ context.Context, a map[string]string) (string, error) {
				return r.invokable(t.Name, vtCanon(a["v"], a["o"]), ibeh, false)
			}, ms))
		case invForm && c.Wrap && c.JSONArg:
			bts = append(bts, toolutils.NewTool(info, func(_ context.Context, a *vtIn) (string, error) {
				return r.invokable(t.Name, vtCanon(a.V, a.O), ibeh, false)
			}, ms))
		case t.Kind == "str" && c.Wrap && c.JSONArg:
			bts = append(bts, toolutils.NewStreamTool(info, func(ctx context.Context, a *vtIn) (*schema.StreamReader[string], error) {
				return r.streamable(ctx, t.Name, vtCanon(a.V, a.O), t.Beh, t.Chunks)
			}, ms))
		case t.Kind == "inv" && c.Wrap:
			bts = append(bts, toolutils.NewTool(info, func(_ context.Context, a string) (string, error) {
				return r.invokable(t.Name, a, ibeh, false)
			}, um, ms))
		case t.Kind == "str" && c.Wrap:
			bts = append(bts, toolutils.NewStreamTool(info, func(ctx context.Context, a string) (*schema.StreamReader[string], error) {
				return r.streamable(ctx, t.Name, a, t.Beh, t.Chunks)
			}, um, ms))
		case t.Kind == "inv":
			bts = append(bts, &vtInvTool{b})
		case t.Kind == "str":
			bts = append(bts, &vtStrTool{b})
		default:
			bts = append(bts, &vtBothTool{b})
		}
	}
	conf := &ToolsNodeConfig{Tools: bts}
	var tnOpts []ToolsNodeOption
	if c.OptList {
		conf.Tools = []tool.BaseTool{&vtInvTool{vtBase{r: r, t: vtTool{Name: "tconf", Kind: "inv", Beh: "ok", Chunks: 1}}}}
		tnOpts = []ToolsNodeOption{WithToolList(bts...)}
	}
	if c.Handler != "none" {
		beh := "ok"
		if c.Handler == "fail" {
			beh = "fail"
		}
		conf.UnknownToolsHandler = func(ctx context.Context, name, input string) (string, error) {
			return r.invokable(name, input, beh, true)
		}
	}
	finish := func(note string) []string {
		r.emit("end", "forced", r.forced, "note", note)
		return r.lines
	}
	tn, err := NewToolNode(ctx, conf)
	if err != nil {
		r.emit("note", "text", "NewToolNode: "+err.Error())
		return finish("setup")
	}
	var invoke, plainInvoke func(*schema.Message) ([]*schema.Message, error)
	var stream func(*schema.Message) (*schema.StreamReader[[]*schema.Message], error)
	if c.Graph {
		g := NewGraph[*schema.Message, []*schema.Message]()
		// a consumer of the node's output: it records the list it got (in the stream form the engine concatenates the frames for it)
		see := func(who string) *Lambda {
			return InvokableLambda(func(_ context.Context, in []*schema.Message) ([]*schema.Message, error) {
				r.emit("seen", "who", who, "out", vtMsgList(in))
				return in, nil
			})
		}
		var runOpts []Option
		err = g.AddToolsNode("tools", tn)
		if err == nil {
			err = g.AddEdge(START, "tools")
		}
		switch {
		case err != nil:
		case c.Shape == "branch":
			err = g.AddLambdaNode("collect", see("succ"))
			if err == nil {
				err = g.AddLambdaNode("drop", see("drop"))
			}
			if err == nil {
				err = g.AddBranch("tools", NewGraphBranch(func(_ context.Context, in []*schema.Message) (string, error) {
					r.emit("seen", "who", "branch", "out", vtMsgList(in))
					return "collect", nil
				}, map[string]bool{"collect": true, "drop": true}))
			}
			if err == nil {
				err = g.AddEdge("collect", END)
			}
			if err == nil {
				err = g.AddEdge("drop", END)
			}
		case c.Shape == "fanout":
			err = g.AddLambdaNode("a", see("a"), WithOutputKey("a"))
			if err == nil {
				err = g.AddLambdaNode("b", see("b"), WithOutputKey("b"))
			}
			if err == nil {
				err = g.AddLambdaNode("join", InvokableLambda(func(_ context.Context, in map[string]any) ([]*schema.Message, error) {
					out, _ := in["a"].([]*schema.Message)
					return out, nil
				}))
			}
			for _, e := range [][2]string{{"tools", "a"}, {"tools", "b"}, {"a", "join"}, {"b", "join"}, {"join", END}} {
				if err == nil {
					err = g.AddEdge(e[0], e[1])
				}
			}
		case c.Shape == "callback":
			err = g.AddLambdaNode("succ", see("succ"))
			if err == nil {
				err = g.AddEdge("tools", "succ")
			}
			if err == nil {
				err = g.AddEdge("succ", END)
			}
			cb := callbacks.NewHandlerBuilder().OnEndWithStreamOutputFn(func(ctx context.Context, _ *callbacks.RunInfo,
				out *schema.StreamReader[callbacks.CallbackOutput]) context.Context {
				atomic.AddInt32(&r.active, 1)
				go func() {
					defer atomic.AddInt32(&r.active, -1)
					defer out.Close()
					var frames [][]*schema.Message
					for {
						v, err := out.Recv()
						if err == io.EOF {
							break
						}
						if err != nil {
							return
						}
						if ms, ok := v.([]*schema.Message); ok {
							frames = append(frames, ms)
						}
					}
					if len(frames) == 0 {
						return
					}
					defer func() { _ = recover() }()
					if whole, err := concatStreamReader(schema.StreamReaderFromArray(frames)); err == nil {
						r.emit("seen", "who", "callback", "out", vtMsgList(whole))
					}
				}()
				return ctx
			}).Build()
			runOpts = append(runOpts, WithCallbacks(cb).DesignateNode("tools"))
		default:
			err = g.AddEdge("tools", END)
		}
		var run Runnable[*schema.Message, []*schema.Message]
		if err == nil {
			run, err = g.Compile(ctx)
		}
		if err != nil {
			r.emit("note", "text", "graph: "+err.Error())
			return finish("setup")
		}
		withOpts := append([]Option{WithToolsNodeOption(tnOpts...)}, runOpts...)
		invoke = func(m *schema.Message) ([]*schema.Message, error) { return run.Invoke(ctx, m, withOpts...) }
		plainInvoke = func(m *schema.Message) ([]*schema.Message, error) { return run.Invoke(ctx, m, runOpts...) }
		stream = func(m *schema.Message) (*schema.StreamReader[[]*schema.Message], error) {
			return run.Stream(ctx, m, withOpts...)
		}
	} else {
		invoke = func(m *schema.Message) ([]*schema.Message, error) { return tn.Invoke(ctx, m, tnOpts...) }
		plainInvoke = func(m *schema.Message) ([]*schema.Message, error) { return tn.Invoke(ctx, m) }
		stream = func(m *schema.Message) (*schema.StreamReader[[]*schema.Message], error) { return tn.Stream(ctx, m, tnOpts...) }
	}
	input := &schema.Message{Role: schema.Assistant}
	for _, k := range c.Calls {
		input.ToolCalls = append(input.ToolCalls, schema.ToolCall{ID: k.ID, Type: "function", Function: schema.FunctionCall{Name: k.Name, Arguments: k.Args}})
	}

	ctrlDone := make(chan struct{})
	go r.control(ctrlDone)

	func() {
		defer func() {
			if p := recover(); p != nil {
				r.logEscaped(p, "call")
			}
		}()
		if c.Mode == "invoke" {
			out, err := invoke(input)
			if err != nil {
				r.logError(err, "call")
				return
			}
			atomic.StoreInt32(&r.termSeen, 1)
			r.emit("result", "out", vtMsgList(out), "chunks", 0)
			return
		}
		sr, err := stream(input)
		if err != nil {
			r.logError(err, "call")
			return
		}
		if sr == nil {
			r.emit("note", "text", "nil stream without error")
			return
		}
		r.consume(sr)
	}()
	close(r.callDone)
	forced := false
	select {
	case <-ctrlDone:
		forced = r.forced
	case <-time.After(2 * vtStepTimeout):
	}
	r.openAll()
	// every started tool body / producer must have finished before the case is closed; tool bodies that have not even started
	// when the call is over (a panic escaped while the goroutines were being scheduled) get a moment to show up
	quiet := func() bool {
		if atomic.LoadInt32(&r.active) != 0 {
			return false
		}
		r.mu.Lock()
		all := true
		for _, t := range r.taken {
			all = all && t
		}
		r.mu.Unlock()
		if all {
			return true
		}
		time.Sleep(300 * time.Microsecond)
		return atomic.LoadInt32(&r.active) == 0
	}
	note := ""
	if !vtSpinUntil(quiet, vtStepTimeout) {
		note = "tool bodies still running"
	}
	r.mu.Lock()
	defer r.mu.Unlock()
	if r.gone {
		return r.lines
	}
	if r.sink != nil {
		// serial mode (entered after a process crash): give goroutines the library left behind a moment, so that a delayed
		// crash still falls inside the case that caused it
		r.mu.Unlock()
		time.Sleep(2 * time.Millisecond)
		r.mu.Lock()
	}
	last := `{"ev":"end","forced":` + vtJSON(forced) + `,"note":` + vtJSON(note) + `}`
	r.lines = append(r.lines, last)
	if r.sink != nil {
		r.sink.WriteString(last + "\n")
		r.sink.Flush()
	}
	if c.OptList && atomic.LoadInt32(&r.termSeen) != 0 && note == "" {
		// a second, plain call on the SAME node / compiled graph: the tool list of the first call was a call option, so this call
		// sees the configured tools only (the decoy "tconf"); it is written as a case of its own, "<id>+post"
		r.mu.Unlock()
		r.emit("case", "id", c.ID+"+post", "mode", "invoke", "graph", c.Graph, "handler", c.Handler, "calls", calls,
			"tools", []map[string]any{{"name": "tconf", "kind": "inv", "beh": "ok", "chunks": 1}}, "sched", []int{}, "wrap", c.Wrap,
			"optlist", false, "deep", false, "jsonargs", c.JSONArg)
		func() {
			defer func() {
				if p := recover(); p != nil {
					r.logEscaped(p, "call")
				}
			}()
			out, err := plainInvoke(input)
			if err != nil {
				r.logError(err, "call")
				return
			}
			r.emit("result", "out", vtMsgList(out), "chunks", 0)
		}()
		vtSpinUntil(func() bool { return atomic.LoadInt32(&r.active) == 0 }, vtStepTimeout)
		r.emit("end", "forced", true, "note", "plain call after a call with WithToolList")
		r.mu.Lock()
	}
	return r.lines
}

func TestVerifTools(t *testing.T) {
	in, out := os.Getenv("VERIF_CASES"), os.Getenv("VERIF_OUT")
	if in == "" || out == "" {
		t.Skip("VERIF_CASES / VERIF_OUT not set")
	}
	fh, err := os.Open(in)
	if err != nil {
		t.Fatal(err)
	}
	defer fh.Close()
	var cases []*vtCase
	sc := bufio.NewScanner(fh)
	sc.Buffer(make([]byte, 1<<20), 1<<24)
	for sc.Scan() {
		ln := strings.TrimSpace(sc.Text())
		if ln == "" {
			continue
		}
		c := &vtCase{}
		if err := json.Unmarshal([]byte(ln), c); err != nil {
			t.Fatalf("bad case line: %v", err)
		}
		cases = append(cases, c)
	}
	if os.Getenv("VERIF_TOOLS_SERIAL") != "" {
		of, err := os.Create(out)
		if err != nil {
			t.Fatal(err)
		}
		w := bufio.NewWriter(of)
		replayed := 0
		for _, c := range cases {
			if atomic.LoadInt32(&vtHangs) >= vtMaxHangs {
				break
			}
			vtRunCase(c, w)
			replayed++
		}
		w.Flush()
		of.Close()
		fmt.Printf("VERIF-TOOLS cases=%d replayed=%d hangs=%d\n", len(cases), replayed, atomic.LoadInt32(&vtHangs))
		return
	}
	results := make([][]string, len(cases))
	workers := 4
	var next int64 = -1
	var wg sync.WaitGroup
	for w := 0; w < workers; w++ {
		wg.Add(1)
		go func() {
			defer wg.Done()
			for {
				i := int(atomic.AddInt64(&next, 1))
				if i >= len(cases) || atomic.LoadInt32(&vtHangs) >= vtMaxHangs {
					return
				}
				results[i] = vtRunCase(cases[i], nil)
			}
		}()
	}
	wg.Wait()
	of, err := os.Create(out)
	if err != nil {
		t.Fatal(err)
	}
	w := bufio.NewWriter(of)
	replayed := 0
	for _, ls := range results {
		if ls != nil {
			replayed++
		}
		for _, l := range ls {
			w.WriteString(l)
			w.WriteString("\n")
		}
	}
	w.Flush()
	of.Close()
	fmt.Printf("VERIF-TOOLS cases=%d replayed=%d hangs=%d\n", len(cases), replayed, atomic.LoadInt32(&vtHangs))
}
