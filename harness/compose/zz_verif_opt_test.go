package compose

// Conformance harness for C16 (call options reach exactly the nodes they address).
//
// Reads the cases TLC generated from spec/Options.tla: a graph tree (chains, nested graphs), a PROGRAM of option constructions
// (WithLambdaOption / WithCallbacks, then DesignateNode / DesignateNodeWithPath on earlier option VALUES, so that options derived
// from a common base are built exactly as user code builds them) and one or two calls, each passing some of the option variables.
// The calls of a case run concurrently on the same compiled graph.  Every leaf node is a lambda with a typed option parameter
// (InvokableLambdaWithOption with three distinct option types, or a plain lambda without options) that records what it received
// and which callback handlers fired for it.  No expectation is computed here: spec/OptObs.tla (TLC) judges the records.

import (
	"bufio"
	"context"
	"encoding/json"
	"fmt"
	"io"
	"os"
	"sort"
	"strings"
	"sync"
	"testing"
	"time"

	"github.com/cloudwego/eino/callbacks"
	"github.com/cloudwego/eino/schema"
)

type vopUnit struct {
	U      string   `json:"u"`
	Path   []string `json:"path"`
	Graph  bool     `json:"graph"`
	Parent string   `json:"parent"`
	OT     string   `json:"ot"`
	GK     string   `json:"gk"` // graph units: graph | chain | workflow (what the nested graph is built with)
}

type vopStmt struct {
	Op    string     `json:"op"`
	Typ   string     `json:"typ,omitempty"`
	ID    string     `json:"id,omitempty"`
	N     int        `json:"n"` // "new": number of values in the option's bundle (WithLambdaOption(v1, ..., vn))
	From  int        `json:"from,omitempty"`
	Paths [][]string `json:"paths,omitempty"`
}

type vopCase struct {
	ID    string    `json:"id"`
	Tree  string    `json:"tree"`
	Units []vopUnit `json:"units"`
	Prog  []vopStmt `json:"prog"`
	Calls [][]int   `json:"calls"`
	// interrupted run + resuming call: the graph is compiled with a byte-only checkpoint store and an interrupt mark before / after
	// leaf Intr (possibly inside a nested graph); calls[0] runs up to the mark, calls[1] resumes with the same checkpoint id
	Intr      string `json:"intr"`
	IntrAfter bool   `json:"intrafter"`
	Mode      string `json:"mode"`  // invoke | stream: the paradigm of every call of the case
	Keyed     string `json:"keyed"` // unit added with WithInputKey (its predecessor with the matching WithOutputKey); "" = none
}

// node options of unit u inside its graph: name, and the key attributes when u or its successor is the keyed unit
func (r *vopRun) nodeOpts(u *vopUnit, next *vopUnit, extra ...GraphAddNodeOpt) []GraphAddNodeOpt {
	opts := append([]GraphAddNodeOpt{WithNodeName("N_" + u.U)}, extra...)
	if r.c.Keyed != "" && u.U == r.c.Keyed {
		opts = append(opts, WithInputKey("k_"+u.U))
	}
	if r.c.Keyed != "" && next != nil && next.U == r.c.Keyed {
		opts = append(opts, WithOutputKey("k_"+next.U))
	}
	return opts
}

func vopNext(kids []*vopUnit, i int) *vopUnit {
	if i+1 < len(kids) {
		return kids[i+1]
	}
	return nil
}

func vopBundle(st vopStmt) []any {
	n := st.N
	if n < 1 {
		n = 1
	}
	out := make([]any, 0, n)
	for j := 1; j <= n; j++ {
		id := st.ID
		if j > 1 {
			id = fmt.Sprintf("%s.%d", st.ID, j)
		}
		switch st.Typ {
		case "T1":
			out = append(out, vopT1{ID: id})
		case "T2":
			out = append(out, vopT2{ID: id})
		case "T3":
			out = append(out, vopT3{ID: id})
		}
	}
	return out
}

type vopStore struct {
	mu sync.Mutex
	m  map[string][]byte
}

func (s *vopStore) Get(_ context.Context, id string) ([]byte, bool, error) {
	s.mu.Lock()
	defer s.mu.Unlock()
	v, ok := s.m[id]
	return append([]byte{}, v...), ok, nil
}

func (s *vopStore) Set(_ context.Context, id string, v []byte) error {
	s.mu.Lock()
	defer s.mu.Unlock()
	s.m[id] = append([]byte{}, v...)
	return nil
}

type vopT1 struct{ ID string }
type vopT2 struct{ ID string }
type vopT3 struct{ ID string }

type vopRec struct {
	mu    sync.Mutex
	lines []string
	fired map[string][]string // call tag + "/" + run-info name -> handler ids (start, end and error events)
	gots  map[string][]string // call tag + "/" + unit -> option payload ids the node body received
	ran   []string            // call tag + "/" + unit, in execution order
}

func (r *vopRec) log(ev string, kv map[string]any) {
	b, err := json.Marshal(kv)
	if err != nil {
		panic(err)
	}
	line := `{"ev":"` + ev + `"`
	if len(b) > 2 {
		line += "," + string(b[1:])
	} else {
		line += "}"
	}
	r.mu.Lock()
	r.lines = append(r.lines, line)
	r.mu.Unlock()
}

type vopRun struct {
	c       *vopCase
	rec     *vopRec
	arrived chan struct{}
	ncalls  int
	mu      sync.Mutex
	inside  int
	cur     string                 // interrupted runs: the calls are made one after the other; the call that is being made
	par     map[string]*vopBarrier // tree "par": per call, the parallel node bodies overlap (all started before any returns)
}

type vopBarrier struct {
	mu   sync.Mutex
	n    int
	need int
	ch   chan struct{}
}

func (b *vopBarrier) wait() {
	b.mu.Lock()
	b.n++
	if b.n == b.need {
		close(b.ch)
	}
	b.mu.Unlock()
	select {
	case <-b.ch:
	case <-time.After(200 * time.Millisecond):
	}
}

// both calls of a case are in flight at the same time: the first node body of each waits (bounded) for the other call
func (r *vopRun) rendezvous() {
	if r.ncalls < 2 {
		return
	}
	r.mu.Lock()
	r.inside++
	if r.inside == r.ncalls {
		close(r.arrived)
	}
	r.mu.Unlock()
	select {
	case <-r.arrived:
	case <-time.After(20 * time.Millisecond):
	}
}

func vopCallNo(tag string) int {
	n := 0
	fmt.Sscanf(tag, "k%d", &n)
	return n
}

// the call an execution belongs to: normally the tag travelling in the value; in an interrupted run the resumed nodes work on the
// values of the checkpoint (the first call's), so the (sequential) call in progress is taken instead
func (r *vopRun) callOf(tag string) string {
	if r.c.Intr == "" {
		return tag
	}
	r.mu.Lock()
	defer r.mu.Unlock()
	return r.cur
}

// compile options a graph unit needs because the interrupt mark sits on one of its own children
func (r *vopRun) intrOpts(gid string) []GraphCompileOption {
	for i := range r.c.Units {
		u := &r.c.Units[i]
		if u.U == r.c.Intr && u.Parent == gid {
			key := u.Path[len(u.Path)-1]
			if r.c.IntrAfter {
				return []GraphCompileOption{WithInterruptAfterNodes([]string{key})}
			}
			return []GraphCompileOption{WithInterruptBeforeNodes([]string{key})}
		}
	}
	return nil
}

func (r *vopRun) record(u *vopUnit, tag string, got []string, first bool) {
	tag = r.callOf(tag)
	if first && r.c.Intr == "" {
		r.rendezvous()
	}
	if got == nil {
		got = []string{}
	}
	r.rec.mu.Lock()
	r.rec.gots[tag+"/"+u.U] = got
	r.rec.ran = append(r.rec.ran, tag+"/"+u.U)
	r.rec.mu.Unlock()
	if r.c.Tree == "par" {
		r.mu.Lock()
		b := r.par[tag]
		r.mu.Unlock()
		if b != nil {
			b.wait()
		}
	}
}

// after a call returned: one node line per leaf that ran in it, with the handlers that fired for it (start, end or error)
func (r *vopRun) emitNodes(tag string) {
	r.rec.mu.Lock()
	var units []string
	for _, k := range r.rec.ran {
		if strings.HasPrefix(k, tag+"/") {
			units = append(units, strings.TrimPrefix(k, tag+"/"))
		}
	}
	type nl struct {
		u        string
		got, cbs []string
	}
	var out []nl
	for _, u := range units {
		cbs := append([]string{}, r.rec.fired[tag+"/N_"+u]...)
		sort.Strings(cbs)
		uniq := []string{}
		for i, x := range cbs {
			if i == 0 || x != cbs[i-1] {
				uniq = append(uniq, x)
			}
		}
		out = append(out, nl{u, r.rec.gots[tag+"/"+u], uniq})
	}
	r.rec.mu.Unlock()
	for _, n := range out {
		r.rec.log("node", map[string]any{"call": vopCallNo(tag), "u": n.u, "got": n.got, "cbs": n.cbs})
	}
}

func (r *vopRun) leaf(u *vopUnit, first bool) *Lambda {
	switch u.OT {
	case "T1":
		return InvokableLambdaWithOption(func(ctx context.Context, in string, opts ...vopT1) (string, error) {
			got := make([]string, 0, len(opts))
			for _, o := range opts {
				got = append(got, o.ID)
			}
			r.record(u, in, got, first)
			return in, nil
		})
	case "T2":
		return InvokableLambdaWithOption(func(ctx context.Context, in string, opts ...vopT2) (string, error) {
			got := make([]string, 0, len(opts))
			for _, o := range opts {
				got = append(got, o.ID)
			}
			r.record(u, in, got, first)
			return in, nil
		})
	case "T3":
		return InvokableLambdaWithOption(func(ctx context.Context, in string, opts ...vopT3) (string, error) {
			got := make([]string, 0, len(opts))
			for _, o := range opts {
				got = append(got, o.ID)
			}
			r.record(u, in, got, first)
			return in, nil
		})
	}
	return InvokableLambda(func(ctx context.Context, in string) (string, error) {
		r.record(u, in, nil, first)
		return in, nil
	})
}

// children of graph unit gid, in chain order
func (r *vopRun) kids(gid string) []*vopUnit {
	var out []*vopUnit
	for i := range r.c.Units {
		if r.c.Units[i].Parent == gid {
			out = append(out, &r.c.Units[i])
		}
	}
	return out
}

// builds graph unit gid as a plain Graph, a Chain or a Workflow (unit.GK); every level is a chain of its children
func (r *vopRun) build(gid string, top bool, gk string) (AnyGraph, error) {
	first := top
	switch gk {
	case "chain":
		ch := NewChain[string, string]()
		kids := r.kids(gid)
		for i, u := range kids {
			key := u.Path[len(u.Path)-1]
			if u.Graph {
				sub, err := r.build(u.U, false, u.GK)
				if err != nil {
					return nil, err
				}
				ch.AppendGraph(sub, r.nodeOpts(u, vopNext(kids, i), WithNodeKey(key), WithGraphCompileOptions(r.intrOpts(u.U)...))...)
			} else {
				ch.AppendLambda(r.leaf(u, first), r.nodeOpts(u, vopNext(kids, i), WithNodeKey(key))...)
			}
			first = false
		}
		return ch, nil
	case "workflow":
		wf := NewWorkflow[string, string]()
		prev := START
		for _, u := range r.kids(gid) {
			key := u.Path[len(u.Path)-1]
			if u.Graph {
				sub, err := r.build(u.U, false, u.GK)
				if err != nil {
					return nil, err
				}
				wf.AddGraphNode(key, sub, WithNodeName("N_"+u.U), WithGraphCompileOptions(r.intrOpts(u.U)...)).AddInput(prev)
			} else {
				wf.AddLambdaNode(key, r.leaf(u, first), WithNodeName("N_"+u.U)).AddInput(prev)
			}
			first = false
			prev = key
		}
		wf.End().AddInput(prev)
		return wf, nil
	}
	g := NewGraph[string, string]()
	prev := START
	gkids := r.kids(gid)
	for i, u := range gkids {
		key := u.Path[len(u.Path)-1]
		if u.Graph {
			sub, err := r.build(u.U, false, u.GK)
			if err != nil {
				return nil, err
			}
			if err := g.AddGraphNode(key, sub, r.nodeOpts(u, vopNext(gkids, i), WithGraphCompileOptions(r.intrOpts(u.U)...))...); err != nil {
				return nil, err
			}
		} else {
			if err := g.AddLambdaNode(key, r.leaf(u, first), r.nodeOpts(u, vopNext(gkids, i))...); err != nil {
				return nil, err
			}
		}
		first = false
		if err := g.AddEdge(prev, key); err != nil {
			return nil, err
		}
		prev = key
	}
	if err := g.AddEdge(prev, END); err != nil {
		return nil, err
	}
	return g, nil
}

// tree "par": the leaves of the top graph run in parallel in one super step (fan-out from START, fan-in to END by output key)
func (r *vopRun) buildPar() (func(ctx context.Context, in string, opts ...Option) error, int, error) {
	g := NewGraph[string, map[string]any]()
	n := 0
	for _, u := range r.kids("top") {
		key := u.Path[len(u.Path)-1]
		if err := g.AddLambdaNode(key, r.leaf(u, false), WithNodeName("N_"+u.U), WithOutputKey(key)); err != nil {
			return nil, 0, err
		}
		if err := g.AddEdge(START, key); err != nil {
			return nil, 0, err
		}
		if err := g.AddEdge(key, END); err != nil {
			return nil, 0, err
		}
		n++
	}
	run, err := g.Compile(context.Background(), WithGraphName("N_top"))
	if err != nil {
		return nil, 0, err
	}
	return func(ctx context.Context, in string, opts ...Option) error {
		_, err := run.Invoke(ctx, in, opts...)
		return err
	}, n, nil
}

func (r *vopRun) handler(id string) callbacks.Handler {
	// the call a unit execution belongs to travels in the value (every node passes its input on): start events carry it as payload;
	// end / error events are attributed through the context the start callback returned
	type tagKey struct{}
	note := func(tag string, info *callbacks.RunInfo) {
		tag = r.callOf(tag)
		name := "<nil>"
		if info != nil {
			name = info.Name
		}
		r.rec.mu.Lock()
		r.rec.fired[tag+"/"+name] = append(r.rec.fired[tag+"/"+name], id)
		r.rec.mu.Unlock()
	}
	return callbacks.NewHandlerBuilder().
		OnStartFn(func(ctx context.Context, info *callbacks.RunInfo, input callbacks.CallbackInput) context.Context {
			tag, _ := input.(string)
			note(tag, info)
			return context.WithValue(ctx, tagKey{}, tag)
		}).
		OnEndFn(func(ctx context.Context, info *callbacks.RunInfo, output callbacks.CallbackOutput) context.Context {
			tag, _ := output.(string)
			if m, ok := output.(map[string]any); ok {
				for _, v := range m {
					if s, ok := v.(string); ok {
						tag = s
					}
				}
			}
			note(tag, info)
			return ctx
		}).
		OnErrorFn(func(ctx context.Context, info *callbacks.RunInfo, err error) context.Context {
			tag, _ := ctx.Value(tagKey{}).(string)
			note(tag, info)
			return ctx
		}).Build()
}

func (r *vopRun) runCase() {
	c := r.c
	r.rec.log("case", map[string]any{"id": c.ID, "tree": c.Tree, "units": c.Units, "prog": c.Prog, "calls": c.Calls, "intr": c.Intr, "intrafter": c.IntrAfter,
		"mode": c.Mode, "keyed": c.Keyed})
	defer r.rec.log("done", map[string]any{})
	var invoke func(ctx context.Context, in string, opts ...Option) error
	npar := 0
	if c.Tree == "par" {
		f, n, err := r.buildPar()
		if err != nil {
			r.rec.log("note", map[string]any{"msg": "BUILD-FAILED: " + err.Error()})
			return
		}
		invoke, npar = f, n
	} else {
		ag, err := r.build("top", true, "graph")
		if err != nil {
			r.rec.log("note", map[string]any{"msg": "BUILD-FAILED: " + err.Error()})
			return
		}
		copts := []GraphCompileOption{WithGraphName("N_top")}
		if c.Intr != "" {
			copts = append(copts, WithCheckPointStore(&vopStore{m: map[string][]byte{}}))
			copts = append(copts, r.intrOpts("top")...)
		}
		run, err := ag.(*Graph[string, string]).Compile(context.Background(), copts...)
		if err != nil {
			r.rec.log("note", map[string]any{"msg": "BUILD-FAILED: compile: " + err.Error()})
			return
		}
		invoke = func(ctx context.Context, in string, opts ...Option) error {
			if c.Mode == "collect" {
				_, err := run.Collect(ctx, schema.StreamReaderFromArray([]string{in}), opts...)
				return err
			}
			if c.Mode == "transform" {
				sr, err := run.Transform(ctx, schema.StreamReaderFromArray([]string{in}), opts...)
				if err != nil {
					return err
				}
				defer sr.Close()
				for {
					if _, e := sr.Recv(); e != nil {
						if e == io.EOF {
							return nil
						}
						return e
					}
				}
			}
			if c.Mode == "stream" {
				sr, err := run.Stream(ctx, in, opts...)
				if err != nil {
					return err
				}
				defer sr.Close()
				for {
					if _, e := sr.Recv(); e != nil {
						if e == io.EOF {
							return nil
						}
						return e
					}
				}
			}
			_, err := run.Invoke(ctx, in, opts...)
			return err
		}
	}
	// the option program, executed statement by statement on Option VALUES as user code would
	vars := make([]Option, 0, len(c.Prog))
	for _, st := range c.Prog {
		switch st.Op {
		case "new":
			switch st.Typ {
			case "T1", "T2", "T3":
				vars = append(vars, WithLambdaOption(vopBundle(st)...))
			case "cb":
				vars = append(vars, WithCallbacks(r.handler(st.ID)))
			default:
				r.rec.log("note", map[string]any{"msg": "BUILD-FAILED: unknown option type " + st.Typ})
				return
			}
		case "des":
			base := vars[st.From-1]
			simple := true
			for _, p := range st.Paths {
				if len(p) != 1 {
					simple = false
				}
			}
			if simple {
				keys := make([]string, 0, len(st.Paths))
				for _, p := range st.Paths {
					keys = append(keys, p[0])
				}
				vars = append(vars, base.DesignateNode(keys...))
			} else {
				ps := make([]*NodePath, 0, len(st.Paths))
				for _, p := range st.Paths {
					ps = append(ps, NewNodePath(p...))
				}
				vars = append(vars, base.DesignateNodeWithPath(ps...))
			}
		}
	}
	r.ncalls = len(c.Calls)
	r.arrived = make(chan struct{})
	r.par = map[string]*vopBarrier{}
	for k := range c.Calls {
		if npar > 0 {
			r.par[fmt.Sprintf("k%d", k+1)] = &vopBarrier{need: npar, ch: make(chan struct{})}
		}
	}
	var wg sync.WaitGroup
	if c.Intr != "" {
		// first call (runs up to the mark, returns the interrupt), then the resuming call with ITS options and the same checkpoint id
		for k := range c.Calls {
			opts := make([]Option, 0, len(c.Calls[k])+1)
			for _, vi := range c.Calls[k] {
				opts = append(opts, vars[vi-1])
			}
			opts = append(opts, WithCheckPointID("cp-"+c.ID))
			tag := fmt.Sprintf("k%d", k+1)
			r.mu.Lock()
			r.cur = tag
			r.mu.Unlock()
			var err error
			func() {
				defer func() {
					if p := recover(); p != nil {
						err = fmt.Errorf("panic: %v", p)
					}
				}()
				err = invoke(context.Background(), tag, opts...)
			}()
			r.emitNodes(tag)
			r.rec.log("ret", map[string]any{"call": k + 1, "err": err != nil})
		}
		return
	}
	for k := range c.Calls {
		opts := make([]Option, 0, len(c.Calls[k]))
		for _, vi := range c.Calls[k] {
			opts = append(opts, vars[vi-1])
		}
		wg.Add(1)
		go func(k int, opts []Option) {
			defer wg.Done()
			var err error
			func() {
				defer func() {
					if p := recover(); p != nil {
						err = fmt.Errorf("panic: %v", p)
					}
				}()
				err = invoke(context.Background(), fmt.Sprintf("k%d", k+1), opts...)
			}()
			r.emitNodes(fmt.Sprintf("k%d", k+1))
			r.rec.log("ret", map[string]any{"call": k + 1, "err": err != nil})
		}(k, opts)
	}
	wg.Wait()
}

func TestVerifOpt(t *testing.T) {
	in, out := os.Getenv("VERIF_CASES"), os.Getenv("VERIF_OUT")
	if in == "" || out == "" {
		t.Skip("VERIF_CASES / VERIF_OUT not set")
	}
	f, err := os.Open(in)
	if err != nil {
		t.Fatal(err)
	}
	defer f.Close()
	var cases []*vopCase
	rd := bufio.NewReaderSize(f, 1<<20)
	for {
		line, rerr := rd.ReadBytes('\n')
		if len(strings.TrimSpace(string(line))) > 0 {
			c := &vopCase{}
			if e := json.Unmarshal(line, c); e != nil {
				t.Fatalf("bad case line: %v: %s", e, line)
			}
			for i := range c.Prog {
				if c.Prog[i].Op == "new" && c.Prog[i].N < 1 {
					c.Prog[i].N = 1
				}
			}
			cases = append(cases, c)
		}
		if rerr != nil {
			break
		}
	}
	of, err := os.Create(out)
	if err != nil {
		t.Fatal(err)
	}
	w := bufio.NewWriterSize(of, 1<<20)
	var wmu sync.Mutex
	var wg sync.WaitGroup
	next := make(chan *vopCase, 64)
	for i := 0; i < 4; i++ {
		wg.Add(1)
		go func() {
			defer wg.Done()
			for c := range next {
				r := &vopRun{c: c, rec: &vopRec{fired: map[string][]string{}, gots: map[string][]string{}}}
				r.runCase()
				wmu.Lock()
				for _, l := range r.rec.lines {
					w.WriteString(l)
					w.WriteByte('\n')
				}
				wmu.Unlock()
			}
		}()
	}
	for _, c := range cases {
		next <- c
	}
	close(next)
	wg.Wait()
	if err := w.Flush(); err != nil {
		t.Fatal(err)
	}
	of.Close()
	fmt.Printf("VERIF-OPT cases=%d\n", len(cases))
}
