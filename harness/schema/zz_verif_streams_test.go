//go:build verif

package schema

// Conformance harness of C08 (streams deliver every item exactly once, in order, to every reader).
//
// It reads TLC-generated cases (VERIF_CASES, ndjson), builds the reader tree of each case through the public API of package
// schema (Pipe, StreamReaderFromArray, Copy, MergeStreamReaders, StreamReaderWithConvert) and drives it either
//   mode "seq":  one goroutine executes the operation sequence that spec/StreamsSeq.tla enumerated, or
//   mode "conc": one goroutine per end (a writer per pipe, a reader per leaf) with VERIF_SEED-seeded jitter and random early closes.
// Every API call is logged as a call line (ticket taken immediately before the call) and a ret line (ticket taken immediately
// after it returned) with one global atomic ticket; the lines of a case are written in ticket order behind a `case` line.
// The harness computes no expectation: spec/StreamsObs.tla and spec/StreamsLin.tla decide.

import (
	"bufio"
	"encoding/json"
	"errors"
	"fmt"
	"io"
	"math/rand"
	"os"
	"runtime"
	"sort"
	"strings"
	"sync"
	"sync/atomic"
	"testing"
	"time"
)

type vfsNode struct {
	K     string `json:"k"`
	Src   []int  `json:"src"`
	Cap   int    `json:"cap"`
	Items []int  `json:"items"`
	N     int    `json:"n"`
	Idx   int    `json:"idx"`
	Skip  int    `json:"skip"`
}

type vfsOp struct {
	A  int    `json:"a"`
	Op string `json:"op"`
}

type vfsCase struct {
	ID     string    `json:"id"`
	Mode   string    `json:"mode"`
	Tree   []vfsNode `json:"tree"`
	Ops    []vfsOp   `json:"ops"`
	Seed   int64     `json:"seed"`
	PClose int       `json:"pclose"` // a reader closes before its next Recv with probability pclose/16
	Rounds int       `json:"rounds"` // mode "burst": number of rounds
	Pre    []vfsPre  `json:"pre"`    // operations executed (and logged) during construction, right before node `at` is built
}

type vfsPre struct {
	At  int     `json:"at"`
	Ops []vfsOp `json:"ops"`
}

type vfsErr struct{ code int }

func (e vfsErr) Error() string { return fmt.Sprintf("vfs error item %d", e.code) }

type vfsEv struct {
	t   int64
	ev  string
	a   int
	op  string
	v   int
	res string
}

var vfsTicket int64

type vfsLog struct {
	evs     []vfsEv
	pending int32 // 1 while a call is in flight (read by the watchdog)
	cur     vfsEv
}

func (l *vfsLog) call(a int, op string, v int) {
	e := vfsEv{ev: "call", a: a, op: op, v: v}
	l.cur = e
	atomic.StoreInt32(&l.pending, 1)
	e.t = atomic.AddInt64(&vfsTicket, 1)
	l.evs = append(l.evs, e)
}

func (l *vfsLog) ret(a int, op string, v int, res string) {
	t := atomic.AddInt64(&vfsTicket, 1)
	atomic.StoreInt32(&l.pending, 0)
	l.evs = append(l.evs, vfsEv{t: t, ev: "ret", a: a, op: op, v: v, res: res})
}

type vfsTree struct {
	readers map[int]*StreamReader[int]
	writers map[int]*StreamWriter[int]
	leaves  []int
	pipes   []int
	sent    map[int]int  // items already sent during construction (pre-reads)
	wclosed map[int]bool // writers already closed during construction
}

// root pipe below reader node id (following the first source), 0 when the root is an array
func vfsRootPipe(nodes []vfsNode, id int) int {
	for {
		n := nodes[id-1]
		if n.K == "pipe" {
			return id
		}
		if len(n.Src) == 0 {
			return 0
		}
		id = n.Src[0]
	}
}

func vfsBuild(nodes []vfsNode, pre *vfsLog, scripts ...vfsPre) *vfsTree {
	t := &vfsTree{readers: map[int]*StreamReader[int]{}, writers: map[int]*StreamWriter[int]{}, sent: map[int]int{}, wclosed: map[int]bool{}}
	copies := map[int][]*StreamReader[int]{}
	used := map[int]bool{}
	for i, n := range nodes {
		id := i + 1
		for _, s := range n.Src {
			used[s] = true
		}
		// "use a reader, then build on it": e.g. read a merged reader until a source was seen ending, then merge it again
		for _, sc := range scripts {
			if sc.At != id {
				continue
			}
			for _, op := range sc.Ops {
				switch op.Op {
				case "send":
					vfsSend(pre, t.writers[op.A], op.A, nodes[op.A-1].Items[t.sent[op.A]])
					t.sent[op.A]++
				case "closeSend":
					vfsCloseSend(pre, t.writers[op.A], op.A)
					t.wclosed[op.A] = true
				case "recv":
					vfsRecv(pre, t.readers[op.A], op.A)
				}
			}
		}
		switch n.K {
		case "pipe":
			sr, sw := Pipe[int](n.Cap)
			t.readers[id], t.writers[id] = sr, sw
			t.pipes = append(t.pipes, id)
		case "array":
			// cap of an array node = spare capacity of the caller's slice (StreamReaderFromArray(s[:k]) with cap(s) > k)
			arr := make([]int, len(n.Items), len(n.Items)+n.Cap)
			copy(arr, n.Items)
			t.readers[id] = StreamReaderFromArray(arr)
		case "copy":
			// "read k items, then Copy": idx of a copy node = number of Recv calls on its source before Copy (logged like any call);
			// a pipe-backed source is fed one item before each of them
			for j := 0; j < n.Idx; j++ {
				if p := vfsRootPipe(nodes, n.Src[0]); p != 0 {
					vfsSend(pre, t.writers[p], p, nodes[p-1].Items[t.sent[p]])
					t.sent[p]++
				}
				vfsRecv(pre, t.readers[n.Src[0]], n.Src[0])
			}
			copies[id] = t.readers[n.Src[0]].Copy(n.N)
		case "child":
			t.readers[id] = copies[n.Src[0]][n.Idx]
		case "conv":
			skip := n.Skip
			panicAt, calls := n.N, 0 // n of a conv node = the call of the convert function that panics (0 = never)
			t.readers[id] = StreamReaderWithConvert(t.readers[n.Src[0]], func(v int) (int, error) {
				calls++
				if panicAt > 0 && calls == panicAt {
					panic("vfs convert panic")
				}
				if skip > 0 && v%skip == 0 {
					if (v/10)%2 == 1 { // items of odd-numbered roots are skipped with a WRAPPED sentinel (errors.Is must still match)
						return 0, fmt.Errorf("vfs skip %d: %w", v, ErrNoValue)
					}
					return 0, ErrNoValue
				}
				return v + 100, nil
			})
		case "merge":
			srs := make([]*StreamReader[int], 0, len(n.Src))
			for _, s := range n.Src {
				// "Recv on an array-backed stream, then merge it": idx of an array node = logged Recv calls before it becomes a source
				if nodes[s-1].K == "array" {
					for j := 0; j < nodes[s-1].Idx; j++ {
						vfsRecv(pre, t.readers[s], s)
					}
				}
				srs = append(srs, t.readers[s])
			}
			t.readers[id] = MergeStreamReaders(srs)
		default:
			panic("vfs: unknown node kind " + n.K)
		}
	}
	for i, n := range nodes {
		if n.K != "copy" && !used[i+1] {
			t.leaves = append(t.leaves, i+1)
		}
	}
	return t
}

func vfsSend(l *vfsLog, sw *StreamWriter[int], p int, item int) bool {
	l.call(p, "send", item)
	var closed bool
	if item < 0 {
		closed = sw.Send(0, vfsErr{code: -item})
	} else {
		closed = sw.Send(item, nil)
	}
	if closed {
		l.ret(p, "send", 0, "true")
	} else {
		l.ret(p, "send", 0, "false")
	}
	return closed
}

func vfsCloseSend(l *vfsLog, sw *StreamWriter[int], p int) {
	l.call(p, "closeSend", 0)
	sw.Close()
	l.ret(p, "closeSend", 0, "ok")
}

// returns true at EOF
func vfsRecv(l *vfsLog, sr *StreamReader[int], a int) bool {
	l.call(a, "recv", 0)
	v, err := sr.Recv()
	if err == io.EOF {
		l.ret(a, "recv", 0, "eof")
		return true
	}
	if err != nil {
		var ve vfsErr
		if errors.As(err, &ve) {
			v = -ve.code
		} else if errors.Is(err, ErrRecvAfterClosed) {
			v = -9998
		} else if strings.Contains(err.Error(), "vfs convert panic") {
			v = -9997 // the recovered panic of a convert function, forwarded as an error item
		} else {
			v = -9999
		}
	}
	l.ret(a, "recv", v, "item")
	return false
}

func vfsClose(l *vfsLog, sr *StreamReader[int], a int) {
	l.call(a, "close", 0)
	sr.Close()
	l.ret(a, "close", 0, "ok")
}

func vfsJitter(r *rand.Rand) {
	switch r.Intn(6) {
	case 0, 1:
	case 2, 3:
		runtime.Gosched()
	case 4:
		for i, n := 0, r.Intn(400); i < n; i++ {
			_ = i
		}
	case 5:
		time.Sleep(time.Duration(r.Intn(30)) * time.Microsecond)
	}
}

func vfsGuard(l *vfsLog, a int, wg *sync.WaitGroup) {
	if p := recover(); p != nil {
		t := atomic.AddInt64(&vfsTicket, 1)
		l.evs = append(l.evs, vfsEv{t: t, ev: "panic", a: a, op: l.cur.op, v: 0, res: fmt.Sprint(p)})
		atomic.StoreInt32(&l.pending, 0)
	}
	if wg != nil {
		wg.Done()
	}
}

func vfsRunSeq(c *vfsCase, t *vfsTree) ([]*vfsLog, bool) {
	l := &vfsLog{}
	done := make(chan struct{})
	go func() {
		defer close(done)
		defer vfsGuard(l, 0, nil)
		wi := map[int]int{}
		for p, k := range t.sent {
			wi[p] = k
		}
		for _, op := range c.Ops {
			switch op.Op {
			case "send":
				vfsSend(l, t.writers[op.A], op.A, c.Tree[op.A-1].Items[wi[op.A]])
				wi[op.A]++
			case "closeSend":
				vfsCloseSend(l, t.writers[op.A], op.A)
			case "recv":
				vfsRecv(l, t.readers[op.A], op.A)
			case "close":
				vfsClose(l, t.readers[op.A], op.A)
			}
		}
	}()
	select {
	case <-done:
		return []*vfsLog{l}, false
	case <-time.After(3 * time.Second):
		return []*vfsLog{l}, true
	}
}

func vfsRunConc(c *vfsCase, t *vfsTree) ([]*vfsLog, bool) {
	var wg sync.WaitGroup
	var logs []*vfsLog
	start := make(chan struct{})
	for _, p := range t.pipes {
		p := p
		l := &vfsLog{}
		logs = append(logs, l)
		wg.Add(1)
		go func() {
			defer vfsGuard(l, p, &wg)
			r := rand.New(rand.NewSource(c.Seed*1000 + int64(p)))
			sw := t.writers[p]
			<-start
			if t.wclosed[p] {
				return
			}
			for _, it := range c.Tree[p-1].Items[t.sent[p]:] {
				vfsJitter(r)
				if vfsSend(l, sw, p, it) {
					break
				}
			}
			vfsJitter(r)
			vfsCloseSend(l, sw, p)
		}()
	}
	for _, a := range t.leaves {
		a := a
		l := &vfsLog{}
		logs = append(logs, l)
		wg.Add(1)
		go func() {
			defer vfsGuard(l, a, &wg)
			r := rand.New(rand.NewSource(c.Seed*1000 + int64(a)))
			sr := t.readers[a]
			<-start
			for n := 0; ; n++ {
				vfsJitter(r)
				if n >= 64 || r.Intn(16) < c.PClose { // 64: far above any item count of a case; guards against a reader that never ends

					vfsClose(l, sr, a)
					return
				}
				if vfsRecv(l, sr, a) {
					if r.Intn(2) == 0 {
						vfsJitter(r)
						vfsClose(l, sr, a)
					}
					return
				}
			}
		}()
	}
	close(start)
	done := make(chan struct{})
	go func() { wg.Wait(); close(done) }()
	select {
	case <-done:
		return logs, false
	case <-time.After(3 * time.Second):
		return logs, true
	}
}

// mode "burst": per round a fresh instance of the tree; one goroutine per leaf, all released together through a spin barrier, closes its
// leaf; when all have returned the writer of the (single) pipe sends once and closes.  One `burst` line per round carries what Send
// returned; spec/StreamsObs.tla replays the round's calls and returns through the rule (ObsBurst).
func vfsRunBurst(c *vfsCase, w *bufio.Writer) {
	for r := 0; r < c.Rounds; r++ {
		t := vfsBuild(c.Tree, &vfsLog{})
		p := t.pipes[0]
		n := int32(len(t.leaves))
		var arrived int32
		var wg sync.WaitGroup
		var panicked int32
		for _, a := range t.leaves {
			sr := t.readers[a]
			wg.Add(1)
			go func() {
				defer wg.Done()
				defer func() {
					if e := recover(); e != nil {
						atomic.StoreInt32(&panicked, 1)
					}
				}()
				atomic.AddInt32(&arrived, 1)
				for i := 0; atomic.LoadInt32(&arrived) < n && i < 5000000; i++ {
				}
				sr.Close()
			}()
		}
		wg.Wait()
		if atomic.LoadInt32(&panicked) == 1 {
			fmt.Fprintf(w, "{\"ev\":\"panic\",\"a\":%d,\"op\":\"close\",\"v\":0,\"res\":\"\"}\n", t.leaves[0])
			continue
		}
		item := c.Tree[p-1].Items[0]
		res := make(chan bool, 1)
		go func() { res <- t.writers[p].Send(item, nil) }()
		select {
		case closed := <-res:
			fmt.Fprintf(w, "{\"ev\":\"burst\",\"a\":%d,\"op\":\"send\",\"v\":%d,\"res\":\"%v\"}\n", p, item, closed)
			t.writers[p].Close()
		case <-time.After(3 * time.Second):
			fmt.Fprintf(w, "{\"ev\":\"hang\",\"a\":%d,\"op\":\"send\",\"v\":0,\"res\":\"\"}\n", p)
		}
	}
}

func TestVerifStreams(t *testing.T) {
	cases, out := os.Getenv("VERIF_CASES"), os.Getenv("VERIF_OUT")
	if cases == "" || out == "" {
		t.Skip("VERIF_CASES / VERIF_OUT not set")
	}
	in, err := os.Open(cases)
	if err != nil {
		t.Fatal(err)
	}
	defer in.Close()
	of, err := os.Create(out)
	if err != nil {
		t.Fatal(err)
	}
	w := bufio.NewWriterSize(of, 1<<20)
	sc := bufio.NewScanner(in)
	sc.Buffer(make([]byte, 1<<20), 1<<24)
	n, hangs := 0, 0
	for sc.Scan() {
		if len(sc.Bytes()) == 0 {
			continue
		}
		var c vfsCase
		if err := json.Unmarshal(sc.Bytes(), &c); err != nil {
			t.Fatalf("bad case line: %v", err)
		}
		for i := range c.Tree {
			if c.Tree[i].Src == nil {
				c.Tree[i].Src = []int{}
			}
			if c.Tree[i].Items == nil {
				c.Tree[i].Items = []int{}
			}
		}
		if c.Mode == "burst" {
			tj, _ := json.Marshal(c.Tree)
			fmt.Fprintf(w, "{\"ev\":\"case\",\"id\":%q,\"mode\":%q,\"tree\":%s}\n", c.ID, c.Mode, tj)
			vfsRunBurst(&c, w)
			n++
			continue
		}
		pre := &vfsLog{}
		var tree *vfsTree
		bdone := make(chan struct{})
		go func() { // construction performs the pre-reads of "read k, then Copy" cases: guarded like every other call
			defer close(bdone)
			defer vfsGuard(pre, 0, nil)
			tree = vfsBuild(c.Tree, pre, c.Pre...)
		}()
		var logs []*vfsLog
		var hung bool
		select {
		case <-bdone:
		case <-time.After(3 * time.Second):
			hung = true
		}
		if hung || tree == nil {
			logs = nil
		} else if c.Mode == "seq" {
			logs, hung = vfsRunSeq(&c, tree)
		} else {
			logs, hung = vfsRunConc(&c, tree)
		}
		evs := append([]vfsEv(nil), pre.evs...)
		if hung && logs == nil && atomic.LoadInt32(&pre.pending) == 1 {
			evs = append(evs, vfsEv{t: 1 << 60, ev: "hang", a: pre.cur.a, op: pre.cur.op, res: ""})
		}
		for _, l := range logs {
			if hung {
				// the goroutine may still be running: take what it logged so far (racy only when the watchdog fired)
				evs = append(evs, append([]vfsEv(nil), l.evs...)...)
				if atomic.LoadInt32(&l.pending) == 1 {
					evs = append(evs, vfsEv{t: 1 << 60, ev: "hang", a: l.cur.a, op: l.cur.op, res: ""})
				}
			} else {
				evs = append(evs, l.evs...)
			}
		}
		if hung {
			hangs++
		}
		sort.Slice(evs, func(i, j int) bool { return evs[i].t < evs[j].t })
		tj, _ := json.Marshal(c.Tree)
		fmt.Fprintf(w, "{\"ev\":\"case\",\"id\":%q,\"mode\":%q,\"tree\":%s}\n", c.ID, c.Mode, tj)
		for _, e := range evs {
			fmt.Fprintf(w, "{\"ev\":%q,\"a\":%d,\"op\":%q,\"v\":%d,\"res\":%q}\n", e.ev, e.a, e.op, e.v, e.res)
		}
		n++
	}
	if err := w.Flush(); err != nil {
		t.Fatal(err)
	}
	of.Close()
	fmt.Printf("VERIF-STREAMS cases=%d hangs=%d\n", n, hangs)
}
