//go:build verif

package schema_test

// C14 conformance harness (overlay, external test package of schema so that compose and internal can be imported).
//
// Reads chunk sequences enumerated by TLC from spec/ConcatGen.tla (VERIF_CASES), materialises each chunk as a real Go
// value, and calls the REAL concatenation functions under recover:
//   cm     schema.ConcatMessages            cms    schema.ConcatMessageStream
//   ci     internal.ConcatItems (under its documented precondition len > 1; a single chunk is the result itself)
//   graph  a compose graph  stream-producing node -> value-consuming node  (forces concatStreamReader)
// the whole sequence three times, and for every split point the prefix first and then <prefix result> + rest.
// Results are written canonically (VERIF_OUT; maps as key-sorted lists, explicit nil markers).  No expectation is
// computed here: spec/ConcatObs.tla decides.

import (
	"bufio"
	"context"
	"encoding/json"
	"fmt"
	"hash/fnv"
	"os"
	"sort"
	"testing"

	"github.com/cloudwego/eino/compose"
	"github.com/cloudwego/eino/internal"
	"github.com/cloudwego/eino/schema"
)

type vfAcc struct {
	S string
	N int
}
type vfPlain struct {
	N int
}

// a registered custom element type whose concat function is NOT neutral for the zero value (minimum)
type vfMin struct {
	N int
}

func init() {
	compose.RegisterStreamChunkConcatFunc(func(items []vfMin) (vfMin, error) {
		r := items[0]
		for _, it := range items {
			if it.N < r.N {
				r = it
			}
		}
		return r, nil
	})
	compose.RegisterStreamChunkConcatFunc(func(items []vfAcc) (vfAcc, error) {
		var r vfAcc
		for _, it := range items {
			r.S += it.S
			r.N += it.N
		}
		return r, nil
	})
}

// ---- abstract vocabulary (spec/Concat.tla)

type vfXV struct {
	X string `json:"x"`
	S string `json:"s"`
	N int    `json:"n"`
	M []vfKV `json:"m"`
}
type vfKV struct {
	K string `json:"k"`
	V vfXV   `json:"v"`
}
type vfCall struct {
	Idx   int    `json:"idx"`
	ID    string `json:"id"`
	Type  string `json:"type"`
	Fname string `json:"fname"`
	Args  string `json:"args"`
}
type vfMeta struct {
	Has  bool   `json:"has"`
	Fin  string `json:"fin"`
	Uhas bool   `json:"uhas"`
	P    int    `json:"p"`
	C    int    `json:"c"`
	T    int    `json:"t"`
}
type vfMsg struct {
	Nil     bool     `json:"nil"`
	Role    string   `json:"role"`
	Name    string   `json:"name"`
	Tcid    string   `json:"tcid"`
	Content string   `json:"content"`
	Calls   []vfCall `json:"calls"`
	Meta    vfMeta   `json:"meta"`
	Extra   []vfKV   `json:"extra"`
}

// one chunk of any kind (only the fields of its kind are used)
type vfChunk struct {
	vfMsg
	Items []vfMsg `json:"items,omitempty"`
	Kv    []vfKV  `json:"kv,omitempty"`
	S     string  `json:"s,omitempty"`
	N     int     `json:"n,omitempty"`
}

func vfBuildXV(x vfXV) any {
	switch x.X {
	case "nil":
		return nil
	case "str":
		return x.S
	case "int":
		return x.N
	case "map":
		return vfBuildMap(x.M)
	case "imap":
		return vfBuildIMap(x.M)
	case "smap":
		m := make(map[string]string, len(x.M))
		for _, e := range x.M {
			m[e.K] = e.V.S
		}
		return m
	}
	panic("vf: unknown extra value kind " + x.X)
}

func vfBuildIMap(kv []vfKV) map[string]int64 {
	m := make(map[string]int64, len(kv))
	for _, e := range kv {
		m[e.K] = int64(e.V.N)
	}
	return m
}

func vfBuildMap(kv []vfKV) map[string]any {
	m := make(map[string]any, len(kv))
	for _, e := range kv {
		m[e.K] = vfBuildXV(e.V)
	}
	return m
}

func vfBuildMsg(a vfMsg) *schema.Message {
	if a.Nil {
		return nil
	}
	m := &schema.Message{Role: schema.RoleType(a.Role), Name: a.Name, ToolCallID: a.Tcid, Content: a.Content}
	for _, c := range a.Calls {
		tc := schema.ToolCall{ID: c.ID, Type: c.Type, Function: schema.FunctionCall{Name: c.Fname, Arguments: c.Args}}
		if c.Idx >= 0 {
			ix := c.Idx
			tc.Index = &ix
		}
		m.ToolCalls = append(m.ToolCalls, tc)
	}
	if a.Meta.Has {
		m.ResponseMeta = &schema.ResponseMeta{FinishReason: a.Meta.Fin}
		if a.Meta.Uhas {
			m.ResponseMeta.Usage = &schema.TokenUsage{PromptTokens: a.Meta.P, CompletionTokens: a.Meta.C, TotalTokens: a.Meta.T}
		}
	}
	if len(a.Extra) > 0 {
		m.Extra = vfBuildMap(a.Extra)
	}
	return m
}

func vfRenderXV(v any, depth int) vfXV {
	r := vfXV{M: []vfKV{}}
	switch x := v.(type) {
	case nil:
		r.X = "nil"
	case string:
		r.X, r.S = "str", x
	case int:
		r.X, r.N = "int", x
	case int64:
		r.X, r.N = "int", int(x)
	case bool:
		r.X = "bool"
		if x {
			r.N = 1
		}
	case vfMin:
		r.X, r.N = "min", x.N
	case map[string]int64:
		r.X = "imap"
		ks := make([]string, 0, len(x))
		for k := range x {
			ks = append(ks, k)
		}
		sort.Strings(ks)
		for _, k := range ks {
			r.M = append(r.M, vfKV{K: k, V: vfXV{X: "int", N: int(x[k]), M: []vfKV{}}})
		}
	case map[string]string:
		r.X = "smap"
		ks := make([]string, 0, len(x))
		for k := range x {
			ks = append(ks, k)
		}
		sort.Strings(ks)
		for _, k := range ks {
			r.M = append(r.M, vfKV{K: k, V: vfXV{X: "str", S: x[k], M: []vfKV{}}})
		}
	case map[string]any:
		if depth >= 2 {
			r.X, r.S = "other", fmt.Sprintf("%#v", v)
		} else {
			r.X, r.M = "map", vfRenderMap(x, depth+1)
		}
	default:
		r.X, r.S = "other", fmt.Sprintf("%T:%#v", v, v)
	}
	return r
}

func vfRenderMap(m map[string]any, depth int) []vfKV {
	keys := make([]string, 0, len(m))
	for k := range m {
		keys = append(keys, k)
	}
	sort.Strings(keys)
	out := make([]vfKV, 0, len(keys))
	for _, k := range keys {
		out = append(out, vfKV{K: k, V: vfRenderXV(m[k], depth)})
	}
	return out
}

func vfRenderMsg(m *schema.Message) vfMsg {
	r := vfMsg{Calls: []vfCall{}, Extra: []vfKV{}}
	if m == nil {
		r.Nil = true
		return r
	}
	r.Role, r.Name, r.Tcid, r.Content = string(m.Role), m.Name, m.ToolCallID, m.Content
	for _, tc := range m.ToolCalls {
		c := vfCall{Idx: -1, ID: tc.ID, Type: tc.Type, Fname: tc.Function.Name, Args: tc.Function.Arguments}
		if tc.Index != nil {
			c.Idx = *tc.Index
		}
		r.Calls = append(r.Calls, c)
	}
	if m.ResponseMeta != nil {
		r.Meta.Has, r.Meta.Fin = true, m.ResponseMeta.FinishReason
		if u := m.ResponseMeta.Usage; u != nil {
			r.Meta.Uhas, r.Meta.P, r.Meta.C, r.Meta.T = true, u.PromptTokens, u.CompletionTokens, u.TotalTokens
		}
	}
	if len(m.Extra) > 0 {
		r.Extra = vfRenderMap(m.Extra, 0)
	}
	return r
}

type vfOutcome struct {
	O   string `json:"o"`
	V   any    `json:"v"`
	Msg string `json:"msg"`
}
type vfSplit struct {
	I   int       `json:"i"`
	Pre vfOutcome `json:"pre"`
	Res vfOutcome `json:"res"`
}
// vfShared: the same calls once more, this time ALL ON THE SAME chunk values (whole, every split, whole again).
// Everything is recorded as a digest (fnv64 of the canonical rendering): In[j] = digests of every input chunk before the
// first call (j = 0) and after each call; Whole = first whole call, last whole call, and the FIRST result rendered again
// at the very end; Pre[i] = prefix result right after its call and rendered again at the end; Res[i]; Ref = digests of
// the corresponding outcomes of the calls on freshly built chunks.
type vfShared struct {
	In    [][]string `json:"in"`
	Whole []string   `json:"whole"`
	Pre   [][]string `json:"pre"`
	Res   []string   `json:"res"`
	Ref   vfRef      `json:"ref"`
}
type vfRef struct {
	Whole string   `json:"whole"`
	Pre   []string `json:"pre"`
	Res   []string `json:"res"`
}

func vfDigest(v any) string {
	b, err := json.Marshal(v)
	if err != nil {
		return "unrenderable:" + err.Error()
	}
	h := fnv.New64a()
	_, _ = h.Write(b)
	return fmt.Sprintf("%016x", h.Sum64())
}

func vfOutDigest(o vfOutcome) string {
	if o.O != "ok" {
		return o.O
	}
	return "ok:" + vfDigest(o.V)
}

type vfLine struct {
	Ev     string      `json:"ev"`
	ID     string      `json:"id"`
	Path   string      `json:"path"`
	Kind   string      `json:"kind"`
	Chunks []any       `json:"chunks"`
	Full   []vfOutcome `json:"full"`
	Splits []vfSplit   `json:"splits"`
	Sh     vfShared    `json:"sh"`
	Elem   []vfElem    `json:"elem"`
}

// vfElem: what the library's concatenation of the ELEMENT type gives for the values found, in arrival order, under a
// concretely typed map key (p = key, or outer/inner for a typed map held in a map[string]any / Extra)
type vfElem struct {
	P string `json:"p"`
	O string `json:"o"`
	N int    `json:"n"`
}

func vfElemCat[E any](p string, vals []E, num func(E) int) vfElem {
	v, o, _ := vfCall1(vfItems[E], vals)
	e := vfElem{P: p, O: o}
	if o == "ok" {
		e.N = num(v)
	}
	return e
}

// typed values per key, in arrival order, over a sequence of key->XV lists
func vfElems(maps [][]vfKV, prefix string, kind string) []vfElem {
	order := []string{}
	seq := map[string][]vfXV{}
	for _, m := range maps {
		for _, e := range m {
			if _, ok := seq[e.K]; !ok {
				order = append(order, e.K)
			}
			seq[e.K] = append(seq[e.K], e.V)
		}
	}
	sort.Strings(order)
	out := []vfElem{}
	for _, k := range order {
		vals := seq[k]
		switch kind {
		case "mapi":
			xs := []int64{}
			for _, v := range vals {
				xs = append(xs, int64(v.N))
			}
			out = append(out, vfElemCat(prefix+k, xs, func(x int64) int { return int(x) }))
		case "mapb":
			xs := []bool{}
			for _, v := range vals {
				xs = append(xs, v.N != 0)
			}
			out = append(out, vfElemCat(prefix+k, xs, func(x bool) int {
				if x {
					return 1
				}
				return 0
			}))
		case "mapm":
			xs := []vfMin{}
			for _, v := range vals {
				xs = append(xs, vfMin{N: v.N})
			}
			out = append(out, vfElemCat(prefix+k, xs, func(x vfMin) int { return x.N }))
		default: // map[string]any / Extra: descend into the typed maps held under k
			inner := [][]vfKV{}
			typed := []vfXV{}
			same := true
			for _, v := range vals {
				if v.X == "imap" || v.X == "smap" {
					if len(typed) > 0 && typed[0].X != v.X {
						same = false
					}
					typed = append(typed, v)
				}
				if v.X == "imap" {
					inner = append(inner, v.M)
				}
			}
			if len(typed) > 0 && same { // the typed maps themselves, concatenated as chunks of their own type
				if typed[0].X == "imap" {
					xs := []map[string]int64{}
					for _, v := range typed {
						xs = append(xs, vfBuildIMap(v.M))
					}
					out = append(out, vfElemCat(prefix+k, xs, func(map[string]int64) int { return 0 }))
				} else {
					xs := []map[string]string{}
					for _, v := range typed {
						xs = append(xs, vfBuildXV(v).(map[string]string))
					}
					out = append(out, vfElemCat(prefix+k, xs, func(map[string]string) int { return 0 }))
				}
			}
			if len(inner) > 0 {
				out = append(out, vfElems(inner, prefix+k+"/", "mapi")...)
			}
		}
	}
	return out
}

// a kind: how to build a chunk, render a value, and which entry points exist
type vfKind[T any] struct {
	name   string
	build  func(vfChunk) T
	render func(T) any
	dummy  any
	paths  map[string]func([]T) (T, error)
	elems  func([]vfChunk) []vfElem
}

func vfCall1[T any](f func([]T) (T, error), items []T) (v T, outcome, msg string) {
	defer func() {
		if r := recover(); r != nil {
			outcome, msg = "panic", fmt.Sprint(r)
		}
	}()
	x, err := f(items)
	if err != nil {
		return x, "err", err.Error()
	}
	return x, "ok", ""
}

func vfGraph[T any]() func([]T) (T, error) {
	ctx := context.Background()
	g := compose.NewGraph[[]T, T]()
	_ = g.AddLambdaNode("src", compose.StreamableLambda(func(ctx context.Context, in []T) (*schema.StreamReader[T], error) {
		return schema.StreamReaderFromArray(in), nil
	}))
	_ = g.AddLambdaNode("dst", compose.InvokableLambda(func(ctx context.Context, in T) (T, error) { return in, nil }))
	_ = g.AddEdge(compose.START, "src")
	_ = g.AddEdge("src", "dst")
	_ = g.AddEdge("dst", compose.END)
	r, err := g.Compile(ctx)
	if err != nil {
		panic("vf: graph compile: " + err.Error())
	}
	return func(items []T) (T, error) { return r.Invoke(ctx, items) }
}

func vfItems[T any](items []T) (T, error) {
	if len(items) == 1 {
		return items[0], nil // ConcatItems: "the caller should ensure len(items) > 1"
	}
	return internal.ConcatItems(items)
}

func (k *vfKind[T]) run(id string, chunks []vfChunk, pathOrder []string, emit func(vfLine)) {
	fresh := func(from, to int) []T {
		out := make([]T, 0, to-from)
		for i := from; i < to; i++ {
			out = append(out, k.build(chunks[i]))
		}
		return out
	}
	outcome := func(v T, o, msg string) vfOutcome {
		if o != "ok" {
			return vfOutcome{O: o, V: k.dummy, Msg: msg}
		}
		return vfOutcome{O: o, V: k.render(v), Msg: ""}
	}
	n := len(chunks)
	for _, path := range pathOrder {
		f, ok := k.paths[path]
		if !ok || (n == 0 && path == "ci") {
			continue
		}
		ln := vfLine{Ev: "cat", ID: id, Path: path, Kind: k.name, Chunks: []any{}, Full: []vfOutcome{}, Splits: []vfSplit{}, Elem: []vfElem{}}
		if k.elems != nil {
			ln.Elem = k.elems(chunks)
		}
		for _, c := range fresh(0, n) {
			ln.Chunks = append(ln.Chunks, k.render(c))
		}
		for rep := 0; rep < 3; rep++ {
			ln.Full = append(ln.Full, outcome(vfCall1(f, fresh(0, n))))
		}
		for i := 1; i < n; i++ {
			pv, po, pm := vfCall1(f, fresh(0, i))
			sp := vfSplit{I: i, Pre: outcome(pv, po, pm)}
			if po == "ok" {
				sp.Res = outcome(vfCall1(f, append([]T{pv}, fresh(i, n)...)))
			} else {
				sp.Res = sp.Pre
			}
			ln.Splits = append(ln.Splits, sp)
		}
		// shared-value pass
		sh := vfShared{In: [][]string{}, Whole: []string{}, Pre: [][]string{}, Res: []string{}, Ref: vfRef{Pre: []string{}, Res: []string{}}}
		S := fresh(0, n)
		snap := func() {
			ds := []string{}
			for _, c := range S {
				ds = append(ds, vfDigest(k.render(c)))
			}
			sh.In = append(sh.In, ds)
		}
		part := func(from, to int) []T { return append(make([]T, 0, to-from+1), S[from:to]...) }
		snap()
		w1v, w1o, w1m := vfCall1(f, part(0, n))
		sh.Whole = append(sh.Whole, vfOutDigest(outcome(w1v, w1o, w1m)))
		snap()
		type held struct {
			v T
			o string
		}
		pres := []held{}
		for i := 1; i < n; i++ {
			pv, po, pm := vfCall1(f, part(0, i))
			sh.Pre = append(sh.Pre, []string{vfOutDigest(outcome(pv, po, pm))})
			pres = append(pres, held{pv, po})
			snap()
			if po == "ok" {
				sh.Res = append(sh.Res, vfOutDigest(outcome(vfCall1(f, append([]T{pv}, part(i, n)...)))))
				snap()
			} else {
				sh.Res = append(sh.Res, po)
			}
		}
		w2v, w2o, w2m := vfCall1(f, part(0, n))
		sh.Whole = append(sh.Whole, vfOutDigest(outcome(w2v, w2o, w2m)))
		snap()
		sh.Whole = append(sh.Whole, vfOutDigest(outcome(w1v, w1o, w1m))) // the first result, looked at again
		for i, p := range pres {
			sh.Pre[i] = append(sh.Pre[i], vfOutDigest(outcome(p.v, p.o, "")))
		}
		sh.Ref.Whole = vfOutDigest(ln.Full[0])
		for _, sp := range ln.Splits {
			sh.Ref.Pre = append(sh.Ref.Pre, vfOutDigest(sp.Pre))
			if sp.Pre.O == "ok" {
				sh.Ref.Res = append(sh.Ref.Res, vfOutDigest(sp.Res))
			} else {
				sh.Ref.Res = append(sh.Ref.Res, sp.Pre.O)
			}
		}
		ln.Sh = sh
		emit(ln)
	}
}

func vfKvs(cs []vfChunk) [][]vfKV {
	out := [][]vfKV{}
	for _, c := range cs {
		out = append(out, c.Kv)
	}
	return out
}

func vfKinds() map[string]func(id string, chunks []vfChunk, emit func(vfLine)) {
	msg := &vfKind[*schema.Message]{name: "msg", build: func(c vfChunk) *schema.Message { return vfBuildMsg(c.vfMsg) },
		render: func(m *schema.Message) any { return vfRenderMsg(m) }, dummy: vfRenderMsg(&schema.Message{}),
		paths: map[string]func([]*schema.Message) (*schema.Message, error){
			"cm": schema.ConcatMessages,
			"cms": func(items []*schema.Message) (*schema.Message, error) {
				return schema.ConcatMessageStream(schema.StreamReaderFromArray(items))
			},
			"ci": vfItems[*schema.Message], "graph": vfGraph[*schema.Message](),
		}, elems: func(cs []vfChunk) []vfElem {
			ms := [][]vfKV{}
			for _, c := range cs {
				if !c.Nil && len(c.Extra) > 0 {
					ms = append(ms, c.Extra)
				}
			}
			return vfElems(ms, "", "map")
		}}
	type lst = []*schema.Message
	renderList := func(l lst) any {
		items := []vfMsg{}
		for _, m := range l {
			items = append(items, vfRenderMsg(m))
		}
		return map[string]any{"items": items}
	}
	list := &vfKind[lst]{name: "list", build: func(c vfChunk) lst {
		l := make(lst, 0, len(c.Items))
		for _, m := range c.Items {
			l = append(l, vfBuildMsg(m))
		}
		return l
	}, render: renderList, dummy: map[string]any{"items": []vfMsg{}},
		paths: map[string]func([]lst) (lst, error){"ci": vfItems[lst], "graph": vfGraph[lst]()}}
	type mp = map[string]any
	mapk := &vfKind[mp]{name: "map", build: func(c vfChunk) mp { return vfBuildMap(c.Kv) },
		render: func(m mp) any { return map[string]any{"kv": vfRenderMap(m, 0)} }, dummy: map[string]any{"kv": []vfKV{}},
		paths: map[string]func([]mp) (mp, error){"ci": vfItems[mp], "graph": vfGraph[mp]()}, elems: func(cs []vfChunk) []vfElem { return vfElems(vfKvs(cs), "", "map") }}
	type mpi = map[string]int64
	mapi := &vfKind[mpi]{name: "mapi", build: func(c vfChunk) mpi { return vfBuildIMap(c.Kv) },
		render: func(m mpi) any { return map[string]any{"kv": vfRenderXV(m, 0).M} }, dummy: map[string]any{"kv": []vfKV{}},
		paths: map[string]func([]mpi) (mpi, error){"ci": vfItems[mpi], "graph": vfGraph[mpi]()}, elems: func(cs []vfChunk) []vfElem { return vfElems(vfKvs(cs), "", "mapi") }}
	type mpb = map[string]bool
	mapb := &vfKind[mpb]{name: "mapb", build: func(c vfChunk) mpb {
		m := mpb{}
		for _, e := range c.Kv {
			m[e.K] = e.V.N != 0
		}
		return m
	}, render: func(m mpb) any {
		a := map[string]any{}
		for k, v := range m {
			a[k] = v
		}
		return map[string]any{"kv": vfRenderMap(a, 0)}
	}, dummy: map[string]any{"kv": []vfKV{}},
		paths: map[string]func([]mpb) (mpb, error){"ci": vfItems[mpb], "graph": vfGraph[mpb]()}, elems: func(cs []vfChunk) []vfElem { return vfElems(vfKvs(cs), "", "mapb") }}
	type mpm = map[string]vfMin
	mapm := &vfKind[mpm]{name: "mapm", build: func(c vfChunk) mpm {
		m := mpm{}
		for _, e := range c.Kv {
			m[e.K] = vfMin{N: e.V.N}
		}
		return m
	}, render: func(m mpm) any {
		a := map[string]any{}
		for k, v := range m {
			a[k] = v
		}
		return map[string]any{"kv": vfRenderMap(a, 0)}
	}, dummy: map[string]any{"kv": []vfKV{}},
		paths: map[string]func([]mpm) (mpm, error){"ci": vfItems[mpm], "graph": vfGraph[mpm]()}, elems: func(cs []vfChunk) []vfElem { return vfElems(vfKvs(cs), "", "mapm") }}
	str := &vfKind[string]{name: "str", build: func(c vfChunk) string { return c.S },
		render: func(s string) any { return map[string]any{"s": s} }, dummy: map[string]any{"s": ""},
		paths: map[string]func([]string) (string, error){"ci": vfItems[string], "graph": vfGraph[string]()}}
	intk := &vfKind[int]{name: "int", build: func(c vfChunk) int { return c.N },
		render: func(n int) any { return map[string]any{"n": n} }, dummy: map[string]any{"n": 0},
		paths: map[string]func([]int) (int, error){"ci": vfItems[int], "graph": vfGraph[int]()}}
	acc := &vfKind[vfAcc]{name: "acc", build: func(c vfChunk) vfAcc { return vfAcc{S: c.S, N: c.N} },
		render: func(a vfAcc) any { return map[string]any{"s": a.S, "n": a.N} }, dummy: map[string]any{"s": "", "n": 0},
		paths: map[string]func([]vfAcc) (vfAcc, error){"ci": vfItems[vfAcc], "graph": vfGraph[vfAcc]()}}
	plain := &vfKind[vfPlain]{name: "plain", build: func(c vfChunk) vfPlain { return vfPlain{N: c.N} },
		render: func(a vfPlain) any { return map[string]any{"n": a.N} }, dummy: map[string]any{"n": 0},
		paths: map[string]func([]vfPlain) (vfPlain, error){"ci": vfItems[vfPlain], "graph": vfGraph[vfPlain]()}}
	order := []string{"cm", "cms", "ci", "graph"}
	return map[string]func(string, []vfChunk, func(vfLine)){
		"msg":   func(id string, cs []vfChunk, e func(vfLine)) { msg.run(id, cs, order, e) },
		"list":  func(id string, cs []vfChunk, e func(vfLine)) { list.run(id, cs, order, e) },
		"map":   func(id string, cs []vfChunk, e func(vfLine)) { mapk.run(id, cs, order, e) },
		"mapi":  func(id string, cs []vfChunk, e func(vfLine)) { mapi.run(id, cs, order, e) },
		"mapb":  func(id string, cs []vfChunk, e func(vfLine)) { mapb.run(id, cs, order, e) },
		"mapm":  func(id string, cs []vfChunk, e func(vfLine)) { mapm.run(id, cs, order, e) },
		"str":   func(id string, cs []vfChunk, e func(vfLine)) { str.run(id, cs, order, e) },
		"int":   func(id string, cs []vfChunk, e func(vfLine)) { intk.run(id, cs, order, e) },
		"acc":   func(id string, cs []vfChunk, e func(vfLine)) { acc.run(id, cs, order, e) },
		"plain": func(id string, cs []vfChunk, e func(vfLine)) { plain.run(id, cs, order, e) },
	}
}

func TestVerifConcat(t *testing.T) {
	casesPath, outPath := os.Getenv("VERIF_CASES"), os.Getenv("VERIF_OUT")
	if casesPath == "" || outPath == "" {
		t.Skip("VERIF_CASES / VERIF_OUT not set")
	}
	in, err := os.Open(casesPath)
	if err != nil {
		t.Fatal(err)
	}
	defer in.Close()
	outf, err := os.Create(outPath)
	if err != nil {
		t.Fatal(err)
	}
	defer outf.Close()
	w := bufio.NewWriterSize(outf, 1<<20)
	defer w.Flush()
	enc := json.NewEncoder(w)
	enc.SetEscapeHTML(false)
	kinds := vfKinds()
	sc := bufio.NewScanner(in)
	sc.Buffer(make([]byte, 1<<20), 1<<26)
	n := 0
	for sc.Scan() {
		if len(sc.Bytes()) == 0 {
			continue
		}
		var c struct {
			ID     string    `json:"id"`
			Kind   string    `json:"kind"`
			Chunks []vfChunk `json:"chunks"`
		}
		if err := json.Unmarshal(sc.Bytes(), &c); err != nil {
			t.Fatalf("bad case line: %v", err)
		}
		run, ok := kinds[c.Kind]
		if !ok {
			t.Fatalf("unknown kind %q", c.Kind)
		}
		run(c.ID, c.Chunks, func(ln vfLine) {
			if err := enc.Encode(ln); err != nil {
				t.Fatal(err)
			}
		})
		n++
	}
	if err := sc.Err(); err != nil {
		t.Fatal(err)
	}
	t.Logf("verif: %d cases", n)
}
