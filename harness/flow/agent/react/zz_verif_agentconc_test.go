package react

// Concurrency harness for the agent-level part of C09 (a compiled agent is safe for concurrent use; runs are isolated).
// ONE ReAct agent per variant is called by VERIF_CALLERS goroutines at the same time, mixing Generate and Stream, for
// VERIF_ROUNDS rounds.  The chat model and the tools are stateless: everything they do is derived from the messages they
// receive, so every (caller, round) has its own tagged conversation
//     user "q|<tag>|<n>|<d>"  ->  n tool rounds (tool "t", or "trd" in round d), arguments "<tag>.<j>", then answer "a<tag>".
// Model and tools record what they see under the call key carried by the context; the per-call projection is written as
// one case per (variant, caller, round) with two calls (Generate and Stream, in an order that depends on the caller) and is
// validated by TLC against spec/AgentIsoObs.tla.  No expectation is computed here.  The same test is run under -race.

import (
	"bufio"
	"context"
	"encoding/json"
	"fmt"
	"io"
	"os"
	"regexp"
	"runtime"
	"sort"
	"strconv"
	"strings"
	"sync"
	"testing"

	"github.com/cloudwego/eino/components/model"
	"github.com/cloudwego/eino/components/tool"
	"github.com/cloudwego/eino/compose"
	"github.com/cloudwego/eino/flow/agent"
	"github.com/cloudwego/eino/schema"
)

type vaKey struct{}
type vaPlanKey struct{}

type vaPlan struct {
	tag  string
	n, d int
}

var vaTagRe = regexp.MustCompile(`v[0-9]+k[0-9]+r[0-9]+`)

type vaRec struct {
	mu     sync.Mutex
	events map[string][]string // call key -> event lines
	orphan []string
}

func vaJSON(v any) string {
	b, err := json.Marshal(v)
	if err != nil {
		panic(err)
	}
	return string(b)
}

func vaLine(ev string, kv ...any) string {
	var sb strings.Builder
	sb.WriteString(`{"ev":` + vaJSON(ev))
	for i := 0; i+1 < len(kv); i += 2 {
		sb.WriteString("," + vaJSON(kv[i].(string)) + ":" + vaJSON(kv[i+1]))
	}
	sb.WriteString("}")
	return sb.String()
}

func vaTags(text string) []string {
	seen := map[string]bool{}
	out := []string{}
	for _, t := range vaTagRe.FindAllString(text, -1) {
		if !seen[t] {
			seen[t] = true
			out = append(out, t)
		}
	}
	sort.Strings(out)
	return out
}

func (r *vaRec) add(ctx context.Context, line string) {
	runtime.Gosched() // widen the windows in which concurrent calls interleave
	key, _ := ctx.Value(vaKey{}).(string)
	r.mu.Lock()
	if key == "" {
		r.orphan = append(r.orphan, line)
	} else {
		r.events[key] = append(r.events[key], line)
	}
	r.mu.Unlock()
}

func vaRender(m *schema.Message) map[string]any {
	if m == nil {
		return map[string]any{"role": "nil", "content": "", "calls": []any{}, "tcid": ""}
	}
	calls := make([]map[string]any, 0, len(m.ToolCalls))
	for _, tc := range m.ToolCalls {
		calls = append(calls, map[string]any{"id": tc.ID, "name": tc.Function.Name, "args": tc.Function.Arguments})
	}
	return map[string]any{"role": string(m.Role), "content": m.Content, "calls": calls, "tcid": m.ToolCallID}
}

func vaRenderAll(ms []*schema.Message) []map[string]any {
	out := make([]map[string]any, 0, len(ms))
	for _, m := range ms {
		out = append(out, vaRender(m))
	}
	return out
}

// ------------------------------------------------------------------------------------------------ stateless model and tools

type vaModel struct{ rec *vaRec }

// answer derives the next assistant message from the messages alone: first user message "q|tag|n|d", j = tool messages so far
func vaAnswer(ctx context.Context, input []*schema.Message) *schema.Message {
	tag, n, d, j := "", 0, 0, 0
	if p, ok := ctx.Value(vaPlanKey{}).(vaPlan); ok { // all callers of the round send the same message: the conversation is in the context
		tag, n, d = p.tag, p.n, p.d
	}
	for _, m := range input {
		if m == nil {
			continue
		}
		if m.Role == schema.User && tag == "" {
			p := strings.Split(m.Content, "|")
			if len(p) == 4 {
				tag = p[1]
				n, _ = strconv.Atoi(p[2])
				d, _ = strconv.Atoi(p[3])
			}
		}
		if m.Role == schema.Tool {
			j++
		}
	}
	if j >= n {
		return &schema.Message{Role: schema.Assistant, Content: "a" + tag}
	}
	name := "t"
	if d == j+1 {
		name = "trd"
	}
	idx := 0
	suffix := tag + "." + strconv.Itoa(j+1)
	return &schema.Message{Role: schema.Assistant, ToolCalls: []schema.ToolCall{{Index: &idx, ID: "c" + suffix, Type: "function",
		Function: schema.FunctionCall{Name: name, Arguments: suffix}}}}
}

func (m *vaModel) see(ctx context.Context, input []*schema.Message) {
	in := vaRenderAll(input)
	key, _ := ctx.Value(vaKey{}).(string)
	m.rec.add(ctx, vaLine("mcall", "who", "chat", "ctx", key, "input", in, "tags", vaTags(vaJSON(in))))
}

func (m *vaModel) Generate(ctx context.Context, input []*schema.Message, _ ...model.Option) (*schema.Message, error) {
	m.see(ctx, input)
	return vaAnswer(ctx, input), nil
}

func (m *vaModel) Stream(ctx context.Context, input []*schema.Message, _ ...model.Option) (*schema.StreamReader[*schema.Message], error) {
	m.see(ctx, input)
	a := vaAnswer(ctx, input)
	if len(a.ToolCalls) > 0 {
		return schema.StreamReaderFromArray([]*schema.Message{{Role: schema.Assistant}, a}), nil
	}
	h := len(a.Content) / 2
	return schema.StreamReaderFromArray([]*schema.Message{{Role: schema.Assistant, Content: a.Content[:h]}, {Role: schema.Assistant, Content: a.Content[h:]}}), nil
}

func (m *vaModel) WithTools([]*schema.ToolInfo) (model.ToolCallingChatModel, error) { return m, nil }

type vaLegacyModel struct{ vaModel }

func (m *vaLegacyModel) BindTools([]*schema.ToolInfo) error { return nil }

type vaTool struct {
	rec    *vaRec
	name   string
	prefix string // "alt:" for the tool set a caller passes per call (same names, observably different answers)
}

func (t *vaTool) Info(context.Context) (*schema.ToolInfo, error) {
	return &schema.ToolInfo{Name: t.name, Desc: "verif echo tool"}, nil
}

func (t *vaTool) InvokableRun(ctx context.Context, args string, _ ...tool.Option) (string, error) {
	out := t.prefix + t.name + "(" + args + ")"
	key, _ := ctx.Value(vaKey{}).(string)
	t.rec.add(ctx, vaLine("tool", "name", t.name, "args", args, "out", out, "ctx", key, "tags", vaTags(args)))
	return out, nil
}

// ------------------------------------------------------------------------------------------------ driver

type vaVariant struct {
	name     string
	rd       bool
	modifier bool
	legacy   bool
	shared   bool // the callers of a round pass the SAME input slice (len 1, cap 8) with the same user message
	toollist bool // callers with an even number pass their own tool set per call (WithToolList); one more round without any option follows
}

// what the caller finds in its input slice afterwards: first element, and the cells of the backing array beyond its length
func vaInputLine(in []*schema.Message) string {
	beyond := []map[string]any{}
	full := in[:cap(in)]
	for i := len(in); i < len(full); i++ {
		if full[i] != nil {
			beyond = append(beyond, vaRender(full[i]))
		}
	}
	return vaLine("input", "first", vaRender(in[0]), "beyond", beyond, "len", len(in), "cap", cap(in))
}

func vaEnvInt(name string, def int) int {
	if v, err := strconv.Atoi(os.Getenv(name)); err == nil && v > 0 {
		return v
	}
	return def
}

func TestVerifAgentConc(t *testing.T) {
	out := os.Getenv("VERIF_OUT")
	if out == "" {
		t.Skip("VERIF_OUT not set")
	}
	callers, rounds := vaEnvInt("VERIF_CALLERS", 4), vaEnvInt("VERIF_ROUNDS", 12)
	variants := []vaVariant{{"plain", false, false, false, false, false}, {"rd", true, false, false, false, false}, {"mod", false, true, true, false, false},
		{"rdmod", true, true, false, false, false}, {"shared", true, false, false, true, false}, {"toollist", true, false, false, false, true}}
	ctx0 := context.Background()
	var lines []string
	ncases := 0
	for vi, v := range variants {
		rec := &vaRec{events: map[string][]string{}}
		conf := &AgentConfig{}
		if v.legacy {
			conf.Model = &vaLegacyModel{vaModel{rec}}
		} else {
			conf.ToolCallingModel = &vaModel{rec}
		}
		conf.ToolsConfig.Tools = []tool.BaseTool{&vaTool{rec, "t", ""}, &vaTool{rec, "trd", ""}}
		altOpt := agent.WithComposeOptions(compose.WithToolsNodeOption(compose.WithToolList(&vaTool{rec, "t", "alt:"}, &vaTool{rec, "trd", "alt:"})))
		vrounds := rounds
		if v.toollist {
			vrounds = rounds + 1 // the last round: plain calls after the calls with the option
		}
		isAlt := func(k, r int) bool { return v.toollist && k%2 == 0 && r <= rounds }
		if v.rd {
			conf.ToolReturnDirectly = map[string]struct{}{"trd": {}}
		}
		if v.modifier {
			conf.MessageModifier = NewPersonaModifier("sys")
		}
		ag, err := NewAgent(ctx0, conf)
		if err != nil {
			t.Fatalf("NewAgent: %v", err)
		}
		results := make(map[string][2]string) // tag -> outcome line of call 1 / call 2
		inputs := make(map[string]string)      // tag -> input observation
		var rmu sync.Mutex
		plan := func(k, r int) (tag string, n, d int, modes []string, user string) {
			tag = fmt.Sprintf("v%dk%dr%d", vi+1, k, r)
			n = (k + r) % 3
			if v.rd && n > 0 && (k+2*r)%3 != 0 {
				d = 1 + (k+r)%n
			}
			modes = []string{"generate", "stream"}
			if (k+r)%2 == 1 {
				modes = []string{"stream", "generate"}
			}
			user = fmt.Sprintf("q|%s|%d|%d", tag, n, d)
			if v.shared {
				user = fmt.Sprintf("q|shared|%d", r)
			}
			return
		}
		for r := 1; r <= vrounds; r++ {
			var start, done sync.WaitGroup
			start.Add(1)
			var sharedIn []*schema.Message
			if v.shared {
				sharedIn = make([]*schema.Message, 1, 8)
				sharedIn[0] = schema.UserMessage(fmt.Sprintf("q|shared|%d", r))
			}
			for k := 1; k <= callers; k++ {
				done.Add(1)
				go func(k, r int) {
					defer done.Done()
					tag, n, d, modes, user := plan(k, r)
					input := sharedIn
					if !v.shared {
						input = make([]*schema.Message, 1, 4) // the caller's own slice, with spare capacity as after an append
						input[0] = schema.UserMessage(user)
					}
					var res [2]string
					start.Wait()
					for ci, mode := range modes {
						ctx := context.WithValue(ctx0, vaKey{}, tag+"#"+mode)
						if v.shared {
							ctx = context.WithValue(ctx, vaPlanKey{}, vaPlan{tag, n, d})
						}
						if isAlt(k, r) {
							res[ci] = vaCall(ctx, ag, mode, input, altOpt)
						} else {
							res[ci] = vaCall(ctx, ag, mode, input)
						}
					}
					rmu.Lock()
					results[tag] = res
					if !v.shared {
						inputs[tag] = vaInputLine(input)
					}
					rmu.Unlock()
				}(k, r)
			}
			start.Done()
			done.Wait()
			if v.shared {
				line := vaInputLine(sharedIn)
				for k := 1; k <= callers; k++ {
					tag, _, _, _, _ := plan(k, r)
					inputs[tag] = line
				}
			}
		}
		// per-call projection, one case per (variant, caller, round)
		for r := 1; r <= vrounds; r++ {
			for k := 1; k <= callers; k++ {
				tag, n, d, modes, user := plan(k, r)
				lines = append(lines, vaLine("case", "id", "react/"+v.name+"/"+tag, "agent", "react", "variant", v.name, "tag", tag, "user", user, "n", n, "d", d,
					"w", 0, "modifier", v.modifier, "alt", isAlt(k, r), "rd", v.rd, "callers", callers))
				for ci, mode := range modes {
					lines = append(lines, vaLine("call", "mode", mode))
					lines = append(lines, rec.events[tag+"#"+mode]...)
					lines = append(lines, results[tag][ci], vaLine("endcall"))
				}
				lines = append(lines, inputs[tag], vaLine("end"))
				ncases++
			}
		}
		if len(rec.orphan) > 0 {
			lines = append(lines, vaLine("case", "id", "react/"+v.name+"/orphans", "agent", "react", "variant", v.name, "tag", "", "user", "", "n", 0, "d", 0,
				"w", 0, "modifier", v.modifier, "alt", false, "rd", v.rd, "callers", callers))
			for _, l := range rec.orphan {
				lines = append(lines, vaLine("orphan", "line", l))
			}
			lines = append(lines, vaLine("end"))
			ncases++
		}
	}
	of, err := os.Create(out)
	if err != nil {
		t.Fatal(err)
	}
	w := bufio.NewWriter(of)
	for _, l := range lines {
		w.WriteString(l + "\n")
	}
	w.Flush()
	of.Close()
	fmt.Printf("VERIF-AGENTCONC cases=%d callers=%d rounds=%d\n", ncases, callers, rounds)
}

func vaCall(ctx context.Context, ag *Agent, mode string, input []*schema.Message, opts ...agent.AgentOption) (line string) {
	defer func() {
		if p := recover(); p != nil {
			s := fmt.Sprint(p)
			if len(s) > 200 {
				s = s[:200]
			}
			line = vaLine("error", "text", "PANIC: "+s)
		}
	}()
	fail := func(err error) string {
		s := err.Error()
		if len(s) > 200 {
			s = s[:200]
		}
		return vaLine("error", "text", s)
	}
	if mode == "generate" {
		m, err := ag.Generate(ctx, input, opts...)
		if err != nil {
			return fail(err)
		}
		r := vaRender(m)
		return vaLine("answer", "msg", r, "tags", vaTags(vaJSON(r)))
	}
	sr, err := ag.Stream(ctx, input, opts...)
	if err != nil {
		return fail(err)
	}
	defer sr.Close()
	var chunks []*schema.Message
	for {
		m, err := sr.Recv()
		if err == io.EOF {
			break
		}
		if err != nil {
			return fail(err)
		}
		chunks = append(chunks, m)
	}
	if len(chunks) == 0 {
		return vaLine("error", "text", "empty answer stream")
	}
	m, err := schema.ConcatMessages(chunks)
	if err != nil {
		return fail(err)
	}
	r := vaRender(m)
	return vaLine("answer", "msg", r, "tags", vaTags(vaJSON(r)))
}
