package react

// Conformance harness for C18 (the ReAct agent alternates model and tools faithfully and stops).
// Reads the cases that TLC generated from spec/ReAct.tla (VERIF_CASES), builds the REAL agent through the public API of this
// package with a scripted chat model (records the messages of every call; Generate and Stream forms with the case's chunking)
// and recording tools, runs Generate and then Stream, and writes the observations (VERIF_OUT) that TLC validates against
// spec/ReActObs.tla (rule: spec/ReActRule.tla).  No expectation is computed here.

import (
	"bufio"
	"context"
	"encoding/json"
	"errors"
	"fmt"
	"io"
	"os"
	"strings"
	"sync"
	"sync/atomic"
	"testing"
	"time"

	"github.com/cloudwego/eino/components/model"
	"github.com/cloudwego/eino/components/tool"
	"github.com/cloudwego/eino/compose"
	"github.com/cloudwego/eino/schema"
)

type vrCall struct {
	ID   string `json:"id"`
	Name string `json:"name"`
	Args string `json:"args"`
}

type vrMsg struct {
	Role    string   `json:"role"`
	Content string   `json:"content"`
	Calls   []vrCall `json:"calls"`
	TCID    string   `json:"tcid"`
}

type vrScriptMsg struct {
	Content string   `json:"content"`
	Calls   []vrCall `json:"calls"`
}

type vrCase struct {
	ID       string            `json:"id"`
	Msgs     []vrMsg           `json:"msgs"`
	Script   []vrScriptMsg     `json:"script"`
	Tools    []string          `json:"tools"`
	Rd       []string          `json:"rd"`
	MaxStep  int               `json:"maxstep"`
	Modifier bool              `json:"modifier"`
	Checker  string            `json:"checker"`  // default | whole
	Chunking string            `json:"chunking"` // whole | tcfirst | emptyfirst | splitargs | percall | contentfirst
	TKinds   map[string]string `json:"tkinds"`   // tool -> inv | str
	API      string            `json:"api"`      // tcm (ToolCallingModel) | legacy (Model + BindTools)
	Pipe     bool              `json:"pipe"`     // the model streams through a pipe fed by a goroutine instead of an array reader
	Nested   bool              `json:"nested"`   // the agent's exported graph runs as a node of a parent graph (ExportGraph)
}

const vrModelCallBudget = 40
const vrCaseTimeout = 10 * time.Second
const vrMaxHangs = 10

var vrHangs int32

type vrRun struct {
	c      *vrCase
	mu     sync.Mutex
	lines  []string
	k      int
	stream bool
}

func vrJSON(v any) string {
	b, err := json.Marshal(v)
	if err != nil {
		panic(err)
	}
	return string(b)
}

func (r *vrRun) emit(ev string, kv ...any) {
	var sb strings.Builder
	sb.WriteString(`{"ev":` + vrJSON(ev))
	for i := 0; i+1 < len(kv); i += 2 {
		sb.WriteString("," + vrJSON(kv[i].(string)) + ":" + vrJSON(kv[i+1]))
	}
	sb.WriteString("}")
	r.mu.Lock()
	r.lines = append(r.lines, sb.String())
	r.mu.Unlock()
}

func vrRender(m *schema.Message) map[string]any {
	if m == nil {
		return map[string]any{"role": "nil", "content": "", "calls": []any{}, "tcid": ""}
	}
	calls := make([]map[string]any, 0, len(m.ToolCalls))
	for _, tc := range m.ToolCalls {
		calls = append(calls, map[string]any{"id": tc.ID, "name": tc.Function.Name, "args": tc.Function.Arguments})
	}
	return map[string]any{"role": string(m.Role), "content": m.Content, "calls": calls, "tcid": m.ToolCallID}
}

func vrRenderAll(ms []*schema.Message) []map[string]any {
	out := make([]map[string]any, 0, len(ms))
	for _, m := range ms {
		out = append(out, vrRender(m))
	}
	return out
}

// ------------------------------------------------------------------------------------------------ scripted model

type vrModel struct{ r *vrRun }

func (m *vrModel) next(input []*schema.Message) (*vrScriptMsg, error) {
	r := m.r
	r.emit("mcall", "input", vrRenderAll(input))
	r.mu.Lock()
	r.k++
	k := r.k
	r.mu.Unlock()
	if k > vrModelCallBudget {
		return nil, errors.New("verif: model call budget exhausted (the agent does not stop)")
	}
	if k > len(r.c.Script) {
		k = len(r.c.Script)
	}
	return &r.c.Script[k-1], nil
}

func vrToolCalls(calls []vrCall, withHead, withArgs bool) []schema.ToolCall {
	out := make([]schema.ToolCall, 0, len(calls))
	for i, c := range calls {
		idx := i
		tc := schema.ToolCall{Index: &idx}
		if withHead {
			tc.ID, tc.Type, tc.Function.Name = c.ID, "function", c.Name
		}
		if withArgs {
			tc.Function.Arguments = c.Args
		}
		out = append(out, tc)
	}
	return out
}

func vrWhole(s *vrScriptMsg) *schema.Message {
	return &schema.Message{Role: schema.Assistant, Content: s.Content, ToolCalls: vrToolCalls(s.Calls, true, true)}
}

func vrChunks(s *vrScriptMsg, chunking string) []*schema.Message {
	a := func(content string, tcs []schema.ToolCall) *schema.Message {
		if len(tcs) == 0 {
			tcs = nil
		}
		return &schema.Message{Role: schema.Assistant, Content: content, ToolCalls: tcs}
	}
	all := vrToolCalls(s.Calls, true, true)
	switch chunking {
	case "tcfirst":
		return []*schema.Message{a("", all), a(s.Content, nil)}
	case "emptyfirst":
		return []*schema.Message{a("", nil), a(s.Content, all)}
	case "splitargs":
		return []*schema.Message{a("", vrToolCalls(s.Calls, true, false)), a(s.Content, vrToolCalls(s.Calls, false, true))}
	case "percall":
		out := make([]*schema.Message, 0, len(all)+1)
		for i := range all {
			out = append(out, a("", all[i:i+1]))
		}
		return append(out, a(s.Content, nil))
	case "contentfirst":
		return []*schema.Message{a(s.Content, nil), a("", all)}
	}
	return []*schema.Message{vrWhole(s)}
}

func (m *vrModel) Generate(ctx context.Context, input []*schema.Message, _ ...model.Option) (*schema.Message, error) {
	s, err := m.next(input)
	if err != nil {
		return nil, err
	}
	return vrWhole(s), nil
}

func (m *vrModel) Stream(ctx context.Context, input []*schema.Message, _ ...model.Option) (*schema.StreamReader[*schema.Message], error) {
	s, err := m.next(input)
	if err != nil {
		return nil, err
	}
	chunks := vrChunks(s, m.r.c.Chunking)
	if !m.r.c.Pipe {
		return schema.StreamReaderFromArray(chunks), nil
	}
	sr, sw := schema.Pipe[*schema.Message](0)
	go func() {
		defer sw.Close()
		for _, ch := range chunks {
			if sw.Send(ch, nil) {
				return
			}
		}
	}()
	return sr, nil
}

func (m *vrModel) WithTools([]*schema.ToolInfo) (model.ToolCallingChatModel, error) { return m, nil }

type vrLegacyModel struct{ vrModel }

func (m *vrLegacyModel) BindTools([]*schema.ToolInfo) error { return nil }

// ------------------------------------------------------------------------------------------------ recording tools

type vrTool struct {
	r    *vrRun
	name string
}

func (t *vrTool) Info(context.Context) (*schema.ToolInfo, error) {
	return &schema.ToolInfo{Name: t.name, Desc: "verif tool"}, nil
}

func (t *vrTool) run(args string) string {
	out := t.name + "(" + args + ")"
	t.r.emit("tool", "name", t.name, "args", args, "out", out)
	return out
}

type vrInvTool struct{ vrTool }

func (t *vrInvTool) InvokableRun(ctx context.Context, args string, _ ...tool.Option) (string, error) {
	return t.run(args), nil
}

type vrStrTool struct{ vrTool }

func (t *vrStrTool) StreamableRun(ctx context.Context, args string, _ ...tool.Option) (*schema.StreamReader[string], error) {
	out := t.run(args)
	h := len(out) / 2
	return schema.StreamReaderFromArray([]string{out[:h], out[h:]}), nil
}

// ------------------------------------------------------------------------------------------------ one case

func vrWholeChecker(_ context.Context, sr *schema.StreamReader[*schema.Message]) (bool, error) {
	defer sr.Close()
	has := false
	for {
		m, err := sr.Recv()
		if err == io.EOF {
			return has, nil
		}
		if err != nil {
			return false, err
		}
		if len(m.ToolCalls) > 0 {
			has = true
		}
	}
}

func (r *vrRun) logErr(err error) {
	text := err.Error()
	limit := errors.Is(err, compose.ErrExceedMaxSteps) || strings.Contains(text, compose.ErrExceedMaxSteps.Error())
	if len(text) > 200 {
		text = text[:200]
	}
	r.emit("error", "steplimit", limit, "is", errors.Is(err, compose.ErrExceedMaxSteps), "text", text)
}

func vrRunCase(c *vrCase) []string {
	r := &vrRun{c: c}
	msgs := make([]map[string]any, 0, len(c.Msgs))
	for _, m := range c.Msgs {
		msgs = append(msgs, map[string]any{"role": m.Role, "content": m.Content, "calls": []any{}, "tcid": ""})
	}
	script := make([]map[string]any, 0, len(c.Script))
	for _, s := range c.Script {
		calls := make([]map[string]any, 0, len(s.Calls))
		for _, k := range s.Calls {
			calls = append(calls, map[string]any{"id": k.ID, "name": k.Name, "args": k.Args})
		}
		script = append(script, map[string]any{"content": s.Content, "calls": calls})
	}
	strs := func(x []string) []string {
		if x == nil {
			return []string{}
		}
		return x
	}
	r.emit("case", "id", c.ID, "msgs", msgs, "script", script, "tools", strs(c.Tools), "rd", strs(c.Rd), "maxstep", c.MaxStep,
		"modifier", c.Modifier, "checker", c.Checker, "chunking", c.Chunking, "api", c.API, "pipe", c.Pipe, "nested", c.Nested)
	ctx := context.Background()
	for _, mode := range []string{"generate", "stream"} {
		r.mu.Lock()
		r.k = 0
		r.mu.Unlock()
		r.emit("run", "mode", mode)
		func() {
			defer func() {
				if p := recover(); p != nil {
					s := fmt.Sprint(p)
					if len(s) > 200 {
						s = s[:200]
					}
					r.emit("error", "steplimit", false, "is", false, "text", "PANIC: "+s)
				}
			}()
			conf := &AgentConfig{MaxStep: c.MaxStep}
			if c.API == "legacy" {
				conf.Model = &vrLegacyModel{vrModel{r}}
			} else {
				conf.ToolCallingModel = &vrModel{r}
			}
			for _, name := range c.Tools {
				if c.TKinds[name] == "str" {
					conf.ToolsConfig.Tools = append(conf.ToolsConfig.Tools, &vrStrTool{vrTool{r, name}})
				} else {
					conf.ToolsConfig.Tools = append(conf.ToolsConfig.Tools, &vrInvTool{vrTool{r, name}})
				}
			}
			if c.Modifier {
				conf.MessageModifier = NewPersonaModifier("sys")
			}
			if len(c.Rd) > 0 {
				conf.ToolReturnDirectly = map[string]struct{}{}
				for _, n := range c.Rd {
					conf.ToolReturnDirectly[n] = struct{}{}
				}
			}
			if c.Checker == "whole" {
				conf.StreamToolCallChecker = vrWholeChecker
			}
			ag, err := NewAgent(ctx, conf)
			if err != nil {
				r.emit("note", "text", "NewAgent: "+err.Error())
				return
			}
			input := make([]*schema.Message, 0, len(c.Msgs))
			for _, m := range c.Msgs {
				input = append(input, &schema.Message{Role: schema.RoleType(m.Role), Content: m.Content})
			}
			generate := func() (*schema.Message, error) { return ag.Generate(ctx, input) }
			stream := func() (*schema.StreamReader[*schema.Message], error) { return ag.Stream(ctx, input) }
			if c.Nested {
				sub, opts := ag.ExportGraph()
				pg := compose.NewGraph[[]*schema.Message, *schema.Message]()
				err := pg.AddGraphNode("agent", sub, opts...)
				if err == nil {
					err = pg.AddEdge(compose.START, "agent")
				}
				if err == nil {
					err = pg.AddEdge("agent", compose.END)
				}
				var run compose.Runnable[[]*schema.Message, *schema.Message]
				if err == nil {
					run, err = pg.Compile(ctx)
				}
				if err != nil {
					r.emit("note", "text", "parent graph: "+err.Error())
					return
				}
				generate = func() (*schema.Message, error) { return run.Invoke(ctx, input) }
				stream = func() (*schema.StreamReader[*schema.Message], error) { return run.Stream(ctx, input) }
			}
			if mode == "generate" {
				out, err := generate()
				if err != nil {
					r.logErr(err)
					return
				}
				r.emit("answer", "msg", vrRender(out), "chunks", 1)
				return
			}
			sr, err := stream()
			if err != nil {
				r.logErr(err)
				return
			}
			defer sr.Close()
			var chunks []*schema.Message
			for {
				m, err := sr.Recv()
				if err == io.EOF {
					break
				}
				if err != nil {
					r.logErr(err)
					return
				}
				chunks = append(chunks, m)
			}
			if len(chunks) == 0 {
				r.emit("answer", "msg", vrRender(nil), "chunks", 0)
				return
			}
			whole, err := schema.ConcatMessages(chunks)
			if err != nil {
				r.emit("error", "steplimit", false, "is", false, "text", "concat of the answer stream: "+err.Error())
				return
			}
			r.emit("answer", "msg", vrRender(whole), "chunks", len(chunks))
		}()
		// let stragglers (none expected) settle before the run is closed
		r.emit("endrun")
	}
	r.emit("end")
	r.mu.Lock()
	defer r.mu.Unlock()
	return r.lines
}

func TestVerifReact(t *testing.T) {
	in, out := os.Getenv("VERIF_CASES"), os.Getenv("VERIF_OUT")
	if in == "" || out == "" {
		t.Skip("VERIF_CASES / VERIF_OUT not set")
	}
	fh, err := os.Open(in)
	if err != nil {
		t.Fatal(err)
	}
	defer fh.Close()
	var cases []*vrCase
	sc := bufio.NewScanner(fh)
	sc.Buffer(make([]byte, 1<<20), 1<<24)
	for sc.Scan() {
		ln := strings.TrimSpace(sc.Text())
		if ln == "" {
			continue
		}
		c := &vrCase{}
		if err := json.Unmarshal([]byte(ln), c); err != nil {
			t.Fatalf("bad case line: %v", err)
		}
		cases = append(cases, c)
	}
	results := make([][]string, len(cases))
	var next int64 = -1
	var wg sync.WaitGroup
	for w := 0; w < 4; w++ {
		wg.Add(1)
		go func() {
			defer wg.Done()
			for {
				i := int(atomic.AddInt64(&next, 1))
				if i >= len(cases) {
					return
				}
				if atomic.LoadInt32(&vrHangs) >= vrMaxHangs {
					return
				}
				done := make(chan []string, 1)
				go func(c *vrCase) { done <- vrRunCase(c) }(cases[i])
				select {
				case ls := <-done:
					results[i] = ls
				case <-time.After(vrCaseTimeout):
					// the agent does not stop (nor fail): recorded as the observation `hang`; its goroutines are abandoned
					atomic.AddInt32(&vrHangs, 1)
					results[i] = []string{`{"ev":"case","id":` + vrJSON(cases[i].ID) + `,"msgs":[],"script":[],"tools":[],"rd":[],"maxstep":0,"modifier":false}`,
						`{"ev":"hang","after_ms":` + vrJSON(int(vrCaseTimeout/time.Millisecond)) + `}`, `{"ev":"end"}`}
				}
			}
		}()
	}
	wg.Wait()
	of, err := os.Create(out)
	if err != nil {
		t.Fatal(err)
	}
	w := bufio.NewWriter(of)
	replayed := 0
	for _, ls := range results {
		if ls != nil {
			replayed++
		}
		for _, l := range ls {
			w.WriteString(l)
			w.WriteString("\n")
		}
	}
	w.Flush()
	of.Close()
	fmt.Printf("VERIF-REACT cases=%d replayed=%d hangs=%d\n", len(cases), replayed, atomic.LoadInt32(&vrHangs))
}
