package react

// Conformance harness for C18 (the ReAct agent alternates model and tools faithfully and stops).
// Reads the cases that TLC generated from spec/ReAct.tla (VERIF_CASES), builds the REAL agent through the public API of this
// package with a scripted chat model (records the messages of every call; Generate and Stream forms with the case's chunking)
// and recording tools, runs Generate and Stream on ONE agent (one after the other, or overlapping in time), and writes the observations (VERIF_OUT) that TLC validates against
// spec/ReActObs.tla (rule: spec/ReActRule.tla).  No expectation is computed here.

import (
	"bufio"
	"context"
	"encoding/json"
	"errors"
	"fmt"
	"io"
	"os"
	"strings"
	"sync"
	"sync/atomic"
	"testing"
	"time"

	"github.com/cloudwego/eino/components/model"
	"github.com/cloudwego/eino/components/tool"
	"github.com/cloudwego/eino/compose"
	"github.com/cloudwego/eino/schema"
)

type vrCall struct {
	ID   string `json:"id"`
	Name string `json:"name"`
	Args string `json:"args"`
}

type vrMsg struct {
	Role    string   `json:"role"`
	Content string   `json:"content"`
	Calls   []vrCall `json:"calls"`
	TCID    string   `json:"tcid"`
}

type vrScriptMsg struct {
	Content string   `json:"content"`
	Calls   []vrCall `json:"calls"`
}

type vrCase struct {
	ID       string            `json:"id"`
	Msgs     []vrMsg           `json:"msgs"`
	Script   []vrScriptMsg     `json:"script"`
	Tools    []string          `json:"tools"`
	Rd       []string          `json:"rd"`
	MaxStep  int               `json:"maxstep"`
	Modifier bool              `json:"modifier"`
	Inplace  bool              `json:"inplace"` // a MessageModifier that replaces the first element of the slice it is given, in place
	Checker  string            `json:"checker"`  // default | whole
	Chunking string            `json:"chunking"` // whole | tcfirst | emptyfirst | splitargs | percall | contentfirst
	TKinds   map[string]string `json:"tkinds"`   // tool -> inv | str
	API      string            `json:"api"`      // tcm (ToolCallingModel) | legacy (Model + BindTools)
	Pipe     bool              `json:"pipe"`     // the model streams through a pipe fed by a goroutine instead of an array reader
	Nested   bool              `json:"nested"`   // the agent's exported graph runs as a node of a parent graph (ExportGraph)
	Overlap  string            `json:"overlap"`  // "" the two runs follow each other | "generate-first" | "stream-first": they overlap in time
	Early    bool              `json:"early"`    // a third run: Stream, the caller reads one chunk and closes the agent's output stream
	Order    map[string][]int  `json:"order"`    // script message number -> completion order of its tool result streams (wide messages)
}

const vrModelCallBudget = 40
const vrCaseTimeout = 10 * time.Second
const vrMaxHangs = 10

var vrHangs int32

// vrSub is the recorder of ONE run (Generate or Stream) of a case; model and tools find it through the context, so the two runs of
// a case can use the same agent at the same time and still be projected run by run.
type vrSub struct {
	mode    string
	mu      sync.Mutex
	lines   []string
	k       int           // model calls of this run so far
	arrived chan struct{} // closed when the first model call of this run has arrived at the model
	waitFor *vrSub        // overlap: the first model call of this run returns only after that run's first model call has arrived
	rounds  map[int]*vrRound
	probe     bool  // early-close probe: text answers are streamed character by character through an unbuffered pipe
	producers int32 // model producer goroutines of this run that have not returned yet
}

type vrRound struct{ closed int32 } // tool result streams of this tools round closed so far (gated completion order)

type vrSubKey struct{}

type vrRun struct {
	c     *vrCase
	mu    sync.Mutex
	stray []string // observations made without a run in the context
}

func vrJSON(v any) string {
	b, err := json.Marshal(v)
	if err != nil {
		panic(err)
	}
	return string(b)
}

func vrLine(ev string, kv ...any) string {
	var sb strings.Builder
	sb.WriteString(`{"ev":` + vrJSON(ev))
	for i := 0; i+1 < len(kv); i += 2 {
		sb.WriteString("," + vrJSON(kv[i].(string)) + ":" + vrJSON(kv[i+1]))
	}
	sb.WriteString("}")
	return sb.String()
}

func (r *vrRun) sub(ctx context.Context) *vrSub {
	s, _ := ctx.Value(vrSubKey{}).(*vrSub)
	return s
}

func (r *vrRun) emit(ctx context.Context, ev string, kv ...any) {
	line := vrLine(ev, kv...)
	if s := r.sub(ctx); s != nil {
		s.mu.Lock()
		s.lines = append(s.lines, line)
		s.mu.Unlock()
		return
	}
	r.mu.Lock()
	r.stray = append(r.stray, line)
	r.mu.Unlock()
}

func vrRender(m *schema.Message) map[string]any {
	if m == nil {
		return map[string]any{"role": "nil", "content": "", "calls": []any{}, "tcid": ""}
	}
	calls := make([]map[string]any, 0, len(m.ToolCalls))
	for _, tc := range m.ToolCalls {
		calls = append(calls, map[string]any{"id": tc.ID, "name": tc.Function.Name, "args": tc.Function.Arguments})
	}
	return map[string]any{"role": string(m.Role), "content": m.Content, "calls": calls, "tcid": m.ToolCallID}
}

func vrRenderAll(ms []*schema.Message) []map[string]any {
	out := make([]map[string]any, 0, len(ms))
	for _, m := range ms {
		out = append(out, vrRender(m))
	}
	return out
}

func vrWaitClosed(ch chan struct{}, d time.Duration) {
	select {
	case <-ch:
	case <-time.After(d):
	}
}

// ------------------------------------------------------------------------------------------------ scripted model

type vrModel struct{ r *vrRun }

func (m *vrModel) next(ctx context.Context, input []*schema.Message) (*vrScriptMsg, error) {
	r := m.r
	r.emit(ctx, "mcall", "input", vrRenderAll(input))
	k := 1
	if s := r.sub(ctx); s != nil {
		s.mu.Lock()
		s.k++
		k = s.k
		s.mu.Unlock()
		if k == 1 {
			close(s.arrived)
			if s.waitFor != nil {
				// overlapping runs: this run is still in its first model step when the other run starts its own
				vrWaitClosed(s.waitFor.arrived, 2*time.Second)
			}
		}
	}
	if k > vrModelCallBudget {
		return nil, errors.New("verif: model call budget exhausted (the agent does not stop)")
	}
	if k > len(r.c.Script) {
		k = len(r.c.Script)
	}
	return &r.c.Script[k-1], nil
}

func vrToolCalls(calls []vrCall, withHead, withArgs bool) []schema.ToolCall {
	out := make([]schema.ToolCall, 0, len(calls))
	for i, c := range calls {
		idx := i
		tc := schema.ToolCall{Index: &idx}
		if withHead {
			tc.ID, tc.Type, tc.Function.Name = c.ID, "function", c.Name
		}
		if withArgs {
			tc.Function.Arguments = c.Args
		}
		out = append(out, tc)
	}
	return out
}

func vrWhole(s *vrScriptMsg) *schema.Message {
	return &schema.Message{Role: schema.Assistant, Content: s.Content, ToolCalls: vrToolCalls(s.Calls, true, true)}
}

func vrChunks(s *vrScriptMsg, chunking string) []*schema.Message {
	a := func(content string, tcs []schema.ToolCall) *schema.Message {
		if len(tcs) == 0 {
			tcs = nil
		}
		return &schema.Message{Role: schema.Assistant, Content: content, ToolCalls: tcs}
	}
	all := vrToolCalls(s.Calls, true, true)
	switch chunking {
	case "tcfirst":
		return []*schema.Message{a("", all), a(s.Content, nil)}
	case "emptyfirst":
		return []*schema.Message{a("", nil), a(s.Content, all)}
	case "splitargs":
		return []*schema.Message{a("", vrToolCalls(s.Calls, true, false)), a(s.Content, vrToolCalls(s.Calls, false, true))}
	case "percall":
		out := make([]*schema.Message, 0, len(all)+1)
		for i := range all {
			out = append(out, a("", all[i:i+1]))
		}
		return append(out, a(s.Content, nil))
	case "contentfirst":
		return []*schema.Message{a(s.Content, nil), a("", all)}
	}
	return []*schema.Message{vrWhole(s)}
}

func (m *vrModel) Generate(ctx context.Context, input []*schema.Message, _ ...model.Option) (*schema.Message, error) {
	s, err := m.next(ctx, input)
	if err != nil {
		return nil, err
	}
	return vrWhole(s), nil
}

func (m *vrModel) Stream(ctx context.Context, input []*schema.Message, _ ...model.Option) (*schema.StreamReader[*schema.Message], error) {
	s, err := m.next(ctx, input)
	if err != nil {
		return nil, err
	}
	chunks := vrChunks(s, m.r.c.Chunking)
	if sub := m.r.sub(ctx); sub != nil && sub.probe && len(s.Calls) == 0 && len(s.Content) > 0 {
		// the producer keeps streaming text while the caller stops reading: it must be released when the agent's stream is closed
		sr, sw := schema.Pipe[*schema.Message](0)
		atomic.AddInt32(&sub.producers, 1)
		go func() {
			defer atomic.AddInt32(&sub.producers, -1)
			defer sw.Close()
			for rep := 0; rep < 3; rep++ {
				for _, ch := range s.Content {
					if sw.Send(&schema.Message{Role: schema.Assistant, Content: string(ch)}, nil) {
						return
					}
				}
			}
		}()
		return sr, nil
	}
	if !m.r.c.Pipe {
		return schema.StreamReaderFromArray(chunks), nil
	}
	sr, sw := schema.Pipe[*schema.Message](0)
	go func() {
		defer sw.Close()
		for _, ch := range chunks {
			if sw.Send(ch, nil) {
				return
			}
		}
	}()
	return sr, nil
}

func (m *vrModel) WithTools([]*schema.ToolInfo) (model.ToolCallingChatModel, error) { return m, nil }

type vrLegacyModel struct{ vrModel }

func (m *vrLegacyModel) BindTools([]*schema.ToolInfo) error { return nil }

// ------------------------------------------------------------------------------------------------ recording tools

type vrTool struct {
	r    *vrRun
	name string
}

func (t *vrTool) Info(context.Context) (*schema.ToolInfo, error) {
	return &schema.ToolInfo{Name: t.name, Desc: "verif tool"}, nil
}

func (t *vrTool) run(ctx context.Context, args string) string {
	out := t.name + "(" + args + ")"
	t.r.emit(ctx, "tool", "name", t.name, "args", args, "out", out)
	return out
}

type vrInvTool struct{ vrTool }

func (t *vrInvTool) InvokableRun(ctx context.Context, args string, _ ...tool.Option) (string, error) {
	return t.run(ctx, args), nil
}

type vrStrTool struct{ vrTool }

// rank of the call with these arguments in the completion order the case prescribes for its (wide) assistant message; 0 = none
func (r *vrRun) rank(args string) int {
	for j, m := range r.c.Script {
		ord := r.c.Order[fmt.Sprint(j+1)]
		if len(ord) == 0 {
			continue
		}
		for i, k := range m.Calls {
			if k.Args == args {
				for q, x := range ord {
					if x == i+1 {
						return q + 1
					}
				}
			}
		}
	}
	return 0
}

func (t *vrStrTool) StreamableRun(ctx context.Context, args string, _ ...tool.Option) (*schema.StreamReader[string], error) {
	out := t.run(ctx, args)
	h := len(out) / 2
	q, s := t.r.rank(args), t.r.sub(ctx)
	if q == 0 || s == nil {
		return schema.StreamReaderFromArray([]string{out[:h], out[h:]}), nil
	}
	// gated completion order: every result stream delivers its first half at once; the second half and the close of the stream
	// with rank q come only after the streams of rank 1..q-1 are closed (and the reader had time to see that)
	s.mu.Lock()
	rd := s.rounds[s.k]
	if rd == nil {
		rd = &vrRound{}
		s.rounds[s.k] = rd
	}
	s.mu.Unlock()
	sr, sw := schema.Pipe[string](2)
	go func() {
		defer atomic.AddInt32(&rd.closed, 1)
		defer sw.Close()
		sw.Send(out[:h], nil)
		deadline := time.Now().Add(2 * time.Second)
		for atomic.LoadInt32(&rd.closed) < int32(q-1) && time.Now().Before(deadline) {
			time.Sleep(50 * time.Microsecond)
		}
		time.Sleep(400 * time.Microsecond)
		sw.Send(out[h:], nil)
	}()
	return sr, nil
}

// ------------------------------------------------------------------------------------------------ one case

func vrWholeChecker(_ context.Context, sr *schema.StreamReader[*schema.Message]) (bool, error) {
	defer sr.Close()
	has := false
	for {
		m, err := sr.Recv()
		if err == io.EOF {
			return has, nil
		}
		if err != nil {
			return false, err
		}
		if len(m.ToolCalls) > 0 {
			has = true
		}
	}
}

func (r *vrRun) logErr(ctx context.Context, err error) {
	text := err.Error()
	limit := errors.Is(err, compose.ErrExceedMaxSteps) || strings.Contains(text, compose.ErrExceedMaxSteps.Error())
	if len(text) > 200 {
		text = text[:200]
	}
	r.emit(ctx, "error", "steplimit", limit, "is", errors.Is(err, compose.ErrExceedMaxSteps), "text", text)
}

func vrRunCase(c *vrCase) []string {
	r := &vrRun{c: c}
	msgs := make([]map[string]any, 0, len(c.Msgs))
	for _, m := range c.Msgs {
		msgs = append(msgs, map[string]any{"role": m.Role, "content": m.Content, "calls": []any{}, "tcid": ""})
	}
	script := make([]map[string]any, 0, len(c.Script))
	for _, s := range c.Script {
		calls := make([]map[string]any, 0, len(s.Calls))
		for _, k := range s.Calls {
			calls = append(calls, map[string]any{"id": k.ID, "name": k.Name, "args": k.Args})
		}
		script = append(script, map[string]any{"content": s.Content, "calls": calls})
	}
	strs := func(x []string) []string {
		if x == nil {
			return []string{}
		}
		return x
	}
	order := c.Order
	if order == nil {
		order = map[string][]int{}
	}
	lines := []string{vrLine("case", "id", c.ID, "msgs", msgs, "script", script, "tools", strs(c.Tools), "rd", strs(c.Rd), "maxstep", c.MaxStep,
		"modifier", c.Modifier, "inplace", c.Inplace, "checker", c.Checker, "chunking", c.Chunking, "api", c.API, "pipe", c.Pipe, "nested", c.Nested,
		"overlap", c.Overlap, "order", order, "early", c.Early)}
	ctx0 := context.Background()

	// ONE agent for both runs of the case
	conf := &AgentConfig{MaxStep: c.MaxStep}
	if c.API == "legacy" {
		conf.Model = &vrLegacyModel{vrModel{r}}
	} else {
		conf.ToolCallingModel = &vrModel{r}
	}
	for _, name := range c.Tools {
		if c.TKinds[name] == "str" {
			conf.ToolsConfig.Tools = append(conf.ToolsConfig.Tools, &vrStrTool{vrTool{r, name}})
		} else {
			conf.ToolsConfig.Tools = append(conf.ToolsConfig.Tools, &vrInvTool{vrTool{r, name}})
		}
	}
	if c.Modifier {
		conf.MessageModifier = NewPersonaModifier("sys")
	}
	if c.Inplace {
		conf.MessageModifier = func(_ context.Context, in []*schema.Message) []*schema.Message {
			if len(in) > 0 && in[0] != nil {
				m := *in[0]
				m.Content = "M:" + m.Content
				in[0] = &m // the slice is edited in place; the message object it pointed to is left alone
			}
			return in
		}
	}
	if len(c.Rd) > 0 {
		conf.ToolReturnDirectly = map[string]struct{}{}
		for _, n := range c.Rd {
			conf.ToolReturnDirectly[n] = struct{}{}
		}
	}
	if c.Checker == "whole" {
		conf.StreamToolCallChecker = vrWholeChecker
	}
	ag, err := NewAgent(ctx0, conf)
	if err != nil {
		return append(lines, vrLine("note", "text", "NewAgent: "+err.Error()), vrLine("end"))
	}
	generate := func(ctx context.Context, in []*schema.Message) (*schema.Message, error) { return ag.Generate(ctx, in) }
	stream := func(ctx context.Context, in []*schema.Message) (*schema.StreamReader[*schema.Message], error) {
		return ag.Stream(ctx, in)
	}
	if c.Nested {
		sub, opts := ag.ExportGraph()
		pg := compose.NewGraph[[]*schema.Message, *schema.Message]()
		err := pg.AddGraphNode("agent", sub, opts...)
		if err == nil {
			err = pg.AddEdge(compose.START, "agent")
		}
		if err == nil {
			err = pg.AddEdge("agent", compose.END)
		}
		var run compose.Runnable[[]*schema.Message, *schema.Message]
		if err == nil {
			run, err = pg.Compile(ctx0)
		}
		if err != nil {
			return append(lines, vrLine("note", "text", "parent graph: "+err.Error()), vrLine("end"))
		}
		generate = func(ctx context.Context, in []*schema.Message) (*schema.Message, error) { return run.Invoke(ctx, in) }
		stream = func(ctx context.Context, in []*schema.Message) (*schema.StreamReader[*schema.Message], error) {
			return run.Stream(ctx, in)
		}
	}

	// the input of a run: the case's messages; the Stream run's last message is marked, so the two runs are told apart
	inputOf := func(mode string) []*schema.Message {
		in := make([]*schema.Message, 0, len(c.Msgs))
		for i, m := range c.Msgs {
			content := m.Content
			if mode == "stream" && i == len(c.Msgs)-1 {
				content += "~s"
			}
			in = append(in, &schema.Message{Role: schema.RoleType(m.Role), Content: content})
		}
		return in
	}
	one := func(s *vrSub, input []*schema.Message) {
		ctx := context.WithValue(ctx0, vrSubKey{}, s)
		defer func() {
			if p := recover(); p != nil {
				t := fmt.Sprint(p)
				if len(t) > 200 {
					t = t[:200]
				}
				r.emit(ctx, "error", "steplimit", false, "is", false, "text", "PANIC: "+t)
			}
		}()
		if s.mode == "generate" {
			out, err := generate(ctx, input)
			if err != nil {
				r.logErr(ctx, err)
				return
			}
			r.emit(ctx, "answer", "msg", vrRender(out), "chunks", 1)
			return
		}
		sr, err := stream(ctx, input)
		if err != nil {
			r.logErr(ctx, err)
			return
		}
		defer sr.Close()
		var chunks []*schema.Message
		for {
			m, err := sr.Recv()
			if err == io.EOF {
				break
			}
			if err != nil {
				r.logErr(ctx, err)
				return
			}
			chunks = append(chunks, m)
		}
		if len(chunks) == 0 {
			r.emit(ctx, "answer", "msg", vrRender(nil), "chunks", 0)
			return
		}
		whole, err := schema.ConcatMessages(chunks)
		if err != nil {
			r.emit(ctx, "error", "steplimit", false, "is", false, "text", "concat of the answer stream: "+err.Error())
			return
		}
		r.emit(ctx, "answer", "msg", vrRender(whole), "chunks", len(chunks))
	}

	modes := []string{"generate", "stream"}
	if c.Overlap == "stream-first" {
		modes = []string{"stream", "generate"}
	}
	subs := make([]*vrSub, 2)
	inputs := make([][]*schema.Message, 2)
	for i, mode := range modes {
		subs[i] = &vrSub{mode: mode, arrived: make(chan struct{}), rounds: map[int]*vrRound{}}
		inputs[i] = inputOf(mode)
	}
	if c.Overlap == "" {
		for i := range subs {
			one(subs[i], inputs[i])
		}
	} else {
		// the second run starts while the first one is inside its first model step, and the first one goes on only when the second
		// has reached the model too: the runs overlap on the one agent
		subs[0].waitFor = subs[1]
		var wg sync.WaitGroup
		wg.Add(2)
		go func() { defer wg.Done(); one(subs[0], inputs[0]) }()
		vrWaitClosed(subs[0].arrived, 2*time.Second)
		go func() { defer wg.Done(); one(subs[1], inputs[1]) }()
		wg.Wait()
	}
	for i, s := range subs {
		s.mu.Lock()
		lines = append(lines, vrLine("run", "mode", s.mode, "msgs", vrRenderAll(inputs[i])))
		lines = append(lines, s.lines...)
		lines = append(lines, vrLine("endrun"))
		s.mu.Unlock()
	}
	if c.Early {
		// a third run: Stream, read one chunk of the answer, close.  Observation: are the model's producer goroutines released?
		ps := &vrSub{mode: "probe", arrived: make(chan struct{}), rounds: map[int]*vrRound{}, probe: true}
		func() {
			defer func() { _ = recover() }()
			ctx := context.WithValue(ctx0, vrSubKey{}, ps)
			sr, err := stream(ctx, inputOf("generate"))
			got := 0
			if err == nil && sr != nil {
				if _, e := sr.Recv(); e == nil {
					got = 1
				}
				sr.Close()
			}
			deadline := time.Now().Add(1500 * time.Millisecond)
			for atomic.LoadInt32(&ps.producers) > 0 && time.Now().Before(deadline) {
				time.Sleep(200 * time.Microsecond)
			}
			lines = append(lines, vrLine("early", "released", atomic.LoadInt32(&ps.producers) == 0, "read", got, "failed", err != nil))
		}()
	}
	r.mu.Lock()
	for _, l := range r.stray {
		lines = append(lines, vrLine("stray", "line", l))
	}
	r.mu.Unlock()
	return append(lines, vrLine("end"))
}

func TestVerifReact(t *testing.T) {
	in, out := os.Getenv("VERIF_CASES"), os.Getenv("VERIF_OUT")
	if in == "" || out == "" {
		t.Skip("VERIF_CASES / VERIF_OUT not set")
	}
	fh, err := os.Open(in)
	if err != nil {
		t.Fatal(err)
	}
	defer fh.Close()
	var cases []*vrCase
	sc := bufio.NewScanner(fh)
	sc.Buffer(make([]byte, 1<<20), 1<<24)
	for sc.Scan() {
		ln := strings.TrimSpace(sc.Text())
		if ln == "" {
			continue
		}
		c := &vrCase{}
		if err := json.Unmarshal([]byte(ln), c); err != nil {
			t.Fatalf("bad case line: %v", err)
		}
		cases = append(cases, c)
	}
	results := make([][]string, len(cases))
	var next int64 = -1
	var wg sync.WaitGroup
	for w := 0; w < 4; w++ {
		wg.Add(1)
		go func() {
			defer wg.Done()
			for {
				i := int(atomic.AddInt64(&next, 1))
				if i >= len(cases) {
					return
				}
				if atomic.LoadInt32(&vrHangs) >= vrMaxHangs {
					return
				}
				done := make(chan []string, 1)
				go func(c *vrCase) { done <- vrRunCase(c) }(cases[i])
				select {
				case ls := <-done:
					results[i] = ls
				case <-time.After(vrCaseTimeout):
					// the agent does not stop (nor fail): recorded as the observation `hang`; its goroutines are abandoned
					atomic.AddInt32(&vrHangs, 1)
					results[i] = []string{`{"ev":"case","id":` + vrJSON(cases[i].ID) + `,"msgs":[],"script":[],"tools":[],"rd":[],"maxstep":0,"modifier":false,"inplace":false}`,
						`{"ev":"hang","after_ms":` + vrJSON(int(vrCaseTimeout/time.Millisecond)) + `}`, `{"ev":"end"}`}
				}
			}
		}()
	}
	wg.Wait()
	of, err := os.Create(out)
	if err != nil {
		t.Fatal(err)
	}
	w := bufio.NewWriter(of)
	replayed := 0
	for _, ls := range results {
		if ls != nil {
			replayed++
		}
		for _, l := range ls {
			w.WriteString(l)
			w.WriteString("\n")
		}
	}
	w.Flush()
	of.Close()
	fmt.Printf("VERIF-REACT cases=%d replayed=%d hangs=%d\n", len(cases), replayed, atomic.LoadInt32(&vrHangs))
}
