package host

// Concurrency harness for the agent-level part of C09: ONE host multi-agent (host model + 2 specialists: s1 a chat model with a
// system prompt, s2 an invokable + streamable lambda) is called by VERIF_CALLERS goroutines at the same time, mixing Generate and
// Stream, for VERIF_ROUNDS rounds.  Host model and specialists are stateless: everything is derived from the messages they
// receive.  Conversation of (caller, round):  user "q|<tag>|<w>": w = 0 the host answers "a<tag>" itself, w = 1 / 2 it hands off
// to s1 / s2 (tool call named after the specialist), which answers "s<w>:a<tag>".  Per-call projections (call key carried by
// the context) are written as one case per (caller, round) with two calls and validated by TLC against spec/AgentIsoObs.tla.
// No expectation is computed here.  The same test is run under -race.

import (
	"bufio"
	"context"
	"encoding/json"
	"fmt"
	"io"
	"os"
	"regexp"
	"runtime"
	"sort"
	"strconv"
	"strings"
	"sync"
	"testing"

	"github.com/cloudwego/eino/components/model"
	"github.com/cloudwego/eino/flow/agent"
	"github.com/cloudwego/eino/schema"
)

type vhKey struct{}

var vhTagRe = regexp.MustCompile(`v[0-9]+k[0-9]+r[0-9]+`)

type vhRec struct {
	mu     sync.Mutex
	events map[string][]string
	orphan []string
}

func vhJSON(v any) string {
	b, err := json.Marshal(v)
	if err != nil {
		panic(err)
	}
	return string(b)
}

func vhLine(ev string, kv ...any) string {
	var sb strings.Builder
	sb.WriteString(`{"ev":` + vhJSON(ev))
	for i := 0; i+1 < len(kv); i += 2 {
		sb.WriteString("," + vhJSON(kv[i].(string)) + ":" + vhJSON(kv[i+1]))
	}
	sb.WriteString("}")
	return sb.String()
}

func vhTags(text string) []string {
	seen := map[string]bool{}
	out := []string{}
	for _, t := range vhTagRe.FindAllString(text, -1) {
		if !seen[t] {
			seen[t] = true
			out = append(out, t)
		}
	}
	sort.Strings(out)
	return out
}

func (r *vhRec) add(ctx context.Context, line string) {
	runtime.Gosched() // widen the windows in which concurrent calls interleave
	key, _ := ctx.Value(vhKey{}).(string)
	r.mu.Lock()
	if key == "" {
		r.orphan = append(r.orphan, line)
	} else {
		r.events[key] = append(r.events[key], line)
	}
	r.mu.Unlock()
}

func vhRender(m *schema.Message) map[string]any {
	if m == nil {
		return map[string]any{"role": "nil", "content": "", "calls": []any{}, "tcid": ""}
	}
	calls := make([]map[string]any, 0, len(m.ToolCalls))
	for _, tc := range m.ToolCalls {
		calls = append(calls, map[string]any{"id": tc.ID, "name": tc.Function.Name, "args": tc.Function.Arguments})
	}
	return map[string]any{"role": string(m.Role), "content": m.Content, "calls": calls, "tcid": m.ToolCallID}
}

func (r *vhRec) see(ctx context.Context, who string, input []*schema.Message) {
	in := make([]map[string]any, 0, len(input))
	for _, m := range input {
		in = append(in, vhRender(m))
	}
	key, _ := ctx.Value(vhKey{}).(string)
	r.add(ctx, vhLine("mcall", "who", who, "ctx", key, "input", in, "tags", vhTags(vhJSON(in))))
}

// first user message "q|tag|w"
func vhParse(input []*schema.Message) (tag string, w int) {
	for _, m := range input {
		if m != nil && m.Role == schema.User {
			p := strings.Split(m.Content, "|")
			if len(p) == 3 {
				w, _ = strconv.Atoi(p[2])
				return p[1], w
			}
		}
	}
	return "", 0
}

func vhStreamOf(m *schema.Message) *schema.StreamReader[*schema.Message] {
	if len(m.ToolCalls) > 0 {
		return schema.StreamReaderFromArray([]*schema.Message{{Role: schema.Assistant}, m})
	}
	h := len(m.Content) / 2
	return schema.StreamReaderFromArray([]*schema.Message{{Role: schema.Assistant, Content: m.Content[:h]}, {Role: schema.Assistant, Content: m.Content[h:]}})
}

type vhHostModel struct{ rec *vhRec }

func (m *vhHostModel) answer(input []*schema.Message) *schema.Message {
	tag, w := vhParse(input)
	if w == 0 {
		return &schema.Message{Role: schema.Assistant, Content: "a" + tag}
	}
	idx := 0
	return &schema.Message{Role: schema.Assistant, ToolCalls: []schema.ToolCall{{Index: &idx, ID: "h" + tag, Type: "function",
		Function: schema.FunctionCall{Name: "s" + strconv.Itoa(w), Arguments: `{"reason":"` + tag + `"}`}}}}
}

func (m *vhHostModel) Generate(ctx context.Context, input []*schema.Message, _ ...model.Option) (*schema.Message, error) {
	m.rec.see(ctx, "host", input)
	return m.answer(input), nil
}

func (m *vhHostModel) Stream(ctx context.Context, input []*schema.Message, _ ...model.Option) (*schema.StreamReader[*schema.Message], error) {
	m.rec.see(ctx, "host", input)
	return vhStreamOf(m.answer(input)), nil
}

func (m *vhHostModel) WithTools([]*schema.ToolInfo) (model.ToolCallingChatModel, error) { return m, nil }

type vhSpecModel struct{ rec *vhRec }

func (m *vhSpecModel) Generate(ctx context.Context, input []*schema.Message, _ ...model.Option) (*schema.Message, error) {
	m.rec.see(ctx, "s1", input)
	tag, _ := vhParse(input)
	return &schema.Message{Role: schema.Assistant, Content: "s1:a" + tag}, nil
}

func (m *vhSpecModel) Stream(ctx context.Context, input []*schema.Message, _ ...model.Option) (*schema.StreamReader[*schema.Message], error) {
	m.rec.see(ctx, "s1", input)
	tag, _ := vhParse(input)
	return vhStreamOf(&schema.Message{Role: schema.Assistant, Content: "s1:a" + tag}), nil
}

func vhEnvInt(name string, def int) int {
	if v, err := strconv.Atoi(os.Getenv(name)); err == nil && v > 0 {
		return v
	}
	return def
}

func vhCall(ctx context.Context, ma *MultiAgent, mode string, input []*schema.Message) (line string) {
	defer func() {
		if p := recover(); p != nil {
			s := fmt.Sprint(p)
			if len(s) > 200 {
				s = s[:200]
			}
			line = vhLine("error", "text", "PANIC: "+s)
		}
	}()
	fail := func(err error) string {
		s := err.Error()
		if len(s) > 200 {
			s = s[:200]
		}
		return vhLine("error", "text", s)
	}
	if mode == "generate" {
		m, err := ma.Generate(ctx, input)
		if err != nil {
			return fail(err)
		}
		r := vhRender(m)
		return vhLine("answer", "msg", r, "tags", vhTags(vhJSON(r)))
	}
	sr, err := ma.Stream(ctx, input)
	if err != nil {
		return fail(err)
	}
	defer sr.Close()
	var chunks []*schema.Message
	for {
		m, err := sr.Recv()
		if err == io.EOF {
			break
		}
		if err != nil {
			return fail(err)
		}
		chunks = append(chunks, m)
	}
	if len(chunks) == 0 {
		return vhLine("error", "text", "empty answer stream")
	}
	m, err := schema.ConcatMessages(chunks)
	if err != nil {
		return fail(err)
	}
	r := vhRender(m)
	return vhLine("answer", "msg", r, "tags", vhTags(vhJSON(r)))
}

func TestVerifHostConc(t *testing.T) {
	out := os.Getenv("VERIF_OUT")
	if out == "" {
		t.Skip("VERIF_OUT not set")
	}
	callers, rounds := vhEnvInt("VERIF_CALLERS", 4), vhEnvInt("VERIF_ROUNDS", 12)
	ctx0 := context.Background()
	rec := &vhRec{events: map[string][]string{}}
	s2i := func(ctx context.Context, input []*schema.Message, _ ...agent.AgentOption) (*schema.Message, error) {
		rec.see(ctx, "s2", input)
		tag, _ := vhParse(input)
		return &schema.Message{Role: schema.Assistant, Content: "s2:a" + tag}, nil
	}
	s2s := func(ctx context.Context, input []*schema.Message, _ ...agent.AgentOption) (*schema.StreamReader[*schema.Message], error) {
		rec.see(ctx, "s2", input)
		tag, _ := vhParse(input)
		return vhStreamOf(&schema.Message{Role: schema.Assistant, Content: "s2:a" + tag}), nil
	}
	ma, err := NewMultiAgent(ctx0, &MultiAgentConfig{
		Host: Host{ToolCallingModel: &vhHostModel{rec}, SystemPrompt: "hp"},
		Specialists: []*Specialist{
			{AgentMeta: AgentMeta{Name: "s1", IntendedUse: "first"}, ChatModel: &vhSpecModel{rec}, SystemPrompt: "sp1"},
			{AgentMeta: AgentMeta{Name: "s2", IntendedUse: "second"}, Invokable: s2i, Streamable: s2s},
		},
	})
	if err != nil {
		t.Fatalf("NewMultiAgent: %v", err)
	}
	plan := func(k, r int) (string, int, []string) {
		modes := []string{"generate", "stream"}
		if (k+r)%2 == 1 {
			modes = []string{"stream", "generate"}
		}
		return fmt.Sprintf("v9k%dr%d", k, r), (k + 2*r) % 3, modes
	}
	results := make(map[string][2]string)
	inputs := make(map[string]string)
	var rmu sync.Mutex
	for r := 1; r <= rounds; r++ {
		var start, done sync.WaitGroup
		start.Add(1)
		for k := 1; k <= callers; k++ {
			done.Add(1)
			go func(k, r int) {
				defer done.Done()
				tag, w, modes := plan(k, r)
				var res [2]string
				input := make([]*schema.Message, 1, 4) // the caller's own slice, with spare capacity
				input[0] = schema.UserMessage(fmt.Sprintf("q|%s|%d", tag, w))
				start.Wait()
				for ci, mode := range modes {
					ctx := context.WithValue(ctx0, vhKey{}, tag+"#"+mode)
					res[ci] = vhCall(ctx, ma, mode, input)
				}
				beyond := []map[string]any{}
				for _, m := range input[1:cap(input)] {
					if m != nil {
						beyond = append(beyond, vhRender(m))
					}
				}
				rmu.Lock()
				inputs[tag] = vhLine("input", "first", vhRender(input[0]), "beyond", beyond, "len", len(input), "cap", cap(input))
				results[tag] = res
				rmu.Unlock()
			}(k, r)
		}
		start.Done()
		done.Wait()
	}
	var lines []string
	ncases := 0
	for r := 1; r <= rounds; r++ {
		for k := 1; k <= callers; k++ {
			tag, w, modes := plan(k, r)
			lines = append(lines, vhLine("case", "id", "host/"+tag, "agent", "host", "variant", "host", "tag", tag, "user", fmt.Sprintf("q|%s|%d", tag, w), "n", 0, "d", 0, "w", w,
				"modifier", false, "alt", false, "rd", false, "callers", callers))
			for ci, mode := range modes {
				lines = append(lines, vhLine("call", "mode", mode))
				lines = append(lines, rec.events[tag+"#"+mode]...)
				lines = append(lines, results[tag][ci], vhLine("endcall"))
			}
			lines = append(lines, inputs[tag], vhLine("end"))
			ncases++
		}
	}
	if len(rec.orphan) > 0 {
		lines = append(lines, vhLine("case", "id", "host/orphans", "agent", "host", "variant", "host", "tag", "", "user", "", "n", 0, "d", 0, "w", 0,
			"modifier", false, "alt", false, "rd", false, "callers", callers))
		for _, l := range rec.orphan {
			lines = append(lines, vhLine("orphan", "line", l))
		}
		lines = append(lines, vhLine("end"))
		ncases++
	}
	of, err := os.Create(out)
	if err != nil {
		t.Fatal(err)
	}
	wr := bufio.NewWriter(of)
	for _, l := range lines {
		wr.WriteString(l + "\n")
	}
	wr.Flush()
	of.Close()
	fmt.Printf("VERIF-HOSTCONC cases=%d callers=%d rounds=%d\n", ncases, callers, rounds)
}
