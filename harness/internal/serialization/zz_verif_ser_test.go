//go:build verif

package serialization

// C12 conformance harness (overlay test of package internal/serialization).
//
// Reads the abstract value shapes enumerated by TLC from spec/SerGen.tla (VERIF_CASES, one JSON object per line),
// materialises each as a real Go value by reflection (types from tokens, leaves from a per-kind boundary palette),
// pushes it through the REAL Marshal / Unmarshal under recover, and writes what happened as an observation line
// (VERIF_OUT): the abstract shape of the input actually built, the outcome of both calls, the abstract shape of the
// value that came back, and the two concrete-level flags (deep equality modulo nil/empty containers, identical
// dynamic type).  It computes no expectation: spec/SerObs.tla decides.

import (
	"bufio"
	"bytes"
	"encoding/json"
	"fmt"
	"hash/fnv"
	"math"
	"math/rand"
	"os"
	"reflect"
	"regexp"
	"sort"
	"strconv"
	"strings"
	"testing"
)

type vfNamed string
type vfNamedInt int64
type vfUnreg int

// registered struct key types: the JSON text of vfKeyPlain always lists both fields, vfKeyOmit leaves zero fields out
type vfKeyPlain struct {
	A string `json:"a"`
	B int    `json:"b"`
}
type vfKeyOmit struct {
	A string `json:"a,omitempty"`
	B int    `json:"b,omitempty"`
}

// statically declared, GenericRegister-ed members of the struct family (the others are reflect.StructOf types
// entered into the registry maps directly, which is all GenericRegister does)
type vfStInt struct {
	F int
	Z int
}
type vfStAny struct {
	F any
	Z int
}
type vfStPInt struct {
	F *int
	Z int
}
type vfStPPInt struct {
	F **int
	Z int
}
type vfStSliceInt struct {
	F []int
	Z int
}
type vfStPSliceInt struct {
	F *[]int
	Z int
}
type vfStMapStrAny struct {
	F map[string]any
	Z int
}

// struct{F struct{F int; Z int}; Z int} is materialised with its first field EMBEDDED (an exported alias name makes the embedded
// field exported): an embedded exported struct is an exported field like any other and must survive the round trip
type VfStIntE = vfStInt
type vfSteInt struct {
	VfStIntE
	Z int
}

func init() {
	_ = GenericRegister[vfNamed]("vf_named")
	_ = GenericRegister[vfNamedInt]("vf_named_int")
	_ = GenericRegister[vfKeyPlain]("vf_key_plain")
	_ = GenericRegister[vfKeyOmit]("vf_key_omit")
	_ = GenericRegister[vfStInt]("vf_st_int")
	_ = GenericRegister[vfStAny]("vf_st_any")
	_ = GenericRegister[vfStPInt]("vf_st_pint")
	_ = GenericRegister[vfStPPInt]("vf_st_ppint")
	_ = GenericRegister[vfStSliceInt]("vf_st_sliceint")
	_ = GenericRegister[vfStPSliceInt]("vf_st_psliceint")
	_ = GenericRegister[vfStMapStrAny]("vf_st_mapstrany")
	_ = GenericRegister[vfSteInt]("vf_ste_int")
}

// "stc T": types with the field name F of the corresponding registered struct{F T; Z int}; their registration is ATTEMPTED under
// the name that struct already holds and must be refused (the error is ignored, as the library does with `_ = GenericRegister`)
type vfCfInt struct{ F int }
type vfCfAny struct{ F any }
type vfCfPInt struct{ F *int }
type vfCfSliceInt struct{ F []int }

var vfCfRefused = map[string]bool{}
var vfCfOfField = map[reflect.Type]reflect.Type{} // field type -> conflicting type
var vfCfField = map[reflect.Type]reflect.Type{}   // conflicting type -> field type

func init() {
	vfCfRefused["vf_st_int"] = GenericRegister[vfCfInt]("vf_st_int") != nil
	vfCfRefused["vf_st_any"] = GenericRegister[vfCfAny]("vf_st_any") != nil
	vfCfRefused["vf_st_pint"] = GenericRegister[vfCfPInt]("vf_st_pint") != nil
	vfCfRefused["vf_st_sliceint"] = GenericRegister[vfCfSliceInt]("vf_st_sliceint") != nil
	for _, ct := range []reflect.Type{reflect.TypeOf(vfCfInt{}), reflect.TypeOf(vfCfAny{}), reflect.TypeOf(vfCfPInt{}), reflect.TypeOf(vfCfSliceInt{})} {
		vfCfOfField[ct.Field(0).Type] = ct
		vfCfField[ct] = ct.Field(0).Type
	}
}

var vfAnyType = reflect.TypeOf((*any)(nil)).Elem()

var vfDeclaredStructs = map[reflect.Type]reflect.Type{} // field type -> declared struct type
var vfStructOfField = map[reflect.Type]reflect.Type{}   // struct type -> field type F

func init() {
	for _, st := range []reflect.Type{reflect.TypeOf(vfStInt{}), reflect.TypeOf(vfStAny{}), reflect.TypeOf(vfStPInt{}),
		reflect.TypeOf(vfStPPInt{}), reflect.TypeOf(vfStSliceInt{}), reflect.TypeOf(vfStPSliceInt{}), reflect.TypeOf(vfStMapStrAny{}), reflect.TypeOf(vfSteInt{})} {
		vfDeclaredStructs[st.Field(0).Type] = st
		vfStructOfField[st] = st.Field(0).Type
	}
}

var vfBaseTypes = map[string]reflect.Type{
	"int": reflect.TypeOf(int(0)), "int8": reflect.TypeOf(int8(0)), "int16": reflect.TypeOf(int16(0)), "int32": reflect.TypeOf(int32(0)),
	"int64": reflect.TypeOf(int64(0)), "uint": reflect.TypeOf(uint(0)), "uint8": reflect.TypeOf(uint8(0)), "uint16": reflect.TypeOf(uint16(0)),
	"uint32": reflect.TypeOf(uint32(0)), "uint64": reflect.TypeOf(uint64(0)), "float32": reflect.TypeOf(float32(0)),
	"float64": reflect.TypeOf(float64(0)), "bool": reflect.TypeOf(false), "string": reflect.TypeOf(""),
	"named": reflect.TypeOf(vfNamed("")), "namedint": reflect.TypeOf(vfNamedInt(0)), "unreg": reflect.TypeOf(vfUnreg(0)),
	"complex128": reflect.TypeOf(complex128(0)), "any": vfAnyType,
	"skey": reflect.TypeOf(vfKeyPlain{}), "okey": reflect.TypeOf(vfKeyOmit{}),
}
var vfBaseTokens = map[reflect.Type]string{}

func init() {
	for k, t := range vfBaseTypes {
		vfBaseTokens[t] = k
	}
}

// the boundary palette: kind token -> (id, value)
type vfLeaf struct {
	id string
	v  any
}

var vfPalette = map[string][]vfLeaf{
	"int":        {{"0", int(0)}, {"1", int(1)}, {"-1", int(-1)}, {"7", int(7)}, {"max", int(math.MaxInt64)}, {"min", int(math.MinInt64)}, {"2p53+1", int(1<<53 + 1)}},
	"int8":       {{"0", int8(0)}, {"max", int8(math.MaxInt8)}, {"min", int8(math.MinInt8)}},
	"int16":      {{"0", int16(0)}, {"max", int16(math.MaxInt16)}, {"min", int16(math.MinInt16)}},
	"int32":      {{"0", int32(0)}, {"max", int32(math.MaxInt32)}, {"min", int32(math.MinInt32)}},
	"int64":      {{"0", int64(0)}, {"-1", int64(-1)}, {"max", int64(math.MaxInt64)}, {"min", int64(math.MinInt64)}, {"2p53+1", int64(1<<53 + 1)}},
	"uint":       {{"0", uint(0)}, {"max", uint(math.MaxUint64)}, {"2p53+1", uint(1<<53 + 1)}},
	"uint8":      {{"0", uint8(0)}, {"max", uint8(math.MaxUint8)}},
	"uint16":     {{"0", uint16(0)}, {"max", uint16(math.MaxUint16)}},
	"uint32":     {{"0", uint32(0)}, {"max", uint32(math.MaxUint32)}},
	"uint64":     {{"0", uint64(0)}, {"max", uint64(math.MaxUint64)}, {"2p53+1", uint64(1<<53 + 1)}},
	"float32":    {{"0", float32(0)}, {"1.5", float32(1.5)}, {"max", float32(math.MaxFloat32)}, {"tiny", float32(math.SmallestNonzeroFloat32)}},
	"float64":    {{"0", float64(0)}, {"-1.5", float64(-1.5)}, {"max", float64(math.MaxFloat64)}, {"tiny", float64(math.SmallestNonzeroFloat64)}, {"2p53", float64(1 << 53)}, {"0.1", float64(0.1)}, {"nan", math.NaN()}, {"+inf", math.Inf(1)}},
	"bool":       {{"true", true}, {"false", false}},
	"string":     {{"", ""}, {"a", "a"}, {"utf8", "héllo → 世界 \U0001F642"}, {"html", "<a href=\"x\">&'</a>"}, {"ctl", "line\nbreak\ttab \x00"}},
	"named":      {{"", vfNamed("")}, {"a", vfNamed("a")}, {"utf8", vfNamed("世界<&>")}, {"esc", vfNamed("\x1b[1m\x00")}, {"nonbmp", vfNamed("\U000E0001\a")}},
	"namedint":   {{"0", vfNamedInt(0)}, {"max", vfNamedInt(math.MaxInt64)}},
	"unreg":      {{"1", vfUnreg(1)}},
	"complex128": {{"1+2i", complex(1, 2)}},
}

// kinds the abstract token "int" may stand for (seeded choice per case)
var vfIntKinds = []string{"int", "string", "int64", "uint8", "uint64", "float64", "int32", "float32", "bool", "namedint", "int8", "uint", "uint16", "int16", "uint32"}

type vfAbs struct {
	T    []string  `json:"t"`
	K    string    `json:"k"`
	Nil  bool      `json:"nil"`
	Leaf string    `json:"leaf"`
	Keys []vfKey   `json:"keys"`
	Kids []*vfAbs  `json:"kids"`
}
type vfKey struct {
	Kt string `json:"kt"`
	Kv string `json:"kv"`
	Ka string `json:"ka"` // struct key kinds: field A
	Kb string `json:"kb"` // struct key kinds: field B (decimal)
}

func vfNilIf() *vfAbs {
	return &vfAbs{T: []string{"nil"}, K: "nilif", Nil: true, Keys: []vfKey{}, Kids: []*vfAbs{}}
}

type vfCtx struct {
	rnd     *rand.Rand
	intKind string
}

var vfStructCache = map[reflect.Type]reflect.Type{}
var vfStructSeq = 0

func vfStructType(ft reflect.Type) reflect.Type {
	if st, ok := vfDeclaredStructs[ft]; ok {
		return st
	}
	if st, ok := vfStructCache[ft]; ok {
		return st
	}
	st := reflect.StructOf([]reflect.StructField{{Name: "F", Type: ft}, {Name: "Z", Type: reflect.TypeOf(int(0))}})
	if _, ok := rm[st]; !ok {
		vfStructSeq++
		key := "vf_dyn_st_" + strconv.Itoa(vfStructSeq)
		m[key] = st
		rm[st] = key
	}
	vfStructCache[ft] = st
	vfStructOfField[st] = ft
	return st
}

func (c *vfCtx) typeOf(toks []string) reflect.Type {
	if len(toks) == 0 {
		panic("vf: empty type")
	}
	tok := toks[0]
	switch {
	case tok == "ptr":
		return reflect.PtrTo(c.typeOf(toks[1:]))
	case tok == "slice":
		return reflect.SliceOf(c.typeOf(toks[1:]))
	case tok == "arr1":
		return reflect.ArrayOf(1, c.typeOf(toks[1:]))
	case tok == "arr2":
		return reflect.ArrayOf(2, c.typeOf(toks[1:]))
	case strings.HasPrefix(tok, "map_"):
		kt, ok := vfBaseTypes[tok[4:]]
		if !ok {
			panic("vf: unknown key kind " + tok)
		}
		return reflect.MapOf(kt, c.typeOf(toks[1:]))
	case tok == "st":
		return vfStructType(c.typeOf(toks[1:]))
	case tok == "stc":
		ct, ok := vfCfOfField[c.typeOf(toks[1:])]
		if !ok {
			panic("vf: no conflicting type declared for field type " + strings.Join(toks[1:], "."))
		}
		return ct
	}
	if tok == "int" && c.intKind != "" {
		tok = c.intKind
	}
	t, ok := vfBaseTypes[tok]
	if !ok {
		panic("vf: unknown base token " + tok)
	}
	return t
}

func vfTokens(t reflect.Type) []string {
	if tok, ok := vfBaseTokens[t]; ok {
		return []string{tok}
	}
	switch t.Kind() {
	case reflect.Ptr:
		return append([]string{"ptr"}, vfTokens(t.Elem())...)
	case reflect.Slice:
		return append([]string{"slice"}, vfTokens(t.Elem())...)
	case reflect.Array:
		return append([]string{"arr" + strconv.Itoa(t.Len())}, vfTokens(t.Elem())...)
	case reflect.Map:
		kt, ok := vfBaseTokens[t.Key()]
		if !ok {
			kt = t.Key().String()
		}
		return append([]string{"map_" + kt}, vfTokens(t.Elem())...)
	case reflect.Struct:
		if ft, ok := vfStructOfField[t]; ok {
			return append([]string{"st"}, vfTokens(ft)...)
		}
		if ft, ok := vfCfField[t]; ok {
			return append([]string{"stc"}, vfTokens(ft)...)
		}
	}
	return []string{"go:" + t.String()}
}

func vfLeafValue(tok, id string) (any, bool) {
	for _, l := range vfPalette[tok] {
		if l.id == id {
			return l.v, true
		}
	}
	return nil, false
}

func vfLeafID(tok string, v any) string {
	for _, l := range vfPalette[tok] {
		if f, ok := v.(float64); ok && f != f {
			if lf, ok2 := l.v.(float64); ok2 && lf != lf {
				return l.id
			}
			continue
		}
		if reflect.DeepEqual(l.v, v) {
			return l.id
		}
	}
	return "?" + fmt.Sprintf("%#v", v)
}

func vfKeyValue(k vfKey) reflect.Value {
	switch k.Kt {
	case "string":
		return reflect.ValueOf(k.Kv)
	case "named":
		return reflect.ValueOf(vfNamed(k.Kv))
	case "int":
		n, _ := strconv.Atoi(k.Kv)
		return reflect.ValueOf(n)
	case "bool":
		return reflect.ValueOf(k.Kv == "true")
	case "float64":
		f, _ := strconv.ParseFloat(k.Kv, 64)
		return reflect.ValueOf(f)
	case "skey":
		n, _ := strconv.Atoi(k.Kb)
		return reflect.ValueOf(vfKeyPlain{A: k.Ka, B: n})
	case "okey":
		n, _ := strconv.Atoi(k.Kb)
		return reflect.ValueOf(vfKeyOmit{A: k.Ka, B: n})
	}
	panic("vf: unknown key kind " + k.Kt)
}

func vfKeyAbs(v reflect.Value) vfKey {
	if v.Kind() == reflect.Interface {
		v = v.Elem()
	}
	tok, ok := vfBaseTokens[v.Type()]
	if !ok {
		return vfKey{Kt: "go:" + v.Type().String(), Kv: fmt.Sprint(v.Interface())}
	}
	switch x := v.Interface().(type) {
	case float64:
		return vfKey{Kt: tok, Kv: strconv.FormatFloat(x, 'g', -1, 64)}
	case vfKeyPlain:
		return vfKey{Kt: tok, Ka: x.A, Kb: strconv.Itoa(x.B)}
	case vfKeyOmit:
		return vfKey{Kt: tok, Ka: x.A, Kb: strconv.Itoa(x.B)}
	}
	return vfKey{Kt: tok, Kv: fmt.Sprint(v.Interface())}
}

// build materialises the abstract value a; the result has exactly the dynamic type named by a.T (after kind substitution)
func (c *vfCtx) build(a *vfAbs) reflect.Value {
	t := c.typeOf(a.T)
	switch a.K {
	case "ptr":
		if a.Nil {
			return reflect.Zero(t)
		}
		p := reflect.New(t.Elem())
		p.Elem().Set(c.buildInto(t.Elem(), a.Kids[0]))
		return p
	case "slice":
		if a.Nil {
			return reflect.Zero(t)
		}
		s := reflect.MakeSlice(t, len(a.Kids), len(a.Kids))
		for i, k := range a.Kids {
			s.Index(i).Set(c.buildInto(t.Elem(), k))
		}
		return s
	case "arr":
		s := reflect.New(t).Elem()
		for i, k := range a.Kids {
			s.Index(i).Set(c.buildInto(t.Elem(), k))
		}
		return s
	case "map":
		if a.Nil {
			return reflect.Zero(t)
		}
		mv := reflect.MakeMap(t)
		for i, k := range a.Kids {
			mv.SetMapIndex(vfKeyValue(a.Keys[i]), c.buildInto(t.Elem(), k))
		}
		return mv
	case "st":
		s := reflect.New(t).Elem()
		for i := range a.Kids {
			s.Field(i).Set(c.buildInto(t.Field(i).Type, a.Kids[i]))
		}
		return s
	case "leaf":
		tok := vfBaseTokens[t]
		id := a.Leaf
		if id == "@" {
			pal := vfPalette[tok]
			id = pal[c.rnd.Intn(len(pal))].id
		}
		lv, ok := vfLeafValue(tok, id)
		if !ok {
			lv = vfPalette[tok][0].v
		}
		return reflect.ValueOf(lv)
	}
	panic("vf: cannot build kind " + a.K)
}

func (c *vfCtx) buildInto(static reflect.Type, a *vfAbs) reflect.Value {
	if a.K == "nilif" {
		return reflect.Zero(static)
	}
	if static == reflect.TypeOf(int(0)) && len(a.T) == 1 && a.T[0] == "int" && a.Leaf == "7" {
		return reflect.ValueOf(int(7)) // the sentinel field Z is never kind-substituted
	}
	v := c.build(a)
	if static.Kind() == reflect.Interface {
		r := reflect.New(static).Elem()
		r.Set(v)
		return r
	}
	return v
}

// abstraction of a real value
func vfAbstract(v reflect.Value) *vfAbs {
	if !v.IsValid() {
		return vfNilIf()
	}
	if v.Kind() == reflect.Interface {
		if v.IsNil() {
			return vfNilIf()
		}
		v = v.Elem()
	}
	t := v.Type()
	a := &vfAbs{T: vfTokens(t), Keys: []vfKey{}, Kids: []*vfAbs{}}
	if tok, ok := vfBaseTokens[t]; ok {
		a.K = "leaf"
		a.Leaf = vfLeafID(tok, v.Interface())
		return a
	}
	switch t.Kind() {
	case reflect.Ptr:
		a.K = "ptr"
		a.Nil = v.IsNil()
		if !a.Nil {
			a.Kids = append(a.Kids, vfAbstract(v.Elem()))
		}
	case reflect.Slice:
		a.K = "slice"
		a.Nil = v.IsNil()
		for i := 0; i < v.Len(); i++ {
			a.Kids = append(a.Kids, vfAbstract(v.Index(i)))
		}
	case reflect.Array:
		a.K = "arr"
		for i := 0; i < v.Len(); i++ {
			a.Kids = append(a.Kids, vfAbstract(v.Index(i)))
		}
	case reflect.Map:
		a.K = "map"
		a.Nil = v.IsNil()
		type ent struct {
			k vfKey
			v *vfAbs
		}
		var es []ent
		it := v.MapRange()
		for it.Next() {
			es = append(es, ent{vfKeyAbs(it.Key()), vfAbstract(it.Value())})
		}
		sort.Slice(es, func(i, j int) bool {
			if es[i].k.Kt != es[j].k.Kt {
				return es[i].k.Kt < es[j].k.Kt
			}
			if es[i].k.Kv != es[j].k.Kv {
				return es[i].k.Kv < es[j].k.Kv
			}
			if es[i].k.Ka != es[j].k.Ka {
				return es[i].k.Ka < es[j].k.Ka
			}
			return es[i].k.Kb < es[j].k.Kb
		})
		for _, e := range es {
			a.Keys = append(a.Keys, e.k)
			a.Kids = append(a.Kids, e.v)
		}
	case reflect.Struct:
		a.K = "st"
		for i := 0; i < v.NumField(); i++ {
			a.Kids = append(a.Kids, vfAbstract(v.Field(i)))
		}
	default:
		a.K = "leaf"
		a.Leaf = "?" + fmt.Sprintf("%#v", v.Interface())
	}
	return a
}

// concrete deep equality: identical types at every level, nil and empty containers identified
func vfDeepEq(a, b reflect.Value) bool {
	if !a.IsValid() || !b.IsValid() {
		return a.IsValid() == b.IsValid()
	}
	if a.Type() != b.Type() {
		return false
	}
	switch a.Kind() {
	case reflect.Interface:
		if a.IsNil() || b.IsNil() {
			return a.IsNil() == b.IsNil()
		}
		return vfDeepEq(a.Elem(), b.Elem())
	case reflect.Ptr:
		if a.IsNil() || b.IsNil() {
			return a.IsNil() == b.IsNil()
		}
		return vfDeepEq(a.Elem(), b.Elem())
	case reflect.Slice, reflect.Array:
		if a.Len() != b.Len() {
			return false
		}
		for i := 0; i < a.Len(); i++ {
			if !vfDeepEq(a.Index(i), b.Index(i)) {
				return false
			}
		}
		return true
	case reflect.Map:
		if a.Len() != b.Len() {
			return false
		}
		it := a.MapRange()
		for it.Next() {
			bv := b.MapIndex(it.Key())
			if !bv.IsValid() || !vfDeepEq(it.Value(), bv) {
				return false
			}
		}
		return true
	case reflect.Struct:
		for i := 0; i < a.NumField(); i++ {
			if !vfDeepEq(a.Field(i), b.Field(i)) {
				return false
			}
		}
		return true
	}
	return reflect.DeepEqual(a.Interface(), b.Interface())
}

var vfAssignRe = regexp.MustCompile(`value of type (.+) is not assignable to type (.+)$`)

func vfStripStars(s string) (int, string) {
	n := 0
	for strings.HasPrefix(s, "*") {
		s = s[1:]
		n++
	}
	return n, s
}

// vfPanicClass describes a recovered panic by the two type names in reflect's message (no expectation involved)
func vfPanicClass(msg string) string {
	mm := vfAssignRe.FindStringSubmatch(msg)
	if mm == nil {
		return "other"
	}
	px, bx := vfStripStars(mm[1])
	py, by := vfStripStars(mm[2])
	if len(by) > 1 && by[0] == '[' && by[1] >= '0' && by[1] <= '9' && strings.HasPrefix(bx, "[]") {
		return "array"
	}
	if bx == by && py > px {
		if strings.HasPrefix(bx, "[]") || strings.HasPrefix(bx, "map[") {
			return "ptr-to-container"
		}
		return "nil-multi-ptr"
	}
	return "other"
}

type vfObs struct {
	Ev     string `json:"ev"`
	ID     string `json:"id"`
	In     *vfAbs `json:"in"`
	Enc    string `json:"enc"`
	Dec    string `json:"dec"`
	Out    *vfAbs `json:"out"`
	Deq    bool   `json:"deq"`
	Teq    bool   `json:"teq"`
	Pclass string `json:"pclass"`
	Msg    string `json:"msg"`
	Bytes  int    `json:"bytes"`
}

func vfMarshal(v any) (data []byte, outcome, msg string) {
	defer func() {
		if r := recover(); r != nil {
			outcome, msg = "panic", fmt.Sprint(r)
		}
	}()
	d, err := Marshal(v)
	if err != nil {
		return nil, "err", err.Error()
	}
	return d, "ok", ""
}

func vfUnmarshal(data []byte) (v any, outcome, msg string) {
	defer func() {
		if r := recover(); r != nil {
			outcome, msg = "panic", fmt.Sprint(r)
		}
	}()
	x, err := Unmarshal(data)
	if err != nil {
		return nil, "err", err.Error()
	}
	return x, "ok", ""
}

func vfRoundTrip(id string, in any) *vfObs {
	o := &vfObs{Ev: "ser", ID: id, Dec: "none", Out: vfNilIf()}
	o.In = vfAbstract(reflect.ValueOf(in))
	data, enc, msg := vfMarshal(in)
	o.Enc, o.Msg, o.Bytes = enc, msg, len(data)
	if enc == "panic" {
		o.Pclass = vfPanicClass(msg)
	}
	if enc != "ok" {
		return o
	}
	out, dec, msg2 := vfUnmarshal(data)
	o.Dec, o.Msg = dec, msg2
	if dec == "panic" {
		o.Pclass = vfPanicClass(msg2)
	}
	if dec != "ok" {
		return o
	}
	o.Out = vfAbstract(reflect.ValueOf(out))
	o.Teq = reflect.TypeOf(in) == reflect.TypeOf(out)
	o.Deq = vfDeepEq(reflect.ValueOf(in), reflect.ValueOf(out))
	return o
}

func TestVerifSer(t *testing.T) {
	casesPath, outPath := os.Getenv("VERIF_CASES"), os.Getenv("VERIF_OUT")
	if casesPath == "" || outPath == "" {
		t.Skip("VERIF_CASES / VERIF_OUT not set")
	}
	t.Logf("verif: conflicting registrations refused: %v", vfCfRefused)
	seed, _ := strconv.ParseInt(os.Getenv("VERIF_SEED"), 10, 64)
	variants, _ := strconv.Atoi(os.Getenv("VERIF_VARIANTS"))
	if variants <= 0 {
		variants = 1
	}
	in, err := os.Open(casesPath)
	if err != nil {
		t.Fatal(err)
	}
	defer in.Close()
	outf, err := os.Create(outPath)
	if err != nil {
		t.Fatal(err)
	}
	defer outf.Close()
	w := bufio.NewWriterSize(outf, 1<<20)
	defer w.Flush()
	enc := json.NewEncoder(w)
	enc.SetEscapeHTML(false)
	sc := bufio.NewScanner(in)
	sc.Buffer(make([]byte, 1<<20), 1<<26)
	n := 0
	for sc.Scan() {
		line := sc.Bytes()
		if len(line) == 0 {
			continue
		}
		var c struct {
			ID string `json:"id"`
			V  *vfAbs `json:"v"`
			// replay support: fixed kind / leaves
			IntKind string `json:"intkind"`
		}
		if err := json.Unmarshal(line, &c); err != nil {
			t.Fatalf("bad case line: %v", err)
		}
		for k := 0; k < variants; k++ {
			h := fnv.New32a()
			_, _ = h.Write([]byte(c.ID))
			ctx := &vfCtx{rnd: rand.New(rand.NewSource(seed*1000003 + int64(h.Sum32())*31 + int64(k)))}
			ctx.intKind = c.IntKind
			if ctx.intKind == "" {
				if k == 0 || bytes.Contains(line, []byte(`"stc"`)) { // conflicting types are declared for int fields only

					ctx.intKind = "int"
				} else {
					ctx.intKind = vfIntKinds[ctx.rnd.Intn(len(vfIntKinds))]
				}
			}
			id := c.ID
			if variants > 1 {
				id = c.ID + "." + strconv.Itoa(k)
			}
			var val any
			func() {
				defer func() {
					if r := recover(); r != nil {
						t.Fatalf("harness could not materialise case %s: %v", c.ID, r)
					}
				}()
				if c.V.K != "nilif" {
					val = ctx.build(c.V).Interface()
				}
			}()
			if err := enc.Encode(vfRoundTrip(id, val)); err != nil {
				t.Fatal(err)
			}
		}
		n++
	}
	if err := sc.Err(); err != nil {
		t.Fatal(err)
	}
	t.Logf("verif: %d cases", n)
}
