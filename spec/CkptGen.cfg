SPECIFICATION Spec
INVARIANT ModelLaw
INVARIANT Emit
CHECK_DEADLOCK FALSE
