CONSTANTS
  Mode = "pregel"
  N = 3
  MaxEdges = 9
  FailKinds = {"err"}
  AllowDangling = FALSE
  MaxKind = 0
  MaxMark = 0
  MaxRerun = 0
  Runs = 2
  RBug = "none"
SPECIFICATION RunSpec
INVARIANT RuleHolds
INVARIANT Compared
CHECK_DEADLOCK FALSE
