------------------------------- MODULE AgentIsoObs -------------------------------
(***************************************************************************)
(* Trace validation of OBSERVATIONS OF REAL CONCURRENT AGENT CALLS (C09, agent level)  *)
(* against the property-level rule of AgentIsoRule.tla.  One state per trace  *)
(* line; total: a line that contradicts the property prints                *)
(* <<"BAD", case id, line, reason>> and the rest of that case is skipped.  *)
(* A case that is not closed by its "end" line (dropped line) is reported  *)
(* when the next case starts or, for the last case, by the postcondition.  *)
(***************************************************************************)
EXTENDS AgentIsoRule

Trace == ndJsonDeserialize("trace.ndjson")
ASSUME TLCSet(1, 0)
ASSUME TLCSet(2, "")

VARIABLES l, S
vars == <<l, S>>

Init == l = 1 /\ S = Idle
Next == /\ l <= Len(Trace)
        /\ l' = l + 1
        /\ LET e == Trace[l]
               T == Apply(S, e) IN
             /\ S' = T
             /\ (e.ev = "case" /\ S.open /\ S.bad = "") => PrintT(<<"BAD", S.id, l, "case-not-closed-by-an-end-line">>)
             /\ (T.bad # "" /\ S.bad = "") => PrintT(<<"BAD", T.id, l, T.bad, T.mode>>)
Spec == Init /\ [][Next]_vars

HW == /\ TLCSet(1, Max2(l, TLCGet(1)))
      /\ TLCSet(2, IF S.open /\ S.bad = "" THEN S.id ELSE "")
Post == /\ PrintT(<<"HW", TLCGet(1)>>)
        /\ (TLCGet(2) # "" => PrintT(<<"BAD", TLCGet(2), TLCGet(1), "trace-ends-inside-a-case">>))
================================================================================
