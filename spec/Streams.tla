------------------------------- MODULE Streams -------------------------------
(***************************************************************************)
(* C08, model level: the stream mechanism of eino/schema (StreamsDef       *)
(* section 2) driven by one writer process per pipe, one reader process    *)
(* per leaf reader and the forwarder goroutines, in every interleaving;    *)
(* the property-level rule Obs (StreamsDef section 3) judges the calls and *)
(* returns the processes observe.  TLC checks exhaustively, for every      *)
(* reader tree of trees.ndjson and every choice of capacities and item     *)
(* sequences inside the bounds:                                            *)
(*   RuleHolds        per-reader prefix / complete at EOF, merge per       *)
(*                    source order, EOF only after every source ended,     *)
(*                    copies agree, writer told only when every derived    *)
(*                    reader closed and after at most cap+hops late sends  *)
(*   ClosedOnce       no stream's closeRecv runs twice (= panic in Go)     *)
(*   SourceClosed     at the end, a pipe whose derived readers were all    *)
(*                    closed has been closed exactly once                  *)
(*   Quiesced         at the end every forwarder has exited, no once held  *)
(*   no deadlock      the only states without a successor are Terminal     *)
(*                    (every action consumes a bounded resource, so the    *)
(*                    state graph is acyclic and this is also termination) *)
(***************************************************************************)
EXTENDS StreamsDef, Json
CONSTANTS Caps1, MaxItems1,     \* bounds for trees with one pipe
          CapsN, MaxItemsN,     \* bounds for trees with several pipes
          MaxItems3,            \* item bound for trees with three or more sources
          SplitCount,           \* SEEDED DEFECT (must-fail configuration): the closed-children counter of a copy is read and written in
                                \* two steps (`p.closedNum++` instead of atomic.AddUint32), so concurrent closes can lose an update
          ErrItems1, ErrItemsN  \* TRUE: one item of a sequence may be an error item

Shapes == ndJsonDeserialize("trees.ndjson")

VARIABLES T, M, G, wst, wi, lst
vars == <<T, M, G, wst, wi, lst>>

ItemsOf(r, n, e) == [j \in 1..n |-> IF j = e THEN 0 - (r * 10 + j) ELSE r * 10 + j]
Init == \E i \in 1..Len(Shapes) :
          LET S == Shapes[i].nodes
              P == {r \in 1..Len(S) : S[r].k = "pipe"}
              R == {r \in 1..Len(S) : S[r].k \in {"pipe", "array"}}
              caps == IF Cardinality(P) <= 1 THEN Caps1 ELSE CapsN
              mx == IF Cardinality(R) <= 1 THEN MaxItems1 ELSE IF Cardinality(R) = 2 THEN MaxItemsN ELSE MaxItems3
          IN \E c \in [P -> caps], n \in [R -> 0..mx], e \in [R -> 0..mx] :
               /\ \A r \in R : e[r] <= n[r] /\ (~(IF Cardinality(R) <= 1 THEN ErrItems1 ELSE ErrItemsN) => e[r] = 0)
                              /\ (r \notin P => e[r] = 0)                   \* an array holds values only
               /\ \A r1, r2 \in P : c[r1] = c[r2]                          \* several pipes: one capacity for all
               /\ T = [r \in 1..Len(S) |-> IF r \in R THEN [S[r] EXCEPT !.cap = IF r \in P THEN c[r] ELSE 0, !.items = ItemsOf(r, n[r], e[r])] ELSE S[r]]
               /\ M = InitM(T)
               /\ G = InitG(T, Shapes[i].id)
               /\ wst = [r \in 1..Len(S) |-> IF r \in P THEN "run" ELSE "none"]
               /\ wi = [r \in 1..Len(S) |-> 1]
               /\ lst = [r \in 1..Len(S) |-> IF r \in Leaves(T) THEN "idle" ELSE "none"]

Ev(ev, a, op, v, res) == [ev |-> ev, a |-> a, op |-> op, v |-> v, res |-> res]
\* ---- writer of pipe p: Send every item, stop when told, then Close
WSend(p) == /\ wst[p] = "run" /\ wi[p] <= Len(T[p].items)
            /\ M' = Offer(M, p, T[p].items[wi[p]]) /\ wst' = [wst EXCEPT ![p] = "sending"]
            /\ G' = Obs(G, T, Ev("call", p, "send", T[p].items[wi[p]], ""))
            /\ UNCHANGED <<T, wi, lst>>
WReturn(p, N) == IF N.snd[p].st = "told"
                 THEN /\ M' = ClearSnd(N, p) /\ wst' = [wst EXCEPT ![p] = "told"] /\ wi' = wi
                      /\ G' = Obs(G, T, Ev("ret", p, "send", 0, "true"))
                 ELSE /\ M' = ClearSnd(N, p) /\ wst' = [wst EXCEPT ![p] = "run"] /\ wi' = [wi EXCEPT ![p] = @ + 1]
                      /\ G' = Obs(G, T, Ev("ret", p, "send", 0, "false"))
WStep(p) == /\ wst[p] = "sending"
            /\ \/ \E N \in SendStep(M, T, p) : WReturn(p, N)                \* told, or enqueued
               \/ M.snd[p].st = "sent" /\ WReturn(p, M)                       \* handed over by a receiver (capacity 0)
            /\ UNCHANGED <<T, lst>>
WClose(p) == /\ (wst[p] = "told" \/ (wst[p] = "run" /\ wi[p] > Len(T[p].items)))
             /\ M' = CloseSend(M, p) /\ wst' = [wst EXCEPT ![p] = "done"]
             /\ G' = Obs(Obs(G, T, Ev("call", p, "closeSend", 0, "")), T, Ev("ret", p, "closeSend", 0, "ok"))
             /\ UNCHANGED <<T, wi, lst>>
\* ---- reader process of leaf a: Recv until EOF, Close at any time between two calls (also after EOF)
LStep(a) == /\ lst[a] \in {"idle", "recv"}
            /\ \E o \in {x \in Rv(M, T, a, a) : x.t # "panic"} :          \* a panic in the caller's own Recv is outside the universe
                 LET G1 == IF lst[a] = "idle" THEN Obs(G, T, Ev("call", a, "recv", 0, "")) ELSE G IN
                 /\ M' = o.M
                 /\ IF o.t = "prog" THEN lst' = [lst EXCEPT ![a] = "recv"] /\ G' = G1
                    ELSE /\ lst' = [lst EXCEPT ![a] = IF o.v = EOFV THEN "eof" ELSE "idle"]
                         /\ G' = Obs(G1, T, Ev("ret", a, "recv", o.v, IF o.v = EOFV THEN "eof" ELSE "item"))
            /\ UNCHANGED <<T, wst, wi>>
SplitHere(a) == SplitCount /\ Kd(T, a) = "child" /\ ~ArrLike(T, a)
LCloseRead(a) == /\ SplitHere(a) /\ lst[a] \in {"idle", "eof"}
                 /\ M' = [M EXCEPT !.crd[a] = M.closedNum[Src1(T, a)], !.cur[a] = 0] /\ lst' = [lst EXCEPT ![a] = "closing"]
                 /\ G' = Obs(G, T, Ev("call", a, "close", 0, ""))
                 /\ UNCHANGED <<T, wst, wi>>
LCloseWrite(a) == /\ lst[a] = "closing"
                  /\ LET p == Src1(T, a)  M1 == [M EXCEPT !.closedNum[p] = M.crd[a] + 1] IN
                       M' = IF M.crd[a] + 1 = T[p].n THEN CloseR(M1, T, Src1(T, p)) ELSE M1
                  /\ lst' = [lst EXCEPT ![a] = "closed"]
                  /\ G' = Obs(G, T, Ev("ret", a, "close", 0, "ok"))
                  /\ UNCHANGED <<T, wst, wi>>
LClose(a) == /\ ~SplitHere(a) /\ lst[a] \in {"idle", "eof"}
             /\ M' = CloseR(M, T, a) /\ lst' = [lst EXCEPT ![a] = "closed"]
             /\ G' = Obs(Obs(G, T, Ev("call", a, "close", 0, "")), T, Ev("ret", a, "close", 0, "ok"))
             /\ UNCHANGED <<T, wst, wi>>
\* ---- forwarder goroutines
FStep(f) == /\ \E N \in FwdStep(M, T, f) : M' = N
            /\ UNCHANGED <<T, G, wst, wi, lst>>

Terminal == /\ \A p \in Pipes(T) : wst[p] = "done"
            /\ \A a \in Leaves(T) : lst[a] \in {"eof", "closed"}
            /\ \A f \in Fwd(T) : FwdStep(M, T, f) = {}
Next == \/ \E p \in Pipes(T) : WSend(p) \/ WStep(p) \/ WClose(p)
        \/ \E a \in Leaves(T) : LStep(a) \/ LClose(a) \/ LCloseRead(a) \/ LCloseWrite(a)
        \/ \E f \in Fwd(T) : FStep(f)
        \/ (Terminal /\ UNCHANGED vars)
Spec == Init /\ [][Next]_vars

RuleHolds == G.bad = ""
ClosedOnce == \A s \in Ids(T) : M.rcnt[s] <= 1
SourceClosed == Terminal => \A p \in Pipes(T) : (\A a \in LeavesOf(T, p) : lst[a] = "closed") => M.rcnt[p] = 1
Quiesced == Terminal => /\ \A f \in Fwd(T) : M.fst[f] = "done"
                        /\ \A c \in Ids(T) : M.lock[c] = 0
\* nothing is delivered that the rule would not expect, stated directly on the ghost (redundant with RuleHolds; kept as a
\* cross-check of Obs itself): a reader at EOF has, per path, exactly the successfully sent items
AtEOFComplete == \A a \in Leaves(T) : lst[a] = "eof" => Allowed(G, T, a, G.got[a], TRUE)
================================================================================
