-------------------------------- MODULE TMRun --------------------------------
(***************************************************************************)
(* Implementation-shaped model of eino's run loop at the abstraction C03   *)
(* needs (compose/graph_run.go:256-373 with graph_manager.go:286-361; the  *)
(* task manager is abstracted to "a bag of finished tasks handed over      *)
(* exactly once" -- the abstraction TaskManager.tla establishes):           *)
(*   Submit      tm.submit(nextTasks): every task gets an executor          *)
(*   Begin/BodyEnd a node body begins / returns or fails, in ANY order      *)
(*   CollectAll  batch (needAll): wait for every submitted task, then       *)
(*               resolve errors, route, compute the next step               *)
(*   CollectOne  eager: wait for ONE finished task, then the same           *)
(*   IntCollect  a collected task carries an interrupt-after mark: the next  *)
(*               tasks are kept back, tm.waitAll() collects everything in    *)
(*               flight, then the interrupt is returned;  Resume submits     *)
(*               the saved tasks (configs with MaxMark > 0)                  *)
(* for every graph that TMGen grows, every failing-node choice, and every   *)
(* interleaving of body completions with the run loop.  Two runs of the    *)
(* same graph are executed one after the other so that the cross-order      *)
(* clause of the rule (same result, same executions) is exercised.         *)
(* Every action emits the observations a real run would produce and feeds   *)
(* them to the rule of TMConf.tla -- the SAME rule that judges the traces   *)
(* of the real engine (TMConfObs.tla).  RuleHolds is "Impl => P_C03".       *)
(* RBug # "none" seeds a run-loop mutation that the rule must reject.       *)
(***************************************************************************)
EXTENDS TMGen
R == INSTANCE TMConf

CONSTANTS Runs,   \* runs per graph (2: the second is compared with the first)
          RBug    \* "none" | "eagerbatch" (a batch graph collected one by one) | "earlyreturn" (END assembled from a subset of its feeders)
                  \* | "intwaitone" (the interrupt path calls the mode-dependent wait(): eager collects one more task only)
                  \* | "lostcompletion" (eager: a finished task is dropped when another finished task is waiting too)

VARIABLES rs,      \* rule state (TMConf)
          status,  \* node -> "idle" | "sub" (submitted) | "body" | "fin" (finished, not collected) | "coll" | "lost" | "next" (computed, saved for the resume)
          outv,    \* node -> rendered output of a collected node
          run,     \* index of the current run
          rstat,   \* "loop" | "intwait" (interrupt path: waiting for everything in flight) | "interrupted" | "ended"
          stepc    \* interrupt path: the tasks collected in this iteration of the run loop before waitAll()
rvars == <<rs, status, outv, run, rstat, stepc>>
allvars == <<vars, rvars>>

Eager == Mode = "wf" \/ RBug = "eagerbatch"
FailKind(n) == IF \E i \in 1..Len(fail) : fail[i].n = n THEN (CHOOSE f \in {fail[i] : i \in 1..Len(fail)} : f.n = n).kind ELSE "none"
CaseEv == [ev |-> "case", id |-> "m", grp |-> "m", mode |-> Mode, nodes |-> NodeSeq, edges |-> EdgeSeq, branches |-> <<>>, fail |-> fail, rerun |-> <<>>, after |-> SeqOfSet(marks.after, Ord), before |-> <<>>]

RECURSIVE Join(_)
Join(s) == IF s = <<>> THEN "" ELSE s[1] \o Join(Tail(s))
Coll == {n \in Nodes : status[n] = "coll"}
\* input of n: what its collected predecessors wrote (START writes the initial value)
InputOf(n) == Join([i \in 1..Cardinality(Preds(n) \cap (Coll \cup {START})) |->
                      LET p == SeqOfSet(Preds(n) \cap (Coll \cup {START}), Ord)[i] IN IF p = START THEN "x" ELSE outv[p]])
\* trigger rule: all-predecessor (dag, wf); any-predecessor in lock-step (pregel; the generated pregel graphs are layered)
ReadyAfter(c) == {n \in Nodes \cup {END} : (n = END \/ status[n] = "idle")
                     /\ IF Mode = "pregel" THEN Preds(n) \cap c # {} ELSE Preds(n) \subseteq c \cup {START}}

InitRun == /\ Init
           /\ rs = R!Idle /\ status = [n \in Nodes |-> "idle"] /\ outv = [n \in Nodes |-> ""] /\ run = 0 /\ rstat = "ended" /\ stepc = {}

\* a new run of the finished graph
Start == /\ phase = "done" /\ rstat = "ended" /\ run < Runs
         /\ run' = run + 1 /\ rs' = R!Apply(rs, CaseEv)
         /\ status' = [n \in Nodes |-> IF Preds(n) = {START} \/ (Mode = "pregel" /\ START \in Preds(n)) THEN "sub" ELSE "idle"]
         /\ outv' = [n \in Nodes |-> ""] /\ rstat' = "loop" /\ stepc' = {}
         /\ UNCHANGED vars
Begin(n) == /\ rstat \in {"loop", "intwait"} /\ status[n] = "sub"
            /\ status' = [status EXCEPT ![n] = "body"]
            /\ rs' = R!Apply(rs, [ev |-> "exec", n |-> n, i |-> InputOf(n)])
            /\ UNCHANGED <<vars, outv, run, rstat, stepc>>
BodyEnd(n) == /\ rstat \in {"loop", "intwait"} /\ status[n] = "body"
             /\ status' = [status EXCEPT ![n] = "fin"]
             /\ outv' = [outv EXCEPT ![n] = n \o "(" \o InputOf(n) \o ")"]
             /\ rs' = R!Apply(rs, IF FailKind(n) = "none" THEN [ev |-> "done", n |-> n] ELSE [ev |-> "failed", n |-> n, kind |-> FailKind(n)])
             /\ UNCHANGED <<vars, run, rstat, stepc>>

\* after collecting the set c (now "coll"): errors first, then routing
AfterCollect(c, st2) ==
  LET failed == {n \in c : FailKind(n) # "none"} IN
  IF failed # {}
  THEN \E f \in failed :
         /\ rs' = R!Apply(rs, [ev |-> "error", class |-> IF FailKind(f) = "err" THEN "node" ELSE "panic", node |-> f])
         /\ status' = st2 /\ rstat' = "ended" /\ stepc' = {}
  ELSE LET collNow == {n \in Nodes : st2[n] = "coll"}
           trig == IF Mode = "pregel" THEN c ELSE collNow
           ready == ReadyAfter(trig)
           endReady == IF RBug = "earlyreturn" THEN Preds(END) \cap collNow # {} ELSE END \in ready
       IN IF endReady
          THEN /\ rs' = R!Apply(rs, [ev |-> "result", v |-> Join([i \in 1..Cardinality(Preds(END) \cap collNow) |->
                                                                   outv[SeqOfSet(Preds(END) \cap collNow, Ord)[i]]])])
               /\ status' = st2 /\ rstat' = "ended" /\ stepc' = {}
          ELSE IF marks.after \cap c # {}
          THEN \* an interrupt-after node was collected: the next tasks are kept back and the run loop waits for everything in flight
               /\ status' = [n \in Nodes |-> IF n \in ready THEN "next" ELSE st2[n]]
               /\ rs' = rs /\ rstat' = "intwait" /\ stepc' = c
          ELSE /\ status' = [n \in Nodes |-> IF n \in ready THEN "sub" ELSE st2[n]]
               /\ rs' = rs /\ rstat' = rstat /\ stepc' = {}
CollectAll == /\ rstat = "loop" /\ ~Eager
              /\ LET c == {n \in Nodes : status[n] \in {"sub", "body", "fin"}} IN
                   /\ c # {} /\ \A n \in c : status[n] = "fin"
                   /\ AfterCollect(c, [n \in Nodes |-> IF n \in c THEN "coll" ELSE status[n]])
              /\ UNCHANGED <<vars, outv, run>>
CollectOne(n) == /\ rstat = "loop" /\ Eager /\ status[n] = "fin"
                 /\ IF RBug = "lostcompletion" /\ \E m \in Nodes \ {n} : status[m] = "fin"
                    THEN status' = [status EXCEPT ![n] = "lost"] /\ rs' = rs /\ rstat' = rstat /\ stepc' = stepc
                    ELSE AfterCollect({n}, [status EXCEPT ![n] = "coll"])
                 /\ UNCHANGED <<vars, outv, run>>
\* interrupt path: tm.waitAll() collects every task in flight (batch and eager alike), END may become ready, else the interrupt is
\* returned with the after-nodes collected in this iteration; RBug "intwaitone": the mode-dependent wait() is called instead
IntCollect ==
  /\ rstat = "intwait"
  /\ LET out == {n \in Nodes : status[n] \in {"sub", "body", "fin"}} IN
     \E c2 \in SUBSET out :
       /\ \A n \in c2 : status[n] = "fin"
       /\ IF RBug = "intwaitone" /\ Eager THEN Cardinality(c2) = (IF out = {} THEN 0 ELSE 1) ELSE c2 = out
       /\ LET st2 == [n \in Nodes |-> IF n \in c2 THEN "coll" ELSE status[n]]
              collNow == {n \in Nodes : st2[n] = "coll"}
              ready2 == {n \in Nodes \cup {END} : (n = END \/ st2[n] = "idle") /\ Preds(n) \subseteq collNow \cup {START}}
          IN IF END \in ready2
             THEN /\ rs' = R!Apply(rs, [ev |-> "result", v |-> Join([i \in 1..Cardinality(Preds(END) \cap collNow) |->
                                                                      outv[SeqOfSet(Preds(END) \cap collNow, Ord)[i]]])])
                  /\ status' = st2 /\ rstat' = "ended"
             ELSE /\ rs' = R!Apply(rs, [ev |-> "interrupt", rerun |-> <<>>, before |-> <<>>,
                                        after |-> SeqOfSet(marks.after \cap (stepc \cup c2), Ord)])
                  /\ status' = [n \in Nodes |-> IF n \in ready2 THEN "next" ELSE st2[n]] /\ rstat' = "interrupted"
  /\ stepc' = {} /\ UNCHANGED <<vars, outv, run>>
\* the next call with the same checkpoint id: the saved tasks are submitted
Resume == /\ rstat = "interrupted"
          /\ rs' = R!Apply(rs, [ev |-> "resume"])
          /\ status' = [n \in Nodes |-> IF status[n] = "next" THEN "sub" ELSE status[n]]
          /\ rstat' = "loop" /\ UNCHANGED <<vars, outv, run, stepc>>
\* nothing is outstanding and the run has not returned: the run loop reports "no tasks to execute" / would block forever
Stuck == /\ rstat = "loop" /\ \A n \in Nodes : status[n] \in {"idle", "coll", "lost"}
         /\ rs' = R!Apply(rs, [ev |-> "error", class |-> "hang", node |-> ""])
         /\ rstat' = "ended" /\ UNCHANGED <<vars, status, outv, run, stepc>>

RunNext == \/ (Next /\ UNCHANGED rvars)
           \/ Start \/ CollectAll \/ Stuck \/ IntCollect \/ Resume
           \/ \E n \in Nodes : Begin(n) \/ BodyEnd(n) \/ CollectOne(n)
RunSpec == InitRun /\ [][RunNext]_allvars

RuleHolds == rs.bad = ""
NoBefore == marks.before = {}        \* (CONSTRAINT of the interrupt configs: interrupt-before marks are not modelled here)
\* the second run was really compared with the first
Compared == (run = Runs /\ rstat = "ended" /\ Runs >= 2) => rs.ref.has
================================================================================
