------------------------------- MODULE StreamsLin -------------------------------
(***************************************************************************)
(* C08, verdict path 2: LINEARIZABILITY-style validation of call/return    *)
(* traces of real concurrent (and sequential) runs against the mechanism   *)
(* model of StreamsDef section 2, whose behaviours TLC has shown to satisfy *)
(* the property (Streams.tla).  A trace is accepted iff the calls can be   *)
(* given effect points inside their call/return intervals such that the    *)
(* model produces exactly the returned values: `call` registers a pending  *)
(* operation, the model's own steps (send/enqueue/told, once entry, fetch, *)
(* select, forwarder goroutines, close propagation) run as SILENT steps on *)
(* behalf of pending operations, `ret` requires the pending operation to   *)
(* have completed with the logged result.  Acceptance = the high-water     *)
(* mark of l reaches the end of the trace (TLCSet register 1, -workers 1). *)
(* A `case` line requires every call of the previous case to have returned *)
(* and re-initialises the model, so cases do not multiply each other.      *)
(* There is no action for `hang` / `panic` lines: they are never accepted. *)
(***************************************************************************)
EXTENDS StreamsDef, Json
Trace == ndJsonDeserialize("trace.ndjson")
ASSUME TLCSet(1, 0)
VARIABLES l, T, M, pend
vars == <<l, T, M, pend>>
None == [op |-> "none", done |-> FALSE, rv |-> 0]
Init == l = 1 /\ T = <<>> /\ M = [x |-> 0] /\ pend = <<>>
At(ev) == l <= Len(Trace) /\ Trace[l].ev = ev /\ l' = l + 1
Case == /\ At("case") /\ \A a \in DOMAIN pend : pend[a] = None
        /\ T' = Trace[l].tree /\ M' = InitM(Trace[l].tree) /\ pend' = [a \in 1..(2 * Len(Trace[l].tree)) |-> None]
Call == /\ At("call")
        /\ LET e == Trace[l]  x == EndOf(T, e) IN
             /\ e.a \in Ids(T) /\ pend[x] = None
             /\ IF e.op = "send" THEN M' = Offer(M, e.a, e.v) /\ pend' = [pend EXCEPT ![x] = [op |-> "send", done |-> FALSE, rv |-> 0]]
                ELSE IF e.op = "closeSend" THEN M' = CloseSend(M, e.a) /\ pend' = [pend EXCEPT ![x] = [op |-> "closeSend", done |-> TRUE, rv |-> 0]]
                     \* close(items) never blocks and only enables receivers: giving it effect at the call is the most permissive choice
                ELSE M' = M /\ pend' = [pend EXCEPT ![x] = [op |-> e.op, done |-> FALSE, rv |-> 0]]
        /\ UNCHANGED T
Ret == /\ At("ret")
       /\ LET e == Trace[l]  x == EndOf(T, e)  p == pend[x] IN
            /\ e.a \in Ids(T) /\ p.op = e.op
            /\ IF e.op = "send" THEN /\ M.snd[e.a].st = (IF e.res = "true" THEN "told" ELSE "sent")
                                     /\ M' = ClearSnd(M, e.a)
               ELSE /\ p.done /\ M' = M
                    /\ e.op = "recv" => (IF e.res = "eof" THEN p.rv = EOFV ELSE p.rv = e.v /\ e.v # EOFV)
            /\ pend' = [pend EXCEPT ![x] = None]
       /\ UNCHANGED T
\* ---- silent steps
R(a) == a + Len(T)
SSend(p) == pend[p].op = "send" /\ \E N \in SendStep(M, T, p) : M' = N /\ UNCHANGED pend
SRecv(a) == /\ pend[R(a)].op = "recv" /\ ~pend[R(a)].done
            /\ \E o \in {x \in Rv(M, T, a, a) : x.t # "panic"} : /\ M' = o.M
                                         /\ pend' = IF o.t = "prog" THEN pend ELSE [pend EXCEPT ![R(a)] = [op |-> "recv", done |-> TRUE, rv |-> o.v]]
SClose(a) == /\ pend[R(a)].op = "close" /\ ~pend[R(a)].done
             /\ M' = CloseR(M, T, a) /\ pend' = [pend EXCEPT ![R(a)] = [op |-> "close", done |-> TRUE, rv |-> 0]]
SFwd(f) == \E N \in FwdStep(M, T, f) : M' = N /\ UNCHANGED pend
Silent == /\ T # <<>> /\ l <= Len(Trace)
          /\ \/ \E p \in Pipes(T) : SSend(p)
             \/ \E a \in Ids(T) : SRecv(a) \/ SClose(a)          \* leaves, and a source reader that is read before Copy is called
             \/ \E f \in Fwd(T) : SFwd(f)
          /\ UNCHANGED <<l, T>>
Next == Case \/ Call \/ Ret \/ Silent
Spec == Init /\ [][Next]_vars
HW == TLCSet(1, Max2(l, TLCGet(1)))
Post == PrintT(<<"HW", TLCGet(1)>>)
================================================================================
