CONSTANTS
  Tree = "std"
  PU = 0
  MaxStmts = 6
  MaxNew = 1
  MaxPer = 1
  Window = 2
  Types = {"T1", "cb"}
  NCalls = 1
  MaxCallOpts = 2
  CallWindow = 3
  MinStmts = 1
  MinCallOpts = 1
  AllowIntr = FALSE
  MaxBundle = 1
  Modes = {"invoke"}
  AllowKeyed = FALSE
  FirstOnly = FALSE
  DedupIgnoresHead = FALSE
  KeyedStreamDrops = FALSE
  RestoreDropsOpts = FALSE
  CallMode = "subsets"
  SubKind = "graph"
  CbCopyFix = TRUE
  SubByComponent = FALSE
  CopyFix = FALSE
INIT Init
NEXT Next
INVARIANT RuleOK
CHECK_DEADLOCK FALSE
