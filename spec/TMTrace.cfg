SPECIFICATION Spec
CONSTRAINT HW
INVARIANT NoLoss
INVARIANT ChanCap
INVARIANT NoStall
INVARIANT NumOK
POSTCONDITION Post
CHECK_DEADLOCK FALSE
