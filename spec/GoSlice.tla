------------------------------- MODULE GoSlice -------------------------------
(***************************************************************************)
(* Go slices as the runtime implements them: a heap of backing arrays and  *)
(* slice headers (arr, len, cap).  `append` writes IN PLACE when the       *)
(* capacity allows and otherwise allocates a new array whose capacity      *)
(* follows runtime.growslice (Go 1.18 .. 1.23, small slices):              *)
(*     newcap = needed            if needed > 2*oldcap                      *)
(*            = 2*oldcap          otherwise (oldcap < 256)                  *)
(* rounded up to the allocator's size class.  For 16-byte elements         *)
(* (interface values: callbacks.Handler) every capacity <= 8 is a size     *)
(* class; for 8-byte elements (pointers: *NodePath) 5 -> 6, 7 -> 8, 9 -> 10.*)
(* Shared by Callbacks.tla (C10, defect D4) and Options.tla (C16, D11).    *)
(***************************************************************************)
EXTENDS Integers, Sequences, FiniteSets, TLC

NilSlice == [arr |-> 0, len |-> 0, cap |-> 0]
EmptyHeap == <<>>                      \* function  array id (1..) -> sequence of cells

RoundUp(c, elem) == IF elem = 8 /\ c \in {5, 7, 9, 11, 13, 15} THEN c + 1 ELSE c
GrowCap(oldcap, need, elem) == RoundUp(IF need > 2 * oldcap THEN need ELSE 2 * oldcap, elem)

View(h, s) == [i \in 1..s.len |-> h[s.arr][i]]

\* append(s, es...) ; na = next free array id.  Result: [h, s, na]
GoAppend(h, s, es, na, elem) ==
  IF Len(es) = 0 THEN [h |-> h, s |-> s, na |-> na]
  ELSE IF s.len + Len(es) <= s.cap
  THEN [h  |-> [h EXCEPT ![s.arr] = [i \in 1..s.cap |-> IF i > s.len /\ i <= s.len + Len(es) THEN es[i - s.len] ELSE @[i]]],
        s  |-> [s EXCEPT !.len = s.len + Len(es)],
        na |-> na]
  ELSE LET nc   == GrowCap(s.cap, s.len + Len(es), elem)
           newa == [i \in 1..nc |-> IF i <= s.len THEN h[s.arr][i] ELSE IF i <= s.len + Len(es) THEN es[i - s.len] ELSE "nil"]
       IN [h  |-> h @@ (na :> newa),
           s  |-> [arr |-> na, len |-> s.len + Len(es), cap |-> nc],
           na |-> na + 1]

\* the repaired form:  n := make([]T, 0, len(s)+len(es)); n = append(n, s...); n = append(n, es...)
CopyAppend(h, s, es, na) ==
  LET nc   == s.len + Len(es)
      newa == [i \in 1..nc |-> IF i <= s.len THEN h[s.arr][i] ELSE es[i - s.len]]
  IN IF nc = 0 THEN [h |-> h, s |-> NilSlice, na |-> na]
     ELSE [h |-> h @@ (na :> newa), s |-> [arr |-> na, len |-> nc, cap |-> nc], na |-> na + 1]

\* a fresh slice literal / variadic argument list holding exactly es
Fresh(h, es, na) == CopyAppend(h, NilSlice, es, na)

\* append the chunks of ess one call at a time, starting from s
RECURSIVE AppendEach(_, _, _, _, _)
AppendEach(h, s, ess, na, elem) ==
  IF ess = <<>> THEN [h |-> h, s |-> s, na |-> na]
  ELSE LET r == GoAppend(h, s, Head(ess), na, elem) IN AppendEach(r.h, r.s, Tail(ess), r.na, elem)
================================================================================
