------------------------------- MODULE ToolsRule -------------------------------
(***************************************************************************)
(* Property-level rule for C17 ("ToolsNode answers every tool call, in     *)
(* call order, whatever the completion order").                            *)
(*                                                                         *)
(* Apply(S, e) consumes ONE observation e of a ToolsNode call and returns  *)
(* the next rule state; S.bad # "" means that the observations contradict  *)
(* the property statement.  The same operator judges                       *)
(*   - the implementation-shaped model spec/ToolsNode.tla, as an invariant *)
(*     over every completion order TLC enumerates, and                     *)
(*   - the observation traces of the REAL compose.ToolsNode recorded by    *)
(*     harness/compose/zz_verif_tools_test.go (spec/ToolsObs.tla).         *)
(*                                                                         *)
(* Observations (one JSON object per line, "ev" first):                    *)
(*   case    id, mode "invoke"|"stream", graph BOOLEAN, handler            *)
(*           "none"|"ok"|"fail", calls <<[id,name,args]>>,                 *)
(*           tools <<[name,kind,beh,chunks]>>  (the registered tools; a     *)
(*           call whose name is not among them is an unknown-tool call)    *)
(*   tend    name, args, h (TRUE: the unknown-tool handler), res           *)
(*           "ok"|"err"|"errmid"|"panic", out (the whole output the tool   *)
(*           gives: for a streaming tool the concatenation of its chunks)  *)
(*           -- written by the tool body itself just before it returns     *)
(*   chunk   n (length of the list), items <<[i,id,role,content]>> the      *)
(*           non-nil positions of one element of the output stream         *)
(*   seen    who, out <<[id,role,content,nil]>>: the list a consumer of    *)
(*           the node's output got (branch condition, successor node,      *)
(*           callback handler; in stream form: its own concatenation)      *)
(*   result  out <<[id,role,content,nil]>>  the returned list (stream      *)
(*           form: the library's own concatenation of all chunks)          *)
(*   error   as BOOLEAN (errors.As finds a tool's error in the chain),      *)
(*           errs <<[name,args]>> tool errors found in the error chain /   *)
(*           text, panic BOOLEAN (the text reports a recovered panic)      *)
(*   escaped a panic reached the caller of Invoke/Stream/Recv (and was     *)
(*           recovered there by the harness)                               *)
(*   died    the test process died while the case was running              *)
(*   hang    the call had not returned when the harness's watchdog fired   *)
(*   end     end of the case                                               *)
(*                                                                         *)
(* What is demanded (nothing else):                                        *)
(*   R1 a returned list has exactly N = |calls| messages, none missing;    *)
(*      message i has role tool, ToolCallID = calls[i].id and Content =    *)
(*      the output that the tool named calls[i].name (or the handler, for  *)
(*      an unknown name) gave for calls[i].args;                           *)
(*   R2 stream form: every chunk has N positions, a filled position i      *)
(*      carries calls[i].id, and the position-wise concatenation of the    *)
(*      chunks in arrival order (computed HERE) as well as the library's   *)
(*      concatenation equal the list of R1;                                *)
(*   R3 a list is returned only if no tool (handler) failed or panicked    *)
(*      and no unknown name was left without handler; an error is returned *)
(*      only if one of these happened; when tools failed (and nothing      *)
(*      panicked, no unhandled unknown name) the error is the error of     *)
(*      one of the failing tools;                                          *)
(*   R4 inside a graph a panic never reaches the caller.  Outside a graph  *)
(*      only the panic of the tool of the FIRST call (run inline on the    *)
(*      caller's goroutine) may reach the caller: not judged.  The process *)
(*      never dies of a call;                                              *)
(*   R6 every consumer of the node's output sees the list of R1, however    *)
(*      many consumers concatenate the same streamed frames;               *)
(*   R5 the call returns (with a list or an error): it never hangs.        *)
(***************************************************************************)
EXTENDS Naturals, Sequences, FiniteSets, TLC, Json

Range(s) == {s[i] : i \in 1..Len(s)}
Max2(a, b) == IF a > b THEN a ELSE b

NoCase == [id |-> "", mode |-> "invoke", graph |-> FALSE, handler |-> "none", calls |-> <<>>, tools |-> <<>>]
Idle == [id |-> "", open |-> FALSE, bad |-> "", c |-> NoCase, inv |-> <<>>, acc |-> <<>>, term |-> "", nch |-> 0]

NC(c) == Len(c.calls)
Known(c) == {c.tools[j].name : j \in 1..Len(c.tools)}
UnknownIdx(c) == {i \in 1..NC(c) : c.calls[i].name \notin Known(c)}
Unhandled(c) == c.handler = "none" /\ UnknownIdx(c) # {}

Failed(S) == {r \in Range(S.inv) : r.res \in {"err", "errmid"}}
Panicked(S) == {r \in Range(S.inv) : r.res = "panic"}
\* outputs given by successful invocations of the tool (handler) that call i names, on call i's arguments
OkOut(S, i) == {r.out : r \in {x \in Range(S.inv) : /\ x.name = S.c.calls[i].name /\ x.args = S.c.calls[i].args
                                                      /\ x.res = "ok" /\ x.h = (i \in UnknownIdx(S.c))}}

Bad(S, why) == [S EXCEPT !.bad = why]

\* position-wise concatenation of one sparse chunk onto the accumulators
RECURSIVE AddItems(_, _, _)
AddItems(acc, items, k) ==
  IF k > Len(items) THEN acc
  ELSE AddItems([acc EXCEPT ![items[k].i] = [s |-> @.s \o items[k].content, seen |-> TRUE]], items, k + 1)

ChunkRule(S, e) ==
  LET N == NC(S.c) IN
  IF S.c.mode # "stream" THEN Bad(S, "chunk-outside-stream-form")
  ELSE IF S.term # "" THEN Bad(S, "chunk-after-the-end-of-the-call")
  ELSE IF e.n # N THEN Bad(S, "chunk-length-differs-from-number-of-calls")
  ELSE IF \E k \in 1..Len(e.items) : e.items[k].i \notin 1..N THEN Bad(S, "chunk-position-out-of-range")
  ELSE IF \E k \in 1..Len(e.items) : e.items[k].id # S.c.calls[e.items[k].i].id THEN Bad(S, "chunk-id-not-the-id-of-the-call-at-that-position")
  ELSE IF \E k \in 1..Len(e.items) : e.items[k].role # "tool" THEN Bad(S, "chunk-role-not-tool")
  ELSE [S EXCEPT !.acc = AddItems(@, e.items, 1), !.nch = @ + 1]

ResultRule(S, e) ==
  LET N == NC(S.c) IN
  IF S.term # "" THEN Bad(S, "second-outcome")
  ELSE IF Unhandled(S.c) THEN Bad(S, "result-despite-unknown-tool-without-handler")
  ELSE IF Failed(S) # {} THEN Bad(S, "result-despite-failing-tool")
  ELSE IF Panicked(S) # {} THEN Bad(S, "result-despite-panicking-tool")
  ELSE IF Len(e.out) # N THEN Bad(S, "number-of-messages-differs-from-number-of-calls")
  ELSE IF \E i \in 1..N : e.out[i].nil THEN Bad(S, "message-missing-for-a-call")
  ELSE IF \E i \in 1..N : e.out[i].id # S.c.calls[i].id THEN Bad(S, "id-not-in-call-order")
  ELSE IF \E i \in 1..N : e.out[i].role # "tool" THEN Bad(S, "role-not-tool")
  ELSE IF \E i \in 1..N : OkOut(S, i) = {} THEN Bad(S, "answer-for-a-call-whose-tool-was-not-run-on-its-arguments")
  ELSE IF \E i \in 1..N : e.out[i].content \notin OkOut(S, i) THEN Bad(S, "content-not-the-output-of-the-called-tool")
  ELSE IF S.c.mode = "stream" /\ \E i \in 1..N : ~S.acc[i].seen THEN Bad(S, "stream-has-no-chunk-for-a-call")
  ELSE IF S.c.mode = "stream" /\ \E i \in 1..N : S.acc[i].s \notin OkOut(S, i) THEN Bad(S, "stream-chunks-do-not-concatenate-to-the-tool-output")
  ELSE [S EXCEPT !.term = "result"]

\* R6: every consumer that concatenates the node's output (a branch condition, a successor, a callback handler ...) sees the list of R1
SeenRule(S, e) ==
  LET N == NC(S.c) IN
  IF Len(e.out) # N THEN Bad(S, "consumer-saw-a-number-of-messages-that-differs-from-the-number-of-calls")
  ELSE IF \E i \in 1..N : e.out[i].nil THEN Bad(S, "consumer-saw-no-message-for-a-call")
  ELSE IF \E i \in 1..N : e.out[i].id # S.c.calls[i].id THEN Bad(S, "consumer-saw-ids-not-in-call-order")
  ELSE IF \E i \in 1..N : e.out[i].content \notin OkOut(S, i) THEN Bad(S, "consumer-saw-content-that-is-not-the-output-of-the-called-tool")
  ELSE S

ErrorRule(S, e) ==
  IF S.term # "" THEN Bad(S, "second-outcome")
  ELSE IF ~Unhandled(S.c) /\ Failed(S) = {} /\ Panicked(S) = {} THEN Bad(S, "error-although-no-tool-failed")
  ELSE IF /\ ~Unhandled(S.c) /\ Panicked(S) = {}
          /\ ~\E r \in Failed(S) : [name |-> r.name, args |-> r.args] \in Range(e.errs)
       THEN Bad(S, "error-is-not-the-error-of-a-failing-tool")
  \* R3 "with that tool's error": when the call failed only because of failing tools, the tool's error is recoverable from the
  \* returned error (errors.As finds it), in the Invoke form and in the Stream form alike
  ELSE IF ~Unhandled(S.c) /\ Panicked(S) = {} /\ ~e.as THEN Bad(S, "tool-error-not-recoverable-from-the-returned-error")
  ELSE [S EXCEPT !.term = "error"]

EscapedRule(S, e) ==
  IF S.term # "" THEN Bad(S, "second-outcome")
  ELSE IF S.c.graph THEN Bad(S, "panic-escaped-the-enclosing-run")
  ELSE IF Panicked(S) = {} THEN Bad(S, "panic-although-no-tool-panicked")
  ELSE IF ~\E r \in Panicked(S) : r.name = S.c.calls[1].name /\ r.args = S.c.calls[1].args
       THEN Bad(S, "panic-of-a-tool-that-is-not-the-first-call-reached-the-caller")
  ELSE [S EXCEPT !.term = "escaped"]

Apply(S, e) ==
  IF e.ev = "case"
  THEN [id |-> e.id, open |-> TRUE, bad |-> "", c |-> e, inv |-> <<>>,
        acc |-> [i \in 1..Len(e.calls) |-> [s |-> "", seen |-> FALSE]], term |-> "", nch |-> 0]
  ELSE IF S.bad # "" THEN (IF e.ev = "end" THEN [S EXCEPT !.open = FALSE] ELSE S)     \* rest of a rejected case is skipped
  ELSE IF ~S.open THEN Bad(S, "line-outside-a-case")
  ELSE CASE e.ev = "tend" -> [S EXCEPT !.inv = Append(@, [name |-> e.name, args |-> e.args, h |-> e.h, res |-> e.res, out |-> e.out])]
         [] e.ev = "chunk" -> ChunkRule(S, e)
         [] e.ev = "result" -> ResultRule(S, e)
         [] e.ev = "seen" -> SeenRule(S, e)
         [] e.ev = "error" -> ErrorRule(S, e)
         [] e.ev = "escaped" -> EscapedRule(S, e)
         [] e.ev = "died" -> Bad(S, "process-died")    \* R4: whatever a tool does, the process survives the call
         [] e.ev = "hang" -> Bad(S, "call-hangs")      \* R5: the call returns (spec/ToolsNode.tla: Terminates holds for every completion order)
         [] e.ev = "end" -> IF S.term = "" THEN Bad([S EXCEPT !.open = FALSE], "neither-result-nor-error")
                            ELSE [S EXCEPT !.open = FALSE]
         [] OTHER -> Bad(S, "unknown-observation")
================================================================================
