CONSTANTS
  Mode = "pregel"
  N = 2
  MaxEdges = 3
  MaxBr = 1
  D = 2
  MaxMarks = 1
  AllowRerun = TRUE
  AllowFail = FALSE
  AllowMulti = FALSE
  MaxChoice = {3}
  MaxEnds = 2
  AllowOrphans = FALSE
  AllowDup = FALSE
  StartCheck = FALSE
  MaxCalls = 3
  SubNode = "none"
  InnerBefore = FALSE
  InnerAfter = FALSE
  StaleForward = FALSE
INIT Init
NEXT Next
INVARIANT RuleHolds
INVARIANT StepBound
CHECK_DEADLOCK FALSE
