------------------------------- MODULE StreamsObs -------------------------------
(***************************************************************************)
(* C08, verdict path 1: PROPERTY-LEVEL validation of call/return traces of *)
(* real runs of eino/schema streams (sequential histories and concurrent   *)
(* drivers alike).  One state per trace line, total: the rule Obs of       *)
(* StreamsDef (section 3) is applied to every line; the first line of a    *)
(* case that contradicts the property prints <<"BAD", case, line, why>>    *)
(* and the rest of the case is skipped.  Lines are ordered by the global   *)
(* ticket taken immediately before a call and immediately after a return,  *)
(* so "logged before" implies "happened before".                           *)
(***************************************************************************)
EXTENDS StreamsDef, Json
Trace == ndJsonDeserialize("trace.ndjson")
ASSUME TLCSet(1, 0)
VARIABLES l, T, G
vars == <<l, T, G>>
Init == l = 1 /\ T = <<>> /\ G = NoG
Next == /\ l <= Len(Trace) /\ l' = l + 1
        /\ LET e == Trace[l] IN
             IF e.ev = "case" THEN T' = e.tree /\ G' = InitG(e.tree, e.id)
             ELSE /\ T' = T /\ G' = (IF e.ev = "burst" THEN ObsBurst(G, T, e) ELSE Obs(G, T, e))
                  /\ (G'.bad # "" /\ G.bad = "") => PrintT(<<"BAD", G.id, l, G'.bad>>)
Spec == Init /\ [][Next]_vars
HW == TLCSet(1, Max2(l, TLCGet(1)))
Post == PrintT(<<"HW", TLCGet(1)>>)
================================================================================
