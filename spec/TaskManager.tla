----------------------------- MODULE TaskManager -----------------------------
(***************************************************************************)
(* Hand-off protocol of compose.taskManager (graph_manager.go:258-372),    *)
(* property C03 "no completion lost, collected exactly once, no hang".     *)
(*                                                                         *)
(* Processes: one executor per task (goroutine `t.executor(task)`), and    *)
(* the collector = the run loop (`submit`, `wait`, `waitOne`, `waitAll`).  *)
(* Shared state as in the code:                                            *)
(*   mu    sync.Mutex            holder or None                            *)
(*   l     *list.List            overflow list (sequence), only under mu   *)
(*   ch    chan *task, cap 1     the 1-slot channel `done` (sequence <= 1) *)
(*   num   uint32                outstanding tasks, run-loop goroutine only*)
(* One action per step that another goroutine can observe:                 *)
(*   executor  run -(body returns / panics -> error)-> fin                 *)
(*             fin -(mu.Lock; l.PushBack)-> upd          [gate 1 before]   *)
(*             upd -(updateChan: select send front)-> upd2 -(Remove)-> upd *)
(*             upd -(select default / list empty: mu.Unlock)-> done        *)
(*   collector loop -(submit S; first task synchronously iff num = 0 and   *)
(*                    (|S| = 1 or needAll))-> sync | wait                  *)
(*             wait -> w0 -(num = 0: return | num--)-> recv -(<-done)-> got *)
(*             got -(mu.Lock)-> cupd [gate 2 before] -(updateChan)-> ...    *)
(*             -(mu.Unlock; collect)-> w0 (waitAll) | ret (waitOne)        *)
(* The channel receive takes no lock, so it interleaves with the critical  *)
(* sections; `select { case done <- front: Remove(front) }` is two steps.  *)
(*                                                                         *)
(* Bug # "none" seeds a protocol mutation (used to show that the           *)
(* invariants are not vacuous; the check expects TLC to reject them):      *)
(*   "norefill"       waitOne does not call updateChan                     *)
(*   "unlocked"       the executor calls updateChan after mu.Unlock        *)
(*   "nopushonpanic"  a panicking executor forgets PushBack                 *)
(*   "refillfirst"    the executor calls updateChan BEFORE PushBack        *)
(***************************************************************************)
EXTENDS Naturals, Sequences, FiniteSets

\* (the @type comments are Apalache annotations, used by the inductive-invariant attempt TaskManagerInd.tla; TLC ignores them)
CONSTANTS
  \* @type: Set(Str);
  Tasks,         \* set of task ids
  \* @type: Bool;
  Eager,         \* TRUE: needAll = FALSE (Workflow, wait for one); FALSE: batch (wait for all)
  \* @type: Int;
  MaxSubmits,    \* bound on non-empty submit calls
  \* @type: Int;
  MaxPerSubmit,  \* bound on tasks per submit call
  \* @type: Int;
  MaxPanics,     \* bound on panicking bodies
  \* @type: Bool;
  AllowWaitAll,  \* eager mode: the run loop may also call waitAll() (interrupt handling does)
  \* @type: Str;
  Bug

VARIABLES
  \* @type: Str -> Str;
  epc,    \* executor pc per task: idle | run | fin | upd | upd2 | done
  \* @type: Str -> Bool;
  err,    \* task -> its body panicked (the task then carries an error instead of an output)
  \* @type: Str;
  mu,
  \* @type: Seq(Str);
  l,
  \* @type: Seq(Str);
  ch,
  \* @type: Int;
  num,
  \* @type: Str;
  cpc,    \* collector pc: loop | sync | wait | w0 | recv | got | cupd | cupd2 | ret | end
  \* @type: Str;
  held,   \* the task the collector received and has not returned yet (`ta`)
  \* @type: Set(Str);
  batch,  \* result slice of the current wait()
  \* @type: Bool;
  wall,   \* the current wait is a waitAll
  \* @type: Str;
  sync,   \* task being executed synchronously on the run-loop goroutine
  \* @type: Str -> Int;
  ccnt,   \* task -> how many times it has been returned by wait (must end as 1)
  \* @type: Set(Str);
  retd,   \* tasks returned by earlier wait() calls
  \* @type: Int;
  nsub,
  \* @type: Int;
  npanic
vars == <<epc, err, mu, l, ch, num, cpc, held, batch, wall, sync, ccnt, retd, nsub, npanic>>

None == "none"
Coll == "C"

TypeOK == /\ epc \in [Tasks -> {"idle", "run", "fin", "upd", "upd2", "done"}]
          /\ err \in [Tasks -> BOOLEAN]
          /\ mu \in Tasks \cup {None, Coll}
          /\ l \in Seq(Tasks) /\ ch \in Seq(Tasks)
          /\ num \in 0..Cardinality(Tasks)
          /\ cpc \in {"loop", "sync", "wait", "w0", "recv", "got", "cupd", "cupd2", "ret", "end"}
          /\ held \in Tasks \cup {None} /\ sync \in Tasks \cup {None}
          /\ batch \subseteq Tasks /\ retd \subseteq Tasks /\ wall \in BOOLEAN
          /\ ccnt \in [Tasks -> 0..3] /\ nsub \in 0..MaxSubmits /\ npanic \in 0..MaxPanics

Init == /\ epc = [t \in Tasks |-> "idle"] /\ err = [t \in Tasks |-> FALSE]
        /\ mu = None /\ l = <<>> /\ ch = <<>> /\ num = 0
        /\ cpc = "loop" /\ held = None /\ batch = {} /\ wall = FALSE /\ sync = None
        /\ ccnt = [t \in Tasks |-> 0] /\ retd = {} /\ nsub = 0 /\ npanic = 0

NeedAll == ~Eager
Idle == {t \in Tasks : epc[t] = "idle"}
Submitted == Tasks \ Idle

------------------------------------------------------------------------------
(* executor                                                                 *)

EBody(t) == /\ epc[t] = "run"
            /\ \E p \in BOOLEAN :
                 /\ (p => npanic < MaxPanics)
                 /\ err' = [err EXCEPT ![t] = p]
                 /\ npanic' = IF p THEN npanic + 1 ELSE npanic
            /\ epc' = [epc EXCEPT ![t] = "fin"]
            /\ UNCHANGED <<mu, l, ch, num, cpc, held, batch, wall, sync, ccnt, retd, nsub>>

\* mu.Lock(); l.PushBack(task)
ELock(t) == /\ epc[t] = "fin" /\ mu = None
            /\ l' = IF Bug = "nopushonpanic" /\ err[t] THEN l ELSE Append(l, t)
            /\ mu' = IF Bug = "unlocked" THEN None ELSE t
            /\ epc' = [epc EXCEPT ![t] = "upd"]
            /\ UNCHANGED <<err, ch, num, cpc, held, batch, wall, sync, ccnt, retd, nsub, npanic>>

\* Bug "refillfirst": updateChan runs (under mu) before the PushBack, so the pushed task is never topped up by its own executor
ELockRF(t) == /\ Bug = "refillfirst" /\ epc[t] = "fin" /\ mu = None
              /\ IF l # <<>> /\ ch = <<>> THEN ch' = <<Head(l)>> /\ l' = Append(Tail(l), t) ELSE ch' = ch /\ l' = Append(l, t)
              /\ epc' = [epc EXCEPT ![t] = "done"]
              /\ UNCHANGED <<err, mu, num, cpc, held, batch, wall, sync, ccnt, retd, nsub, npanic>>

Holds(t) == Bug = "unlocked" \/ mu = t
\* updateChan, one loop iteration: `case t.done <- t.l.Front().Value` succeeded
ESend(t) == /\ epc[t] = "upd" /\ Holds(t) /\ l # <<>> /\ ch = <<>>
            /\ ch' = <<Head(l)>> /\ epc' = [epc EXCEPT ![t] = "upd2"]
            /\ UNCHANGED <<err, mu, l, num, cpc, held, batch, wall, sync, ccnt, retd, nsub, npanic>>
\* ... `t.l.Remove(t.l.Front())`
ERemove(t) == /\ epc[t] = "upd2" /\ Holds(t)
              /\ l' = IF l = <<>> THEN l ELSE Tail(l)
              /\ epc' = [epc EXCEPT ![t] = "upd"]
              /\ UNCHANGED <<err, mu, ch, num, cpc, held, batch, wall, sync, ccnt, retd, nsub, npanic>>
\* loop exit (list empty, or `default:` because the slot is full); mu.Unlock()
EUnlock(t) == /\ epc[t] = "upd" /\ Holds(t) /\ (l = <<>> \/ ch # <<>>)
              /\ mu' = IF Bug = "unlocked" THEN mu ELSE None
              /\ epc' = [epc EXCEPT ![t] = "done"]
              /\ UNCHANGED <<err, l, ch, num, cpc, held, batch, wall, sync, ccnt, retd, nsub, npanic>>

Exec(t) == EBody(t) \/ (Bug # "refillfirst" /\ ELock(t)) \/ ELockRF(t) \/ ESend(t) \/ ERemove(t) \/ EUnlock(t)

------------------------------------------------------------------------------
(* collector = run loop                                                     *)

\* tm.submit(S): every task gets a goroutine, except that the first one runs on the run-loop goroutine
\* iff  t.num == 0 && (len(tasks) == 1 || t.needAll)
Submit == /\ cpc = "loop"
          /\ \E S \in SUBSET Idle :
               /\ Cardinality(S) <= MaxPerSubmit
               /\ (S # {} => nsub < MaxSubmits)
               /\ (S = {} => num > 0)                    \* nothing to submit and nothing outstanding: the run ends (CEnd)
               /\ (NeedAll => num = 0)                   \* batch: wait() returned everything (WaitOK)
               /\ epc' = [t \in Tasks |-> IF t \in S THEN "run" ELSE epc[t]]
               /\ num' = num + Cardinality(S)
               /\ nsub' = IF S = {} THEN nsub ELSE nsub + 1
               /\ IF S # {} /\ num = 0 /\ (Cardinality(S) = 1 \/ NeedAll)
                  THEN \E s \in S : sync' = s /\ cpc' = "sync"
                  ELSE sync' = None /\ cpc' = "wait"
          /\ UNCHANGED <<err, mu, l, ch, held, batch, wall, ccnt, retd, npanic>>
\* the synchronous task's executor ran to completion on the run-loop goroutine
CSyncDone == /\ cpc = "sync" /\ epc[sync] = "done"
             /\ cpc' = "wait" /\ sync' = None
             /\ UNCHANGED <<epc, err, mu, l, ch, num, held, batch, wall, ccnt, retd, nsub, npanic>>
\* wait(): waitAll if needAll, else waitOne (the run loop also calls waitAll() directly when it handles interrupts)
CWait == /\ cpc = "wait"
         /\ wall' \in (IF NeedAll THEN {TRUE} ELSE IF AllowWaitAll THEN {FALSE, TRUE} ELSE {FALSE})
         /\ batch' = {} /\ cpc' = "w0"
         /\ UNCHANGED <<epc, err, mu, l, ch, num, held, sync, ccnt, retd, nsub, npanic>>
\* waitOne: `if t.num == 0 { return nil, false }; t.num--`
CW0 == /\ cpc = "w0"
       /\ IF num = 0 THEN cpc' = "ret" /\ num' = num ELSE cpc' = "recv" /\ num' = num - 1
       /\ UNCHANGED <<epc, err, mu, l, ch, held, batch, wall, sync, ccnt, retd, nsub, npanic>>
\* `ta := <-t.done`  (no lock)
CRecv == /\ cpc = "recv" /\ ch # <<>>
         /\ held' = Head(ch) /\ ch' = <<>> /\ cpc' = "got"
         /\ UNCHANGED <<epc, err, mu, l, num, batch, wall, sync, ccnt, retd, nsub, npanic>>
Collect == /\ ccnt' = [ccnt EXCEPT ![held] = ccnt[held] + 1]
           /\ batch' = batch \cup {held} /\ held' = None
           /\ cpc' = IF wall THEN "w0" ELSE "ret"
\* `t.mu.Lock()`
CLock == /\ cpc = "got" /\ Bug # "norefill" /\ mu = None
         /\ mu' = Coll /\ cpc' = "cupd"
         /\ UNCHANGED <<epc, err, l, ch, num, held, batch, wall, sync, ccnt, retd, nsub, npanic>>
CSkipRefill == /\ cpc = "got" /\ Bug = "norefill" /\ Collect
               /\ UNCHANGED <<epc, err, mu, l, ch, num, wall, sync, retd, nsub, npanic>>
CSend == /\ cpc = "cupd" /\ mu = Coll /\ l # <<>> /\ ch = <<>>
         /\ ch' = <<Head(l)>> /\ cpc' = "cupd2"
         /\ UNCHANGED <<epc, err, mu, l, num, held, batch, wall, sync, ccnt, retd, nsub, npanic>>
CRemove == /\ cpc = "cupd2" /\ mu = Coll
           /\ l' = IF l = <<>> THEN l ELSE Tail(l)
           /\ cpc' = "cupd"
           /\ UNCHANGED <<epc, err, mu, ch, num, held, batch, wall, sync, ccnt, retd, nsub, npanic>>
\* updateChan returned; `t.mu.Unlock()`; post-processing touches only `ta`; the task is appended to the result
CUnlock == /\ cpc = "cupd" /\ mu = Coll /\ (l = <<>> \/ ch # <<>>)
           /\ mu' = None /\ Collect
           /\ UNCHANGED <<epc, err, l, ch, num, wall, sync, retd, nsub, npanic>>
CRet == /\ cpc = "ret" /\ cpc' = "loop" /\ retd' = retd \cup batch
        /\ UNCHANGED <<epc, err, mu, l, ch, num, held, batch, wall, sync, ccnt, nsub, npanic>>
\* the run ends when nothing is outstanding (a run that returns with tasks outstanding abandons the manager: nothing to check)
CEnd == /\ cpc = "loop" /\ num = 0 /\ cpc' = "end"
        /\ UNCHANGED <<epc, err, mu, l, ch, num, held, batch, wall, sync, ccnt, retd, nsub, npanic>>

Collector == Submit \/ CSyncDone \/ CWait \/ CW0 \/ CRecv \/ CLock \/ CSkipRefill \/ CSend \/ CRemove \/ CUnlock \/ CRet \/ CEnd
Finished == cpc = "end" /\ UNCHANGED vars

Next == Collector \/ (\E t \in Tasks : Exec(t)) \/ Finished
Spec == Init /\ [][Next]_vars
FairSpec == Spec /\ WF_vars(Collector) /\ \A t \in Tasks : WF_vars(Exec(t))

------------------------------------------------------------------------------
(* properties                                                               *)

\* @type: Seq(Str) => Set(Str);
Range(s) == {s[i] : i \in DOMAIN s}
\* between `done <- front` and `Remove(front)` the front element is in the list and already handed over
Sending == cpc = "cupd2" \/ \E t \in Tasks : epc[t] = "upd2"
LL == IF Sending /\ l # <<>> THEN Tail(l) ELSE l
\* @type: (Seq(Str), Str) => Int;
Occ(s, t) == Cardinality({i \in DOMAIN s : s[i] = t})
Where(t) == Occ(LL, t) + Occ(ch, t) + (IF held = t THEN 1 ELSE 0) + ccnt[t]
Pushed(t) == epc[t] \in {"upd", "upd2", "done"}

\* a finished task is in exactly one place: overflow list, channel slot, the collector's hand, or returned
NoLoss == \A t \in Tasks : IF Pushed(t) THEN Where(t) = 1 ELSE Where(t) = 0
CollectedOnce == \A t \in Tasks : ccnt[t] <= 1
ChanCap == Len(ch) <= 1
Mutex == /\ \A t \in Tasks : epc[t] \in {"upd", "upd2"} => mu = t
         /\ cpc \in {"cupd", "cupd2"} => mu = Coll
\* a finished task waits in the list while the slot is empty only if somebody is about to top the slot up
NoStall == (LL # <<>> /\ ch = <<>>) => (cpc \in {"got", "cupd", "cupd2"} \/ \E t \in Tasks : epc[t] \in {"upd", "upd2"})
NumOK == num + (IF cpc \in {"recv", "got", "cupd", "cupd2"} THEN 1 ELSE 0) = Cardinality({t \in Submitted : ccnt[t] = 0})
\* wait() returns: batch mode everything outstanding; eager mode exactly one finished task (nothing only if nothing is outstanding)
WaitOK == cpc = "ret" =>
            IF wall THEN num = 0 /\ batch = Submitted \ retd
            ELSE Cardinality(batch) = 1 \/ (batch = {} /\ Submitted = retd)
\* the first task of a batch runs on the run-loop goroutine: nothing is received before it is pushed
SyncOK == cpc = "sync" => sync # None /\ held = None
PanicIsError == \A t \in Tasks : (ccnt[t] > 0 /\ err[t]) => Pushed(t)       \* a panicking body is still handed over (as an error)
EndOK == cpc = "end" => /\ \A t \in Submitted : epc[t] = "done" /\ ccnt[t] = 1
                        /\ l = <<>> /\ ch = <<>> /\ mu = None /\ held = None
Safety == TypeOK /\ NoLoss /\ CollectedOnce /\ ChanCap /\ Mutex /\ NoStall /\ NumOK /\ WaitOK /\ SyncOK /\ PanicIsError /\ EndOK

\* liveness: under weak fairness of every goroutine the run loop collects everything and ends ("the run does not hang")
Term == <>(cpc = "end")
\* every finished task is eventually returned
Handed == \A t \in Tasks : (epc[t] = "done") ~> (ccnt[t] = 1)

================================================================================
