------------------------------- MODULE CkptGen -------------------------------
(***************************************************************************)
(* C12, clause "a checkpoint read back from a store restores the channels  *)
(* ... that were written": the states of a channel object as it is written *)
(* into a checkpoint (compose/dag.go dagChannel: ControlPredecessors with  *)
(* waiting / ready / skipped, DataPredecessors, Skipped, Values;           *)
(* compose/pregel.go pregelChannel: Values) and the restore path           *)
(* checkpoint -> Marshal -> bytes -> Unmarshal -> channel.load (dag.go:61, *)
(* pregel.go:29, graph_manager.go:128) as an operator.  TLC enumerates     *)
(* every channel state over two predecessors, checks that the restore      *)
(* path is the identity, and emits each state as a case for the harness.   *)
(***************************************************************************)
EXTENDS Integers, Sequences, TLC, Json

Opt(k, x, absent) == IF x = absent THEN <<>> ELSE <<[k |-> k, v |-> x]>>
Ctrl == {Opt("p", a, -1) \o Opt("q", b, -1) : a \in {-1, 0, 1, 2}, b \in {-1, 0, 1, 2}}     \* 0 waiting, 1 ready, 2 skipped
Data == {Opt("p", a, "-") \o Opt("q", b, "-") : a \in {"-", "t", "f"}, b \in {"-", "t", "f"}}
Vals == {Opt("p", a, "-") \o Opt("q", b, "-") : a \in {"-", "s"}, b \in {"-", "u"}}
Chan(kind, sk, c, d, v) == [kind |-> kind, skipped |-> sk, ctrl |-> c, data |-> d, vals |-> v]
States == {Chan("dag", sk, c, d, v) : sk \in BOOLEAN, c \in Ctrl, d \in Data, v \in Vals}
          \cup {Chan("pregel", FALSE, <<>>, <<>>, v) : v \in Vals}

(* serialisation of the exported fields is the business of Serialization.tla; here it is the identity *)
Stored(ch) == ch
(* channel.load: a fresh channel of the runner takes over the stored fields *)
Load(fresh, st) == IF st.kind = "dag" THEN [fresh EXCEPT !.ctrl = st.ctrl, !.data = st.data, !.skipped = st.skipped, !.vals = st.vals]
                   ELSE [fresh EXCEPT !.vals = st.vals]
Fresh(kind) == Chan(kind, FALSE, <<>>, <<>>, <<>>)

(* the property: every field written is the field restored; "" or the name of the first field that differs *)
Why(w, r) == IF w.kind # r.kind THEN "channel-kind" ELSE IF w.skipped # r.skipped THEN "channel-skipped-flag"
             ELSE IF w.ctrl # r.ctrl THEN "channel-control-predecessors" ELSE IF w.data # r.data THEN "channel-data-predecessors"
             ELSE IF w.vals # r.vals THEN "channel-values" ELSE ""

VARIABLE ch
Init == ch \in States
Next == UNCHANGED ch
Spec == Init /\ [][Next]_ch
ModelLaw == Why(ch, Load(Fresh(ch.kind), Stored(ch))) = ""
Emit == PrintT(<<"CASE", ToJson([ch |-> ch])>>)
================================================================================
