--------------------------- MODULE TaskManagerInt ---------------------------
(***************************************************************************)
(* The run loop's INTERRUPT PATH on top of the protocol model               *)
(* TaskManager.tla (graph_run.go: a completed task hit an interrupt-after  *)
(* mark, a next task an interrupt-before mark, or a node asked for         *)
(* interrupt-and-rerun): before the run returns the interrupt it calls     *)
(* tm.waitAll() -- in eager mode too -- so that EVERY task that was        *)
(* started has been collected (its output is in the checkpoint) when the   *)
(* call returns.                                                           *)
(*   CWaitInt   at pc "wait" the collector may enter the interrupt path:   *)
(*              wall := TRUE (waitAll), ipath := TRUE                      *)
(*   CRetInt    when that wait returns the run returns (pc "end")          *)
(* The protocol actions are used unchanged (ipath is a history-free        *)
(* control flag of the wrapper).  EndOK of TaskManager then says: at the   *)
(* return every submitted task is collected exactly once, nothing is left  *)
(* in the list / slot / hand.  IBug = "intwait" seeds the mutation "the    *)
(* interrupt path calls the mode-dependent wait() instead of waitAll()":   *)
(* in eager mode only one more task is collected -- TLC must reject it.    *)
(***************************************************************************)
EXTENDS TaskManager, TLC

CONSTANT IBug     \* "none" | "intwait"
VARIABLE ipath
ivars == <<vars, ipath>>

IInit == Init /\ ipath = FALSE
CWaitInt == /\ cpc = "wait" /\ ~ipath
            /\ wall' = (IF IBug = "intwait" THEN NeedAll ELSE TRUE)
            /\ batch' = {} /\ cpc' = "w0" /\ ipath' = TRUE
            /\ UNCHANGED <<epc, err, mu, l, ch, num, held, sync, ccnt, retd, nsub, npanic>>
CRetInt == /\ cpc = "ret" /\ ipath
           /\ cpc' = "end" /\ retd' = retd \cup batch
           /\ UNCHANGED <<epc, err, mu, l, ch, num, held, batch, wall, sync, ccnt, nsub, npanic, ipath>>
INext == \/ (Next /\ ~(ipath /\ cpc = "ret") /\ ~(ipath /\ cpc = "wait") /\ UNCHANGED ipath)
         \/ CWaitInt \/ CRetInt
ISpec == IInit /\ [][INext]_ivars
IFairSpec == ISpec /\ WF_ivars(INext)
\* on the interrupt path the run returns with everything collected (EndOK) and it does return
IntReturns == ipath ~> (cpc = "end")
ISym == Permutations(Tasks)
================================================================================
