CONSTANTS
  MaxStages = 3
  D = 2
INIT Init
NEXT Next
INVARIANT Emit
CHECK_DEADLOCK FALSE
