---------------------------- MODULE ParadigmRule ----------------------------
(***************************************************************************)
(* Property-level rule of C04: the four calling paradigms of a compiled    *)
(* graph agree.  For a configuration cfg (shape, node markers, input       *)
(* chunks) and the observed results res[p], p in {I, S, C, T}:             *)
(*                                                                         *)
(*   Concat(Out_p(R, cs)) = Out_Invoke(R, Concat(cs))      for every p     *)
(*   and this common value is the composition of the node functions (Ref)  *)
(*   a failure is reported in every paradigm (error return or error item), *)
(*   never a panic or a hang                                               *)
(*                                                                         *)
(* A hang or a panic in ANY paradigm is rejected, so in particular one     *)
(* that occurs in only some of them (the harness puts a watchdog around    *)
(* every single call and records kind = "hang").                           *)
(* Nothing about native forms, derivations, chunkings or copies appears    *)
(* here: nodes are "append my marker", handlers "append ( / )", so Ref is  *)
(* a plain composition.  Values are strings or maps key -> string; a       *)
(* result is written as a set of <<key, string>> pairs ("" = no key).      *)
(* The same Judge is applied to observations of the real code              *)
(* (ParadigmObs.tla) and to the outcome of the implementation-shaped model *)
(* (Paradigm.tla).                                                         *)
(***************************************************************************)
EXTENDS Naturals, Sequences, FiniteSets, TLC

Range(s) == {s[i] : i \in 1..Len(s)}
RECURSIVE Cat(_)
Cat(ss) == IF Len(ss) = 0 THEN "" ELSE ss[1] \o Cat(Tail(ss))
Paradigms == {"I", "S", "C", "T"}

(* what a node contributes to the value: pre-handler "(", its marker, post-handler ")" *)
Mark(nd) == (IF nd.pre # "none" THEN "(" ELSE "") \o nd.n \o (IF nd.post # "none" THEN ")" ELSE "")
FAILED == {<<"!", "failure">>}
Str(v) == {<<"", v>>}
NodeByName(cfg, name) == CHOOSE nd \in Range(cfg.nodes) : nd.n = name

Rendered(qk, qv, x, y) == qk \o "=" \o qv \o ",x=" \o x \o ",y=" \o y        \* node names sort before "x" < "y"
\* the reference result of a configuration (the input value is the concatenation of the chunks the graph actually receives: a header
\* chunk that the caller read off the input stream before the call is not part of it)
Ref(cfg) ==
  LET v == Cat(cfg.in)
      N == cfg.nodes
      M(i) == Mark(N[i])
  IN IF cfg.fail.n # "" THEN FAILED
     ELSE CASE cfg.shape = "chain" -> Str(v \o Cat([i \in 1..Len(N) |-> M(i)]))
            [] cfg.shape = "nested" -> Str(v \o Cat([i \in 1..Len(N) |-> M(i)]))
            [] cfg.shape = "fan2" -> IF cfg.dup THEN FAILED ELSE {<<N[1].n, v \o M(1)>>, <<N[2].n, v \o M(2)>>}
            [] cfg.shape = "fan3" -> IF cfg.dup THEN FAILED ELSE {<<N[2].n, v \o M(1) \o M(2)>>, <<N[3].n, v \o M(1) \o M(3)>>}
            [] cfg.shape = "fank" -> {<<N[i].n, v \o M(i)>> : i \in 1..Len(N)}      \* k parallel nodes with output keys joined at END
            [] cfg.shape \in {"fmap", "fmapn"} -> Str(v \o M(1) \o M(2))          \* fmapn: the mapped keys sit one level down ({o: {x, y}}, source paths o.x, o.y)                        \* producer {x: v, y: marker} field-mapped into the consumer
            [] cfg.shape \in {"nmap", "nmapn"} -> Str(v \o M(1) \o M(2))             \* a -> named map type {x: v, y: marker} -> b joins it
            \* NIL INTERFACE VALUES (legal on interface-typed edges; written "" like the empty string):
            \*   nil1  a : string -> any returns nil, straight to END of a Graph[string, any]
            \*   nil2  a returns nil, b : any -> any hands nil on;   nilif  the same over a user interface type
            \*   nilin the graph input of a Graph[any, string] is nil, a : any -> string treats nil as ""
            \*   nilbr a returns nil, a branch whose condition takes `any` picks b or c : any -> string
            [] cfg.shape \in {"nil1", "nil2", "nilif"} -> Str("")
            [] cfg.shape = "nilin" -> Str(M(1))
            [] cfg.shape = "nilbr" -> Str(Mark(NodeByName(cfg, cfg.pick)))
            \* ebr: a has BOTH an edge a -> b and a branch {b, c} that picks b: b runs once on a's output
            [] cfg.shape = "ebr" -> Str(v \o M(1) \o M(2))
            \* eskw / eskg (all-predecessor trigger: workflow / DAG graph), output type map[string]any, input type string: a branches to b
            \* (keyed output, the only DATA predecessor of END) or c (END only has an execution dependency on it): when c is picked END is
            \* reached with no data at all and the result is the output type's zero value (the empty map) in every paradigm
            [] cfg.shape \in {"eskw", "eskg"} -> IF cfg.pick = "b" THEN {<<"b", v \o M(1) \o M(2)>>} ELSE {}
            \* fofi: fan-out then fan-in.  a : string -> map {x: v, y: marker} feeds BOTH consumers d and e; d also merges b's {b: v ++ b},
            \* e also merges c's {c: v ++ c}; a consumer renders its merged input "k=v,..." (keys sorted) under its own key
            [] cfg.shape = "fofi" -> {<<N[4].n, Rendered(N[2].n, v \o M(2), v, M(1)) \o M(4)>>, <<N[5].n, Rendered(N[3].n, v \o M(3), v, M(1)) \o M(5)>>}
            [] cfg.shape = "branch" -> Str(v \o M(1) \o Mark(NodeByName(cfg, cfg.pick)))
            [] cfg.shape \in {"keys", "keypt"} -> {<<"out", v \o Cat([i \in 1..Len(N) |-> M(i)])>>}

(* observed result of one paradigm: [kind, chunks]; a chunk is a sequence of [k, v] *)
Keys(chunks) == UNION {{e.k : e \in Range(chunks[i])} : i \in 1..Len(chunks)}
PartOf(chunk, key) == Cat([j \in 1..Len(chunk) |-> IF chunk[j].k = key THEN chunk[j].v ELSE ""])
ConcatObs(chunks) == {<<key, Cat([i \in 1..Len(chunks) |-> PartOf(chunks[i], key)])>> : key \in Keys(chunks)}

Judge(cfg, res) ==
  LET kinds == {res[p].kind : p \in Paradigms}
      vals == {ConcatObs(res[p].chunks) : p \in Paradigms}
      ref == Ref(cfg)
  IN IF "skip" \in kinds THEN {}            \* not run: the harness stops replaying after a few hung calls (each costs a watchdog period)
     ELSE IF "panic" \in kinds THEN {"panic"}
     ELSE IF "hang" \in kinds THEN {"hang"}
     ELSE IF kinds = {"err"} THEN (IF ref = FAILED THEN {} ELSE {"unexpected-failure"})
     ELSE IF "err" \in kinds THEN {"failure-not-in-every-paradigm"}
     ELSE IF \E p \in Paradigms : Len(res[p].chunks) = 0 THEN {"empty-output"}
     ELSE IF Cardinality(vals) > 1 THEN {"paradigms-disagree"}
     ELSE IF ref = FAILED THEN {"failure-not-reported"}
     ELSE IF vals # {ref} THEN {"value-differs-from-reference"}
     ELSE {}
=============================================================================
