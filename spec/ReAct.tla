---------------------------------- MODULE ReAct ----------------------------------
(***************************************************************************)
(* Implementation-shaped model of the ReAct agent at message level         *)
(* (flow/agent/react/react.go:148-308) and the scenario generator of C18.  *)
(*                                                                         *)
(* The agent is a Pregel graph  START -> chat -> branch -> {tools, END},   *)
(* tools -> chat, or, when a return-directly set is configured,            *)
(* tools -> branch -> {chat, direct_return -> END}.  One action per node   *)
(* execution (= superstep) and per handler:                                *)
(*   Chat        step-limit check of the run loop; state pre-handler       *)
(*               (react.go:190-200: state.Messages += input; the model     *)
(*               gets the state's messages, through the modifier if any);  *)
(*               the scripted model answers script[min(k, Len)], in stream *)
(*               mode cut into chunks by the case's chunking               *)
(*   Branch      react.go:219-230 with the StreamToolCallChecker: default  *)
(*               = first non-empty chunk has tool calls (react.go:108-131),*)
(*               "whole" = a custom checker reading the whole stream       *)
(*   ToolsPre    react.go:210-214: state.Messages += assistant message;    *)
(*               ReturnDirectlyToolCallID = id of the first call of a      *)
(*               return-directly tool                                      *)
(*   ToolRun(i)  the tools node runs the calls concurrently: any order     *)
(*   ToolsDone   results in call order (C17) flow to chat, or to the       *)
(*               return-directly branch (react.go:282-297)                 *)
(*   Direct      react.go:254-273: the message whose ToolCallID is the     *)
(*               recorded one                                              *)
(* Each case is run twice (Generate, then Stream); every observable step   *)
(* is fed to ReActRule!Apply and RuleOK is the invariant TLC checks.       *)
(*                                                                         *)
(* Bug # "none" seeds a defect (sensitivity of the rule):                  *)
(*   "noappend"  the model pre-handler does not append its input to state  *)
(*   "norecord"  the tools pre-handler does not record the assistant msg   *)
(*   "nomax"     MaxStep is not passed to Compile                          *)
(*   "rdlast"    the LAST return-directly call is recorded, not the first  *)
(*   "modleak"   the modifier's output is stored back into the state       *)
(*   "noclose"   the default checker returns on plain text without closing *)
(*               its copy of the model stream                              *)
(*   "nocopy"    the modifier is handed the live history slice (no copy),  *)
(*               so an in-place modifier rewrites the stored history       *)
(***************************************************************************)
EXTENDS ReActRule

CONSTANTS MaxMsgs,      \* script length 1..4
          MaxCalls,     \* tool calls per assistant message 1..2
          MaxTools,     \* 1..3
          MaxSteps,     \* set of MaxStep settings, 0 = default
          RdMode,       \* "none" | "all": which return-directly sets are enumerated
          Inplace,      \* subset of BOOLEAN: a MessageModifier that edits the slice it is given in place (never together with the persona one)
          Modifiers,    \* subset of BOOLEAN
          Styles,       \* subset of StyleNames: checker x chunking of the Stream runs
          Contents,     \* subset of BOOLEAN: do tool-calling assistant messages carry text content?
          Wide,         \* subset of 5..7: widths of "wide" assistant messages (that many tool calls, tools cycling through the pool)
          Eager, Bug

Pool == <<"ta", "tb", "tc">>
\* style = StreamToolCallChecker ("d" default first-chunk checker, "w" custom whole-stream checker) - chunking of every assistant message
StyleNames == {"d-whole", "d-tcfirst", "d-emptyfirst", "d-splitargs", "d-percall", "d-contentfirst", "w-whole", "w-contentfirst", "w-percall", "w-tcfirst"}
CheckerOf(sty) == IF sty \in {"d-whole", "d-tcfirst", "d-emptyfirst", "d-splitargs", "d-percall", "d-contentfirst"} THEN "default" ELSE "whole"
ChunkingOf(sty) == CASE sty \in {"d-whole", "w-whole"} -> "whole" [] sty \in {"d-tcfirst", "w-tcfirst"} -> "tcfirst" [] sty = "d-emptyfirst" -> "emptyfirst"
                     [] sty = "d-splitargs" -> "splitargs" [] sty \in {"d-percall", "w-percall"} -> "percall"
                     [] sty \in {"d-contentfirst", "w-contentfirst"} -> "contentfirst"
Orig == <<[role |-> "user", content |-> "q", calls |-> <<>>, tcid |-> ""]>>
CallId(j, i) == "c" \o ToString(j) \o ToString(i)
CallArg(j, i) == "x" \o ToString(j) \o ToString(i)
\* the Stream run of a case gets its own input (both runs use ONE agent)
OrigOf(mode) == IF mode = "generate" THEN Orig ELSE <<[role |-> "user", content |-> "q~s", calls |-> <<>>, tcid |-> ""]>>
Thought(j) == <<"th1", "th2", "th3", "th4">>[j]

VARIABLES pc, sc, cur, run, st, inp, rdid, step, k, chunks, pend, outs, S
vars == <<pc, sc, cur, run, st, inp, rdid, step, k, chunks, pend, outs, S>>

NM == Len(sc.script)
UsedIn(script) == UNION {{script[j].calls[i].name : i \in 1..Len(script[j].calls)} : j \in 1..Len(script)}
ToolSeq(n) == [i \in 1..n |-> Pool[i]]

Init == /\ pc = "script"
        /\ sc \in [script : {<<>>}, rd : {<<>>}, maxstep : {0}, modifier : {FALSE}, inplace : {FALSE}, checker : {"default"}, chunking : {"whole"}, content : Contents]
        /\ cur = <<>> /\ run = 0 /\ st = <<>> /\ inp = <<>> /\ rdid = "" /\ step = 0 /\ k = 0 /\ chunks = <<>> /\ pend = {} /\ outs = <<>> /\ S = Idle

--------------------------------------------------------------------------------
(* setup: the script grows message by message; a message without calls ends it *)
Closed(script) == Len(script) > 0 /\ Len(script[Len(script)].calls) = 0
NUsed(script) == Cardinality(UsedIn(script))
\* call lists over the pool in first-occurrence order (w.r.t. the tools already used by the script)
CallLists(script) ==
  LET u == NUsed(script)
      ok1(a) == a <= Min2(MaxTools, u + 1)
      ok2(a, b) == ok1(a) /\ b <= Min2(MaxTools, Max2(u, a) + 1)
  IN {<<a>> : a \in {x \in 1..3 : ok1(x)}} \cup
     (IF MaxCalls >= 2 THEN {<<a, b>> : a \in 1..3, b \in 1..3} \cap {p \in (1..3) \X (1..3) : ok2(p[1], p[2])} ELSE {})
MkCalls(j, l) == [i \in 1..Len(l) |-> [id |-> CallId(j, i), name |-> Pool[l[i]], args |-> CallArg(j, i)]]
AddToolMsg(l) ==
  /\ pc = "script" /\ ~Closed(sc.script) /\ NM < MaxMsgs
  /\ sc' = [sc EXCEPT !.script = Append(@, [content |-> (IF sc.content THEN Thought(NM + 1) ELSE ""), calls |-> MkCalls(NM + 1, l)])]
  /\ UNCHANGED <<pc, cur, run, st, inp, rdid, step, k, chunks, pend, outs, S>>
AddWideMsg(w) ==
  /\ pc = "script" /\ ~Closed(sc.script) /\ NM < MaxMsgs /\ w \in Wide
  /\ \A j \in 1..NM : Len(sc.script[j].calls) < 5                      \* at most one wide message per script
  /\ sc' = [sc EXCEPT !.script = Append(@, [content |-> (IF sc.content THEN Thought(NM + 1) ELSE ""),
                                             calls |-> MkCalls(NM + 1, [i \in 1..w |-> ((i - 1) % MaxTools) + 1])])]
  /\ UNCHANGED <<pc, cur, run, st, inp, rdid, step, k, chunks, pend, outs, S>>
AddFinalMsg ==
  /\ pc = "script" /\ ~Closed(sc.script) /\ NM < MaxMsgs
  /\ sc' = [sc EXCEPT !.script = Append(@, [content |-> "fin", calls |-> <<>>])]
  /\ UNCHANGED <<pc, cur, run, st, inp, rdid, step, k, chunks, pend, outs, S>>

SeqOfSet(T) == LET RECURSIVE F(_, _)
                   F(i, acc) == IF i > 3 THEN acc ELSE F(i + 1, IF Pool[i] \in T THEN Append(acc, Pool[i]) ELSE acc)
               IN F(1, <<>>)
RdSets == IF RdMode = "none" THEN {{}} ELSE SUBSET UsedIn(sc.script)
CaseEv(c) == [ev |-> "case", id |-> "model", msgs |-> Orig, script |-> c.script, tools |-> ToolSeq(Max2(1, NUsed(c.script))), rd |-> c.rd,
              maxstep |-> c.maxstep, modifier |-> c.modifier, inplace |-> c.inplace, checker |-> c.checker, chunking |-> c.chunking]
Configure(rdset, ms, md, ip, sty) ==
  /\ pc = "script" /\ NM >= 1 /\ ~(md /\ ip)
  /\ LET c == [sc EXCEPT !.rd = SeqOfSet(rdset), !.maxstep = ms, !.modifier = md, !.inplace = ip, !.checker = CheckerOf(sty), !.chunking = ChunkingOf(sty)] IN
       /\ sc' = c
       /\ S' = Apply(Idle, CaseEv(c))
  /\ pc' = "startrun" /\ run' = 0
  /\ UNCHANGED <<cur, st, inp, rdid, step, k, chunks, pend, outs>>

--------------------------------------------------------------------------------
(* run *)
Mode == IF run = 1 THEN "generate" ELSE "stream"
NNodes == IF Len(sc.rd) > 0 THEN 3 ELSE 2
Limit == IF sc.maxstep = 0 \/ Bug = "nomax" THEN NNodes + 10 ELSE sc.maxstep
EndRunEv == [ev |-> "endrun"]
ErrLimit == [ev |-> "error", steplimit |-> TRUE]
Finish2(S0, e) == Apply(Apply(S0, e), EndRunEv)

StartRun == /\ pc = "startrun" /\ run < 2
            /\ run' = run + 1
            /\ S' = Apply(S, [ev |-> "run", mode |-> (IF run = 0 THEN "generate" ELSE "stream"), msgs |-> OrigOf(IF run = 0 THEN "generate" ELSE "stream")])
            /\ st' = <<>> /\ inp' = OrigOf(IF run = 0 THEN "generate" ELSE "stream") /\ rdid' = "" /\ step' = 0 /\ k' = 0 /\ cur' = <<>> /\ chunks' = <<>> /\ pend' = {} /\ outs' = <<>>
            /\ pc' = "chat" /\ UNCHANGED sc
AllDone == /\ pc = "startrun" /\ run = 2
           \* early-close probe: the branch's checker closes its copy of the model stream on every exit ("noclose": not on the
           \* plain-text exit of the default first-chunk checker)
           /\ S' = Apply(Apply(S, [ev |-> "early", released |-> ~(Bug = "noclose" /\ sc.checker = "default" /\ \E j \in 1..NM : Len(sc.script[j].calls) = 0)]),
                         [ev |-> "end"]) /\ pc' = "done"
           /\ UNCHANGED <<sc, cur, run, st, inp, rdid, step, k, chunks, pend, outs>>

\* how the scripted model streams message m: a sequence of [c |-> has text content, tc |-> has tool calls]
ChunksOf(m) ==
  LET hc == m.content # ""
      ht == Len(m.calls) > 0 IN
  IF Mode = "generate" \/ sc.chunking = "whole" THEN <<[c |-> hc, tc |-> ht]>>
  ELSE CASE sc.chunking = "tcfirst" -> <<[c |-> FALSE, tc |-> ht], [c |-> hc, tc |-> FALSE]>>
         [] sc.chunking = "emptyfirst" -> <<[c |-> FALSE, tc |-> FALSE], [c |-> hc, tc |-> ht]>>
         [] sc.chunking = "splitargs" -> <<[c |-> FALSE, tc |-> ht], [c |-> hc, tc |-> ht]>>
         [] sc.chunking = "percall" -> [i \in 1..Len(m.calls) |-> [c |-> FALSE, tc |-> TRUE]] \o <<[c |-> hc, tc |-> FALSE]>>
         [] sc.chunking = "contentfirst" -> <<[c |-> hc, tc |-> FALSE], [c |-> FALSE, tc |-> ht]>>
RECURSIVE FirstChunkSaysTool(_)
FirstChunkSaysTool(cs) == IF cs = <<>> THEN FALSE
                          ELSE IF Head(cs).tc THEN TRUE
                          ELSE IF ~Head(cs).c THEN FirstChunkSaysTool(Tail(cs))
                          ELSE FALSE
IsToolCall(cs) == IF sc.checker = "default" THEN FirstChunkSaysTool(cs) ELSE \E i \in 1..Len(cs) : cs[i].tc

Chat ==
  /\ pc = "chat"
  /\ IF step >= Limit
     THEN /\ S' = Finish2(S, ErrLimit) /\ pc' = "startrun" /\ UNCHANGED <<st, step, k, cur, chunks>>
     ELSE LET st1 == IF Bug = "noappend" THEN st ELSE st \o inp
              minp == IF sc.modifier THEN <<SysMsg>> \o st1 ELSE IF sc.inplace THEN Marked(st1) ELSE st1
              m == ScriptAt(sc, k + 1) IN
          /\ st' = (IF (Bug = "modleak" /\ sc.modifier) \/ (Bug = "nocopy" /\ sc.inplace) THEN minp ELSE st1)
          /\ S' = Apply(S, [ev |-> "mcall", input |-> minp])
          /\ step' = step + 1 /\ k' = k + 1 /\ cur' = m /\ chunks' = ChunksOf(m) /\ pc' = "branch"
  /\ UNCHANGED <<sc, run, inp, rdid, pend, outs>>

Branch ==
  /\ pc = "branch"
  /\ IF IsToolCall(chunks)
     THEN pc' = "tools" /\ UNCHANGED S
     ELSE /\ S' = Finish2(S, [ev |-> "answer", msg |-> AssistantMsg(cur)]) /\ pc' = "startrun"
  /\ UNCHANGED <<sc, cur, run, st, inp, rdid, step, k, chunks, pend, outs>>

RdCalls == {i \in 1..Len(cur.calls) : cur.calls[i].name \in Range(sc.rd)}
ToolsPre ==
  /\ pc = "tools"
  /\ IF step >= Limit
     THEN /\ S' = Finish2(S, ErrLimit) /\ pc' = "startrun" /\ UNCHANGED <<st, step, rdid, pend, outs>>
     ELSE /\ st' = (IF Bug = "norecord" THEN st ELSE Append(st, AssistantMsg(cur)))
          /\ rdid' = (IF RdCalls = {} THEN ""
                      ELSE LET r == IF Bug = "rdlast" THEN CHOOSE x \in RdCalls : \A y \in RdCalls : x >= y
                                    ELSE CHOOSE x \in RdCalls : \A y \in RdCalls : x <= y IN cur.calls[r].id)
          /\ step' = step + 1 /\ pend' = 1..Len(cur.calls) /\ outs' = [i \in 1..Len(cur.calls) |-> ""]
          /\ pc' = "toolrun" /\ UNCHANGED S
  /\ UNCHANGED <<sc, cur, run, inp, k, chunks>>

OutOf(c) == c.name \o "(" \o c.args \o ")"
ToolRun(i) ==
  /\ pc = "toolrun" /\ i \in pend /\ (Eager => \A j \in pend : i <= j)
  /\ S' = Apply(S, [ev |-> "tool", name |-> cur.calls[i].name, args |-> cur.calls[i].args, out |-> OutOf(cur.calls[i])])
  /\ outs' = [outs EXCEPT ![i] = OutOf(cur.calls[i])]
  /\ pend' = pend \ {i}
  /\ UNCHANGED <<pc, sc, cur, run, st, inp, rdid, step, k, chunks>>

ToolsDone ==
  /\ pc = "toolrun" /\ pend = {}
  /\ inp' = [i \in 1..Len(cur.calls) |-> ToolMsg(outs[i], cur.calls[i].id)]
  /\ pc' = (IF Len(sc.rd) > 0 /\ rdid # "" THEN "direct" ELSE "chat")
  /\ UNCHANGED <<sc, cur, run, st, rdid, step, k, chunks, pend, outs, S>>

Direct ==
  /\ pc = "direct"
  /\ IF step >= Limit
     THEN S' = Finish2(S, ErrLimit)
     ELSE LET hit == {i \in 1..Len(inp) : inp[i].tcid = rdid} IN
          S' = Finish2(S, [ev |-> "answer", msg |-> inp[CHOOSE i \in hit : TRUE]])
  /\ pc' = "startrun"
  /\ UNCHANGED <<sc, cur, run, st, inp, rdid, step, k, chunks, pend, outs>>

\* terminal stuttering step (absent in generation mode, so that a simulated behaviour ends, and prints its CASE, once)
Done == pc = "done" /\ ~Eager /\ UNCHANGED vars

Next == \/ \E l \in CallLists(sc.script) : AddToolMsg(l)
        \/ AddFinalMsg
        \/ \E w \in Wide : AddWideMsg(w)
        \/ \E rdset \in RdSets, ms \in MaxSteps, md \in Modifiers, ip \in Inplace, sty \in Styles : Configure(rdset, ms, md, ip, sty)
        \/ StartRun \/ AllDone \/ Chat \/ Branch \/ ToolsPre \/ (\E i \in pend : ToolRun(i)) \/ ToolsDone \/ Direct \/ Done
Spec == Init /\ [][Next]_vars /\ WF_vars(Next)

--------------------------------------------------------------------------------
RuleOK == S.bad = ""
Closed2 == pc = "done" => (~S.open /\ S.nruns = 2)
Terminates == <>(pc = "done")       \* the agent stops for every script, looping scripts included

Scenario == [msgs |-> Orig, script |-> sc.script, tools |-> ToolSeq(Max2(1, NUsed(sc.script))), rd |-> sc.rd, maxstep |-> sc.maxstep,
             modifier |-> sc.modifier, inplace |-> sc.inplace, checker |-> sc.checker, chunking |-> sc.chunking]
Emit == pc = "done" => PrintT(<<"CASE", ToJson(Scenario)>>)
================================================================================
