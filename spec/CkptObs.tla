------------------------------- MODULE CkptObs -------------------------------
(***************************************************************************)
(* C12 verdict path for the channel-restore clause: each line is           *)
(* [ev |-> "ckpt", id, written, restored, outcome] where written is the    *)
(* channel object put into a real compose checkpoint and restored is the   *)
(* runner-side channel after Marshal -> bytes -> Unmarshal -> load, both   *)
(* rendered by the same walk (maps as key-sorted lists).  Rule: CkptGen!Why.*)
(***************************************************************************)
EXTENDS CkptGen

Trace == ndJsonDeserialize("trace.ndjson")
ASSUME TLCSet(1, 0) /\ TLCSet(6, 0)
VARIABLE l
ObsReason(e) == IF e.outcome # "ok" THEN "ckpt-restore-" \o e.outcome ELSE LET w == Why(e.written, e.restored) IN IF w = "" THEN "" ELSE "ckpt-lost:" \o w
TInit == l = 1 /\ ch = Fresh("dag")
TNext == /\ l <= Len(Trace) /\ l' = l + 1 /\ UNCHANGED ch
         /\ LET r == ObsReason(Trace[l]) IN r # "" => PrintT("BAD|" \o Trace[l].id \o "|" \o ToString(l) \o "|" \o r) /\ TLCSet(6, TLCGet(6) + 1)
TSpec == TInit /\ [][TNext]_<<l, ch>>
HW == TLCSet(1, IF l > TLCGet(1) THEN l ELSE TLCGet(1))
Post == PrintT(<<"HW", TLCGet(1)>>) /\ PrintT(<<"STAT", 0, 0, 0, 0, TLCGet(6)>>)
================================================================================
