------------------------------- MODULE StreamsDef -------------------------------
(***************************************************************************)
(* Pure definitions shared by the stream specifications (C08, C19):        *)
(*   1. the static READER TREE built from Pipe / StreamReaderFromArray /   *)
(*      Copy / MergeStreamReaders / StreamReaderWithConvert,               *)
(*   2. the MECHANISM of eino/schema/stream.go as pure step operators on a *)
(*      model state record M (channel with capacity + closed signal, array *)
(*      reader, copy = shared list + once + per-child cursor + closed      *)
(*      count, merge = select among live streams with array folding and    *)
(*      forwarder goroutines on a 5-slot stream, convert = map + skip),    *)
(*   3. the PROPERTY-LEVEL RULE of C08 as a pure operator Obs(G, e) on a   *)
(*      ghost record G that only remembers what was sent / received /      *)
(*      closed -- it never looks at M.                                     *)
(* Streams.tla (exhaustive model check), StreamsLin.tla (linearizability   *)
(* trace validation of real runs), StreamsObs.tla (property-level trace    *)
(* validation of real runs) and StreamsSeq.tla (generator of sequential    *)
(* histories) all EXTEND this module.                                      *)
(*                                                                         *)
(* Tree = sequence of node records                                         *)
(*   [k, src, cap, items, n, idx, skip]                                    *)
(*   k = "pipe"  : Pipe(cap); its writer sends `items` then closes         *)
(*       "array" : StreamReaderFromArray(items)                            *)
(*       "copy"  : src[1].Copy(n)      (the hidden parentStreamReader)     *)
(*       "child" : child idx of copy node src[1]                           *)
(*       "conv"  : StreamReaderWithConvert(src[1], v -> v+100, ErrNoValue  *)
(*                 when skip > 0 and v % skip = 0)                         *)
(*       "merge" : MergeStreamReaders(src)                                 *)
(* Items are non-zero integers: v > 0 a value, v < 0 an error item         *)
(* (Send(zero, err)), 0 stands for io.EOF.  The items of root i are        *)
(* i*10+j, so the origin of a delivered item is recognisable.              *)
(***************************************************************************)
EXTENDS Integers, Sequences, FiniteSets, TLC

Range(s) == {s[i] : i \in 1..Len(s)}
Max2(a, b) == IF a > b THEN a ELSE b
EOFV == 0
RECVCLOSED == -9998          \* ErrRecvAfterClosed as an error item
PANICV == -9997              \* the error item a forwarder goroutine sends after recovering a panic of the convert function
\* A conv node may carry n = k > 0: its convert function panics on its k-th call (error items bypass the function and do not count).
\* Only used for converts that sit (directly or below further converts) under a merge, i.e. inside a forwarder goroutine, whose deferred
\* cleanup recovers, forwards PANICV, closes its stream and closes its reader; a panic in the caller's own Recv is outside the universe.
FwdCap == 5                  \* toStream(): newStream(5)

--------------------------------------------------------------------------------
(* 1. static structure                                                      *)
Ids(T) == 1..Len(T)
Kd(T, r) == T[r].k
Src(T, r) == T[r].src
Src1(T, r) == T[r].src[1]
Users(T, r) == {x \in Ids(T) : r \in Range(T[x].src)}
Leaves(T) == {r \in Ids(T) : Kd(T, r) # "copy" /\ Users(T, r) = {}}
Pipes(T) == {r \in Ids(T) : Kd(T, r) = "pipe"}
Roots(T) == {r \in Ids(T) : Kd(T, r) \in {"pipe", "array"}}

\* A copy node may carry idx = k > 0: its source reader was read k times BEFORE Copy was called ("read k items, then Copy"); the
\* calls of that pre-reader are ordinary recv events at the source reader's node id.
DropN(s, k) == IF k >= Len(s) THEN <<>> ELSE SubSeq(s, k + 1, Len(s))
\* readerTypeArray: arrays, copies of arrays, merges of arrays only
RECURSIVE ArrLike(_, _)
ArrLike(T, r) == IF Kd(T, r) = "array" THEN TRUE
                 ELSE IF Kd(T, r) = "child" THEN ArrLike(T, Src1(T, Src1(T, r)))
                 ELSE IF Kd(T, r) = "merge" THEN \A s \in Range(Src(T, r)) : ArrLike(T, s)
                 ELSE FALSE
RECURSIVE ArrItems(_, _)
RECURSIVE CatArr(_, _, _)
CatArr(T, ss, i) == IF i > Len(ss) THEN <<>> ELSE (IF ArrLike(T, ss[i]) THEN ArrItems(T, ss[i]) ELSE <<>>) \o CatArr(T, ss, i + 1)
\* An array node may carry idx = k > 0: its reader was read k times BEFORE it was handed to Merge / Copy (the pre-reader's calls are recv
\* events at the array's node id and see the whole array); what it contributes as a SOURCE is arr[index:].
ArrItems(T, r) == IF Kd(T, r) = "array" THEN DropN(T[r].items, T[r].idx)
                  ELSE IF Kd(T, r) = "child" THEN DropN(ArrItems(T, Src1(T, Src1(T, r))), T[Src1(T, r)].idx)   \* arr, index of the source at Copy time
                  ELSE CatArr(T, Src(T, r), 1)

\* a merge used as a source of another merge is flattened into it (sr.msr.sts...)
TopMerges(T) == {m \in Ids(T) : Kd(T, m) = "merge" /\ ~ArrLike(T, m) /\ ~\E u \in Users(T, m) : Kd(T, u) = "merge"}
\* sources that MergeStreamReaders turns into a stream by a forwarder goroutine (toStream)
Fwd(T) == {s \in Ids(T) : ~ArrLike(T, s) /\ Kd(T, s) \in {"conv", "child"} /\ \E u \in Users(T, s) : Kd(T, u) = "merge"}
\* merges that fold their array sources into one pre-filled, closed stream
Folds(T) == {m \in Ids(T) : Kd(T, m) = "merge" /\ ~ArrLike(T, m) /\ \E s \in Range(Src(T, m)) : ArrLike(T, s)}
RECURSIVE MStreams(_, _)
MStreams(T, m) == UNION {IF ArrLike(T, s) THEN {} ELSE IF Kd(T, s) = "merge" THEN MStreams(T, s) ELSE {s} : s \in Range(Src(T, m))}
                    \cup (IF m \in Folds(T) THEN {m} ELSE {})
StreamIds(T) == Pipes(T) \cup Fwd(T) \cup Folds(T)
CapOf(T, s) == IF Kd(T, s) = "pipe" THEN T[s].cap ELSE IF s \in Fwd(T) THEN FwdCap ELSE Len(CatArr(T, Src(T, s), 1))

RECURSIVE RootsOf(_, _)
RootsOf(T, r) == IF Kd(T, r) \in {"pipe", "array"} THEN {r} ELSE UNION {RootsOf(T, s) : s \in Range(Src(T, r))}
LeavesOf(T, p) == {x \in Leaves(T) : p \in RootsOf(T, x)}
Hops(T, p) == Cardinality({f \in Fwd(T) : p \in RootsOf(T, f)})
RECURSIVE PathsFrom(_, _)
PathsFrom(T, r) == IF Kd(T, r) \in {"pipe", "array"} THEN {<<r>>}
                   ELSE UNION {{<<r>> \o q : q \in PathsFrom(T, s)} : s \in Range(Src(T, r))}
ConvMap(v) == v + 100
Skips(T, r, v) == T[r].skip > 0 /\ v % T[r].skip = 0

--------------------------------------------------------------------------------
(* 2. mechanism                                                             *)
Idle == [st |-> "idle", v |-> 0]
InitM(T) ==
  [buf     |-> [s \in Ids(T) |-> IF s \in Folds(T) THEN CatArr(T, Src(T, s), 1) ELSE <<>>],   \* items chan
   sclosed |-> [s \in Ids(T) |-> s \in Folds(T)],                                            \* close(items)
   rclosed |-> [s \in Ids(T) |-> FALSE],                                                     \* close(closed)
   rcnt    |-> [s \in Ids(T) |-> 0],                                                         \* how often closeRecv ran
   snd     |-> [s \in Ids(T) |-> Idle],             \* the sender's pending send: idle | offer | sent | told
   apos    |-> [s \in Ids(T) |-> 1],                \* arrayReader.index (+1)
   fetched |-> [s \in Ids(T) |-> <<>>],             \* copy: the shared linked list, filled under sync.Once
   lock    |-> [s \in Ids(T) |-> 0],                \* copy: process inside once.Do of the tail element (0 = none)
   cur     |-> [s \in Ids(T) |-> 1],                \* child: position in the list, 0 = nil (closed)
   closedNum |-> [s \in Ids(T) |-> 0],
   cnt     |-> [s \in Ids(T) |-> 0],               \* conv: calls of the convert function so far
   crd     |-> [s \in Ids(T) |-> 0 - 1],           \* child: value of closedNum it read (only used by the seeded-defect variant of
                                                   \* Streams.tla in which the atomic.AddUint32 is a separate read and write)
   live    |-> [s \in Ids(T) |-> IF Kd(T, s) = "merge" /\ ~ArrLike(T, s) THEN MStreams(T, s) ELSE {}],   \* chosenList; also for a merged
                          \* reader that is merged again later: it may be read (and see sources end) BEFORE the outer merge is built
   fst     |-> [s \in Ids(T) |-> IF s \in Fwd(T) THEN "recv" ELSE "none"]]                     \* forwarder goroutine

\* StreamReader.Close
RECURSIVE CloseR(_, _, _)
CloseR(M, T, r) ==
  IF ArrLike(T, r) THEN M
  ELSE IF Kd(T, r) = "pipe" THEN [M EXCEPT !.rclosed[r] = TRUE, !.rcnt[r] = @ + 1]
  ELSE IF Kd(T, r) = "conv" THEN CloseR(M, T, Src1(T, r))
  ELSE IF Kd(T, r) = "child" THEN
     LET p == Src1(T, r) IN
     IF M.cur[r] = 0 THEN M
     ELSE LET M1 == [M EXCEPT !.cur[r] = 0, !.closedNum[p] = @ + 1] IN
          IF M1.closedNum[p] = T[p].n THEN CloseR(M1, T, Src1(T, p)) ELSE M1
  ELSE \* merge: closeRecv of every stream, live or not
     LET S == MStreams(T, r) IN
     [M EXCEPT !.rclosed = [s \in Ids(T) |-> IF s \in S THEN TRUE ELSE @[s]],
               !.rcnt = [s \in Ids(T) |-> IF s \in S THEN @[s] + 1 ELSE @[s]]]

Out(t, v, M) == [t |-> t, v |-> v, M |-> M]
\* <-s.items : buffered item, or hand-over from a sender blocked on an unbuffered channel, or closed
ChanRecv(M, T, s) ==
  IF M.buf[s] # <<>> THEN {Out("val", Head(M.buf[s]), [M EXCEPT !.buf[s] = Tail(@)])}
  ELSE IF M.snd[s].st = "offer" /\ CapOf(T, s) = 0 THEN {Out("val", M.snd[s].v, [M EXCEPT !.snd[s] = [st |-> "sent", v |-> 0]])}
  ELSE IF M.sclosed[s] THEN {Out("val", EOFV, M)}
  ELSE {}
\* one atomic step of process a inside Recv() of reader r: the set of possible outcomes
\*   "val": Recv returns v;  "prog": an internal step was made (once entered, skipped item, ended source dropped), still inside
\*   {} : blocked
ReadElem(M, T, r) == LET p == Src1(T, r)  it == M.fetched[p][M.cur[r]] IN
                     IF it = EOFV THEN Out("val", EOFV, M) ELSE Out("val", it, [M EXCEPT !.cur[r] = @ + 1])
RECURSIVE Rv(_, _, _, _)
Rv(M, T, r, a) ==
  IF ArrLike(T, r) THEN
     LET its == IF Kd(T, r) = "array" THEN T[r].items ELSE ArrItems(T, r)  i == M.apos[r] IN
     IF i <= Len(its) THEN {Out("val", its[i], [M EXCEPT !.apos[r] = i + 1])} ELSE {Out("val", EOFV, M)}
  ELSE IF Kd(T, r) = "pipe" THEN ChanRecv(M, T, r)
  ELSE IF Kd(T, r) = "child" THEN
     LET p == Src1(T, r)  c == M.cur[r] IN
     IF c = 0 THEN {Out("val", RECVCLOSED, M)}
     ELSE IF c <= Len(M.fetched[p]) THEN {ReadElem(M, T, r)}
     ELSE IF M.lock[p] = 0 THEN {Out("prog", 0, [M EXCEPT !.lock[p] = a])}
     ELSE IF M.lock[p] = a THEN
        {IF o.t = "val" THEN ReadElem([o.M EXCEPT !.fetched[p] = Append(@, o.v), !.lock[p] = 0], T, r) ELSE o :
           o \in Rv(M, T, Src1(T, p), a)}
     ELSE {}
  ELSE IF Kd(T, r) = "conv" THEN
     {IF o.t = "val" /\ o.v > 0 THEN
         (LET c == o.M.cnt[r] + 1  M2 == [o.M EXCEPT !.cnt[r] = c] IN
          IF T[r].n > 0 /\ c = T[r].n THEN Out("panic", 0, M2)
          ELSE IF Skips(T, r, o.v) THEN Out("prog", 0, M2) ELSE Out("val", ConvMap(o.v), M2))
      ELSE o :
        o \in Rv(M, T, Src1(T, r), a)}
  ELSE \* merge: select among the live streams; an ended stream leaves the list and the loop goes on
     IF M.live[r] = {} THEN {Out("val", EOFV, M)}
     ELSE UNION {{IF o.v = EOFV THEN Out("prog", 0, [o.M EXCEPT !.live[r] = @ \ {s}]) ELSE o : o \in ChanRecv(M, T, s)} : s \in M.live[r]}

\* stream.send after the offer was placed: told when closed, else enqueue when there is room
SendStep(M, T, s) ==
  IF M.snd[s].st # "offer" THEN {}
  ELSE IF M.rclosed[s] THEN {[M EXCEPT !.snd[s] = [st |-> "told", v |-> 0]]}
  ELSE IF Len(M.buf[s]) < CapOf(T, s) THEN {[M EXCEPT !.buf[s] = Append(@, M.snd[s].v), !.snd[s] = [st |-> "sent", v |-> 0]]}
  ELSE {}
Offer(M, s, v) == [M EXCEPT !.snd[s] = [st |-> "offer", v |-> v]]
ClearSnd(M, s) == [M EXCEPT !.snd[s] = Idle]
CloseSend(M, s) == [M EXCEPT !.sclosed[s] = TRUE]

\* the goroutine started by toStream(): recv from its reader, send into its 5-slot stream; on EOF or when told:
\* closeSend + close of its reader
FwdExit(M, T, f) == CloseR([M EXCEPT !.sclosed[f] = TRUE, !.fst[f] = "done", !.snd[f] = Idle], T, f)
FwdStep(M, T, f) ==
  IF M.fst[f] = "recv" THEN
     {IF o.t = "prog" THEN o.M
      ELSE IF o.t = "panic" THEN [Offer(o.M, f, PANICV) EXCEPT !.fst[f] = "psend"]     \* recover(): send the panic as an error item ...
      ELSE IF o.v = EOFV THEN FwdExit(o.M, T, f)
      ELSE [Offer(o.M, f, o.v) EXCEPT !.fst[f] = "send"] : o \in Rv(M, T, f, f)}
  ELSE IF M.fst[f] = "send" THEN
     {IF N.snd[f].st = "told" THEN FwdExit(N, T, f) ELSE [ClearSnd(N, f) EXCEPT !.fst[f] = "recv"] : N \in SendStep(M, T, f)}
  ELSE IF M.fst[f] = "psend" THEN {FwdExit(N, T, f) : N \in SendStep(M, T, f)}          \* ... then closeSend and close of its reader
  ELSE {}

--------------------------------------------------------------------------------
(* 3. property-level rule of C08 (never reads M)                            *)
(* Events: [ev, a, op, v, res]  ev in {"call","ret","hang"}, a = node id    *)
(* (pipe for send/closeSend, leaf for recv/close), res in                   *)
(* {"", "false", "true", "item", "eof", "ok"}.                              *)
InitG(T, id) ==
  [id |-> id, bad |-> "",
   off   |-> [r \in Ids(T) |-> <<>>],     \* items whose Send was called
   ok    |-> [r \in Ids(T) |-> <<>>],     \* items whose Send returned closed = false
   ended |-> [r \in Ids(T) |-> FALSE],    \* writer called Close
   told  |-> [r \in Ids(T) |-> FALSE],
   late  |-> [r \in Ids(T) |-> 0],        \* successful sends called after every derived reader's Close had returned
   lateF |-> [r \in Ids(T) |-> FALSE],
   got   |-> [r \in Ids(T) |-> <<>>],
   eof   |-> [r \in Ids(T) |-> FALSE],
   pc    |-> [r \in 1..(2 * Len(T)) |-> ""],       \* operation in flight at this end (a trace with a ret that has no call is malformed)
   ccall |-> [r \in Ids(T) |-> FALSE],    \* Close called / returned
   cret  |-> [r \in Ids(T) |-> FALSE]]
NoG == [id |-> "", bad |-> "no-case"]

RECURSIVE ViewOf(_, _, _, _, _)
\* what path q (leaf ... root) lets through of the root's sequence
ViewOf(T, q, i, base, got) ==
  IF i = 0 THEN base
  ELSE LET r == q[i] IN
       IF Kd(T, r) = "conv" THEN
          LET RECURSIVE F(_, _)
              F(s, c) == IF s = <<>> THEN <<>>
                         ELSE IF Head(s) > 0 THEN
                            (IF T[r].n > 0 /\ c + 1 = T[r].n THEN <<PANICV>>            \* the panic is delivered as an error item, nothing after it
                             ELSE IF Skips(T, r, Head(s)) THEN F(Tail(s), c + 1) ELSE <<ConvMap(Head(s))>> \o F(Tail(s), c + 1))
                         ELSE <<Head(s)>> \o F(Tail(s), c)
          IN ViewOf(T, q, i - 1, F(base, 0), got)
       ELSE IF Kd(T, r) = "copy" THEN ViewOf(T, q, i - 1, DropN(base, T[r].idx), got)  \* what the pre-reader took is not delivered again
       ELSE IF Kd(T, r) = "merge" /\ i > 1 THEN
          \* a merged reader that was read before it was merged again ("partly drained"): what it delivered of this path then -- the
          \* items of got[r] that belong to this path, necessarily a prefix of it -- is not delivered again by the outer reader
          ViewOf(T, q, i - 1, DropN(base, Cardinality({j \in 1..Len(got[r]) : got[r][j] \in Range(base)})), got)
       ELSE ViewOf(T, q, i - 1, base, got)
RootSeq(G, T, p, complete) == IF Kd(T, p) = "array" THEN T[p].items ELSE IF complete THEN G.ok[p] ELSE G.off[p]
\* a path through a panicking convert: the merged reader may see the end of that source before the writer's sends have returned, and what
\* the path lets through is cut at the panic anyway, so the offered sequence is the base also for the complete-at-EOF check
PanicPath(T, q) == \E i \in 1..Len(q) : Kd(T, q[i]) = "conv" /\ T[q[i]].n > 0
RootBase(G, T, q, complete) == LET p == q[Len(q)] IN
                               IF Kd(T, p) = "array" /\ Len(q) > 1 THEN DropN(T[p].items, T[p].idx)     \* an array read before it became a source
                               ELSE RootSeq(G, T, p, complete /\ ~PanicPath(T, q))
Views(G, T, r, complete) == [q \in PathsFrom(T, r) |-> ViewOf(T, q, Len(q) - 1, RootBase(G, T, q, complete), G.got)]
\* s is an interleaving of prefixes of the sequences V[i] (of the whole sequences when complete)
RECURSIVE Shuf(_, _, _)
Shuf(s, V, complete) ==
  IF s = <<>> THEN (complete => \A i \in DOMAIN V : V[i] = <<>>)
  ELSE \E i \in DOMAIN V : V[i] # <<>> /\ Head(V[i]) = Head(s) /\ Shuf(Tail(s), [V EXCEPT ![i] = Tail(@)], complete)
Allowed(G, T, r, s, complete) == Shuf(s, Views(G, T, r, complete), complete)
IsPrefix(s, t) == Len(s) <= Len(t) /\ \A i \in 1..Len(s) : s[i] = t[i]
SiblingsAgree(G, T, r) ==
  Kd(T, r) = "child" =>
    \A x \in Leaves(T) : (Kd(T, x) = "child" /\ Src1(T, x) = Src1(T, r)) => (IsPrefix(G.got[x], G.got[r]) \/ IsPrefix(G.got[r], G.got[x]))
\* every path from reader x down to root p passes a convert that panics
PanicOnAllPaths(T, x, p) == \A q \in PathsFrom(T, x) : q[Len(q)] = p => \E i \in 1..Len(q) : Kd(T, q[i]) = "conv" /\ T[q[i]].n > 0
\* a source cut off by a delivered panic need not have ended: its forwarder closes it and its writer is told afterwards
SourcesEnded(G, T, r) == \A p \in RootsOf(T, r) : Kd(T, p) = "pipe" => (G.ended[p] \/ (PanicOnAllPaths(T, r, p) /\ PANICV \in Range(G.got[r])))
Bad(G, why) == [G EXCEPT !.bad = why]

\* A forwarder notices the close of its consumer only when it has an item to forward: items that a skipping convert inside the forwarder
\* drops (ErrNoValue loop of streamReaderWithConvert.recv) are consumed without noticing, so they are added to the bound.
SkipConvAbove(T, p) == \E c \in Ids(T) : Kd(T, c) = "conv" /\ T[c].skip > 0 /\ p \in RootsOf(T, c)
SkippableItems(T, p) == IF SkipConvAbove(T, p) THEN Cardinality({j \in 1..Len(T[p].items) : T[p].items[j] > 0 /\ T[p].items[j] % 2 = 0}) ELSE 0
LateBound(T, p) == IF Hops(T, p) = 0 THEN 0 ELSE T[p].cap + Hops(T, p) + SkippableItems(T, p)
ObsE(G, T, e) ==
  IF e.ev = "hang" THEN Bad(G, "operation-never-returns")
  ELSE IF e.ev = "panic" THEN Bad(G, "operation-panicked")
  ELSE IF e.ev = "call" THEN
     IF e.op = "send" THEN
        [G EXCEPT !.off[e.a] = Append(@, e.v), !.lateF[e.a] = \A x \in LeavesOf(T, e.a) : G.cret[x]]
     ELSE IF e.op = "closeSend" THEN [G EXCEPT !.ended[e.a] = TRUE]
     ELSE IF e.op = "close" THEN [G EXCEPT !.ccall[e.a] = TRUE]
     ELSE G
  ELSE \* ret
     IF e.op = "send" THEN
        IF e.res = "true" THEN
           IF \A x \in LeavesOf(T, e.a) : G.ccall[x] \/ PanicOnAllPaths(T, x, e.a) THEN [G EXCEPT !.told[e.a] = TRUE]
           ELSE Bad(G, "writer-told-closed-while-a-reader-is-open")
        ELSE LET p == e.a  k == G.late[p] + (IF G.lateF[p] THEN 1 ELSE 0)
                 G1 == [G EXCEPT !.ok[p] = Append(@, G.off[p][Len(G.off[p])]), !.late[p] = k] IN
             IF k > LateBound(T, p) THEN Bad(G1, "writer-not-told-after-all-readers-closed") ELSE G1
     ELSE IF e.op = "recv" THEN
        IF e.res = "eof" THEN
           IF ~SourcesEnded(G, T, e.a) THEN Bad(G, "eof-before-every-source-ended")
           ELSE IF ~Allowed(G, T, e.a, G.got[e.a], TRUE) THEN Bad(G, "eof-before-all-items-delivered")
           ELSE [G EXCEPT !.eof[e.a] = TRUE]
        ELSE LET G1 == [G EXCEPT !.got[e.a] = Append(@, e.v)] IN
             IF G.eof[e.a] THEN Bad(G1, "item-after-eof")
             ELSE IF ~Allowed(G1, T, e.a, G1.got[e.a], FALSE) THEN Bad(G1, "item-not-the-next-expected")
             ELSE IF ~SiblingsAgree(G1, T, e.a) THEN Bad(G1, "copies-disagree")
             ELSE G1
     ELSE IF e.op = "close" THEN [G EXCEPT !.cret[e.a] = TRUE]
     ELSE G
\* writer end of pipe a = a, reader end of leaf a = a + Len(T)  (a bare pipe is both a pipe and a leaf)
EndOf(T, e) == IF e.op \in {"send", "closeSend"} THEN e.a ELSE e.a + Len(T)
Obs(G, T, e) ==
  IF G.bad # "" THEN G
  ELSE IF e.ev \notin {"call", "ret"} THEN ObsE(G, T, e)
  ELSE IF e.a \notin Ids(T) THEN Bad(G, "malformed-trace")
  ELSE IF e.ev = "call" THEN (IF G.pc[EndOf(T, e)] # "" THEN Bad(G, "malformed-trace") ELSE ObsE([G EXCEPT !.pc[EndOf(T, e)] = e.op], T, e))
  ELSE IF G.pc[EndOf(T, e)] # e.op THEN Bad(G, "malformed-trace") ELSE ObsE([G EXCEPT !.pc[EndOf(T, e)] = ""], T, e)
\* A `burst` line summarises one round of the barrier driver on a FRESH instance of the case's tree: every leaf's Close was called by
\* its own goroutine, all released together, all returned; then Send(v) was called once on pipe e.a and returned e.res.  It is judged by
\* replaying exactly these calls and returns through Obs on a fresh ghost (close-propagation clause: every derived reader closed =>
\* the writer is told on its next send, i.e. the source was closed and the producer released).
RECURSIVE CloseAll(_, _, _)
CloseAll(G, T, S) == IF S = {} THEN G
                     ELSE LET x == CHOOSE y \in S : TRUE IN
                          CloseAll(Obs(Obs(G, T, [ev |-> "call", a |-> x, op |-> "close", v |-> 0, res |-> ""]), T,
                                       [ev |-> "ret", a |-> x, op |-> "close", v |-> 0, res |-> "ok"]), T, S \ {x})
ObsBurst(G, T, e) ==
  IF G.bad # "" THEN G
  ELSE IF e.a \notin Pipes(T) THEN Bad(G, "malformed-trace")
  ELSE LET G1 == CloseAll(InitG(T, G.id), T, Leaves(T))
           G2 == Obs(G1, T, [ev |-> "call", a |-> e.a, op |-> "send", v |-> e.v, res |-> ""])
           G3 == Obs(G2, T, [ev |-> "ret", a |-> e.a, op |-> "send", v |-> 0, res |-> e.res])
       IN IF G3.bad # "" THEN Bad(G, G3.bad) ELSE G
================================================================================
