------------------------------- MODULE RunRule -------------------------------
(***************************************************************************)
(* Property-level trace specification for the run engine of eino.         *)
(*                                                                         *)
(* It consumes OBSERVATIONS OF REAL RUNS (one ndjson line per state),      *)
(* written by harness/compose/zz_verif_engine_test.go from harness-owned   *)
(* node bodies, branch conditions, state handlers and the public API, and  *)
(* decides, line by line, whether the run is one that the properties       *)
(* allow:                                                                  *)
(*   C01  any-predecessor: lock-step supersteps, merge of exactly the      *)
(*        routed values, END in the first step that reaches it, step bound *)
(*   C02  all-predecessor / workflow: at most once, exactly when           *)
(*        triggered, skip propagation, input = merge of the data           *)
(*        predecessors that ran and routed, END value is the result        *)
(*   C05  the executions with interrupt/resume marks removed obey the same *)
(*        rule with the same inputs (so they ARE the uninterrupted run);   *)
(*        nothing re-executed or lost; state carried over                  *)
(*   C06  before-nodes run only after being reported and resumed; nothing  *)
(*        downstream of an after-node starts before the interrupt; lists   *)
(*        exact; checkpoint written iff an interrupt is returned           *)
(*   C11  state trail: per run, fresh, pre-handler before body, carried    *)
(*        over interrupts                                                  *)
(*   C13  failures name the node path and unwrap to the cause; sentinels   *)
(*                                                                         *)
(* The spec is TOTAL: every line is consumed.  A line that contradicts a   *)
(* property prints <<"BAD", case id, line, reason>> and the rest of that   *)
(* case is skipped, so one TLC run reports every violating case.           *)
(* Nested graphs: a graph node is a frame of its own (nesting depth 1).    *)
(***************************************************************************)
EXTENDS Naturals, Sequences, FiniteSets, TLC, Json


Range(s) == {s[i] : i \in 1..Len(s)}
Empty == <<>>
START == "start"
END == "end"
Max2(a, b) == IF a > b THEN a ELSE b

--------------------------------------------------------------------------------
(* Static structure of a graph record gg (the case line or a nested "g")   *)

GNodes(gg) == Range(gg.nodes)
EdgeSet(gg, kinds) == {<<e[1], e[2]>> : e \in {x \in Range(gg.edges) : x[3] \in kinds}}
CtrlEdges(gg) == EdgeSet(gg, {"cd", "c"})
DataEdges(gg) == EdgeSet(gg, {"cd", "d"})
NB(gg) == Len(gg.branches)
BFrom(gg, b) == gg.branches[b].from
BEnds(gg, b) == Range(gg.branches[b].ends)
BranchesOf(gg, s) == {b \in 1..NB(gg) : BFrom(gg, b) = s}
CtrlPreds(gg, n) == {s \in GNodes(gg) \cup {START} : <<s, n>> \in CtrlEdges(gg) \/ \E b \in BranchesOf(gg, s) : n \in BEnds(gg, b)}
DataPreds(gg, n) == {s \in GNodes(gg) \cup {START} : <<s, n>> \in DataEdges(gg) \/ \E b \in BranchesOf(gg, s) : gg.branches[b].data /\ n \in BEnds(gg, b)}
Succs(gg, s) == {n \in GNodes(gg) \cup {END} : <<s, n>> \in CtrlEdges(gg) \cup DataEdges(gg) \/ \E b \in BranchesOf(gg, s) : n \in BEnds(gg, b)}
IBefore(gg) == Range(gg.before)
IAfter(gg) == Range(gg.after)
RerunNodes(gg) == Range(gg.rerun)
FailKind(gg, n) == IF \E f \in Range(gg.fail) : f.n = n THEN (CHOOSE f \in Range(gg.fail) : f.n = n).kind ELSE "none"
SubNames(gg) == {s.node : s \in Range(gg.subs)}
SubOf(gg, n) == (CHOOSE s \in Range(gg.subs) : s.node = n).g
MaxSteps(gg) == IF gg.max = 0 THEN Len(gg.nodes) + 10 ELSE gg.max
IsDag(gg) == gg.mode \in {"dag", "wf"}

--------------------------------------------------------------------------------
(* Values: a map  key -> term ; a term is [n |-> name, i |-> map].          *)
(* Node n on input v yields (n :> [n |-> n, i |-> v]); a graph node yields  *)
(* the result of its inner graph.                                           *)

RECURSIVE MergeAll(_, _)
MergeAll(outs, S) == IF S = {} THEN [ok |-> TRUE, v |-> Empty]
                     ELSE LET s == CHOOSE x \in S : TRUE
                              r == MergeAll(outs, S \ {s})
                          IN IF ~r.ok \/ (DOMAIN r.v) \cap (DOMAIN outs[s]) # {} THEN [ok |-> FALSE, v |-> Empty]
                             ELSE [ok |-> TRUE, v |-> r.v @@ outs[s]]
OutOf(n, v) == (n :> [n |-> n, i |-> v])
\* echo nodes return their input unchanged (so that equal keys can meet at a fan-in and the merge can fail)
\* (a node of kind "empty" works normally but hands on a stream without a single chunk: it contributes nothing)
NodeOut(gg, n, v) == IF n \in Range(gg.echo) THEN v ELSE IF FailKind(gg, n) = "empty" THEN Empty ELSE OutOf(n, v)
\* the harness state carries pointer (nil / non-nil) and container fields that no handler touches: their digest must never change
FreshStateDigest == "true|7|1|u,v|5|true|3|9|own"
\* state handlers that modify what they pass on (scenario flag hmod): the pre-handler adds the key "pre" to the node's input,
\* the post-handler adds the key "q<node>" to its output -- "the values they return are what the node and its successors receive"
HMod(gg) == gg.state /\ gg.hmod
PreIn(gg, v) == IF HMod(gg) THEN ("pre" :> [n |-> "pre", i |-> <<>>]) @@ v ELSE v
PostOut(gg, n, out) == IF HMod(gg) /\ gg.post THEN (("q" \o n) :> [n |-> "post", i |-> <<>>]) @@ out ELSE out
InitialInput(gg) == ("in" :> [n |-> gg.x0, i |-> Empty])   \* x0: "x", or "x<k>" for the k-th of several concurrent runs (C09)

--------------------------------------------------------------------------------
(* Frames                                                                   *)
(*   st       "route" (collecting branch decisions / computing what is next) | "exec" | a terminal expectation          *)
(*   outs     pregel: outputs of the nodes of the current superstep; dag: outputs of every finished node               *)
(*   chosen   branch index -> set of chosen ends (pregel: current superstep; dag: whole run)                            *)
(*   pending  node -> expected input of the nodes that are due and not yet observed (dag: derived by Norm)              *)
(*   status   dag: node -> "unk" | "run" | "done"                                                                       *)
(*   running  nodes whose body (or inner graph) has begun and not finished;  ins: their inputs                          *)
(*   cleared  before-nodes reported by the last interrupt;  afterDue: after-nodes finished and not yet reported         *)
(*   aborted  nodes whose attempt asked for interrupt-and-rerun in this call;  redo: the same after the report          *)

NewFrame(gg, input) ==
  [g |-> gg, st |-> "route", outs |-> (START :> input), chosen |-> Empty, pending |-> Empty, running |-> {}, ins |-> Empty,
   status |-> [n \in GNodes(gg) |-> "unk"], step |-> 0, fresh |-> FALSE,
   cleared |-> {}, afterDue |-> {}, afterBlock |-> {}, aborted |-> {}, redo |-> {}, preDone |-> {}, expect |-> Empty,
   trail |-> <<>>, canceled |-> FALSE, dupok |-> FALSE, tainted |-> {}, poisonTargets |-> {}, poisonSrc |-> {}, cs |-> 0, postDue |-> {}, postBlock |-> {}]

\* ---------- any-predecessor ----------
PRouted(f, d) == {s \in DOMAIN f.outs : <<s, d>> \in DataEdges(f.g) \/ \E b \in DOMAIN f.chosen : BFrom(f.g, b) = s /\ d \in f.chosen[b]}
AllChosenP(f) == \A b \in 1..NB(f.g) : BFrom(f.g, b) \in DOMAIN f.outs => b \in DOMAIN f.chosen
PQuiet(f) == DOMAIN f.pending = {} /\ f.running = {} /\ f.aborted = {}
PAdvance(f) ==
  LET T == {d \in GNodes(f.g) \cup {END} : PRouted(f, d) # {}}
      ms == [d \in T |-> MergeAll(f.outs, PRouted(f, d))]
  \* (when END is reached while another node of the same step was sent un-mergeable values, either outcome is accepted)
  IN IF END \in T THEN (IF ms[END].ok THEN [f EXCEPT !.st = "expect_result", !.expect = ms[END].v, !.dupok = \E d \in T : ~ms[d].ok,
                                                        !.poisonTargets = {d \in T : PRouted(f, d) \cap f.tainted # {}}, !.poisonSrc = f.tainted]
                         ELSE [f EXCEPT !.st = "expect_dup"])
     ELSE IF T = {} THEN [f EXCEPT !.st = "expect_stuck"]
     ELSE IF \E d \in T : ~ms[d].ok THEN [f EXCEPT !.st = "expect_dup"]
     ELSE [f EXCEPT !.st = "exec", !.pending = [d \in T |-> ms[d].v], !.outs = Empty, !.chosen = Empty,
                    !.step = f.step + 1, !.fresh = TRUE, !.afterBlock = f.afterDue, !.postBlock = f.postDue,
                    !.poisonTargets = {d \in T : PRouted(f, d) \cap f.tainted # {}}, !.poisonSrc = f.tainted, !.tainted = {}]

\* ---------- all-predecessor (incremental trigger rule; covers batch and eager execution) ----------
Decided(f, p) == \A b \in BranchesOf(f.g, p) : b \in DOMAIN f.chosen
RoutesCtrl(f, p, n) == <<p, n>> \in CtrlEdges(f.g) \/ \E b \in BranchesOf(f.g, p) : b \in DOMAIN f.chosen /\ n \in f.chosen[b]
RoutesData(f, p, n) == <<p, n>> \in DataEdges(f.g) \/ \E b \in BranchesOf(f.g, p) : f.g.branches[b].data /\ b \in DOMAIN f.chosen /\ n \in f.chosen[b]
DoneP(f, p) == p = START \/ f.status[p] = "done"
ResolvedC(f, sk, p) == (DoneP(f, p) /\ Decided(f, p)) \/ p \in sk
ResolvedD(f, sk, p) == DoneP(f, p) \/ p \in sk
RECURSIVE SkipFix(_, _)
SkipFix(f, sk) ==
  LET news == {n \in (GNodes(f.g) \cup {END}) \ sk :
                 /\ (n = END \/ f.status[n] = "unk")
                 /\ \A p \in CtrlPreds(f.g, n) : ResolvedC(f, sk, p)
                 /\ ~(\E p \in CtrlPreds(f.g, n) : DoneP(f, p) /\ RoutesCtrl(f, p, n))}
  IN IF news = {} THEN sk ELSE SkipFix(f, sk \cup news)
Skipped(f) == SkipFix(f, {})
ReadyD(f) ==
  LET sk == Skipped(f) IN
  {n \in (GNodes(f.g) \cup {END}) \ sk :
     /\ (n = END \/ f.status[n] = "unk")
     /\ \A p \in CtrlPreds(f.g, n) : ResolvedC(f, sk, p)
     /\ \E p \in CtrlPreds(f.g, n) : DoneP(f, p) /\ RoutesCtrl(f, p, n)
     /\ \A p \in DataPreds(f.g, n) : ResolvedD(f, sk, p)}
\* what travels over a data edge: the whole output in graphs; in workflows the harness maps field <source> to field <source>
KeyOf(p) == IF p = START THEN "in" ELSE p
EdgeOuts(f) == IF f.g.mode = "wf" THEN [p \in DOMAIN f.outs |-> [k \in (DOMAIN f.outs[p]) \cap {KeyOf(p)} |-> f.outs[p][k]]] ELSE f.outs
InputD(f, n) == MergeAll(EdgeOuts(f), {p \in DataPreds(f.g, n) : DoneP(f, p) /\ RoutesData(f, p, n)})
\* the all-predecessor frame never enters a terminal expectation: while END is already assembled other due nodes (same batch, or
\* still running in eager mode) may legitimately execute; what the run may return is decided when it returns
DView(f) ==
  IF f.st # "route" THEN f
  ELSE LET rd == ReadyD(f) \ {END} IN [f EXCEPT !.pending = [n \in rd |-> InputD(f, n).v]]

\* Norm: the frame as the rule sees it now (idempotent)
Norm(f) == IF IsDag(f.g) THEN DView(f)
           ELSE IF f.st = "route" /\ PQuiet(f) /\ AllChosenP(f) THEN PAdvance(f) ELSE f
StepLimitHit(f) == ~IsDag(f.g) /\ f.st = "exec" /\ f.fresh /\ f.step > MaxSteps(f.g)
CanExec(f) == IF IsDag(f.g) THEN f.st = "route" ELSE f.st = "exec"
DeadEnd(f) == IF IsDag(f.g) THEN f.st = "route" /\ (END \in Skipped(f) \/ (ReadyD(f) = {} /\ f.running = {} /\ f.aborted = {}))
              ELSE f.st = "expect_stuck"
\* a node whose output stream carries an error item (fault kind "serr") finishes normally; whoever consumes that stream must fail:
\* Poisoned(f, d) = target d (a node or END) was sent the output of such a node
Poisoned(f, d) == IF IsDag(f.g) THEN \E p \in DataPreds(f.g, d) \cap f.tainted : DoneP(f, p) /\ RoutesData(f, p, d)
                  ELSE d \in f.poisonTargets
\* values with a common key meet at a fan-in: the merge, and with it the run, fails
DupDue(f) == IF IsDag(f.g) THEN f.st = "route" /\ \E n \in ReadyD(f) : ~InputD(f, n).ok ELSE f.st = "expect_dup" \/ (f.st = "expect_result" /\ f.dupok)
ResultReady(f) == IF IsDag(f.g) THEN f.st = "route" /\ END \in ReadyD(f) /\ InputD(f, END).ok ELSE f.st = "expect_result"
ResultValue(f) == IF IsDag(f.g) THEN InputD(f, END).v ELSE f.expect
\* a run that has nothing left to execute fails either way; the engine tests the step limit first
LimitAtDeadEnd(f) == ~IsDag(f.g) /\ f.st = "expect_stuck" /\ f.step + 1 > MaxSteps(f.g)
\* after-nodes whose completion must be reported before one of their successors starts: in lock-step mode those of
\* earlier supersteps (a successor running in the SAME superstep was not triggered by them); in all-predecessor mode
\* a successor can only become due once the after-node has finished
Blockers(f) == IF IsDag(f.g) THEN f.afterDue ELSE f.afterBlock

--------------------------------------------------------------------------------
(* The rule as a pure function:  Apply(S, e)  consumes one observation e     *)
(* in rule state S = [g, fr, top] and returns the next rule state.          *)
(* top.bad = "" while the observations are allowed by the properties; the   *)
(* first contradicting observation sets top.bad to the reason and the rest  *)
(* of the case is ignored (top.skip).                                       *)
(* Used by RunObs.tla (observations of REAL runs read from a file) and by   *)
(* EinoRun.tla (observations produced by the implementation-shaped model).  *)

Idle == [g |-> [id |-> ""], fr |-> Empty, top |-> [st |-> "idle", skip |-> FALSE, progress |-> TRUE, bad |-> ""]]
BadS(S, reason) == [S EXCEPT !.top.skip = TRUE, !.top.bad = reason]
SkipS(S) == S.top.skip \/ S.top.st # "run"

OnCase(S, e) == [g |-> e, fr |-> ("" :> NewFrame(e, InitialInput(e))),
                 top |-> [st |-> "run", skip |-> FALSE, progress |-> TRUE, bad |-> ""]]

--------------------------------------------------------------------------------
(* Nested frames (depth 1): prefixes are "" and "<graph node>/"             *)

IsSubPrefix(gg, p) == \E n \in SubNames(gg) : n \o "/" = p
SubNode(gg, p) == CHOOSE n \in SubNames(gg) : n \o "/" = p
PathOf(gg, p) == IF p = "" THEN <<>> ELSE <<SubNode(gg, p)>>

FinishNode(f, n, out0) ==
  LET due == IF n \in IAfter(f.g) THEN f.afterDue \cup {n} ELSE f.afterDue
      ins2 == [x \in (DOMAIN f.ins) \ {n} |-> f.ins[x]]
      out == PostOut(f.g, n, out0)
      pd == IF f.g.state /\ f.g.post THEN f.postDue \cup {n} ELSE f.postDue
      tn == IF n \in GNodes(f.g) /\ FailKind(f.g, n) \in {"serr", "spanic"} THEN f.tainted \cup {n} ELSE f.tainted
  IN IF IsDag(f.g) THEN [f EXCEPT !.status[n] = "done", !.running = f.running \ {n}, !.outs = (n :> out) @@ f.outs,
                                  !.afterDue = due, !.ins = ins2, !.postDue = pd, !.tainted = tn]
     ELSE [f EXCEPT !.running = f.running \ {n}, !.outs = (n :> out) @@ f.outs, !.afterDue = due, !.ins = ins2, !.postDue = pd, !.tainted = tn,
                    !.st = IF DOMAIN f.pending = {} /\ f.running \ {n} = {} /\ f.aborted = {} THEN "route" ELSE f.st]

\* a child whose rule state is expect_result completes the parent's graph node with that value
\* (the child addressed by the current observation is kept: nodes of its last batch may still be reporting)
ChildDone(F, p, keep) == p # "" /\ p # keep /\ ResultReady(Norm(F[p])) /\ Norm(F[p]).running = {} /\ Norm(F[p]).postDue = {}
RECURSIVE Absorb(_, _, _)
Absorb(gg, F, keep) ==
  IF \E p \in DOMAIN F : ChildDone(F, p, keep)
  THEN LET p == CHOOSE q \in DOMAIN F : ChildDone(F, q, keep)
           rest == [q \in (DOMAIN F) \ {p} |-> F[q]]
           n == SubNode(gg, p)
           \* (a graph that is a member of a chain's parallel stage has its result stored under the stage's output key <n>)
           v == IF n \in Range(gg.bare) THEN (n :> ResultValue(Norm(F[p]))) ELSE ResultValue(Norm(F[p]))
       IN Absorb(gg, [rest EXCEPT ![""] = FinishNode(F[""], n, v)], keep)
  ELSE F
\* all frames as the rule sees them now
ViewK(S, keep) == LET F == Absorb(S.g, S.fr, keep) IN [p \in DOMAIN F |-> Norm(F[p])]
View(S) == ViewK(S, "")

\* open the child frame p on its first event: its graph node must be due in the parent
CanOpen(gg, V, p) == /\ IsSubPrefix(gg, p) /\ p \notin DOMAIN V
                     /\ CanExec(V[""]) /\ ~StepLimitHit(V[""]) /\ SubNode(gg, p) \in DOMAIN V[""].pending
StartNode(f, n) ==
  IF IsDag(f.g) THEN [f EXCEPT !.status[n] = "run", !.running = f.running \cup {n}, !.cleared = f.cleared \ {n},
                               !.preDone = f.preDone \ {n}, !.redo = f.redo \ {n}, !.pending = Empty,
                               !.ins = (n :> PreIn(f.g, f.pending[n])) @@ f.ins, !.canceled = f.canceled \/ FailKind(f.g, n) = "cancel"]
  ELSE [f EXCEPT !.pending = [x \in (DOMAIN f.pending) \ {n} |-> f.pending[x]], !.running = f.running \cup {n},
                 !.cleared = f.cleared \ {n}, !.preDone = f.preDone \ {n}, !.redo = f.redo \ {n}, !.fresh = FALSE,
                 !.ins = (n :> PreIn(f.g, f.pending[n])) @@ f.ins, !.canceled = f.canceled \/ FailKind(f.g, n) = "cancel"]
Open(gg, V, p) == LET n == SubNode(gg, p) IN (p :> Norm(NewFrame(SubOf(gg, n), PreIn(V[""].g, V[""].pending[n])))) @@ ("" :> StartNode(V[""], n)) @@ V
\* why a graph node may not start (checked when its frame opens)
OpenWhy(gg, V, p) == LET f == V[""]  n == SubNode(gg, p) IN
  IF n \in IBefore(f.g) /\ n \notin f.cleared THEN "before-node-ran-without-interrupt"
  ELSE IF \E a \in Blockers(f) : n \in Succs(f.g, a) THEN "successor-of-after-node-started"
  ELSE "ok"

--------------------------------------------------------------------------------
(* Node-level observations: pre (state pre-handler), exec / abort (body begins), done (body ends), branch              *)

ExecWhy(f, e, isAbort) == LET n == e.n IN
  IF IsDag(f.g) /\ n \in GNodes(f.g) /\ CtrlPreds(f.g, n) = {} THEN "dag-node-without-control-predecessor-executed"
  ELSE IF ~CanExec(f) THEN "exec-not-expected-in-state-" \o f.st
  ELSE IF StepLimitHit(f) THEN "exec-beyond-step-limit"
  ELSE IF n \notin DOMAIN f.pending THEN (IF IsDag(f.g) /\ n \in GNodes(f.g) /\ f.status[n] # "unk" THEN "node-executed-twice" ELSE "exec-of-node-not-triggered")
  \* (all-predecessor mode: n can only be submitted after c was collected, and the run loop looks at the context before it submits)
  ELSE IF IsDag(f.g) /\ \E c \in CtrlPreds(f.g, n) \cap GNodes(f.g) : FailKind(f.g, c) = "cancel" /\ f.status[c] = "done" THEN "node-started-after-cancellation"
  ELSE IF Poisoned(f, n) THEN "stream-error-item-swallowed"
  ELSE IF PreIn(f.g, f.pending[n]) # e.i THEN "wrong-input"
  ELSE IF \E d \in (IF IsDag(f.g) THEN f.postDue ELSE f.postBlock) : n \in Succs(f.g, d) THEN "successor-started-before-post-handler"
  ELSE IF n \in IBefore(f.g) /\ n \notin f.cleared THEN "before-node-ran-without-interrupt"
  ELSE IF \E a \in Blockers(f) : n \in Succs(f.g, a) THEN "successor-of-after-node-started"
  ELSE IF f.g.state /\ n \notin f.preDone THEN "body-before-pre-handler"
  ELSE IF f.g.state /\ e.st # f.trail THEN "state-trail-mismatch"
  ELSE IF f.g.state /\ e.sx # FreshStateDigest THEN "state-not-carried-unchanged"
  ELSE IF isAbort /\ n \notin RerunNodes(f.g) THEN "abort-of-non-rerun-node"
  ELSE "ok"
AfterAbort(f, n) == [f EXCEPT !.aborted = f.aborted \cup {n}, !.preDone = f.preDone \ {n}, !.redo = f.redo \ {n}, !.fresh = FALSE,
                              !.pending = IF IsDag(f.g) THEN Empty ELSE f.pending]

\* the frames as the rule sees them when an observation addresses frame p of node n: a finished inner run whose graph node is
\* executed again (cycle in the parent) is closed, and the frame of a due graph node is opened by its first observation
Addressed(S, p, n) ==
  LET Vk == ViewK(S, p)
      V0 == IF p # "" /\ p \in DOMAIN Vk /\ ResultReady(Vk[p]) /\ Vk[p].running = {} /\ Vk[p].postDue = {} /\ n \notin DOMAIN Vk[p].pending THEN View(S) ELSE Vk
  IN IF p \in DOMAIN V0 THEN [why |-> "ok", V |-> V0]
     ELSE IF IsSubPrefix(S.g, p) /\ IsDag(S.g) /\ CtrlPreds(S.g, SubNode(S.g, p)) = {} THEN [why |-> "dag-node-without-control-predecessor-executed", V |-> V0]
     ELSE IF ~CanOpen(S.g, V0, p) THEN [why |-> "exec-in-graph-node-not-triggered", V |-> V0]
     ELSE IF OpenWhy(S.g, V0, p) # "ok" THEN [why |-> OpenWhy(S.g, V0, p), V |-> V0]
     ELSE [why |-> "ok", V |-> Open(S.g, V0, p)]

OnNode(S, e, isAbort) ==
  LET p == e.p  A == Addressed(S, p, e.n) IN
  IF A.why # "ok" THEN BadS(S, A.why)
  ELSE LET V == A.V
           f == Norm(V[p])
           why == ExecWhy(f, e, isAbort)
       IN IF why # "ok" THEN BadS(S, why)
          ELSE [S EXCEPT !.fr = [V EXCEPT ![p] = IF isAbort THEN AfterAbort(f, e.n) ELSE StartNode(f, e.n)],
                         !.top.progress = TRUE]

OnPre(S, e) ==
  LET p == e.p  A == Addressed(S, p, e.n)  V == A.V IN
  IF A.why # "ok" THEN BadS(S, A.why)
  ELSE LET f == V[p]  n == e.n IN
       IF ~f.g.state THEN BadS(S, "pre-handler-without-state")
       ELSE IF ~CanExec(f) \/ n \notin DOMAIN f.pending THEN BadS(S, "pre-handler-of-node-not-triggered")
       ELSE IF n \in f.preDone THEN BadS(S, "pre-handler-twice")
       ELSE IF e.rebuilt # (n \in f.redo) THEN BadS(S, "rerun-input-not-rebuilt-from-state")
       ELSE [S EXCEPT !.fr = [V EXCEPT ![p] = [f EXCEPT !.preDone = f.preDone \cup {n},
                                                        !.trail = IF e.rebuilt THEN f.trail ELSE Append(f.trail, n)]]]

\* a critical section on the state of frame p: every one increments the counter it read (no lost update, mutual exclusion, fresh per run)
OnCs(S, e) ==
  LET p == e.p  A == IF e.k = "pre" THEN Addressed(S, p, e.n) ELSE [why |-> IF p \in DOMAIN ViewK(S, p) THEN "ok" ELSE "state-access-in-unknown-frame", V |-> ViewK(S, p)]  V == A.V IN
  IF A.why # "ok" THEN BadS(S, A.why)
  ELSE LET f == V[p] IN
       IF ~f.g.state THEN BadS(S, "state-access-without-state")
       ELSE IF e.seq # f.cs THEN BadS(S, "state-update-lost-or-state-not-fresh")
       ELSE IF e.k = "post" /\ e.n \notin f.postDue THEN BadS(S, "post-handler-not-after-its-node")
       ELSE [S EXCEPT !.fr = [V EXCEPT ![p] = [f EXCEPT !.cs = f.cs + 1, !.postDue = IF e.k = "post" THEN f.postDue \ {e.n} ELSE f.postDue,
                                                        !.postBlock = IF e.k = "post" THEN f.postBlock \ {e.n} ELSE f.postBlock]]]

OnDone(S, e) ==
  LET p == e.p IN
  IF p \notin DOMAIN S.fr THEN BadS(S, "done-in-unknown-frame")
  ELSE LET f == S.fr[p]  n == e.n IN
       IF n \notin f.running THEN BadS(S, "done-of-node-not-running")
       ELSE [S EXCEPT !.fr[p] = FinishNode(f, n, NodeOut(f.g, n, f.ins[n]))]

OnBranch(S, e) ==
  LET p == e.p
      F0 == Absorb(S.g, S.fr, p)
      V0 == [q \in DOMAIN F0 |-> Norm(F0[q])]
      \* a graph node whose inner START has a branch reports that branch first: it opens the frame (kept un-normalised: routing)
      F == IF p \notin DOMAIN F0 /\ CanOpen(S.g, V0, p) /\ OpenWhy(S.g, V0, p) = "ok"
           THEN (p :> NewFrame(SubOf(S.g, SubNode(S.g, p)), PreIn(V0[""].g, V0[""].pending[SubNode(S.g, p)]))) @@ ("" :> StartNode(V0[""], SubNode(S.g, p))) @@ F0
           ELSE F0
  IN
  IF p \notin DOMAIN F THEN BadS(S, "branch-in-unknown-frame")
  ELSE LET f == F[p]  b == e.b IN
       IF b \notin 1..NB(f.g) THEN BadS(S, "unknown-branch")
       ELSE IF BFrom(f.g, b) \notin DOMAIN f.outs THEN BadS(S, "branch-evaluated-before-its-node-finished")
       ELSE IF b \in DOMAIN f.chosen THEN BadS(S, "branch-evaluated-twice")
       ELSE IF f.outs[BFrom(f.g, b)] # e.i THEN BadS(S, "branch-saw-wrong-value")
       ELSE IF ~(Range(e.to) \subseteq BEnds(f.g, b)) THEN BadS(S, "branch-chose-foreign-node")
       ELSE [S EXCEPT !.fr = [F EXCEPT ![p] = [f EXCEPT !.chosen = (b :> Range(e.to)) @@ f.chosen]]]

--------------------------------------------------------------------------------
(* Run-level observations: interrupt, resume, result, error                  *)

ActiveSubs(V, p) == IF p = "" THEN (DOMAIN V) \ {""} ELSE {}
ExpBefore(V, p) == LET f == V[p] IN
  IF f.aborted # {} \/ ActiveSubs(V, p) # {} \/ ~CanExec(f) THEN {}
  ELSE ((DOMAIN f.pending) \cap IBefore(f.g)) \ f.cleared
\* lists of an info record (top-level line or nested entry) against frame p
RECURSIVE InfoWhy(_, _, _, _)
InfoWhy(gg, V, p, info) == LET f == V[p]  subs == {SubNode(gg, q) : q \in ActiveSubs(V, p)} IN
  IF f.running \ subs # {} THEN "interrupt-while-node-running"
  ELSE IF Range(info.rerun) # f.aborted THEN "rerun-list-not-exact"
  ELSE IF Range(info.after) # f.afterDue THEN "after-list-not-exact"
  \* (an interrupt raised by a rerun request or a nested interrupt may or may not know the next tasks yet: it reports the due
  \* before-nodes it is going to restore; whatever it leaves out stays unreported and must not start without a later interrupt)
  ELSE IF (f.aborted # {} \/ ActiveSubs(V, p) # {}) /\ ~(Range(info.before) \subseteq (((DOMAIN f.pending) \cap IBefore(f.g)) \ f.cleared)) THEN "before-list-not-exact"
  ELSE IF f.aborted = {} /\ ActiveSubs(V, p) = {} /\ Range(info.before) # ExpBefore(V, p) THEN "before-list-not-exact"
  ELSE IF DOMAIN info.sub # subs THEN "nested-interrupt-info-not-exact"
  ELSE IF Range(info.before) \cup Range(info.after) \cup Range(info.rerun) \cup DOMAIN info.sub = {} THEN "empty-interrupt"
  \* (a nested graph without state of its own reports the state it inherits from its parent: only the top level is judged)
  ELSE IF p = "" /\ info.hasst # f.g.state THEN "interrupt-info-state-presence"
  ELSE IF p = "" /\ f.g.state /\ (info.st # f.trail \/ info.cnt # f.cs) THEN "interrupt-info-state-mismatch"
  ELSE LET badq == {q \in ActiveSubs(V, p) : InfoWhy(gg, V, q, info.sub[SubNode(gg, q)]) # "ok"} IN
       IF badq # {} THEN (LET q == CHOOSE x \in badq : TRUE IN InfoWhy(gg, V, q, info.sub[SubNode(gg, q)]))
       ELSE "ok"
\* (an aborted attempt of a before-node was already reported and resumed: its re-run needs no second report)
AfterInterrupt(f, info) == [f EXCEPT !.cleared = Range(info.before) \cup (f.aborted \cap IBefore(f.g)), !.afterDue = {}, !.afterBlock = {}, !.aborted = {}, !.redo = f.aborted]
ExpSets(gg) == IF gg.noid THEN <<>> ELSE <<"cp-" \o gg.id>>

\* a graph node that is due may be interrupted before any of its inner nodes ran (interrupt-before at its entry): the report opens its frame
RECURSIVE OpenReported(_, _, _)
OpenReported(gg, V, names) ==
  IF names = {} THEN V
  ELSE LET n == CHOOSE x \in names : TRUE  p == n \o "/" IN
       IF n \in SubNames(gg) /\ CanOpen(gg, V, p) /\ OpenWhy(gg, V, p) = "ok" THEN OpenReported(gg, Open(gg, V, p), names \ {n})
       ELSE OpenReported(gg, V, names \ {n})
OnInterrupt(S, e) ==
  LET V == OpenReported(S.g, View(S), DOMAIN e.sub)  why == InfoWhy(S.g, V, "", e) IN
  IF why # "ok" THEN BadS(S, why)
  ELSE IF ~S.top.progress /\ DOMAIN V = DOMAIN View(S) THEN BadS(S, "interrupt-without-progress")   \* (entering a graph node is progress)
  ELSE IF e.sets # ExpSets(S.g) THEN BadS(S, "checkpoint-not-written-exactly-once-under-the-id")
  ELSE [S EXCEPT !.fr = [p \in DOMAIN V |-> AfterInterrupt(V[p], IF p = "" THEN e ELSE e.sub[SubNode(S.g, p)])],
                 !.top.st = "interrupted", !.top.progress = FALSE]

OnResume(S, e) ==
  IF S.top.st # "interrupted" THEN BadS(S, "resume-without-interrupt")
  ELSE [S EXCEPT !.fr = [p \in DOMAIN S.fr |-> [S.fr[p] EXCEPT !.step = 1,       \* the step limit applies per call
                                                                \* caller-supplied state modification: handed to every graph that is resumed with a state of its own
                                                                !.cs = IF S.fr[p].g.state THEN S.fr[p].cs + e.mod ELSE S.fr[p].cs]],
                 !.top.st = "run"]

EndS(S) == [S EXCEPT !.top.st = "ended"]
OnResult(S, e) ==
  LET f == View(S)[""] IN
  IF ~ResultReady(f) THEN BadS(S, "result-not-expected-in-state-" \o f.st)
  ELSE IF Poisoned(f, END) THEN BadS(S, "stream-error-item-swallowed")
  ELSE IF ResultValue(f) # e.v THEN BadS(S, "wrong-result")
  ELSE IF e.sets # <<>> THEN BadS(S, "checkpoint-written-without-interrupt")
  ELSE EndS(S)

\* failing nodes: running, configured to fail with this kind, as <<prefix, node>>
Failing(V, kind) == UNION {{<<p, n>> : n \in {x \in V[p].running : x \in GNodes(V[p].g) /\ FailKind(V[p].g, x) = kind}} : p \in DOMAIN V}
\* a node whose state pre-handler (it has run: the body has not) or state post-handler is configured to fail
HFail(f, x) == FailKind(f.g, x) = "posterr" \/ (FailKind(f.g, x) = "prerr" /\ x \in f.preDone)
HFailing(V) == UNION {{<<p, n>> : n \in {x \in GNodes(V[p].g) : HFail(V[p], x)}} : p \in DOMAIN V}
\* the error names node x: by its full node path; a failing state pre-handler is reported by the run loop of the graph that owns
\* the node, i.e. under that graph's path with the node key in the message ("run node[k] pre processor fail")
NamesNode(gg, V, e, x) == \/ e.path = PathOf(gg, x[1]) \o <<x[2]>>
                          \/ FailKind(V[x[1]].g, x[2]) = "prerr" /\ e.path = PathOf(gg, x[1]) /\ e.prenode = x[2]
NodeFailing(V) == Failing(V, "err") \cup HFailing(V)
SerrRan(V) == \E p \in DOMAIN V : V[p].tainted # {} \/ V[p].poisonSrc # {}
SpanicRan(V) == \E p \in DOMAIN V : \E n \in V[p].tainted \cup V[p].poisonSrc : FailKind(V[p].g, n) = "spanic"
CancelRan(V) == \E p \in DOMAIN V : V[p].canceled
\* (a node body that recovers from a panic raised inside its own ProcessState callback: the state lock must have been released)
CsPanicIn(V) == \E p \in DOMAIN V : \E n \in GNodes(V[p].g) : FailKind(V[p].g, n) = "cspanic"
HangWhy(V) == IF CsPanicIn(V) THEN "state-access-blocked-after-callback-panic" ELSE "run-hangs"
ErrorWhy(gg, V, e) == LET c == e.class IN
  IF c = "hang" THEN HangWhy(V)
  \* (a panic raised by a lazily evaluated convert function of a node's output stream is only promised to be contained where a
  \* stream-forwarding goroutine evaluates it; when the run loop itself reads that stream the outcome is not judged)
  ELSE IF c = "escaped-panic" THEN (IF SpanicRan(V) THEN "ok" ELSE "panic-escaped-the-run")
  ELSE IF e.sets # <<>> THEN "checkpoint-written-without-interrupt"
  ELSE IF c = "node" THEN
       \* (an error item inside a node's output stream surfaces where it is consumed: the path is not constrained for it)
       (IF ~SerrRan(V) /\ ~\E x \in NodeFailing(V) : NamesNode(gg, V, e, x) THEN "error-names-wrong-node-path"
        ELSE IF ~e.is \/ ~e.as THEN "cause-not-unwrappable"
        ELSE IF ~SerrRan(V) /\ ~\E x \in NodeFailing(V) : e.asnode = x[1] \o x[2] THEN "unwrapped-cause-of-another-node"
        ELSE "ok")
  ELSE IF c = "dup" THEN
       (IF \E p \in DOMAIN V : DupDue(V[p]) THEN "ok" ELSE "merge-error-not-expected")
  ELSE IF c = "panic" THEN
       \* (a panic inside a node's output stream -- lazily converted stream -- surfaces where the stream is consumed)
       (IF ~SerrRan(V) /\ ~\E x \in Failing(V, "panic") : e.path = PathOf(gg, x[1]) \o <<x[2]>> THEN "panic-error-names-wrong-node-path" ELSE "ok")
  ELSE IF c = "maxsteps" THEN
       \* (a chain generates its own node keys: for a lowered chain only the length of the path is compared)
       (IF ~\E p \in DOMAIN V : (StepLimitHit(V[p]) \/ LimitAtDeadEnd(V[p]))
                                 /\ (e.path = PathOf(gg, p) \/ (gg.lower = "chain" /\ Len(e.path) = Len(PathOf(gg, p)))) THEN "max-steps-error-not-expected"
        \* (an interrupt point reached with the last allowed superstep is reported: the resumed call has a step budget of its own)
        ELSE IF \A p \in DOMAIN V : (StepLimitHit(V[p]) \/ LimitAtDeadEnd(V[p])) => (V[p].afterDue # {} \/ ExpBefore(V, p) # {}) THEN "step-limit-error-hides-a-due-interrupt"
        ELSE IF ~e.is THEN "max-steps-sentinel-not-matchable" ELSE "ok")
  \* (the store refused the checkpoint write: the call must fail with that error instead of returning an interrupt nobody can resume)
  \* (whoever has to concatenate a stream without chunks fails: a value-form consumer, handler or branch condition behind an "empty" node)
  ELSE IF c = "emptystream" THEN (IF \E p \in DOMAIN V : \E n \in GNodes(V[p].g) : FailKind(V[p].g, n) = "empty" THEN "ok" ELSE "unexpected-error")
  ELSE IF c = "store" THEN (IF gg.storefail THEN "ok" ELSE "store-error-without-a-refused-write")
  ELSE IF c = "canceled" THEN
       (IF ~CancelRan(V) THEN "canceled-without-cancel" ELSE IF ~e.is THEN "context-error-not-matchable" ELSE "ok")
  ELSE IF c \in {"stuck", "endskipped"} THEN
       (IF \E p \in DOMAIN V : DeadEnd(V[p]) THEN "ok" ELSE "dead-end-error-not-expected-in-state-" \o V[""].st)
  ELSE IF c = "hang" THEN HangWhy(V)
  \* (a panic raised by a lazily evaluated convert function of a node's output stream is only promised to be contained where a
  \* stream-forwarding goroutine evaluates it; when the run loop itself reads that stream the outcome is not judged)
  ELSE IF c = "escaped-panic" THEN (IF SpanicRan(V) THEN "ok" ELSE "panic-escaped-the-run")
  \* (after a panic inside a node's lazily converted output stream the run must fail; which error it fails with is not stated)
  ELSE IF SpanicRan(V) THEN "ok"
  ELSE "unexpected-error"
OnError(S, e) == LET why == ErrorWhy(S.g, View(S), e) IN IF why # "ok" THEN BadS(S, why) ELSE EndS(S)

Apply(S, e) ==
  IF e.ev = "case" THEN OnCase(S, e)
  ELSE IF S.top.skip THEN S
  ELSE IF e.ev = "builderror" THEN [S EXCEPT !.top.st = "ended", !.top.bad = "NOTE:builderror"]
  ELSE IF e.ev \in {"abandon", "giveup"} THEN EndS(S)
  ELSE IF e.ev = "resume" THEN OnResume(S, e)
  ELSE IF e.ev = "result" THEN (IF S.top.st # "run" THEN BadS(S, "result-after-end") ELSE OnResult(S, e))
  ELSE IF e.ev = "error" THEN (IF S.top.st # "run" THEN BadS(S, "error-after-end") ELSE OnError(S, e))
  ELSE IF S.top.st # "run" THEN S                      \* late node events after the run returned are ignored
  ELSE IF e.ev = "exec" THEN OnNode(S, e, FALSE)
  ELSE IF e.ev = "abort" THEN OnNode(S, e, TRUE)
  ELSE IF e.ev = "pre" THEN OnPre(S, e)
  ELSE IF e.ev = "done" THEN OnDone(S, e)
  ELSE IF e.ev = "cs" THEN OnCs(S, e)
  ELSE IF e.ev = "branch" THEN OnBranch(S, e)
  ELSE IF e.ev = "interrupt" THEN OnInterrupt(S, e)
  ELSE BadS(S, "unknown-observation-" \o e.ev)
================================================================================
