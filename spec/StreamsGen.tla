------------------------------- MODULE StreamsGen -------------------------------
(***************************************************************************)
(* Enumerates the reader-tree SHAPES of the C08 universe: up to MaxRoots   *)
(* sources (pipes before arrays), then up to MaxOps operations from        *)
(* {convert, convert-with-skip, Copy(2..MaxFan), Merge(2..MaxFan and the   *)
(* sizes in BigMerge)} applied to open readers, operation depth <=         *)
(* MaxDepth.  Operations are applied in canonical order (non-decreasing    *)
(* largest source id), so every shape is produced by exactly one path.     *)
(* Every connected shape is printed once as <<"CASE", json>>.  Capacities  *)
(* and item sequences are chosen later (Streams.tla Init / the driver).    *)
(***************************************************************************)
EXTENDS StreamsDef, Json
CONSTANTS MaxRoots, MaxOps, MaxDepth, MaxFan, MaxNodes, AllowArray, BigMerge

VARIABLES T, phase, last, nops
gvars == <<T, phase, last, nops>>

Node(k, src, n, idx, skip) == [k |-> k, src |-> src, cap |-> 0, items |-> <<>>, n |-> n, idx |-> idx, skip |-> skip]
RECURSIVE Depth(_, _)
Depth(TT, r) == IF Kd(TT, r) \in {"pipe", "array"} THEN 0
                ELSE IF Kd(TT, r) = "child" THEN Depth(TT, Src1(TT, r))
                ELSE 1 + (CHOOSE m \in {Depth(TT, s) : s \in Range(Src(TT, r))} : \A s \in Range(Src(TT, r)) : Depth(TT, s) <= m)
SetToSeq(S) == LET RECURSIVE F(_)
                   F(X) == IF X = {} THEN <<>> ELSE LET m == CHOOSE x \in X : \A y \in X : x <= y IN <<m>> \o F(X \ {m})
               IN F(S)
MaxOf(S) == CHOOSE x \in S : \A y \in S : y <= x

GenInit == T = <<>> /\ phase = "src" /\ last = 0 /\ nops = 0
AddRoot(k) == /\ phase = "src" /\ Len(T) < MaxRoots
              /\ (k = "pipe" => \A i \in 1..Len(T) : T[i].k = "pipe")
              /\ (k = "array" => AllowArray)
              /\ T' = Append(T, Node(k, <<>>, 0, 0, 0)) /\ UNCHANGED <<phase, last, nops>>
StartOps == phase = "src" /\ Len(T) >= 1 /\ phase' = "op" /\ UNCHANGED <<T, last, nops>>
CanOp(S) == /\ phase = "op" /\ nops < MaxOps /\ S \subseteq Leaves(T) /\ MaxOf(S) >= last
            /\ \A s \in S : Depth(T, s) < MaxDepth
ApplyConv(r, skip) == /\ CanOp({r}) /\ Len(T) + 1 <= MaxNodes
                      /\ T' = Append(T, Node("conv", <<r>>, 0, 0, skip))
                      /\ last' = r /\ nops' = nops + 1 /\ UNCHANGED phase
ApplyCopy(r, n) == /\ CanOp({r}) /\ Len(T) + 1 + n <= MaxNodes
                   /\ T' = T \o <<Node("copy", <<r>>, n, 0, 0)>> \o [i \in 1..n |-> Node("child", <<Len(T) + 1>>, 0, i - 1, 0)]
                   /\ last' = r /\ nops' = nops + 1 /\ UNCHANGED phase
ApplyMerge(S) == /\ CanOp(S) /\ Len(T) + 1 <= MaxNodes
                 /\ T' = Append(T, Node("merge", SetToSeq(S), 0, 0, 0))
                 /\ last' = MaxOf(S) /\ nops' = nops + 1 /\ UNCHANGED phase
GenNext == \/ \E k \in {"pipe", "array"} : AddRoot(k)
           \/ StartOps
           \/ \E r \in Ids(T) : \E sk \in {0, 2} : ApplyConv(r, sk)
           \/ \E r \in Ids(T) : \E n \in 2..MaxFan : ApplyCopy(r, n)
           \/ \E S \in SUBSET Ids(T) : Cardinality(S) \in (2..MaxFan) \cup BigMerge /\ ApplyMerge(S)

Connected == \E x \in Ids(T) : RootsOf(T, x) = Roots(T)
Emit == (phase = "op" /\ Connected) => PrintT(<<"CASE", ToJson([nodes |-> T])>>)
================================================================================
