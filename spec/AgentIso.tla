--------------------------------- MODULE AgentIso ---------------------------------
(***************************************************************************)
(* Implementation-shaped model of ONE compiled ReAct agent (return-directly *)
(* set {trd} configured) called by NC goroutines at once: what is shared by *)
(* construction and what is per call (flow/agent/react/react.go:148-308,    *)
(* compose/graph.go:790-796).                                              *)
(*   shared, read-only after NewAgent: the compiled graph, the stateless   *)
(*       chat model and tools, the closures of the node bodies             *)
(*   per call: the state object made by the state generator when a run     *)
(*       starts (StateMode = "percall"; "shared" models the mutation       *)
(*       "state generated once at compile time"), the values on the edges  *)
(*   closures: the convert closure of buildReturnDirectly assigns `err`,   *)
(*       the NAMED RESULT OF THE CONSTRUCTOR buildReturnDirectly, once per *)
(*       chunk of every call (react.go:257) and reads it (react.go:266):   *)
(*       ErrVar = "ascoded"; "repaired" = `err :=` local to the closure    *)
(*       (fixes/D10-react-return-directly-race.diff).  RdVar = "ctor"      *)
(*       models the mutation "the return-directly call id is kept in a     *)
(*       constructor variable instead of the per-call state".              *)
(* One action per node execution / closure step of a call; all             *)
(* interleavings of the callers.  Every observable step of call k is fed   *)
(* to AgentIsoRule!Apply on k's own rule state (the per-call projection).  *)
(* TLC checks                                                              *)
(*   RuleOK  every call observes exactly what it would observe alone       *)
(*   NoRace  no variable shared by construction is written by one call and *)
(*           accessed by another call whose lifetime overlaps (there is no *)
(*           happens-before between calls of different goroutines)         *)
(***************************************************************************)
EXTENDS AgentIsoRule

CONSTANTS NC,          \* callers 2..3
          Scripts,     \* set of n*10+d codes a caller may use: 0, 10, 11, 20, 21, 22
          StateMode,   \* "percall" | "shared"
          ErrVar,      \* "ascoded" | "repaired"
          RdVar        \* "state" | "ctor"

Callers == 1..NC
Tags == <<"v1k1r1", "v1k2r1", "v1k3r1">>
CaseOf(k, code) == [ev |-> "case", id |-> Tags[k], agent |-> "react", tag |-> Tags[k], n |-> code \div 10, d |-> code % 10, w |-> 0, modifier |-> FALSE]

VARIABLES cs, pc, obj, inp, out, res, msg, S, cerr, crdid, touched, active, overlap, raced
vars == <<cs, pc, obj, inp, out, res, msg, S, cerr, crdid, touched, active, overlap, raced>>

NewObj == [msgs |-> <<>>, rdid |-> ""]
Init == /\ cs \in [Callers -> Scripts]
        /\ pc = [k \in Callers |-> "idle"]
        /\ obj = [o \in 0..NC |-> NewObj]        \* obj[0]: the object a compile-time generator would have made
        /\ inp = [k \in Callers |-> <<>>] /\ out = [k \in Callers |-> Msg("", "")] /\ res = [k \in Callers |-> Msg("", "")]
        /\ msg = [k \in Callers |-> <<>>]
        /\ S = [k \in Callers |-> Idle]
        /\ cerr = "nil" /\ crdid = "" /\ touched = {} /\ active = {} /\ overlap = {} /\ raced = FALSE

C(k) == CaseOf(k, cs[k])
O(k) == IF StateMode = "percall" THEN k ELSE 0

Begin(k) ==
  /\ pc[k] = "idle"
  /\ pc' = [pc EXCEPT ![k] = "chat"]
  /\ active' = active \cup {k}
  /\ overlap' = overlap \cup {{k, j} : j \in active}
  /\ obj' = IF StateMode = "percall" THEN [obj EXCEPT ![k] = NewObj] ELSE obj
  /\ inp' = [inp EXCEPT ![k] = <<UserR(C(k))>>]
  /\ S' = [S EXCEPT ![k] = Apply(Apply(Idle, C(k)), [ev |-> "call", mode |-> "generate"])]
  /\ UNCHANGED <<cs, out, res, msg, cerr, crdid, touched, raced>>

\* the stateless chat model: owner of the first user message, j = tool messages so far
Users == {UserR(C(k)) : k \in Callers}
ModelAnswer(h) ==
  LET us == {i \in 1..Len(h) : h[i] \in Users}
      first == CHOOSE i \in us : \A j \in us : i <= j
      own == CHOOSE k \in Callers : UserR(C(k)) = h[first]
      j == Cardinality({i \in 1..Len(h) : h[i].role = "tool"}) IN
  IF j >= C(own).n THEN FinalR(C(own)) ELSE AsstR(C(own), j + 1)
TagsIn(h) == LET own(m) == {Tags[k] : k \in {x \in Callers : m \in {UserR(C(x)), FinalR(C(x))} \/ \E j \in 1..2 : m \in {AsstR(C(x), j), ToolR(C(x), j)}}} IN
             LET RECURSIVE F(_) F(i) == IF i > Len(h) THEN {} ELSE own(h[i]) \cup F(i + 1) IN F(1)
SeqOf(T) == LET RECURSIVE F(_) F(X) == IF X = {} THEN <<>> ELSE LET x == CHOOSE y \in X : TRUE IN <<x>> \o F(X \ {x}) IN F(T)

Chat(k) ==
  /\ pc[k] = "chat"
  /\ LET h == obj[O(k)].msgs \o inp[k] IN
       /\ obj' = [obj EXCEPT ![O(k)].msgs = h]
       /\ S' = [S EXCEPT ![k] = Apply(@, [ev |-> "mcall", who |-> "chat", input |-> h, tags |-> SeqOf(TagsIn(h))])]
       /\ out' = [out EXCEPT ![k] = ModelAnswer(h)]
  /\ pc' = [pc EXCEPT ![k] = "branch"]
  /\ UNCHANGED <<cs, inp, res, msg, cerr, crdid, touched, active, overlap, raced>>

Finish(T, k) == Apply(Apply(T, [ev |-> "endcall"]), [ev |-> "end"])
Branch(k) ==
  /\ pc[k] = "branch"
  /\ IF Len(out[k].calls) = 0
     THEN /\ S' = [S EXCEPT ![k] = Finish(Apply(@, [ev |-> "answer", msg |-> out[k], tags |-> SeqOf(TagsIn(<<out[k]>>))]), k)]
          /\ pc' = [pc EXCEPT ![k] = "done"] /\ active' = active \ {k}
     ELSE /\ pc' = [pc EXCEPT ![k] = "toolspre"] /\ UNCHANGED <<S, active>>
  /\ UNCHANGED <<cs, obj, inp, out, res, msg, cerr, crdid, touched, overlap, raced>>

RdIdOf(m) == IF m.calls[1].name = "trd" THEN m.calls[1].id ELSE ""
ToolsPre(k) ==
  /\ pc[k] = "toolspre"
  /\ obj' = [obj EXCEPT ![O(k)].msgs = Append(@, out[k]), ![O(k)].rdid = RdIdOf(out[k])]
  /\ crdid' = (IF RdVar = "ctor" THEN RdIdOf(out[k]) ELSE crdid)
  /\ pc' = [pc EXCEPT ![k] = "tool"]
  /\ UNCHANGED <<cs, inp, out, res, msg, S, cerr, touched, active, overlap, raced>>

Tool(k) ==
  /\ pc[k] = "tool"
  /\ LET cl == out[k].calls[1]
         o == cl.name \o "(" \o cl.args \o ")"
         tm == [role |-> "tool", content |-> o, calls |-> <<>>, tcid |-> cl.id] IN
       /\ S' = [S EXCEPT ![k] = Apply(@, [ev |-> "tool", name |-> cl.name, args |-> cl.args, out |-> o, tags |-> SeqOf(TagsIn(<<tm>>))])]
       /\ res' = [res EXCEPT ![k] = tm]
  /\ pc' = [pc EXCEPT ![k] = "rdbranch"]
  /\ UNCHANGED <<cs, obj, inp, out, msg, cerr, crdid, touched, active, overlap, raced>>

RdId(k) == IF RdVar = "ctor" THEN crdid ELSE obj[O(k)].rdid
RdBranch(k) ==
  /\ pc[k] = "rdbranch"
  /\ IF RdId(k) # "" THEN pc' = [pc EXCEPT ![k] = "direct1"] /\ UNCHANGED inp
     ELSE pc' = [pc EXCEPT ![k] = "chat"] /\ inp' = [inp EXCEPT ![k] = <<res[k]>>]
  /\ UNCHANGED <<cs, obj, out, res, msg, S, cerr, crdid, touched, active, overlap, raced>>

\* one access of call k to the constructor's variable `err`
Access(k) == IF ErrVar = "ascoded"
             THEN /\ raced' = (raced \/ \E j \in touched \ {k} : {k, j} \in overlap)
                  /\ touched' = touched \cup {k}
             ELSE UNCHANGED <<raced, touched>>
\* react.go:257  err = compose.ProcessState(...): picks the message whose ToolCallID is the recorded one
Direct1(k) ==
  /\ pc[k] = "direct1"
  /\ msg' = [msg EXCEPT ![k] = IF res[k].tcid = RdId(k) THEN <<res[k]>> ELSE <<>>]
  /\ cerr' = (IF ErrVar = "ascoded" THEN "nil" ELSE cerr)
  /\ Access(k)
  /\ pc' = [pc EXCEPT ![k] = "direct2"]
  /\ UNCHANGED <<cs, obj, inp, out, res, S, crdid, active, overlap>>
\* react.go:266  if err != nil ...; msg == nil => ErrNoValue => the answer stream is empty
Direct2(k) ==
  /\ pc[k] = "direct2"
  /\ Access(k)
  /\ S' = [S EXCEPT ![k] = Finish(Apply(@, IF msg[k] = <<>> THEN [ev |-> "error", text |-> "empty answer stream"]
                                           ELSE [ev |-> "answer", msg |-> msg[k][1], tags |-> SeqOf(TagsIn(msg[k]))]), k)]
  /\ pc' = [pc EXCEPT ![k] = "done"] /\ active' = active \ {k}
  /\ UNCHANGED <<cs, obj, inp, out, res, msg, cerr, crdid, overlap>>

Done == (\A k \in Callers : pc[k] = "done") /\ UNCHANGED vars
Next == (\E k \in Callers : Begin(k) \/ Chat(k) \/ Branch(k) \/ ToolsPre(k) \/ Tool(k) \/ RdBranch(k) \/ Direct1(k) \/ Direct2(k)) \/ Done
Spec == Init /\ [][Next]_vars /\ WF_vars(Next)

RuleOK == \A k \in Callers : S[k].bad = ""
Closed == (\A k \in Callers : pc[k] = "done") => \A k \in Callers : ~S[k].open /\ S[k].ncalls = 1
NoRace == ~raced
================================================================================
