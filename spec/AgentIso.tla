--------------------------------- MODULE AgentIso ---------------------------------
(***************************************************************************)
(* Implementation-shaped model of ONE compiled ReAct agent (return-directly *)
(* set {trd} configured) called by NC goroutines at once: what is shared by *)
(* construction and what is per call (flow/agent/react/react.go:148-308,    *)
(* compose/graph.go:790-796).                                              *)
(*   shared, read-only after NewAgent: the compiled graph, the stateless   *)
(*       chat model and tools, the closures of the node bodies             *)
(*   per call: the state object made by the state generator when a run     *)
(*       starts (StateMode = "percall"; "shared" models the mutation       *)
(*       "state generated once at compile time"), the values on the edges  *)
(*   closures: the convert closure of buildReturnDirectly assigns `err`,   *)
(*       the NAMED RESULT OF THE CONSTRUCTOR buildReturnDirectly, once per *)
(*       chunk of every call (react.go:257) and reads it (react.go:266):   *)
(*       ErrVar = "ascoded"; "repaired" = `err :=` local to the closure    *)
(*       (fixes/D10-react-return-directly-race.diff).  RdVar = "ctor"      *)
(*       models the mutation "the return-directly call id is kept in a     *)
(*       constructor variable instead of the per-call state".              *)
(*   message lists are Go slices: (backing array, len) over a heap of      *)
(*       arrays with spare capacity.  InputMode = "sharedcap": all callers *)
(*       pass the SAME input slice (len 1, spare capacity) and the same    *)
(*       user message (the conversation tag travels in the context);       *)
(*       "own": every caller has its own input array (also with spare      *)
(*       capacity).  HistMode = "copy": the model pre-handler appends the  *)
(*       input to the run's own history array (react.go:191); "adopt" =    *)
(*       the seeded defect `state.Messages = input` on the first round, so *)
(*       later rounds append into the caller's backing array.              *)
(* One action per node execution / closure step of a call; all             *)
(* interleavings of the callers.  Every observable step of call k is fed   *)
(* to AgentIsoRule!Apply on k's own rule state (the per-call projection).  *)
(* TLC checks                                                              *)
(*   RuleOK  every call observes exactly what it would observe alone       *)
(*   NoRace  no variable shared by construction is written by one call and *)
(*           accessed by another call whose lifetime overlaps (there is no *)
(*           happens-before between calls of different goroutines)         *)
(***************************************************************************)
EXTENDS AgentIsoRule

CONSTANTS NC,          \* callers 2..3
          Scripts,     \* set of n*10+d codes a caller may use: 0, 10, 11, 20, 21, 22
          StateMode,   \* "percall" | "shared"
          ErrVar,      \* "ascoded" | "repaired"
          RdVar,       \* "state" | "ctor"
          InputMode,   \* "own" | "sharedcap"
          HistMode,    \* "copy" | "adopt"
          HistAlloc,   \* "perrun" | "once": the history array of a run is made by the state generator of the run (react.go:186-188), or
                       \* allocated once in NewAgent and handed to every run at length 0 (seeded defect: overlapping runs share it)
          ToolsVar     \* "percall" | "node": where the tool set of a caller that passes WithToolList lives (tool_node.go:277-285);
                       \* "node" = the seeded defect "the per-call tool list is saved on the ToolsNode"; callers with an even number pass one

Callers == 1..NC
Tags == <<"v1k1r1", "v1k2r1", "v1k3r1">>
UserOf(k, code) == IF InputMode = "sharedcap" THEN "q|shared" ELSE "q|" \o Tags[k] \o "|" \o ToString(code \div 10) \o "|" \o ToString(code % 10)
CaseOf(k, code) == [ev |-> "case", id |-> Tags[k], agent |-> "react", tag |-> Tags[k], user |-> UserOf(k, code), n |-> code \div 10, d |-> code % 10,
                    w |-> 0, modifier |-> FALSE, alt |-> (k % 2 = 0)]

\* heap of arrays: 0 the callers' shared input array, 1..NC the history arrays made by the state generator per run, NC+1 the
\* history array a compile-time generator would have made, NC+1+k caller k's own input array
Cap == 6
Null == Msg("", "")
Arrs == 0..(2 * NC + 1)
InArr(k) == IF InputMode = "sharedcap" THEN 0 ELSE NC + 1 + k
Blank == [i \in 1..Cap |-> Null]

VARIABLES cs, pc, heap, obj, inp, out, res, msg, S, cerr, crdid, nodealt, touched, active, overlap, raced
vars == <<cs, pc, heap, obj, inp, out, res, msg, S, cerr, crdid, nodealt, touched, active, overlap, raced>>

NewObj(a) == [arr |-> (IF HistAlloc = "once" THEN NC + 1 ELSE a), len |-> 0, rdid |-> ""]
C(k) == CaseOf(k, cs[k])
Init == /\ cs \in [Callers -> Scripts]
        /\ pc = [k \in Callers |-> "idle"]
        /\ heap = [a \in Arrs |-> IF a = 0 \/ a > NC + 1 THEN [Blank EXCEPT ![1] = Msg("user", UserOf(IF a = 0 THEN 1 ELSE a - NC - 1, CHOOSE x \in Scripts : TRUE))]
                                  ELSE Blank]
        /\ obj = [o \in 0..NC |-> NewObj(IF o = 0 THEN NC + 1 ELSE o)]
        /\ inp = [k \in Callers |-> <<>>] /\ out = [k \in Callers |-> Null] /\ res = [k \in Callers |-> Null]
        /\ msg = [k \in Callers |-> <<>>]
        /\ S = [k \in Callers |-> Idle]
        /\ cerr = "nil" /\ crdid = "" /\ nodealt = FALSE /\ touched = [v \in {"err", "input", "tools"} |-> {}] /\ active = {} /\ overlap = {} /\ raced = FALSE

O(k) == IF StateMode = "percall" THEN k ELSE 0
Read(h, sl) == SubSeq(h[sl.arr], 1, sl.len)
\* append(slice, ms...): the cells behind len are written in place (the capacity always suffices here)
Put(h, sl, ms) == [h EXCEPT ![sl.arr] = [i \in 1..Cap |-> IF i > sl.len /\ i <= sl.len + Len(ms) THEN ms[i - sl.len] ELSE @[i]]]

\* an unsynchronised access of call k to a variable shared by construction ("err") or to the callers' shared array ("input")
Touch(v, k) == /\ raced' = (raced \/ \E j \in touched[v] \ {k} : {k, j} \in overlap)
               /\ touched' = [touched EXCEPT ![v] = @ \cup {k}]

Begin(k) ==
  /\ pc[k] = "idle"
  /\ pc' = [pc EXCEPT ![k] = "chat"]
  /\ active' = active \cup {k}
  /\ overlap' = overlap \cup {{k, j} : j \in active}
  /\ obj' = IF StateMode = "percall" THEN [obj EXCEPT ![k] = NewObj(k)] ELSE obj
  /\ heap' = [heap EXCEPT ![k] = (IF HistAlloc = "once" THEN @ ELSE Blank), ![InArr(k)] = IF InputMode = "own" THEN [Blank EXCEPT ![1] = UserR(C(k))] ELSE @]
  /\ inp' = [inp EXCEPT ![k] = <<>>]        \* first round: the input is the caller's slice (InArr(k), len 1)
  /\ S' = [S EXCEPT ![k] = Apply(Apply(Idle, C(k)), [ev |-> "call", mode |-> "generate"])]
  /\ UNCHANGED <<cs, out, res, msg, cerr, crdid, nodealt, touched, raced>>

\* the stateless chat model: the conversation is the one of the tag carried by the context, j = tool messages so far
ModelAnswer(k, h) ==
  LET j == Cardinality({i \in 1..Len(h) : h[i].role = "tool"}) IN
  IF j >= C(k).n THEN FinalR(C(k)) ELSE AsstR(C(k), j + 1)
TagsIn(h) == LET own(m) == {Tags[k] : k \in {x \in Callers : m = FinalR(C(x)) \/ \E j \in 1..2 : m \in {AsstR(C(x), j), ToolR(C(x), j)}}} IN
             LET RECURSIVE F(_) F(i) == IF i > Len(h) THEN {} ELSE own(h[i]) \cup F(i + 1) IN F(1)
SeqOf(T) == LET RECURSIVE F(_) F(X) == IF X = {} THEN <<>> ELSE LET x == CHOOSE y \in X : TRUE IN <<x>> \o F(X \ {x}) IN F(T)

\* react.go:190-200, the model pre-handler
Chat(k) ==
  /\ pc[k] = "chat"
  /\ LET o == obj[O(k)]
         first == inp[k] = <<>>
         insl == [arr |-> InArr(k), len |-> 1]
         adopt == first /\ HistMode = "adopt" /\ o.len = 0
         ms == IF first THEN Read(heap, insl) ELSE inp[k]
         sl2 == IF adopt THEN insl ELSE [arr |-> o.arr, len |-> o.len + Len(ms)]
         h2 == IF adopt THEN heap ELSE Put(heap, o, ms)
         hist == Read(h2, sl2) IN
       /\ heap' = h2
       /\ obj' = [obj EXCEPT ![O(k)].arr = sl2.arr, ![O(k)].len = sl2.len]
       /\ S' = [S EXCEPT ![k] = Apply(@, [ev |-> "mcall", who |-> "chat", input |-> hist, tags |-> SeqOf(TagsIn(hist))])]
       /\ out' = [out EXCEPT ![k] = ModelAnswer(k, hist)]
       /\ IF o.arr = 0 /\ ~first THEN Touch("input", k) ELSE UNCHANGED <<raced, touched>>
  /\ pc' = [pc EXCEPT ![k] = "branch"]
  /\ UNCHANGED <<cs, inp, res, msg, cerr, crdid, nodealt, active, overlap>>

\* what the caller finds in its input slice afterwards
InputEv(k) == LET a == heap[InArr(k)] IN
              [ev |-> "input", first |-> a[1], beyond |-> SelectSeq(SubSeq(a, 2, Cap), LAMBDA m : m # Null)]
Finish(T, k) == Apply(Apply(Apply(T, [ev |-> "endcall"]), InputEv(k)), [ev |-> "end"])
Branch(k) ==
  /\ pc[k] = "branch"
  /\ IF Len(out[k].calls) = 0
     THEN /\ S' = [S EXCEPT ![k] = Finish(Apply(@, [ev |-> "answer", msg |-> out[k], tags |-> SeqOf(TagsIn(<<out[k]>>))]), k)]
          /\ pc' = [pc EXCEPT ![k] = "done"] /\ active' = active \ {k}
     ELSE /\ pc' = [pc EXCEPT ![k] = "toolspre"] /\ UNCHANGED <<S, active>>
  /\ UNCHANGED <<cs, heap, obj, inp, out, res, msg, cerr, crdid, nodealt, touched, overlap, raced>>

RdIdOf(m) == IF m.calls[1].name = "trd" THEN m.calls[1].id ELSE ""
\* react.go:210-214, the tools pre-handler
ToolsPre(k) ==
  /\ pc[k] = "toolspre"
  /\ LET o == obj[O(k)] IN
       /\ heap' = Put(heap, o, <<out[k]>>)
       /\ obj' = [obj EXCEPT ![O(k)].len = o.len + 1, ![O(k)].rdid = RdIdOf(out[k])]
       /\ IF o.arr = 0 THEN Touch("input", k) ELSE UNCHANGED <<raced, touched>>
  /\ crdid' = (IF RdVar = "ctor" THEN RdIdOf(out[k]) ELSE crdid)
  /\ pc' = [pc EXCEPT ![k] = "tool"]
  /\ UNCHANGED <<cs, inp, out, res, msg, S, cerr, nodealt, active, overlap>>

\* tool_node.go:274-305: the tool set is the call option's list if given, else the configured one
Tool(k) ==
  /\ pc[k] = "tool"
  /\ LET cl == out[k].calls[1]
         usealt == IF ToolsVar = "percall" THEN C(k).alt ELSE (C(k).alt \/ nodealt)
         o == (IF usealt THEN "alt:" ELSE "") \o cl.name \o "(" \o cl.args \o ")"
         tm == [role |-> "tool", content |-> o, calls |-> <<>>, tcid |-> cl.id] IN
       /\ S' = [S EXCEPT ![k] = Apply(@, [ev |-> "tool", name |-> cl.name, args |-> cl.args, out |-> o, tags |-> SeqOf(TagsIn(<<tm>>))])]
       /\ res' = [res EXCEPT ![k] = tm]
  /\ nodealt' = (IF ToolsVar = "node" /\ C(k).alt THEN TRUE ELSE nodealt)
  /\ IF ToolsVar = "node" THEN Touch("tools", k) ELSE UNCHANGED <<raced, touched>>
  /\ pc' = [pc EXCEPT ![k] = "rdbranch"]
  /\ UNCHANGED <<cs, heap, obj, inp, out, msg, cerr, crdid, active, overlap>>

RdId(k) == IF RdVar = "ctor" THEN crdid ELSE obj[O(k)].rdid
RdBranch(k) ==
  /\ pc[k] = "rdbranch"
  /\ IF RdId(k) # "" THEN pc' = [pc EXCEPT ![k] = "direct1"] /\ UNCHANGED inp
     ELSE pc' = [pc EXCEPT ![k] = "chat"] /\ inp' = [inp EXCEPT ![k] = <<res[k]>>]
  /\ UNCHANGED <<cs, heap, obj, out, res, msg, S, cerr, crdid, nodealt, touched, active, overlap, raced>>

Access(k) == IF ErrVar = "ascoded" THEN Touch("err", k) ELSE UNCHANGED <<raced, touched>>
\* react.go:257  err = compose.ProcessState(...): picks the message whose ToolCallID is the recorded one
Direct1(k) ==
  /\ pc[k] = "direct1"
  /\ msg' = [msg EXCEPT ![k] = IF res[k].tcid = RdId(k) THEN <<res[k]>> ELSE <<>>]
  /\ cerr' = (IF ErrVar = "ascoded" THEN "nil" ELSE cerr)
  /\ Access(k)
  /\ pc' = [pc EXCEPT ![k] = "direct2"]
  /\ UNCHANGED <<cs, heap, obj, inp, out, res, S, crdid, nodealt, active, overlap>>
\* react.go:266  if err != nil ...; msg == nil => ErrNoValue => the answer stream is empty
Direct2(k) ==
  /\ pc[k] = "direct2"
  /\ Access(k)
  /\ S' = [S EXCEPT ![k] = Finish(Apply(@, IF msg[k] = <<>> THEN [ev |-> "error", text |-> "empty answer stream"]
                                           ELSE [ev |-> "answer", msg |-> msg[k][1], tags |-> SeqOf(TagsIn(msg[k]))]), k)]
  /\ pc' = [pc EXCEPT ![k] = "done"] /\ active' = active \ {k}
  /\ UNCHANGED <<cs, heap, obj, inp, out, res, msg, cerr, crdid, nodealt, overlap>>

Done == (\A k \in Callers : pc[k] = "done") /\ UNCHANGED vars
Next == (\E k \in Callers : Begin(k) \/ Chat(k) \/ Branch(k) \/ ToolsPre(k) \/ Tool(k) \/ RdBranch(k) \/ Direct1(k) \/ Direct2(k)) \/ Done
Spec == Init /\ [][Next]_vars /\ WF_vars(Next)

RuleOK == \A k \in Callers : S[k].bad = ""
Closed == (\A k \in Callers : pc[k] = "done") => \A k \in Callers : ~S[k].open /\ S[k].ncalls = 1
NoRace == ~raced
================================================================================
