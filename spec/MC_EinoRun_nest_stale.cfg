CONSTANTS
  Mode = "pregel"
  N = 2
  MaxEdges = 3
  MaxBr = 1
  D = 2
  MaxMarks = 1
  AllowRerun = FALSE
  AllowFail = FALSE
  AllowMulti = FALSE
  MaxChoice = {3}
  MaxEnds = 2
  AllowOrphans = FALSE
  AllowDup = FALSE
  StartCheck = TRUE
  MaxCalls = 3
  SubNode = "b"
  InnerBefore = TRUE
  InnerAfter = FALSE
  StaleForward = TRUE
INIT Init
NEXT Next
INVARIANT RuleHolds
INVARIANT StepBound
CHECK_DEADLOCK FALSE
