------------------------------- MODULE BuildObs -------------------------------
(***************************************************************************)
(* Trace validation of OBSERVATIONS OF THE REAL BUILDER (and of runs of    *)
(* the graphs it accepts) against the property-level rule of BuildRule.tla *)
(* (C07, C20).  One state per trace line; the spec is total: a line that   *)
(* contradicts a property prints <<"BAD", case id, line, reason, detail>>  *)
(* and the rest of that case is skipped, so one TLC run reports every      *)
(* violating case of a concatenated trace.                                 *)
(***************************************************************************)
EXTENDS BuildRule

Trace == ndJsonDeserialize("trace.ndjson")
ASSUME TLCSet(1, 0)

VARIABLES l, S
vars == <<l, S>>

Open(T) == T.st \notin {"idle", "ended"} /\ ~T.skip
Init == l = 1 /\ S = Idle
Next == /\ l <= Len(Trace)
        /\ l' = l + 1
        /\ LET e == Trace[l]  T == Apply(S, e) IN
             /\ S' = T
             \* a case whose lines stop short (no end line) is rejected too
             /\ (e.ev = "case" /\ Open(S)) => PrintT(<<"BAD", S.id, l - 1, "observation-lines-missing", "">>)
             /\ (l = Len(Trace) /\ Open(T)) => PrintT(<<"BAD", T.id, l, "observation-lines-missing", "">>)
             /\ (T.bad # "" /\ (S.bad = "" \/ e.ev = "case")) => PrintT(<<"BAD", T.id, l, T.bad, T.det>>)
Spec == Init /\ [][Next]_vars

HW == TLCSet(1, Max2(l, TLCGet(1)))
Post == PrintT(<<"HW", TLCGet(1)>>)
================================================================================
