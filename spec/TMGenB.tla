-------------------------------- MODULE TMGenB -------------------------------
(***************************************************************************)
(* Case generator for the engine-level part of C03 (completion-order       *)
(* independence).  Enumerates, exhaustively inside the bounds,              *)
(*    acyclic graphs with parallel nodes (edges, then branches with a      *)
(*    statically chosen selection, both grown in canonical order)          *)
(*  x execution mode  dag (batch, all-predecessor) | pregel (batch,        *)
(*                    any-predecessor, layered graphs, no branches) |      *)
(*                    wf (eager)                                           *)
(*  x failing node (none | one END-feeding node returns an error | panics) *)
(* and for each of them EVERY completion order of the node bodies that the *)
(* mode allows (over the nodes that run: a branch skips what it does not   *)
(* select):                                                                *)
(*    batch: a node finishes after all nodes of earlier supersteps;        *)
(*           within a superstep every permutation                          *)
(*    eager: every linear extension of the dependency order                *)
(* plus, for batch graphs, the probes (hold b while a node c of a later    *)
(* superstep that does not depend on b could already run).                 *)
(* Which nodes run, their superstep and their dependencies are the         *)
(* definitions of the rule module TMConf (RunsOf, LevelOf, DepOf), applied *)
(* to the graph record that is emitted.  Each graph is printed once as     *)
(* <<"CASE", json>>; only the configuration is carried -- what must be     *)
(* observed is decided by TMConf.tla.                                      *)
(***************************************************************************)
EXTENDS Naturals, Sequences, FiniteSets, TLC, Json

CONSTANTS Mode,          \* "dag" | "pregel" | "wf"
          N,             \* number of nodes, 2..4
          MaxEdges,
          MaxBr,         \* number of branches (0..2), at most one per source node, two ends each
          FailKinds,     \* subset of {"err", "panic"}: one END-feeding node may fail this way (the empty choice is always included)
          AllowDangling  \* wf: nodes that nothing consumes (executions the run does not wait for)

C == INSTANCE TMConf

AllNames == <<"a", "b", "c", "d">>
Nodes == {AllNames[i] : i \in 1..N}
START == "start"
END == "end"
Ord(n) == CASE n = START -> 0 [] n = "a" -> 1 [] n = "b" -> 2 [] n = "c" -> 3 [] n = "d" -> 4 [] n = END -> 9
EdgeU == {e \in (Nodes \cup {START}) \X (Nodes \cup {END}) : Ord(e[1]) < Ord(e[2]) /\ ~(e[1] = START /\ e[2] = END)}
ERank(e) == Ord(e[1]) * 10 + Ord(e[2])
SetCode(E) == (IF "a" \in E THEN 1 ELSE 0) + (IF "b" \in E THEN 2 ELSE 0) + (IF "c" \in E THEN 4 ELSE 0) + (IF "d" \in E THEN 8 ELSE 0) + (IF END \in E THEN 16 ELSE 0)
BranchU == {b \in [from : Nodes \cup {START}, ends : SUBSET (Nodes \cup {END}), sel : SUBSET (Nodes \cup {END})] :
              /\ Cardinality(b.ends) = 2 /\ b.sel # {} /\ b.sel \subseteq b.ends
              /\ \A e \in b.ends : Ord(b.from) < Ord(e)}
BRank(b) == (Ord(b.from) * 32 + SetCode(b.ends)) * 32 + SetCode(b.sel)

VARIABLES phase, edges, brs, fail
vars == <<phase, edges, brs, fail>>

Init == phase = "e" /\ edges = {} /\ brs = {} /\ fail = <<>>

MaxOf(S, R(_)) == IF S = {} THEN 0 ELSE CHOOSE m \in {R(x) : x \in S} : \A y \in S : R(y) <= m
AddEdge(e) == /\ phase = "e" /\ Cardinality(edges) < MaxEdges /\ ERank(e) > MaxOf(edges, ERank)
              /\ edges' = edges \cup {e} /\ UNCHANGED <<phase, brs, fail>>
ToBranches == /\ phase = "e" /\ MaxBr > 0 /\ phase' = "b" /\ UNCHANGED <<edges, brs, fail>>
AddBranch(b) == /\ phase = "b" /\ Cardinality(brs) < MaxBr /\ BRank(b) > MaxOf(brs, BRank)
                /\ ~\E x \in brs : x.from = b.from
                /\ ~\E x \in edges : x[1] = b.from /\ x[2] \in b.ends
                /\ brs' = brs \cup {b} /\ UNCHANGED <<phase, edges, fail>>

SeqOfSet(S, R(_)) == LET RECURSIVE F(_)
                         F(T) == IF T = {} THEN <<>> ELSE LET x == CHOOSE y \in T : \A z \in T : R(y) <= R(z) IN <<x>> \o F(T \ {x})
                     IN F(S)
NodeSeq == SeqOfSet(Nodes, Ord)
EdgeSeq == [i \in 1..Cardinality(edges) |-> LET e == SeqOfSet(edges, ERank)[i] IN <<e[1], e[2]>>]
BrSeq == [i \in 1..Cardinality(brs) |-> LET b == SeqOfSet(brs, BRank)[i] IN
            [from |-> b.from, ends |-> SeqOfSet(b.ends, Ord), sel |-> SeqOfSet(b.sel, Ord)]]
\* the graph as the rule module sees it
G == [mode |-> Mode, nodes |-> NodeSeq, edges |-> EdgeSeq, branches |-> BrSeq]

Preds(n) == {e[1] : e \in {x \in edges : x[2] = n}} \cup {b.from : b \in {x \in brs : n \in x.ends}}      \* = C!CtrlPreds(G, n)
Succs(n) == {m \in Nodes \cup {END} : n \in Preds(m)}
\* (the operators below take the graph record as a parameter so that it is built once per evaluation)
ParallelG(g) == LET run == C!RunSet(g)  dep == [n \in run |-> C!DepOf(g, n)] IN \E x, y \in run : x # y /\ x \notin dep[y] /\ y \notin dep[x]
LayeredG(g) == \A n \in Nodes \cup {END} : \A p, q \in Preds(n) : C!LevelOf(g, p) = C!LevelOf(g, q)
WellFormedG(g) ==
  /\ \A n \in Nodes : Preds(n) # {}
  /\ Preds(END) # {}
  /\ \A n \in Nodes : Succs(n) # {} \/ (Mode = "wf" /\ AllowDangling)
  /\ (phase = "b" => brs # {})                  \* graphs without a branch are finished from the edge phase
  /\ (Mode = "wf" => (\E e \in edges : e[1] = START) /\ (\E e \in edges : e[2] = END))   \* a workflow needs a direct start and end dependency
  /\ (Mode = "pregel" => brs = {})
  /\ C!RunsOf(g, END)
  /\ (Mode = "wf" /\ AllowDangling => C!DepOf(g, END) # {})
  /\ ParallelG(g)
  /\ (Mode = "pregel" => LayeredG(g))
WellFormed == WellFormedG(G)
EndFeed == C!DepOf(G, END)

Fails == {<<>>} \cup {<<[n |-> n, kind |-> k]>> : n \in EndFeed, k \in FailKinds}
Finish == /\ phase \in {"e", "b"} /\ WellFormed
          /\ \E f \in Fails : fail' = f
          /\ phase' = "done" /\ UNCHANGED <<edges, brs>>
Next == (\E e \in EdgeU : AddEdge(e)) \/ ToBranches \/ (\E b \in BranchU : AddBranch(b)) \/ Finish
Spec == Init /\ [][Next]_vars

\* ---- completion orders ----
Batch == Mode \in {"dag", "pregel"}
\* dep / lev are the rule's DepOf / LevelOf tabulated once per graph (functions over the running nodes)
PrecT(dep, lev, x, y) == IF Batch THEN lev[x] < lev[y] ELSE x \in dep[y]
RECURSIVE LinExtT(_, _, _)
LinExtT(dep, lev, S) == IF S = {} THEN {<<>>}
                        ELSE UNION {{<<x>> \o s : s \in LinExtT(dep, lev, S \ {x})} : x \in {m \in S : \A y \in S : ~PrecT(dep, lev, y, m)}}
CaseG(g) == LET run == C!RunSet(g)
                dep == [n \in run |-> C!DepOf(g, n)]
                lev == [n \in run |-> C!LevelOf(g, n)]
                failing == {f.n : f \in {fail[i] : i \in 1..Len(fail)}}
            IN [mode |-> Mode, nodes |-> g.nodes, edges |-> g.edges, branches |-> g.branches, fail |-> fail,
                orders |-> LinExtT(dep, lev, run),
                probes |-> IF ~Batch THEN {} ELSE {<<b, c>> \in run \X run : lev[c] > lev[b] /\ b \notin dep[c] /\ b \notin failing}]
Case == CaseG(G)
Emit == phase = "done" => PrintT(<<"CASE", ToJson(Case)>>)
================================================================================
