------------------------------- MODULE StreamRun -------------------------------
(***************************************************************************)
(* C19: a finished streaming run leaves no blocked producer or goroutine.  *)
(*                                                                         *)
(* Part 1 (GenNext): enumerates the SCENARIO SHAPES of the property's scope:  *)
(* acyclic graphs on N nodes (edges grown in canonical order) run in       *)
(* all-predecessor mode ("dag", "wf") or layered graphs that reach END     *)
(* with nothing else scheduled in any-predecessor mode ("pregel"); every   *)
(* node is a streaming producer "S" (Pipe + writer goroutine), a stream    *)
(* transformer "T" (reads its input stream chunk-wise, writes its own      *)
(* Pipe) or a value node "V"; optionally up to MaxBr stream branches on    *)
(* one node (overlapping end sets: several may select the same target),    *)
(* each reading only a prefix of its input.  Every produced value has a consumer: every node *)
(* has a successor, a branch target is fed by the branch only and leads to *)
(* END.  Secondary dimensions (capacities, chunk counts, output keys,      *)
(* callback handlers closing / draining their copies, where the caller     *)
(* stops reading, an error chunk in a chain) are spread by VERIF_SEED.     *)
(*                                                                         *)
(* Part 2 (Apply): the PROPERTY-LEVEL rule for the lifecycle trace that    *)
(* harness/compose/zz_verif_leak_test.go records of a real run:            *)
(*   start n / send n i closed / fin n how   producer lifecycle            *)
(*   caller read eof err                      the caller read `read`       *)
(*                                            chunks, saw EOF or closed    *)
(*   settled timeout blocked                  bounded wait for producers   *)
(*   dump parked                              goroutines still parked with *)
(*                                            frames in eino/schema,       *)
(*                                            eino/compose or a producer   *)
(* At quiescence (after `caller`): every started producer has finished --  *)
(* having sent all its chunks ("done": its stream was drained or its       *)
(* reader gone with room left) or having been told closed ("told") -- and  *)
(* no framework or producer goroutine is still parked.  A producer that    *)
(* keeps sending after it was told, a `done` with fewer chunks than        *)
(* configured, or a send after `fin` make the trace malformed (harness     *)
(* contract), a settling timeout without a parked goroutine is a NOTE      *)
(* (inconclusive), never a violation.                                      *)
(***************************************************************************)
EXTENDS Naturals, Sequences, FiniteSets, TLC, Json

CONSTANTS N, MaxEdges, Mode, AllowBranch,
          MaxBr        \* up to MaxBr stream branches, all on ONE node, end sets may overlap (two branches may select the same target)
Names == <<"a", "b", "c", "d">>
Nodes == {Names[i] : i \in 1..N}
START == "start"
END == "end"
Ord(n) == CASE n = START -> 0 [] n = "a" -> 1 [] n = "b" -> 2 [] n = "c" -> 3 [] n = "d" -> 4 [] n = END -> 9
EdgeU == {e \in (Nodes \cup {START}) \X (Nodes \cup {END}) : Ord(e[1]) < Ord(e[2]) /\ ~(e[1] = START /\ e[2] = END)}
ERank(e) == Ord(e[1]) * 10 + Ord(e[2])
BranchU == {b \in [from : Nodes, ends : SUBSET (Nodes \cup {END})] :
              /\ Cardinality(b.ends) = 2 /\ \A x \in b.ends : Ord(b.from) < Ord(x)
              /\ (Mode = "pregel" => END \notin b.ends)}

VARIABLES phase, edges, br, kinds
gvars == <<phase, edges, br, kinds>>
GenInit == phase = "e" /\ edges = {} /\ br = <<>> /\ kinds = <<>>
MaxRank == IF edges = {} THEN 0 ELSE CHOOSE m \in {ERank(x) : x \in edges} : \A y \in edges : ERank(y) <= m
AddEdge(e) == /\ phase = "e" /\ Cardinality(edges) < MaxEdges /\ ERank(e) > MaxRank
              /\ edges' = edges \cup {e} /\ UNCHANGED <<phase, br, kinds>>
EndsRank(E) == (IF "a" \in E THEN 1 ELSE 0) + (IF "b" \in E THEN 2 ELSE 0) + (IF "c" \in E THEN 4 ELSE 0) + (IF "d" \in E THEN 8 ELSE 0)
               + (IF END \in E THEN 16 ELSE 0)
\* further branches go on the node that already carries one, in non-decreasing order of their end sets (canonical)
AddBranch(b) == /\ phase \in {"e", "b"} /\ AllowBranch /\ Len(br) < MaxBr
                /\ (br # <<>> => b.from = br[1].from /\ EndsRank(b.ends) >= EndsRank(br[Len(br)].ends))
                /\ ~\E e \in edges : e[1] = b.from /\ e[2] \in b.ends
                /\ br' = Append(br, b) /\ phase' = "b" /\ UNCHANGED <<edges, kinds>>
BrEnds == UNION {br[i].ends : i \in 1..Len(br)}
BrFrom == IF br = <<>> THEN "" ELSE br[1].from
Preds(n) == {e[1] : e \in {x \in edges : x[2] = n}} \cup (IF n \in BrEnds THEN {BrFrom} ELSE {})
Succs(n) == {e[2] : e \in {x \in edges : x[1] = n}} \cup (IF n = BrFrom THEN BrEnds ELSE {})
\* depth in any-predecessor mode: defined only when all predecessors agree
RECURSIVE Depth(_)
Depth(n) == IF n = START THEN 0
            ELSE LET D == {Depth(p) : p \in Preds(n)} IN IF Cardinality(D) = 1 /\ 99 \notin D THEN (CHOOSE d \in D : TRUE) + 1 ELSE 99
Layered == /\ Depth(END) # 99
           /\ \A n \in Nodes : Depth(n) # 99 /\ Depth(n) < Depth(END)
WellFormed == /\ \A n \in Nodes : Preds(n) # {} /\ Succs(n) # {}
              /\ Succs(START) # {} /\ Preds(END) # {}
              /\ \A t \in BrEnds \ {END} : Preds(t) = {BrFrom} /\ Succs(t) = {END}
              /\ (Mode = "pregel" => Layered)
Finish == /\ phase \in {"e", "b"} /\ WellFormed
          /\ \E k \in [Nodes -> {"S", "T", "V"}] : kinds' = k
          /\ phase' = "done" /\ UNCHANGED <<edges, br>>
GenNext == (\E e \in EdgeU : AddEdge(e)) \/ (\E b \in BranchU : AddBranch(b)) \/ Finish
SeqOf(S, R(_)) == LET RECURSIVE F(_)
                      F(X) == IF X = {} THEN <<>> ELSE LET m == CHOOSE x \in X : \A y \in X : R(x) <= R(y) IN <<m>> \o F(X \ {m})
                  IN F(S)
Emit == phase = "done" =>
          PrintT(<<"CASE", ToJson([mode |-> Mode, nodes |-> SeqOf(Nodes, Ord), kinds |-> [i \in 1..N |-> kinds[Names[i]]],
                                   edges |-> [i \in 1..Cardinality(edges) |-> LET e == SeqOf(edges, ERank)[i] IN <<e[1], e[2]>>],
                                   branch |-> [i \in 1..Len(br) |-> [from |-> br[i].from, ends |-> SeqOf(br[i].ends, Ord)]]])>>)

--------------------------------------------------------------------------------
(* Part 2: the lifecycle rule.  S = [id, prods, st, sent, told, caller, bad, note]                                          *)
Range(s) == {s[i] : i \in 1..Len(s)}
Idle == [id |-> "", k |-> <<>>, names |-> {}, st |-> <<>>, sent |-> <<>>, told |-> <<>>, caller |-> FALSE, bad |-> "no-case", note |-> ""]
Bad(S, why) == [S EXCEPT !.bad = why]
Apply(S, e) ==
  IF e.ev = "case" THEN
     LET P == {x \in Range(e.prods) : TRUE} IN
     [id |-> e.id, names |-> {x.n : x \in P}, k |-> [n \in {x.n : x \in P} |-> (CHOOSE x \in P : x.n = n).k],
      st |-> [n \in {x.n : x \in P} |-> "idle"], sent |-> [n \in {x.n : x \in P} |-> 0], told |-> [n \in {x.n : x \in P} |-> FALSE],
      caller |-> FALSE, bad |-> "", note |-> ""]
  ELSE IF S.bad # "" THEN S
  ELSE IF e.ev = "start" THEN
     IF e.n \notin S.names \/ S.st[e.n] # "idle" THEN Bad(S, "malformed:producer-started-twice") ELSE [S EXCEPT !.st[e.n] = "run"]
  ELSE IF e.ev = "send" THEN
     IF e.n \notin S.names \/ S.st[e.n] # "run" \/ S.told[e.n] THEN Bad(S, "malformed:send-outside-lifecycle")
     ELSE IF e.closed THEN [S EXCEPT !.told[e.n] = TRUE] ELSE [S EXCEPT !.sent[e.n] = @ + 1]
  ELSE IF e.ev = "fin" THEN
     IF e.n \notin S.names \/ S.st[e.n] # "run" THEN Bad(S, "malformed:fin-outside-lifecycle")
     ELSE IF e.how = "told" /\ ~S.told[e.n] THEN Bad(S, "malformed:told-without-closed-send")
     ELSE [S EXCEPT !.st[e.n] = "fin"]
  ELSE IF e.ev = "caller" THEN
     IF e.err # "" THEN [S EXCEPT !.caller = TRUE, !.note = IF e.experr THEN "" ELSE "run-failed"] ELSE [S EXCEPT !.caller = TRUE]
  ELSE IF e.ev = "settled" THEN
     IF ~S.caller THEN Bad(S, "malformed:settled-before-caller")
     ELSE IF S.note = "run-failed" THEN S
     ELSE IF e.timeout THEN [S EXCEPT !.note = "settle-timeout"] ELSE
        \* Quiescent, producer half: nothing started is still running
        IF \E n \in S.names : S.st[n] = "run" THEN Bad(S, "producer-still-running-at-quiescence") ELSE S
  ELSE IF e.ev = "dump" THEN
     IF S.note = "run-failed" THEN S
     ELSE IF Len(e.parked) > 0 THEN Bad(S, "parked-goroutine")         \* Quiescent, goroutine half
     ELSE IF S.note = "settle-timeout" THEN S
     ELSE S
  ELSE Bad(S, "malformed:unknown-event")
================================================================================
