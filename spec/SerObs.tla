------------------------------- MODULE SerObs -------------------------------
(***************************************************************************)
(* C12 verdict path: trace validation of OBSERVATIONS OF THE REAL          *)
(* serialization.Marshal / Unmarshal against the round-trip law of         *)
(* Serialization.tla.  One state per trace line; total: a line that        *)
(* contradicts the law prints "BAD|id|line|reason".                 *)
(*                                                                         *)
(* A line is  [ev |-> "ser", id, in, enc, dec, out, deq, teq, pclass, ..]: *)
(*   in / out  abstract shapes (grammar of Serialization.tla) of the value *)
(*             that was really built and of the value that really came     *)
(*             back, both produced by the same reflection walk;            *)
(*   enc / dec "ok" | "err" | "panic" | "none";                            *)
(*   deq / teq concrete-level flags (deep equality modulo nil/empty,       *)
(*             identical dynamic type), meaningful when dec = "ok".        *)
(* The law is evaluated by TLC on in / out; the flags add leaf fidelity.   *)
(* The transcription (Enc / Dec) takes no part in the verdict: it is only  *)
(* compared with the observation to report DRIFT.                          *)
(***************************************************************************)
EXTENDS Serialization

Trace == ndJsonDeserialize("trace.ndjson")
ASSUME TLCSet(1, 0) /\ TLCSet(2, 0) /\ TLCSet(3, 0) /\ TLCSet(4, 0) /\ TLCSet(5, 0) /\ TLCSet(6, 0)

VARIABLES l
vars == <<l>>

ObsOutcome(e) == [enc |-> e.enc, dec |-> e.dec, out |-> e.out, pclass |-> e.pclass]
ObsReason(e) == LET o == ObsOutcome(e) r == Reason(e.in, o) IN
                IF r # "" THEN r
                ELSE IF e.enc = "ok" /\ e.dec = "ok" /\ ~(e.deq /\ e.teq) THEN "loss:concrete-value-differs"
                ELSE ""
(* does the observation agree with the transcription (as coded / with the proposed repair)? *)
Agrees(e, fx) == LET p == RoundTrip(e.in, fx) IN
                 /\ p.enc = e.enc /\ p.dec = e.dec
                 /\ (p.dec = "ok" => Eq(p.out, e.out))
                 /\ (p.dec = "panic" => p.pclass = e.pclass)
Bump(i) == TLCSet(i, TLCGet(i) + 1)

Init == l = 1
Next == /\ l <= Len(Trace)
        /\ l' = l + 1
        /\ LET e == Trace[l]
               r == ObsReason(e)
               a == Agrees(e, AsIs)
               f == Agrees(e, Fixed)
           IN /\ (r # "" => PrintT("BAD|" \o e.id \o "|" \o ToString(l) \o "|" \o r) /\ Bump(6))    \* one string: TLC wraps long tuples
              /\ IF a /\ f THEN Bump(2) ELSE IF a THEN Bump(3) ELSE IF f THEN Bump(4)
                 ELSE Bump(5) /\ PrintT("DRIFT|" \o e.id \o "|" \o ToString(l) \o "|" \o e.enc \o "," \o e.dec)
Spec == Init /\ [][Next]_vars

Max2(a, b) == IF a > b THEN a ELSE b
HW == TLCSet(1, Max2(l, TLCGet(1)))
Post == PrintT(<<"HW", TLCGet(1)>>) /\ PrintT(<<"STAT", TLCGet(2), TLCGet(3), TLCGet(4), TLCGet(5), TLCGet(6)>>)
================================================================================
