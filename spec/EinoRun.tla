------------------------------- MODULE EinoRun -------------------------------
(***************************************************************************)
(* Implementation-shaped model of eino's run loop (compose/graph_run.go,   *)
(* graph_manager.go, pregel.go, dag.go, checkpoint.go), one action per     *)
(* section of runner.run:                                                  *)
(*   Begin        the scenario grown by EinoGen becomes a compiled runner  *)
(*   Start        calculateNextTasks for START (+ interrupt-before check)  *)
(*   BatchStep    submit nextTasks; wait for all; resolve interrupts;      *)
(*                calculateBranch, channels.update, channels.get; END? ;   *)
(*                interrupt-before/after -> checkpoint                      *)
(*   EagerPick    (workflow) wait for ONE finished task, in any order      *)
(*   Resume       load the checkpoint, restore tasks, step := 0            *)
(* Channels are modelled as the code keeps them: pregel = values by source *)
(* cleared on get; dag = waiting/ready/skipped per control predecessor,    *)
(* reported flag per data predecessor, values, Skipped, reset on get, and  *)
(* reportBranch's transitive skip propagation over successors.             *)
(*                                                                         *)
(* Every action emits the observations a real run would produce (exec,     *)
(* done, branch, pre, interrupt, resume, result, error) and feeds them to   *)
(* the property-level rule of RunRule.tla -- the SAME rule that judges the  *)
(* traces of the real engine in RunObs.tla.  The invariant RuleHolds is     *)
(* therefore "Impl => P" for every scenario EinoGen can grow.               *)
(***************************************************************************)
EXTENDS EinoGen
R == INSTANCE RunRule

CONSTANTS StartCheck,    \* TRUE: interrupt-before is also checked for the initial tasks (the repaired run loop)
          MaxCalls,      \* bound on Invoke/Stream calls per scenario (every resume restarts the step counter)
          SubNode,       \* "none", or the node that is a nested graph START -> s1 -> s2 -> END (batch modes only)
          InnerBefore, InnerAfter,   \* inner interrupt-before on s2 / interrupt-after on s1
          StaleForward   \* TRUE: every later task of the graph node is handed the resumed run's nested checkpoint (the code
                         \* before the repair of D3); FALSE: only the task restored from the checkpoint is

VARIABLES rs,      \* rule state (RunRule) judging the observations emitted so far
          ch,      \* channels
          next,    \* tasks computed and not yet submitted: node -> input
          running, \* eager mode: submitted and not yet collected: node -> input
          step, rstat, ckpt, st, attempts, calls
rvars == <<rs, ch, next, running, step, rstat, ckpt, st, attempts, calls>>
vars == <<gvars, rvars>>

Empty == <<>>
Min2(x, y) == IF x < y THEN x ELSE y
Eager == Mode = "wf"
Dag == Mode \in {"dag", "wf"}
Stateful == deco.rerun # {}
InnerCase == [ev |-> "case", id |-> "inner", mode |-> "pregel", nodes |-> <<"s1", "s2">>,
              edges |-> << <<"start", "s1", "cd">>, <<"s1", "s2", "cd">>, <<"s2", "end", "cd">> >>, branches |-> <<>>, max |-> 0,
              before |-> IF InnerBefore THEN <<"s2">> ELSE <<>>, after |-> IF InnerAfter THEN <<"s1">> ELSE <<>>, rerun |-> <<>>,
              state |-> FALSE, fail |-> <<>>, noid |-> FALSE, subs |-> <<>>, post |-> FALSE, hmod |-> FALSE, echo |-> <<>>, x0 |-> "x", bare |-> <<>>, lower |-> ""]
HasSub == SubNode \in Nodes
CaseEv == [ev |-> "case", id |-> "m", noid |-> FALSE, subs |-> IF HasSub THEN <<[node |-> SubNode, g |-> InnerCase]>> ELSE <<>>,
           mode |-> Mode, nodes |-> Scenario.nodes, edges |-> Scenario.edges,
           branches |-> [i \in 1..Len(brs) |-> [from |-> brs[i].from, ends |-> NameSeq(brs[i].ends), multi |-> brs[i].multi, data |-> Mode # "wf"]],
           max |-> deco.max, before |-> NameSeq(deco.before), after |-> NameSeq(deco.after), rerun |-> NameSeq(deco.rerun),
           state |-> Stateful, fail |-> deco.fail, post |-> FALSE, hmod |-> FALSE, echo |-> <<>>, x0 |-> "x", bare |-> <<>>, lower |-> ""]
MaxStepsImpl == IF deco.max = 0 THEN N + 10 ELSE deco.max      \* graph.go: len(chanSubscribeTo) + 10

\* ------------------------------------------------------------------ static structure, as compile() derives it
DataTo(s) == {x[2] : x \in {e \in edges : e[1] = s /\ e[3] \in {"cd", "d"}}}          \* chanCall.writeTo
CtrlTo(s) == {x[2] : x \in {e \in edges : e[1] = s /\ e[3] \in {"cd", "c"}}}          \* chanCall.controls
BrOf(s) == {i \in 1..Len(brs) : brs[i].from = s}
CtrlPredsI(n) == {s \in Src : n \in CtrlTo(s) \/ \E i \in BrOf(s) : n \in brs[i].ends}
DataPredsI(n) == {s \in Src : n \in DataTo(s) \/ (Mode # "wf" /\ \E i \in BrOf(s) : n \in brs[i].ends)}
SuccI(s) == DataTo(s) \cup CtrlTo(s) \cup UNION {brs[i].ends : i \in BrOf(s)}        \* getSuccessors

NewChan(n) == IF Dag THEN [ctrl |-> [p \in CtrlPredsI(n) |-> "W"], data |-> [p \in DataPredsI(n) |-> FALSE], vals |-> Empty, skipped |-> FALSE]
              ELSE [vals |-> Empty]
InitChans == [n \in Dst |-> NewChan(n)]

\* ------------------------------------------------------------------ values
RECURSIVE Depth(_)
Depth(v) == IF DOMAIN v = {"n", "i"} THEN (IF v.n = "x" THEN 0 ELSE 1 + Depth(v.i))
            ELSE IF DOMAIN v = {} THEN 0
            ELSE LET ds == {Depth(v[k]) : k \in DOMAIN v} IN CHOOSE m \in ds : \A y \in ds : y <= m
Out(n, input) == (n :> [n |-> n, i |-> input])
RECURSIVE MergeVals(_, _)
MergeVals(vals, S) == IF S = {} THEN Empty ELSE LET s == CHOOSE x \in S : TRUE IN vals[s] @@ MergeVals(vals, S \ {s})

\* ------------------------------------------------------------------ channel operations (dag.go / pregel.go)
ReportValues(c, ins) ==        \* ins: source -> value
  IF ~Dag THEN [c EXCEPT !.vals = ins @@ c.vals]
  ELSE IF c.skipped THEN c
  ELSE LET ks == (DOMAIN ins) \cap (DOMAIN c.data) IN
       [c EXCEPT !.data = [p \in DOMAIN c.data |-> IF p \in ks THEN TRUE ELSE c.data[p]],
                 !.vals = [p \in ks |-> ins[p]] @@ c.vals]
ReportDeps(c, deps) ==
  IF ~Dag \/ c.skipped THEN c
  ELSE [c EXCEPT !.ctrl = [p \in DOMAIN c.ctrl |-> IF p \in deps THEN "R" ELSE c.ctrl[p]]]
ReportSkip(c, k) ==            \* returns the channel; Skipped recomputed as the code does
  IF ~Dag THEN c
  ELSE LET c1 == [c EXCEPT !.ctrl = [p \in DOMAIN c.ctrl |-> IF p = k THEN "S" ELSE c.ctrl[p]],
                           !.data = [p \in DOMAIN c.data |-> IF p = k THEN TRUE ELSE c.data[p]]]
       IN [c1 EXCEPT !.skipped = \A p \in DOMAIN c1.ctrl : c1.ctrl[p] = "S"]
Ready(c) == IF ~Dag THEN DOMAIN c.vals # {}
            ELSE ~c.skipped /\ (\A p \in DOMAIN c.ctrl : c.ctrl[p] # "W") /\ (\A p \in DOMAIN c.data : c.data[p])
GetValue(c) == MergeVals(c.vals, DOMAIN c.vals)
AfterGet(c) == IF ~Dag THEN [c EXCEPT !.vals = Empty]
               ELSE [c EXCEPT !.vals = Empty, !.ctrl = [p \in DOMAIN c.ctrl |-> "W"], !.data = [p \in DOMAIN c.data |-> FALSE]]

\* reportBranch: mark `from` skipped in every node of `sk`, then propagate through successors of nodes that became skipped
RECURSIVE Propagate(_, _)
Propagate(C, work) ==          \* work: sequence of <<node, from>>
  IF work = <<>> THEN C
  ELSE LET n == work[1][1]  from == work[1][2]
           c2 == ReportSkip(C[n], from)
           more == IF Dag /\ c2.skipped /\ n # END THEN SeqOfSet({<<s, n>> : s \in SuccI(n)}, LAMBDA w : Ord(w[1])) ELSE <<>>
       IN Propagate([C EXCEPT ![n] = c2], Tail(work) \o more)

\* ------------------------------------------------------------------ resolveCompletedTasks + calculateBranch, folded over the completed tasks
Chosen(i, v) == deco.pol[i][Min2(Depth(v), D)]
\* one completed task t with output v: returns [C, evs, writes (set of <<to, from, value>>), deps (set of <<to, from>>)]
ResolveOne(C, t, v) ==
  LET bs == SeqOfSet(BrOf(t), LAMBDA i : i)
      chosenAll == UNION {Chosen(i, v) : i \in BrOf(t)}
      skippedNodes == UNION {brs[i].ends \ Chosen(i, v) : i \in BrOf(t)} \ chosenAll
      evs == [k \in 1..Len(bs) |-> [ev |-> "branch", p |-> "", b |-> bs[k], i |-> v, to |-> NameSeq(Chosen(bs[k], v))]]
      C2 == Propagate(C, SeqOfSet({<<n, t>> : n \in skippedNodes}, LAMBDA w : Ord(w[1])))
  IN [C |-> C2, evs |-> evs,
      writes |-> {<<n, t, v>> : n \in chosenAll \cup DataTo(t)},
      deps |-> {<<n, t>> : n \in chosenAll \cup CtrlTo(t)}]
RECURSIVE ResolveAll(_, _, _)
ResolveAll(C, outs, order) ==     \* outs: node -> output; order: sequence of nodes
  IF order = <<>> THEN [C |-> C, evs |-> <<>>, writes |-> {}, deps |-> {}]
  ELSE LET r1 == ResolveOne(C, order[1], outs[order[1]])
           r2 == ResolveAll(r1.C, outs, Tail(order))
       IN [C |-> r2.C, evs |-> r1.evs \o r2.evs, writes |-> r1.writes \cup r2.writes, deps |-> r1.deps \cup r2.deps]
\* updateValues + updateDependencies (no get)
Update(C, writes, deps) ==
  [n \in Dst |-> ReportDeps(ReportValues(C[n], [s \in {w[2] : w \in {x \in writes : x[1] = n}} |-> (CHOOSE w \in writes : w[1] = n /\ w[2] = s)[3]]),
                            {d[2] : d \in {x \in deps : x[1] = n}})]
\* calculateNextTasks: resolve, update, get
Calc(C, outs, order) ==
  LET r == ResolveAll(C, outs, order)
      C2 == Update(r.C, r.writes, r.deps)
      rd == {n \in Dst : Ready(C2[n])}
  IN [evs |-> r.evs, ready |-> rd, inputs |-> [n \in rd |-> GetValue(C2[n])],
      C |-> [n \in Dst |-> IF n \in rd THEN AfterGet(C2[n]) ELSE C2[n]]]

\* ------------------------------------------------------------------ observations
FoldApply(s, evs) == LET RECURSIVE F(_, _)
                         F(x, k) == IF k > Len(evs) THEN x ELSE F(R!Apply(x, evs[k]), k + 1)
                     IN F(s, 1)
NodeSeq(S) == SeqOfSet(S, Ord)
FailOf(n) == IF deco.fail # <<>> /\ deco.fail[1].n = n THEN deco.fail[1].kind ELSE "none"
ResultEv(v) == [ev |-> "result", v |-> v, sets |-> <<>>]
IntrEv(bef, aft, rer, trail, cnt) == [ev |-> "interrupt", before |-> NodeSeq(bef), after |-> NodeSeq(aft), rerun |-> NodeSeq(rer),
                                      sub |-> Empty, st |-> trail, cnt |-> cnt, hasst |-> Stateful, sets |-> <<"cp-m">>]

\* ------------------------------------------------------------------ the nested graph (one level): START -> s1 -> s2 -> END
SubP == SubNode \o "/"
InnerEx(n, v) == <<[ev |-> "exec", p |-> SubP, n |-> n, i |-> v], [ev |-> "done", p |-> SubP, n |-> n]>>
InnerInfo == [before |-> IF InnerBefore THEN <<"s2">> ELSE <<>>, after |-> IF InnerAfter THEN <<"s1">> ELSE <<>>, rerun |-> <<>>,
              sub |-> Empty, st |-> <<>>, cnt |-> 0, hasst |-> FALSE]
\* a fresh inner run on input v; a resumed one continues from its checkpoint (the pending input of s2)
InnerFresh(v) == LET o1 == Out("s1", v) IN
  IF InnerBefore \/ InnerAfter THEN [evs |-> InnerEx("s1", v), intr |-> TRUE, ck |-> [input |-> o1], out |-> Empty]
  ELSE [evs |-> InnerEx("s1", v) \o InnerEx("s2", o1), intr |-> FALSE, ck |-> Empty, out |-> Out("s2", o1)]
InnerResume(ck) == [evs |-> InnerEx("s2", ck.input), intr |-> FALSE, ck |-> Empty, out |-> Out("s2", ck.input)]

RunInit == /\ rs = R!Idle /\ ch = Empty /\ next = Empty /\ running = Empty /\ step = 0 /\ rstat = "idle"
           /\ ckpt = Empty /\ st = [trail |-> <<>>, saved |-> Empty, cnt |-> 0] /\ attempts = {} /\ calls = 0
Init == GenInit /\ RunInit

Begin == /\ phase = "done" /\ rstat = "idle"
         /\ rs' = R!Apply(R!Idle, CaseEv) /\ ch' = InitChans /\ rstat' = "init"
         /\ UNCHANGED <<gvars, next, running, step, ckpt, st, attempts, calls>>

Finished(evs, status) == /\ rs' = FoldApply(rs, evs) /\ rstat' = status
                         /\ UNCHANGED <<gvars, ch, next, running, step, ckpt, st, attempts, calls>>

\* handleInterrupt: checkpoint = channels + inputs of the tasks not started
SaveSimple(C, nx, bef, aft, evs) ==
  /\ ckpt' = [ch |-> C, inputs |-> nx, st |-> st]
  /\ rs' = FoldApply(rs, evs \o <<IntrEv(bef, aft, {}, st.trail, st.cnt)>>)
  /\ rstat' = "interrupted" /\ ch' = C /\ next' = Empty /\ running' = Empty
  /\ UNCHANGED <<gvars, step, st, attempts, calls>>

Start == /\ rstat = "init"
         /\ LET r == Calc(ch, (START :> R!InitialInput(CaseEv)), <<START>>) IN
              IF END \in r.ready THEN Finished(r.evs \o <<ResultEv(r.inputs[END])>>, "done")
              ELSE LET nx == [n \in r.ready |-> r.inputs[n]]  bh == r.ready \cap deco.before IN
                   IF StartCheck /\ bh # {} THEN SaveSimple(r.C, nx, bh, {}, r.evs)
                   ELSE /\ rs' = FoldApply(rs, r.evs) /\ ch' = r.C /\ next' = nx /\ rstat' = "run" /\ step' = 0
                        /\ UNCHANGED <<gvars, running, ckpt, st, attempts, calls>>

\* pre-handlers of the submitted tasks run first, sequentially (taskManager.submit); then the bodies
PreEvs(order, restoredRerun) ==
  IF ~Stateful THEN <<>>
  ELSE LET RECURSIVE P(_)
           P(k) == IF k > Len(order) THEN <<>>
                   ELSE << [ev |-> "cs", p |-> "", k |-> "pre", n |-> order[k], seq |-> st.cnt + k - 1],
                           [ev |-> "pre", p |-> "", n |-> order[k], rebuilt |-> order[k] \in restoredRerun] >> \o P(k + 1)
       IN P(1)
TrailAfter(order, restoredRerun) == st.trail \o SelectSeq(order, LAMBDA n : n \notin restoredRerun)
\* what the body of n receives: rerun nodes restored from a checkpoint get their input rebuilt from state
BodyInput(n, restoredRerun) == IF n \in restoredRerun THEN st.saved[n] ELSE next[n]

BatchStep ==
  /\ rstat = "run" /\ ~Eager
  /\ IF ~Dag /\ step >= MaxStepsImpl
     THEN Finished(<<[ev |-> "error", class |-> "maxsteps", path |-> <<>>, is |-> TRUE, as |-> FALSE, asnode |-> "", sets |-> <<>>]>>, "error")
     ELSE IF DOMAIN next = {}
     THEN Finished(<<[ev |-> "error", class |-> "stuck", path |-> <<>>, is |-> FALSE, as |-> FALSE, asnode |-> "", sets |-> <<>>]>>, "error")
     ELSE
      LET order == NodeSeq(DOMAIN next)
          restoredRerun == IF "rr" \in DOMAIN ckpt THEN ckpt.rr ELSE {}
          trail2 == TrailAfter(order, restoredRerun)
          inp == [n \in DOMAIN next |-> BodyInput(n, restoredRerun)]
          aborting == {n \in DOMAIN next : n \in deco.rerun /\ n \notin attempts}
          failing == {n \in DOMAIN next : FailOf(n) # "none"} \ aborting
          \* the graph node: resumes the nested checkpoint carried by the context if it is handed one, else starts fresh
          restoredSub == "subck" \in DOMAIN ckpt /\ (("restored" \in DOMAIN ckpt /\ SubNode \in ckpt.restored) \/ StaleForward)
          inner == IF HasSub /\ SubNode \in DOMAIN next
                   THEN (IF restoredSub THEN InnerResume(ckpt.subck) ELSE InnerFresh(inp[SubNode]))
                   ELSE [evs |-> <<>>, intr |-> FALSE, ck |-> Empty, out |-> Empty]
          subIntr == IF inner.intr THEN {SubNode} ELSE {}
          okNodes == (DOMAIN next) \ (aborting \cup failing \cup subIntr)
          bodyEvs == LET RECURSIVE B(_)
                         B(k) == IF k > Len(order) THEN <<>>
                                 ELSE LET n == order[k]
                                          base == [p |-> "", n |-> n, i |-> inp[n]] @@ (IF Stateful THEN [st |-> trail2, sx |-> R!FreshStateDigest] ELSE Empty)
                                          csev == IF Stateful THEN <<[ev |-> "cs", p |-> "", k |-> "body", n |-> n, seq |-> st.cnt + Len(order) + k - 1]>> ELSE <<>>
                                      IN csev \o (IF HasSub /\ n = SubNode THEN inner.evs
                                          ELSE IF n \in aborting THEN <<[ev |-> "abort"] @@ base>>
                                          ELSE IF n \in failing THEN <<[ev |-> "exec"] @@ base>>
                                          ELSE <<[ev |-> "exec"] @@ base, [ev |-> "done", p |-> "", n |-> n]>>) \o B(k + 1)
                     IN B(1)
          evs0 == PreEvs(order, restoredRerun) \o bodyEvs
          outs == [n \in okNodes |-> IF HasSub /\ n = SubNode THEN inner.out ELSE Out(n, inp[n])]
          aft == okNodes \cap deco.after
          st2 == [trail |-> trail2, saved |-> [n \in aborting |-> inp[n]] @@ st.saved, cnt |-> IF Stateful THEN st.cnt + 2 * Len(order) ELSE st.cnt]
      IN IF failing # {} THEN
              LET n == CHOOSE x \in failing : TRUE IN
              /\ rs' = FoldApply(rs, evs0 \o <<[ev |-> "error", class |-> IF FailOf(n) = "err" THEN "node" ELSE "panic", path |-> <<n>>,
                                                 is |-> FailOf(n) = "err", as |-> FailOf(n) = "err", asnode |-> IF FailOf(n) = "err" THEN n ELSE "", sets |-> <<>>]>>)
              /\ rstat' = "error" /\ UNCHANGED <<gvars, ch, next, running, step, ckpt, st, attempts, calls>>
         ELSE IF aborting # {} \/ subIntr # {} THEN
              \* handleInterruptWithSubGraphAndRerunNodes: fold the other outputs into the channels (no get), rerun / graph-node inputs
              \* zeroed, the nested checkpoint kept under the graph node's key
              LET r == ResolveAll(ch, outs, NodeSeq(okNodes))
                  C2 == Update(r.C, r.writes, r.deps)
                  iev == [IntrEv({}, aft, aborting, trail2, st2.cnt) EXCEPT !.sub = IF subIntr # {} THEN (SubNode :> InnerInfo) ELSE Empty]
              IN /\ ckpt' = [ch |-> C2, inputs |-> [n \in aborting \cup subIntr |-> Empty], st |-> st2, rr |-> aborting]
                           @@ (IF subIntr # {} THEN [subck |-> inner.ck] ELSE Empty)
                 /\ rs' = FoldApply(rs, evs0 \o r.evs \o <<iev>>)
                 /\ rstat' = "interrupted" /\ ch' = C2 /\ next' = Empty /\ st' = st2 /\ attempts' = attempts \cup aborting
                 /\ UNCHANGED <<gvars, running, step, calls>>
         ELSE LET r == Calc(ch, outs, order) IN
              IF END \in r.ready THEN
                   /\ rs' = FoldApply(rs, evs0 \o r.evs \o <<ResultEv(r.inputs[END])>>) /\ rstat' = "done" /\ st' = st2
                   /\ UNCHANGED <<gvars, ch, next, running, step, ckpt, attempts, calls>>
              ELSE LET nx == [n \in r.ready |-> r.inputs[n]]  bh == r.ready \cap deco.before IN
                   IF bh # {} \/ aft # {} THEN
                        /\ ckpt' = [ch |-> r.C, inputs |-> nx, st |-> st2]
                        /\ rs' = FoldApply(rs, evs0 \o r.evs \o <<IntrEv(bh, aft, {}, trail2, st2.cnt)>>)
                        /\ rstat' = "interrupted" /\ ch' = r.C /\ next' = Empty /\ st' = st2
                        /\ UNCHANGED <<gvars, running, step, attempts, calls>>
                   ELSE /\ rs' = FoldApply(rs, evs0 \o r.evs) /\ ch' = r.C /\ next' = nx /\ step' = step + 1 /\ st' = st2
                        /\ ckpt' = IF "subck" \in DOMAIN ckpt THEN [subck |-> ckpt.subck] ELSE Empty   \* the context keeps the checkpoint for the whole call
                        /\ UNCHANGED <<gvars, running, rstat, attempts, calls>>


\* ------------------------------------------------------------------ eager execution (Workflow): wait for ONE finished task per iteration
\* Submitted bodies start at once (exec observed at submission); which running task is collected next is the scheduler's choice,
\* so TLC explores every completion order -- the engine-level confluence half of C03.
ExecEvs(order, inp) == [k \in 1..Len(order) |-> [ev |-> "exec", p |-> "", n |-> order[k], i |-> inp[order[k]]]]
DoneEv(n) == [ev |-> "done", p |-> "", n |-> n]
ErrEv(class, path, isv, asv, asn) == [ev |-> "error", class |-> class, path |-> path, is |-> isv, as |-> asv, asnode |-> asn, sets |-> <<>>]
EagerStep ==
  /\ rstat = "run" /\ Eager
  /\ LET submitEvs == ExecEvs(NodeSeq(DOMAIN next), next)
         run2 == next @@ running                         \* tm.submit(nextTasks)
     IN IF DOMAIN run2 = {}
        THEN Finished(<<ErrEv("stuck", <<>>, FALSE, FALSE, "")>>, "error")
        ELSE \E t \in DOMAIN run2 :                        \* tm.wait(): any one of the running tasks finishes first
          IF FailOf(t) # "none"
          THEN /\ rs' = FoldApply(rs, submitEvs \o <<ErrEv(IF FailOf(t) = "err" THEN "node" ELSE "panic", <<t>>, FailOf(t) = "err", FailOf(t) = "err", IF FailOf(t) = "err" THEN t ELSE "")>>)
               /\ rstat' = "error" /\ UNCHANGED <<gvars, ch, next, running, step, ckpt, st, attempts, calls>>
          ELSE
          LET r == Calc(ch, (t :> Out(t, run2[t])), <<t>>)
              evs1 == submitEvs \o <<DoneEv(t)>> \o r.evs
              rest == [n \in (DOMAIN run2) \ {t} |-> run2[n]]
              nx == [n \in r.ready |-> r.inputs[n]]
              bh == r.ready \cap deco.before
              aft == {t} \cap deco.after
          IN IF END \in r.ready
             THEN /\ rs' = FoldApply(rs, evs1 \o <<ResultEv(r.inputs[END])>>) /\ rstat' = "done"
                  /\ UNCHANGED <<gvars, ch, next, running, step, ckpt, st, attempts, calls>>
             ELSE IF bh = {} /\ aft = {}
             THEN /\ rs' = FoldApply(rs, evs1) /\ ch' = r.C /\ next' = nx /\ running' = rest
                  /\ UNCHANGED <<gvars, step, rstat, ckpt, st, attempts, calls>>
             ELSE \* interrupt: tm.waitAll() for the others (none of them fails in this model), one more calculateNextTasks, then save
                  LET others == NodeSeq({n \in DOMAIN rest : FailOf(n) = "none"})
                      outs2 == [n \in DOMAIN rest |-> Out(n, rest[n])]
                      r2 == Calc(r.C, outs2, others)
                      evs2 == evs1 \o [k \in 1..Len(others) |-> DoneEv(others[k])] \o r2.evs
                      nx2 == [n \in r2.ready |-> r2.inputs[n]] @@ nx
                      aft2 == aft \cup ((DOMAIN rest) \cap deco.after)
                      bh2 == (DOMAIN nx2) \cap deco.before
                  IN IF \E n \in DOMAIN rest : FailOf(n) # "none"
                     THEN LET n == CHOOSE x \in DOMAIN rest : FailOf(x) # "none" IN
                          /\ rs' = FoldApply(rs, evs1 \o <<ErrEv(IF FailOf(n) = "err" THEN "node" ELSE "panic", <<n>>, FailOf(n) = "err", FailOf(n) = "err", IF FailOf(n) = "err" THEN n ELSE "")>>)
                          /\ rstat' = "error" /\ UNCHANGED <<gvars, ch, next, running, step, ckpt, st, attempts, calls>>
                     ELSE IF END \in r2.ready
                     THEN /\ rs' = FoldApply(rs, evs2 \o <<ResultEv(r2.inputs[END])>>) /\ rstat' = "done"
                          /\ UNCHANGED <<gvars, ch, next, running, step, ckpt, st, attempts, calls>>
                     ELSE /\ ckpt' = [ch |-> r2.C, inputs |-> nx2, st |-> st]
                          /\ rs' = FoldApply(rs, evs2 \o <<IntrEv(bh2, aft2, {}, st.trail, st.cnt)>>)
                          /\ rstat' = "interrupted" /\ ch' = r2.C /\ next' = Empty /\ running' = Empty
                          /\ UNCHANGED <<gvars, step, st, attempts, calls>>

Resume == /\ rstat = "interrupted" /\ calls < MaxCalls
          /\ rs' = R!Apply(rs, [ev |-> "resume", call |-> "invoke", mod |-> 0])
          /\ ch' = ckpt.ch /\ next' = ckpt.inputs /\ st' = ckpt.st /\ step' = 0 /\ rstat' = "run"
          \* what stays visible during the resumed call: the rerun set (pre-handlers rebuild), the nested checkpoint carried by the
          \* context, and which tasks were restored from the checkpoint (only the first step of the call consumes "restored")
          /\ ckpt' = (IF "rr" \in DOMAIN ckpt THEN [rr |-> ckpt.rr] ELSE Empty)
                      @@ (IF "subck" \in DOMAIN ckpt THEN [subck |-> ckpt.subck, restored |-> DOMAIN ckpt.inputs] ELSE Empty)
          /\ running' = Empty /\ calls' = calls + 1 /\ UNCHANGED <<gvars, attempts>>

RunNext == Begin \/ Start \/ BatchStep \/ EagerStep \/ Resume
Next == (GenNext /\ UNCHANGED rvars) \/ RunNext
Spec == Init /\ [][Next]_vars

\* ------------------------------------------------------------------ properties
RuleHolds == rs.top.bad = ""
\* termination: every run of a grown scenario ends (result, error, or interrupted runs resumed to an end) -- checked as absence of
\* non-terminal deadlocks: a state with no successor is a finished run
Terminal == rstat \in {"done", "error"}
NoStuckRun == (phase = "done" /\ ~ENABLED Next) => Terminal
StepBound == step <= MaxStepsImpl
================================================================================
