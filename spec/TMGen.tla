-------------------------------- MODULE TMGen --------------------------------
(***************************************************************************)
(* Case generator for the engine-level part of C03 (completion-order       *)
(* independence).  Enumerates, exhaustively inside the bounds,              *)
(*    acyclic graphs with parallel nodes (edges grown in canonical order)  *)
(*  x execution mode  dag (batch, all-predecessor) | pregel (batch,        *)
(*                    any-predecessor, layered graphs) | wf (eager)        *)
(*  x failing node (none | one node returns an error | one node panics)    *)
(* and for each of them EVERY completion order of the node bodies that the *)
(* mode allows:                                                            *)
(*    batch: a node finishes after all nodes of earlier supersteps;        *)
(*           within a superstep every permutation                          *)
(*    eager: every linear extension of the dependency order                *)
(* plus, for batch graphs, the probes (hold b while a node c of a later    *)
(* superstep that does not depend on b could already run).                 *)
(* Each graph is printed once as <<"CASE", json>>; only the configuration  *)
(* is carried -- what must be observed is decided by TMConf.tla.           *)
(***************************************************************************)
EXTENDS Naturals, Sequences, FiniteSets, TLC, Json

CONSTANTS Mode,         \* "dag" | "pregel" | "wf"
          N,            \* number of nodes, 2..4
          MaxEdges,
          FailKinds,    \* subset of {"err", "panic"}: one END-feeding node may fail this way (the empty choice is always included)
          AllowDangling, \* wf: nodes that nothing consumes (executions the run does not wait for)
          MaxKind,      \* wf: up to this many edges are control-only (AddDependency, "c") or data-only (input without direct dependency, "d")
                        \*     instead of control+data ("cd"); only in cases without failing / rerun nodes and marks
          MaxMark,      \* up to this many static interrupt marks (interrupt-after / interrupt-before nodes), only without failing / rerun nodes
          MaxRerun      \* up to this many END-feeding nodes ask for InterruptAndRerun on their first attempt (only without a failing node)

AllNames == <<"a", "b", "c", "d">>
Nodes == {AllNames[i] : i \in 1..N}
START == "start"
END == "end"
Ord(n) == CASE n = START -> 0 [] n = "a" -> 1 [] n = "b" -> 2 [] n = "c" -> 3 [] n = "d" -> 4 [] n = END -> 9
EdgeU == {e \in (Nodes \cup {START}) \X (Nodes \cup {END}) : Ord(e[1]) < Ord(e[2]) /\ ~(e[1] = START /\ e[2] = END)}
ERank(e) == Ord(e[1]) * 10 + Ord(e[2])

VARIABLES phase, edges, fail, rerun, marks, kinds
vars == <<phase, edges, fail, rerun, marks, kinds>>

NoMarks == [after |-> {}, before |-> {}]
Init == phase = "e" /\ edges = {} /\ fail = <<>> /\ rerun = {} /\ marks = NoMarks /\ kinds = <<>>

MaxRank == IF edges = {} THEN 0 ELSE CHOOSE m \in {ERank(x) : x \in edges} : \A y \in edges : ERank(y) <= m
AddEdge(e) == /\ phase = "e" /\ Cardinality(edges) < MaxEdges /\ ERank(e) > MaxRank
              /\ edges' = edges \cup {e} /\ UNCHANGED <<phase, fail, rerun, marks, kinds>>

Preds(n) == {e[1] : e \in {x \in edges : x[2] = n}}
Succs(n) == {e[2] : e \in {x \in edges : x[1] = n}}
RECURSIVE AncOf(_)
AncOf(n) == LET P == Preds(n) \ {START} IN P \cup UNION {AncOf(p) : p \in P}
Before(x, y) == x \in AncOf(y)
RECURSIVE Level(_)
Level(n) == IF n = START THEN 0
            ELSE LET ls == {Level(p) : p \in Preds(n)} IN 1 + (CHOOSE m \in ls : \A y \in ls : y <= m)
EndAnc == AncOf(END)
Parallel == \E x, y \in Nodes : x # y /\ ~Before(x, y) /\ ~Before(y, x)
Layered == \A n \in Nodes \cup {END} : \A p, q \in Preds(n) : Level(p) = Level(q)
\* edge kinds: kk maps the non-default edges to "c" / "d".  A data-only edge needs a control path from its source to its target,
\* every node (and END) keeps a control predecessor, END keeps a data predecessor, the workflow keeps a direct start dependency
KindIn(kk, e) == IF e \in DOMAIN kk THEN kk[e] ELSE "cd"
CEdgesK(kk) == {e \in edges : KindIn(kk, e) # "d"}
RECURSIVE CAncK(_, _)
CAncK(kk, n) == LET P == {e[1] : e \in {x \in CEdgesK(kk) : x[2] = n}} IN P \cup UNION {CAncK(kk, p) : p \in P \ {START}}
KindOK(kk) == /\ \A e \in DOMAIN kk : kk[e] = "d" => e[1] \in CAncK(kk, e[2])
              /\ \A n \in Nodes \cup {END} : \E e \in CEdgesK(kk) : e[2] = n
              /\ \E e \in edges : e[2] = END /\ KindIn(kk, e) # "c"
              /\ \E e \in CEdgesK(kk) : e[1] = START
WellFormed ==
  /\ \A n \in Nodes : Preds(n) # {}
  /\ Preds(END) # {}
  /\ \A n \in Nodes : Succs(n) # {} \/ (Mode = "wf" /\ AllowDangling)
  /\ (Mode = "wf" /\ AllowDangling => EndAnc # {})
  /\ Parallel
  /\ (Mode = "pregel" => Layered)

Fails == {<<>>} \cup {<<[n |-> n, kind |-> k]>> : n \in EndAnc, k \in FailKinds}
Finish == /\ phase = "e" /\ WellFormed
          /\ \E f \in Fails : fail' = f
          /\ \E rr \in SUBSET EndAnc : Cardinality(rr) <= MaxRerun /\ (fail' # <<>> => rr = {}) /\ rerun' = rr
          /\ \E m \in [after : SUBSET EndAnc, before : SUBSET EndAnc] :
               /\ Cardinality(m.after) + Cardinality(m.before) <= MaxMark
               /\ ((fail' # <<>> \/ rerun' # {}) => m = NoMarks)
               /\ marks' = m
          /\ \E K \in SUBSET edges : \E kk \in [K -> {"c", "d"}] :
               /\ Cardinality(K) <= (IF Mode = "wf" THEN MaxKind ELSE 0)
               /\ ((fail' # <<>> \/ rerun' # {} \/ marks' # NoMarks) => K = {})
               /\ KindOK(kk)
               /\ kinds' = kk
          /\ phase' = "done" /\ UNCHANGED edges
Next == (\E e \in EdgeU : AddEdge(e)) \/ Finish
Spec == Init /\ [][Next]_vars

\* ---- completion orders ----
Batch == Mode \in {"dag", "pregel"}
Prec(x, y) == IF Batch THEN Level(x) < Level(y) ELSE Before(x, y)
RECURSIVE LinExt(_)
LinExt(S) == IF S = {} THEN {<<>>}
             ELSE UNION {{<<x>> \o s : s \in LinExt(S \ {x})} : x \in {m \in S : \A y \in S : ~Prec(y, m)}}
Probes == IF ~Batch THEN {}
          ELSE {<<b, c>> \in Nodes \X Nodes : Level(c) > Level(b) /\ ~Before(b, c) /\ b \notin {f.n : f \in {fail[i] : i \in 1..Len(fail)}}}

SeqOfSet(S, R(_)) == LET RECURSIVE F(_)
                         F(T) == IF T = {} THEN <<>> ELSE LET x == CHOOSE y \in T : \A z \in T : R(y) <= R(z) IN <<x>> \o F(T \ {x})
                     IN F(S)
NodeSeq == SeqOfSet(Nodes, Ord)
EdgeSeq == [i \in 1..Cardinality(edges) |-> LET e == SeqOfSet(edges, ERank)[i] IN <<e[1], e[2], KindIn(kinds, e)>>]
Case == [mode |-> Mode, nodes |-> NodeSeq, edges |-> EdgeSeq, fail |-> fail, rerun |-> SeqOfSet(rerun, Ord), after |-> SeqOfSet(marks.after, Ord), before |-> SeqOfSet(marks.before, Ord), orders |-> LinExt(Nodes), probes |-> Probes]
Emit == phase = "done" => PrintT(<<"CASE", ToJson(Case)>>)
================================================================================
