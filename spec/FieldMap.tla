------------------------------ MODULE FieldMap ------------------------------
(***************************************************************************)
(* Workflow field mappings (C15): implementation-shaped model + generator. *)
(*                                                                         *)
(*  Impl   - WorkflowNode.checkAndAddMappedPath (workflow.go:338-373): the *)
(*           target-path trie walked in DECLARATION ORDER, transcribed     *)
(*           literally: an intermediate step REPLACES the sub-map          *)
(*           (m[path] = make(map)), the last step overwrites whatever is   *)
(*           there, the empty path (whole input) leaves no trace           *)
(*         - the exact-duplicate check of graph.compile (graph.go:673-685) *)
(*         - validateFieldMapping (field_mapping.go:675-784): static types *)
(*           along a path (checkAndExtractFieldType), checkAssignable,     *)
(*           which mappings get a run-time checker; the checker closures   *)
(*           see the LAST mapping's target type (shared loop variables)    *)
(*         - fieldMap / takeOne (field_mapping.go:549-641): extraction     *)
(*           along the source path over struct / pointer / map / interface *)
(*           values, value form (absent key = error) and stream form       *)
(*           (absent key = mapping dropped), nil hops                      *)
(*         - convertTo / assignOne (field_mapping.go:195-348): assignment  *)
(*           along the target path, instantiating pointers / maps and      *)
(*           expanding `any` holes to map[string]any, in EVERY iteration   *)
(*           order of the Go map                                           *)
(*         - stream form of the run-time checker (chunk type becomes any,  *)
(*           the pre-node converter then panics on the run loop)           *)
(*         - a second Compile appends the converter once more to the       *)
(*           handler list shared with the first runner                     *)
(*  Fixes  - the set Fx names proposed repairs; Fx = {} is the code as it  *)
(*           is.  TLC checks  Impl(all repairs) => Rule  as an invariant   *)
(*           and prints, with every generated case, what the model of the  *)
(*           UNREPAIRED code predicts (pred), so that the verdict on the   *)
(*           real code (FieldMapObs) can be compared with the model.       *)
(*  Gen    - every declaration sequence of <= MaxMaps statically well-     *)
(*           typed mappings over the path universe, split over one or two  *)
(*           AddInput calls / predecessors, every relevant variant of the  *)
(*           predecessors' value (nil / absent / dynamic type positions).  *)
(* The property-level rule is FieldMapRule!Judge; this module only         *)
(* produces the line the rule judges.                                      *)
(***************************************************************************)
EXTENDS FieldMapRule, Json, SequencesExt

CONSTANTS MaxMaps,      \* mappings per declaration
          SrcNames, TgtNames,  \* which paths of the universe are in play (names below)
          DstKind,      \* the successor's input type: "struct" VfmDst | "maps" map[string]string | "mapa" map[string]any | "str" string
          SrcKind,      \* "struct": the predecessors return VfmSrc | "dst": the mapping source is START of a Workflow[VfmDst, string] (the field-mapped
                        \* node is a PASS-THROUGH typed from START: source and target type are both VfmDst) | "map": they return a map[string]any, stream-natively, in chunks
          RepoFixes,    \* repairs already applied to the tree under test (fixed: lines of known_findings.txt): used for the prediction
          VarSet        \* variants of the predecessors' value in play (a case gets "full" and those of VarSet relevant to its sources)

----------------------------------------------------------------------------
(* Types (mirrored by the Go types VfmIn / VfmMid / VfmDst / VfmSrc)       *)
TStr == [k |-> "str", n |-> "string"]
TInt == [k |-> "int", n |-> "int"]
TAny == [k |-> "any", n |-> "any"]
TMapS == [k |-> "map", n |-> "map[string]string", e |-> TStr]
TMapA == [k |-> "map", n |-> "map[string]any", e |-> TAny]
TIn == [k |-> "struct", n |-> "In", f |-> [S |-> TStr, N |-> TInt]]
TPIn == [k |-> "ptr", n |-> "*In", e |-> TIn]
TMapI == [k |-> "map", n |-> "map[string]In", e |-> TIn]
TMid == [k |-> "struct", n |-> "Mid", f |-> [S |-> TStr, I |-> TIn, P |-> TPIn, M |-> TMapS, X |-> TAny]]
TPMid == [k |-> "ptr", n |-> "*Mid", e |-> TMid]
TMapM == [k |-> "map", n |-> "map[string]Mid", e |-> TMid]
TDst == [k |-> "struct", n |-> "Dst", f |-> [S |-> TStr, N |-> TInt, A |-> TMid, B |-> TPMid, M |-> TMapS, MI |-> TMapI, MM |-> TMapM, X |-> TAny]]
\* a NON-EMPTY interface type (VfmShape) with a walkable implementation (VfmBox struct / *VfmBox) and a non-walkable one (VfmLabel string)
TShape == [k |-> "any", n |-> "Shape"]
TBox == [k |-> "struct", n |-> "Box", f |-> [I |-> TIn]]
TPBox == [k |-> "ptr", n |-> "*Box", e |-> TBox]
TMapY == [k |-> "map", n |-> "map[string]Shape", e |-> TShape]
TSrc == [k |-> "struct", n |-> "Src", f |-> [S |-> TStr, N |-> TInt, A |-> TMid, B |-> TPMid, M |-> TMapS, MA |-> TMapA, X |-> TAny, Y |-> TShape, YM |-> TMapY, W |-> TDst]]
\* the successor's input type
DT == CASE DstKind = "struct" -> TDst [] DstKind = "maps" -> TMapS [] DstKind = "mapa" -> TMapA [] DstKind = "str" -> TStr

\* the predecessors' output type
TMapSrc == [k |-> "map", n |-> "map[string]any", e |-> TAny]
ST == IF SrcKind = "map" THEN TMapSrc ELSE IF SrcKind = "dst" THEN TDst ELSE TSrc
\* PASS-THROUGH NODES.  A pass-through hands its input on unchanged; it has no type of its own: it takes the helper (incl. the converter
\* that assembles a field-mapped input) of the first neighbour whose edge is resolved - START (then its input type is the workflow's
\* INPUT type I), a predecessor, or a successor (genericHelper.forPredecessorPassthrough / forSuccessorPassthrough; the order
\* depends on map iteration, so the harness compiles such cases several times).  Whatever the order, the node field mappings point
\* INTO must receive exactly Set(zero of its input type, {target -> Get(Out(pred), source)}), and mappings OUT of a pass-through read
\* the predecessor's value.  In this model a pass-through is therefore the identity and the cases only say where it sits (pt).
Passthrough(v) == v

(* Values *)
VStr(s) == [k |-> "str", s |-> s]
VInt(i) == [k |-> "int", i |-> i]
VStruct(T, f) == [k |-> "struct", t |-> T, f |-> f]
VPtr(T, e) == [k |-> "ptr", t |-> T, nil |-> FALSE, e |-> e]
VNilPtr(T) == [k |-> "ptr", t |-> T, nil |-> TRUE]
VMap(T, m) == [k |-> "map", t |-> T, nil |-> FALSE, m |-> m]
VNilMap(T) == [k |-> "map", t |-> T, nil |-> TRUE]
VAny(e) == [k |-> "any", nil |-> FALSE, e |-> e]
VNilAny == [k |-> "any", nil |-> TRUE]
Invalid == [k |-> "invalid"]
Dyn(v) == IF v.k = "any" THEN (IF v.nil THEN Invalid ELSE v.e) ELSE v
TypeOfVal(v) == CASE v.k = "str" -> TStr [] v.k = "int" -> TInt [] OTHER -> v.t

RECURSIVE Zero(_)
Zero(T) == CASE T.k = "str" -> VStr("")
             [] T.k = "int" -> VInt(0)
             [] T.k = "any" -> VNilAny
             [] T.k = "ptr" -> VNilPtr(T)
             [] T.k = "map" -> VNilMap(T)
             [] T.k = "struct" -> VStruct(T, [n \in DOMAIN T.f |-> Zero(T.f[n])])

RECURSIVE Flat(_, _, _)
Flat(v, p, total) ==
  CASE v.k = "str" -> IF total \/ v.s # "" THEN {[p |-> p, k |-> "s", v |-> v.s]} ELSE {}
    [] v.k = "int" -> IF total \/ v.i # 0 THEN {[p |-> p, k |-> "n", v |-> ToString(v.i)]} ELSE {}
    [] v.k = "struct" -> UNION {Flat(v.f[n], Append(p, n), total) : n \in DOMAIN v.f}
    [] v.k \in {"ptr", "any"} -> IF v.nil THEN (IF total THEN {[p |-> p, k |-> "nil", v |-> ""]} ELSE {}) ELSE Flat(v.e, p, total)
    [] v.k = "map" -> IF v.nil THEN (IF total THEN {[p |-> p, k |-> "nil", v |-> ""]} ELSE {})
                      ELSE IF DOMAIN v.m = {} THEN (IF total THEN {[p |-> p, k |-> "empty", v |-> ""]} ELSE {})
                      ELSE UNION {Flat(v.m[n], Append(p, n), total) : n \in DOMAIN v.m}

(* The predecessors' output value per variant (mirrors vfmMakeSrc of the harness; cross-checked at run time through SRCFLAT) *)
Nm(pred, at) == pred \o ":" \o at
LeafIn(pred, at) == VStruct(TIn, [S |-> VStr(Nm(pred, at \o ".S")), N |-> VInt(7)])
MidVal(pred, at) == VStruct(TMid, [S |-> VStr(Nm(pred, at \o ".S")), I |-> LeafIn(pred, at \o ".I"), P |-> VPtr(TPIn, LeafIn(pred, at \o ".P")),
                                   M |-> VMap(TMapS, ("k" :> VStr(Nm(pred, at \o ".M.k")))), X |-> VAny(VStr(Nm(pred, at \o ".X")))])
WVal(pred) == VStruct(TDst, [S |-> VStr(Nm(pred, "W.S")), N |-> VInt(9), A |-> MidVal(pred, "W.A"), B |-> VNilPtr(TPMid),
                             M |-> VMap(TMapS, ("k" :> VStr(Nm(pred, "W.M.k")))), MI |-> VNilMap(TMapI), MM |-> VNilMap(TMapM), X |-> VNilAny])
BoxVal(pred, at) == VStruct(TBox, [I |-> LeafIn(pred, at \o ".I")])
BaseF(pred) == [S |-> VStr(Nm(pred, "S")), N |-> VInt(5), A |-> MidVal(pred, "A"), B |-> VPtr(TPMid, MidVal(pred, "B")),
                M |-> VMap(TMapS, ("k" :> VStr(Nm(pred, "M.k")))), X |-> VAny(MidVal(pred, "X")), W |-> WVal(pred),
                MA |-> VMap(TMapA, ("k" :> VAny(VStr(Nm(pred, "MA.k"))))), Y |-> VAny(BoxVal(pred, "Y")), YM |-> VMap(TMapY, ("k" :> VAny(BoxVal(pred, "YM.k"))))]
Variants == {"full", "Yptr", "Ystr", "Ynil", "nilB", "nilBP", "nokey", "nilM", "Xptr", "Xmap", "Xmapmap", "Xmapint", "Xstr", "Xnil", "AXint", "AXnil"}
SrcVal(pred, var) ==
  LET b == BaseF(pred)
      f == CASE var = "full" -> b
             [] var = "nilB" -> [b EXCEPT !.B = VNilPtr(TPMid)]
             [] var = "nilBP" -> [b EXCEPT !.B = VPtr(TPMid, [MidVal(pred, "B") EXCEPT !.f.P = VNilPtr(TPIn)])]
             [] var = "nokey" -> [b EXCEPT !.M = VMap(TMapS, ("other" :> VStr(Nm(pred, "M.other"))))]
             [] var = "nilM" -> [b EXCEPT !.M = VNilMap(TMapS)]
             [] var = "Xptr" -> [b EXCEPT !.X = VAny(VPtr(TPMid, MidVal(pred, "X")))]
             [] var = "Xmap" -> [b EXCEPT !.X = VAny(VMap(TMapA, ("I" :> VAny(LeafIn(pred, "X.I")))))]
             [] var = "Xmapmap" -> [b EXCEPT !.X = VAny(VMap(TMapA, ("I" :> VAny(VMap(TMapA, ("S" :> VAny(VStr(Nm(pred, "X.I.S")))))))))]
             [] var = "Xmapint" -> [b EXCEPT !.X = VAny(VMap(TMapA, ("I" :> VAny(VMap(TMapA, ("S" :> VAny(VInt(3))))))))]
             [] var = "Xstr" -> [b EXCEPT !.X = VAny(VStr(Nm(pred, "X")))]
             [] var = "Xnil" -> [b EXCEPT !.X = VNilAny]
             [] var = "AXint" -> [b EXCEPT !.A = [MidVal(pred, "A") EXCEPT !.f.X = VAny(VInt(4))]]
             [] var = "AXnil" -> [b EXCEPT !.A = [MidVal(pred, "A") EXCEPT !.f.X = VNilAny]]
             [] var = "Yptr" -> [b EXCEPT !.Y = VAny(VPtr(TPBox, BoxVal(pred, "Y"))), !.YM = VMap(TMapY, ("k" :> VAny(VPtr(TPBox, BoxVal(pred, "YM.k")))))]
             [] var = "Ystr" -> [b EXCEPT !.Y = VAny(VStr(Nm(pred, "Y"))), !.YM = VMap(TMapY, ("k" :> VAny(VStr(Nm(pred, "YM.k")))))]
             [] var = "Ynil" -> [b EXCEPT !.Y = VNilAny, !.YM = VMap(TMapY, ("k" :> VNilAny))]
  IN VStruct(TSrc, f)

(* Map-typed predecessor (SrcKind = "map"): the node is stream-native; in value mode the engine concatenates its chunks, in stream
   mode the edge's field mapping, checker and converter work chunk by chunk.  Variant "dense" = one chunk with every key,
   "sparse" = ONE KEY PER CHUNK (a mapped key is then absent from most chunks). *)
MapVal(pred) == VMap(TMapSrc, ("s" :> VAny(VStr(Nm(pred, "s")))) @@ ("t" :> VAny(VStr(Nm(pred, "t")))) @@ ("n" :> VAny(VInt(5))) @@ ("i" :> VAny(LeafIn(pred, "i"))))
\* the workflow input of the START-typed pass-through flavour: a full VfmDst value
DstVal(pred) == VStruct(TDst, [S |-> VStr(Nm(pred, "S")), N |-> VInt(5), A |-> MidVal(pred, "A"), B |-> VPtr(TPMid, MidVal(pred, "B")),
                               M |-> VMap(TMapS, ("k" :> VStr(Nm(pred, "M.k")))), MI |-> VNilMap(TMapI), MM |-> VNilMap(TMapM), X |-> VNilAny])
PredVal(pred, var) == IF SrcKind = "map" THEN MapVal(pred) ELSE IF SrcKind = "dst" THEN Passthrough(DstVal(pred)) ELSE SrcVal(pred, var)
PredChunks(pred, var) == IF SrcKind = "map" /\ var = "sparse"
                         THEN LET m == MapVal(pred).m IN [i \in 1..4 |-> VMap(TMapSrc, (<<"i", "n", "s", "t">>[i] :> m[<<"i", "n", "s", "t">>[i]]))]
                         ELSE <<PredVal(pred, var)>>

----------------------------------------------------------------------------
(* Path universe *)
SrcPath(n) == CASE n = "S" -> <<"S">> [] n = "N" -> <<"N">> [] n = "AIS" -> <<"A", "I", "S">> [] n = "BPS" -> <<"B", "P", "S">>
                [] n = "Mk" -> <<"M", "k">> [] n = "XIS" -> <<"X", "I", "S">> [] n = "AX" -> <<"A", "X">> [] n = "AI" -> <<"A", "I">>
                [] n = "A" -> <<"A">> [] n = "W" -> <<"W">> [] n = "all" -> <<>>
                [] n = "YIS" -> <<"Y", "I", "S">> [] n = "YMkIS" -> <<"YM", "k", "I", "S">> [] n = "MA" -> <<"MA">> [] n = "M" -> <<"M">>
                [] n = "ms" -> <<"s">> [] n = "mt" -> <<"t">> [] n = "mn" -> <<"n">> [] n = "miS" -> <<"i", "S">>
TgtPath(n) == CASE n = "S" -> <<"S">> [] n = "N" -> <<"N">> [] n = "AIS" -> <<"A", "I", "S">> [] n = "AMk" -> <<"A", "M", "k">>
                [] n = "BPS" -> <<"B", "P", "S">> [] n = "MIkS" -> <<"MI", "k", "S">> [] n = "MIkN" -> <<"MI", "k", "N">> [] n = "MMkIS" -> <<"MM", "k", "I", "S">> [] n = "MMkPS" -> <<"MM", "k", "P", "S">> [] n = "MMkMk" -> <<"MM", "k", "M", "k">>
                [] n = "Xk" -> <<"X", "k">> [] n = "Xj" -> <<"X", "j">> [] n = "Xkj" -> <<"X", "k", "j">> [] n = "AI" -> <<"A", "I">> [] n = "A" -> <<"A">>
                [] n = "all" -> <<>> [] n = "k" -> <<"k">>

(* checkAndExtractFieldType, literally: a map step, pointer dereference, a struct field; an interface before the last element
   stops the walk (intermediate interface); a non-container at the LAST element is accepted with its own type *)
RECURSIVE TypeLoop(_, _, _)
TypeLoop(T, p, i) ==
  IF i > Len(p) THEN [ok |-> TRUE, t |-> T, inter |-> FALSE]
  ELSE IF T.k = "map" THEN TypeLoop(T.e, p, i + 1)
  ELSE LET U == IF T.k = "ptr" THEN T.e ELSE T IN
       IF U.k = "struct" THEN (IF p[i] \in DOMAIN U.f THEN TypeLoop(U.f[p[i]], p, i + 1) ELSE [ok |-> FALSE, t |-> U, inter |-> FALSE])
       ELSE IF i < Len(p) THEN (IF U.k = "any" THEN [ok |-> TRUE, t |-> U, inter |-> TRUE] ELSE [ok |-> FALSE, t |-> U, inter |-> FALSE])
       ELSE TypeLoop(U, p, i + 1)
TypeAt(T, p) == TypeLoop(T, p, 1)
Assignable(a, b) == IF a.n = b.n THEN "must" ELSE IF b.k = "any" THEN "must" ELSE IF a.k = "any" THEN "may" ELSE "mustnot"
\* which run-time checker validateFieldMapping installs for a mapping: "none" | "hop" | "may"; "bad" = rejected statically
Checker(s, t) ==
  LET a == TypeAt(ST, s)
      b == TypeAt(DT, t)
  IN IF Len(s) = 0 /\ Len(t) = 0 THEN "none"            \* plain edge (AddInput without mappings): typed by the graph, no field mapping
     ELSE IF ~a.ok \/ ~b.ok THEN "bad"
     ELSE IF b.inter THEN (IF b.t.k = "any" THEN "none" ELSE "bad")
     ELSE IF a.inter THEN "hop"
     ELSE CASE Assignable(a.t, b.t) = "must" -> "none" [] Assignable(a.t, b.t) = "may" -> "may" [] OTHER -> "bad"
TKind(t) == LET b == TypeAt(DT, t).t IN CASE b.k = "str" -> "s" [] b.k = "int" -> "n" [] b.k = "any" -> "any" [] OTHER -> "tree"
\* dynamically typed sources (run-time checker) are paired with string / int / any targets only, so that the rule can tell a
\* fitting value from a mismatching one by its leaf kind
Pairs == {<<s, t>> \in SrcNames \X TgtNames : /\ Checker(SrcPath(s), TgtPath(t)) # "bad" /\ ~(s = "all" /\ t = "all")
                                             /\ (Checker(SrcPath(s), TgtPath(t)) = "none" \/ TKind(TgtPath(t)) # "tree")}

----------------------------------------------------------------------------
(* Compile: the trie walk in declaration order, then the exact-duplicate check *)
StrictPrefix(s, t) == IsPrefix(s, t) /\ Len(s) < Len(t)
Put(tr, pre, mark) == [q \in {q \in DOMAIN tr : ~StrictPrefix(pre, q)} \cup {pre} |-> IF q = pre THEN mark ELSE tr[q]]
RECURSIVE Walk(_, _, _, _)
Walk(tr, p, i, fixed) ==      \* [conflict, trie]
  IF fixed /\ <<>> \in DOMAIN tr /\ tr[<<>>] = "T" THEN [conflict |-> TRUE, trie |-> tr]      \* the whole input is already mapped
  ELSE IF Len(p) = 0 THEN
       (IF fixed THEN (IF DOMAIN tr # {<<>>} THEN [conflict |-> TRUE, trie |-> tr] ELSE [conflict |-> FALSE, trie |-> (<<>> :> "T")])
        ELSE [conflict |-> FALSE, trie |-> tr])                         \* as coded: the empty path leaves no trace
  ELSE LET pre == SubSeq(p, 1, i) IN
       IF pre \in DOMAIN tr /\ tr[pre] = "T" THEN [conflict |-> TRUE, trie |-> tr]
       ELSE IF i < Len(p) THEN (IF fixed /\ pre \in DOMAIN tr THEN Walk(tr, p, i + 1, fixed)
                                ELSE Walk(Put(tr, pre, "M"), p, i + 1, fixed))       \* as coded: m[path] = make(map...) drops the sub-trie
       ELSE IF fixed /\ pre \in DOMAIN tr THEN [conflict |-> TRUE, trie |-> tr]      \* a longer path was declared before
       ELSE [conflict |-> FALSE, trie |-> Put(tr, pre, "T")]
RECURSIVE WalkAll(_, _, _)
WalkAll(tr, ps, fixed) ==
  IF Len(ps) = 0 THEN [conflict |-> FALSE, trie |-> tr]
  ELSE LET r == Walk(tr, ps[1], 1, fixed) IN IF r.conflict THEN r ELSE WalkAll(r.trie, Tail(ps), fixed)
RECURSIVE AddInputs(_, _, _)
AddInputs(tr, decl, Fx) ==   \* one checkAndAddMappedPath call per AddInput, in call order
  IF Len(decl) = 0 THEN FALSE
  ELSE IF <<>> \in DOMAIN tr /\ tr[<<>>] = "T" THEN TRUE
  ELSE IF Len(decl[1].maps) = 0 /\ "D24" \notin Fx THEN
       \* AddInput without mappings passes an EMPTY LIST of paths: on a fresh node the root becomes terminal; when field paths have
       \* been registered before, the loop over the paths has nothing to do and the call is accepted (D24)
       AddInputs(IF <<>> \in DOMAIN tr THEN tr ELSE (<<>> :> "T"), Tail(decl), Fx)
  ELSE LET tr1 == IF <<>> \in DOMAIN tr THEN tr ELSE (<<>> :> "M")
           ps == IF Len(decl[1].maps) = 0 THEN << <<>> >> ELSE [i \in 1..Len(decl[1].maps) |-> decl[1].maps[i].t]    \* repaired: the empty path
           r == WalkAll(tr1, ps, "D6" \in Fx)
       IN r.conflict \/ AddInputs(r.trie, Tail(decl), Fx)
ExactDup(M) == \E i, j \in 1..Len(M) : i # j /\ M[i].t = M[j].t
CompileOutcome(decl, Fx) ==
  IF AddInputs(<<>>, decl, Fx) THEN "conflict" ELSE IF ExactDup(AllMaps(decl)) THEN "duplicate" ELSE "ok"

----------------------------------------------------------------------------
(* Run: extraction (fieldMap / takeOne) *)
Field(s, name) == IF name \in DOMAIN s.f THEN [st |-> "ok", v |-> s.f[name], T |-> s.t.f[name]] ELSE [st |-> "panic", why |-> "no-such-field"]
TakeOne(v, T, name, Fx) ==
  LET d == Dyn(v) IN
  CASE d.k = "invalid" -> [st |-> IF "D18" \in Fx THEN "err" ELSE "panic", why |-> "nil-interface-hop"]
    [] d.k = "map" -> IF d.nil \/ name \notin DOMAIN d.m THEN [st |-> "absent", why |-> "map-key"] ELSE [st |-> "ok", v |-> d.m[name], T |-> d.t.e]
    [] d.k = "ptr" -> IF d.nil THEN [st |-> IF "D18" \in Fx THEN "err" ELSE "panic", why |-> "nil-pointer-hop"] ELSE Field(d.e, name)
    [] d.k = "struct" -> Field(d, name)
    [] OTHER -> IF T.k = "any" THEN [st |-> "err", why |-> "interface-holds-no-container"] ELSE [st |-> "panic", why |-> "not-a-container"]
RECURSIVE TakePath(_, _, _, _)
TakePath(v, T, p, Fx) ==
  IF Len(p) = 0 THEN [st |-> "ok", v |-> v, T |-> T]
  ELSE LET r == TakeOne(v, T, p[1], Fx) IN IF r.st # "ok" THEN r ELSE TakePath(r.v, r.T, Tail(p), Fx)

\* fieldMap over the mappings of one edge: [st, why, taken], taken = set of [i (index in group), t, v]
RECURSIVE FieldMapFrom(_, _, _, _, _, _)
FieldMapFrom(maps, i, out, allowAbsent, Fx, acc) ==
  IF i > Len(maps) THEN [st |-> "ok", why |-> "", taken |-> acc]
  ELSE LET r == TakePath(out, ST, maps[i].s, Fx) IN
       IF r.st = "ok" THEN FieldMapFrom(maps, i + 1, out, allowAbsent, Fx, acc \cup {[i |-> i, t |-> maps[i].t, v |-> r.v]})
       ELSE IF r.st = "absent" THEN (IF allowAbsent THEN FieldMapFrom(maps, i + 1, out, allowAbsent, Fx, acc)
                                     ELSE [st |-> "err", why |-> "absent-map-key", taken |-> {}])
       ELSE [st |-> r.st, why |-> r.why, taken |-> {}]

\* run-time checkers of one edge (validateFieldMapping); as coded every closure tests against the LAST mapping's target type
TargetType(t) == TypeAt(DT, t).t
CheckOne(kind, v, TT) ==
  LET d == Dyn(v) IN
  IF kind = "hop" THEN (IF d.k = "invalid" THEN "panic" ELSE IF TT.k = "any" \/ TypeOfVal(d).n = TT.n THEN "ok" ELSE "err")
  ELSE IF d.k = "invalid" THEN (IF TT.k \in {"map", "ptr", "any"} THEN "ok" ELSE "err")
  ELSE IF TT.k = "any" \/ TypeOfVal(d).n = TT.n THEN "ok" ELSE "err"
CheckGroup(maps, taken, Fx) ==
  LET res == {CheckOne(Checker(maps[x.i].s, maps[x.i].t), x.v,
                       IF "D17" \in Fx THEN TargetType(maps[x.i].t) ELSE TargetType(maps[Len(maps)].t)) :
              x \in {y \in taken : Checker(maps[y.i].s, maps[y.i].t) # "none"}}
  IN IF "panic" \in res THEN "panic" ELSE IF "err" \in res THEN "err" ELSE "ok"
HasChecker(maps) == \E i \in 1..Len(maps) : Checker(maps[i].s, maps[i].t) # "none"

(* Run: assignment (convertTo / assignOne) *)
OK(v) == [ok |-> TRUE, v |-> v]
FAIL == [ok |-> FALSE]
RECURSIVE SetPath(_, _, _, _, _)
SetPath(d, T, p, val, Fx) ==
  IF Len(p) = 0 THEN
       (IF T.k = "any" THEN OK(IF Dyn(val).k = "invalid" THEN VNilAny ELSE VAny(Dyn(val)))
        ELSE IF Dyn(val).k = "invalid" THEN (IF T.k \in {"map", "ptr"} THEN OK(d) ELSE FAIL)
        ELSE IF TypeOfVal(Dyn(val)).n = T.n THEN OK(Dyn(val)) ELSE FAIL)
  ELSE LET name == p[1]
           rest == Tail(p)
       IN CASE T.k = "any" ->     \* an `any` hole on the way is expanded to map[string]any (an existing one is reused)
                 LET cur == IF ~d.nil /\ d.e.k = "map" /\ d.e.t.n = TMapA.n THEN d.e ELSE VMap(TMapA, <<>>)
                     r == SetPath(cur, TMapA, p, val, Fx)
                 IN IF r.ok THEN OK(VAny(r.v)) ELSE r
            [] T.k = "map" ->
                 LET m == IF d.nil THEN <<>> ELSE d.m
                     sub == IF name \in DOMAIN m THEN m[name] ELSE Zero(T.e)
                     r == SetPath(sub, T.e, rest, val, Fx)
                 IN \* as coded an EXISTING element of a map of structs comes out of MapIndex unaddressable: a second mapping into
                    \* one of its fields fails ("field not exported") although the targets do not overlap (D20)
                    IF "D20" \notin Fx /\ name \in DOMAIN m /\ T.e.k = "struct" /\ Len(rest) > 0 THEN FAIL
                    \* as coded the element (a struct VALUE) is stored back into the map when the walk steps into one of its
                    \* fields, i.e. before the assignment: an update below a by-value struct field of the element is lost (D21)
                    ELSE IF "D21" \notin Fx /\ T.e.k = "struct" /\ Len(rest) >= 2 /\ rest[1] \in DOMAIN T.e.f /\ T.e.f[rest[1]].k = "struct"
                         THEN OK(VMap(T, [x \in DOMAIN m \cup {name} |-> IF x = name THEN sub ELSE m[x]]))
                    ELSE IF r.ok THEN OK(VMap(T, [x \in DOMAIN m \cup {name} |-> IF x = name THEN r.v ELSE m[x]])) ELSE r
            [] T.k = "ptr" ->      \* instantiateIfNeeded
                 LET r == SetPath(IF d.nil THEN Zero(T.e) ELSE d.e, T.e, p, val, Fx) IN IF r.ok THEN OK(VPtr(T, r.v)) ELSE r
            [] T.k = "struct" ->
                 IF name \notin DOMAIN T.f THEN FAIL
                 ELSE LET r == SetPath(d.f[name], T.f[name], rest, val, Fx) IN IF r.ok THEN OK([d EXCEPT !.f[name] = r.v]) ELSE r
            [] OTHER -> FAIL
RECURSIVE ConvertSeq(_, _, _)
ConvertSeq(d, seq, Fx) == IF Len(seq) = 0 THEN OK(d)
                          ELSE LET r == SetPath(d, DT, seq[1].t, seq[1].v, Fx) IN IF r.ok THEN ConvertSeq(r.v, Tail(seq), Fx) ELSE r
\* the Go map is iterated in an arbitrary order: all results
ConvertAll(taken, Fx) == {ConvertSeq(Zero(DT), sq, Fx) : sq \in {SetToSeq(taken)} \cup (IF Cardinality(taken) <= 3 THEN {s \in [1..Cardinality(taken) -> taken] : Range(s) = taken} ELSE {})}

----------------------------------------------------------------------------
(* One call on the compiled workflow: the set of possible outcomes [kind, why, in] *)
WholeMap == [s |-> <<>>, t |-> <<>>, k |-> "tree", sn |-> "all", tn |-> "all"]
EffMaps(g) == IF Len(g.maps) = 0 THEN <<WholeMap>> ELSE g.maps
IsWholePred(decl, p) == \E g \in 1..Len(decl) : decl[g].pred = p /\ Len(decl[g].maps) = 0
\* a predecessor attached without mappings returns the successor's input type itself (a Dst value)
PredValD(decl, p, var) == IF IsWholePred(decl, p) THEN WVal(p) ELSE PredVal(p, var)
\* the edge handler sees, per AddInput edge, the predecessor's value (value mode: the concatenated value) or each of its chunks
Edges(decl, var, stream) == FlattenSeq([g \in 1..Len(decl) |->
                               LET cs == IF Len(decl[g].maps) = 0 THEN <<WVal(decl[g].pred)>>
                                         ELSE IF stream THEN PredChunks(decl[g].pred, var) ELSE <<PredVal(decl[g].pred, var)>>
                               IN [c \in 1..Len(cs) |-> [maps |-> EffMaps(decl[g]), val |-> cs[c]]]])
GroupTaken(E, allowAbsent, Fx) == [e \in 1..Len(E) |-> FieldMapFrom(E[e].maps, 1, E[e].val, allowAbsent, Fx, {})]
Retag(E, gt) == UNION {{[i |-> <<g, x.i>>, t |-> x.t, v |-> x.v] : x \in gt[g].taken} : g \in 1..Len(E)}
Outcome(kind, why, in) == [kind |-> kind, why |-> why, in |-> in]
InvokeOutcomes(decl, var, twice, Fx) ==
  LET E == Edges(decl, var, FALSE)
      gt == GroupTaken(E, FALSE, Fx)
      G == 1..Len(E)
      chk == [g \in G |-> IF gt[g].st = "ok" THEN CheckGroup(E[g].maps, gt[g].taken, Fx) ELSE "skip"]
  IN IF \E g \in G : gt[g].st = "panic" THEN {Outcome("panic", gt[CHOOSE g \in G : gt[g].st = "panic"].why, {})}
     ELSE IF \E g \in G : chk[g] = "panic" THEN {Outcome("panic", "checker-on-nil", {})}
     ELSE IF \E g \in G : gt[g].st = "err" \/ chk[g] = "err" THEN {Outcome("err", "edge-handler", {})}
     ELSE IF twice /\ "D7" \notin Fx THEN {Outcome("panic", "converter-applied-twice", {})}
     ELSE {IF r.ok THEN Outcome("ok", "", Flat(r.v, <<>>, FALSE)) ELSE Outcome("panic", "convertTo-must-succeed", {}) : r \in ConvertAll(Retag(E, gt), Fx)}
StreamOutcomes(decl, var, twice, Fx) ==
  LET E == Edges(decl, var, TRUE)           \* one entry per (edge, chunk): every chunk is mapped, checked and converted on its own;
      gt == GroupTaken(E, "D19" \notin Fx, Fx)  \* a mapped key absent from a chunk is skipped and the checker only sees the keys present
      G == 1..Len(E)
      chk == [g \in G |-> IF gt[g].st = "ok" THEN CheckGroup(E[g].maps, gt[g].taken, Fx) ELSE "skip"]
      conv == [g \in G |-> ConvertAll({[i |-> x.i, t |-> x.t, v |-> x.v] : x \in gt[g].taken}, Fx)]
  IN \* as coded the checker's transform turns the chunk type into `any`: with one predecessor the pre-node converter panics on
     \* the run loop, with several the stream merge in front of it refuses the chunk type (an error)
     IF "D16" \notin Fx /\ \E g \in 1..Len(decl) : HasChecker(EffMaps(decl[g]))
     THEN {IF Len(decl) = 1 THEN Outcome("panic", "stream-checker-chunk-type", {}) ELSE Outcome("err", "stream-checker-chunk-type", {})}
     ELSE IF twice /\ "D7" \notin Fx THEN {Outcome("panic", "converter-applied-twice", {})}
     \* everything below runs inside the lazily evaluated stream conversion, i.e. in the successor's goroutine: a panic there is
     \* recovered by the task manager and returned as an error
     ELSE IF \E g \in G : gt[g].st \in {"panic", "err"} \/ chk[g] \in {"panic", "err"} THEN {Outcome("err", "stream-item", {})}
     ELSE IF \E g \in G : \E r \in conv[g] : ~r.ok THEN {Outcome("err", "stream-item", {})}
     ELSE {Outcome("ok", "", UNION {Flat((CHOOSE r \in conv[g] : TRUE).v, <<>>, FALSE) : g \in G})}

(* The observation line the model produces for a case (same shape as the harness's line) *)
PredsOf(decl) == {decl[g].pred : g \in 1..Len(decl)}
ModelLine(decl, var, twice, Fx) ==
  LET c == CompileOutcome(decl, Fx)
      outs == SetToSeq({[pred |-> p, h |-> p, flat |-> SetToSeq(Flat(PredValD(decl, p, var), <<>>, TRUE))] : p \in PredsOf(decl)})
      o == SetToSeq({[pred |-> p, b |-> p, a |-> p] : p \in PredsOf(decl)})
      mk(mode, S) == SetToSeq({[mode |-> mode, kind |-> x.kind, why |-> x.why, in |-> SetToSeq(x.in), got |-> x.kind = "ok", o |-> o] : x \in S})
      ri == IF c = "ok" THEN mk("invoke", InvokeOutcomes(decl, var, twice, Fx)) ELSE <<>>
      rs == IF c = "ok" THEN mk("stream", StreamOutcomes(decl, var, twice, Fx)) ELSE <<>>
  IN [decl |-> decl, compile |-> [ok |-> c = "ok", cls |-> IF c = "ok" THEN "" ELSE c], outs |-> outs,
      runs |-> ri \o rs, ri |-> Len(ri), rs |-> Len(rs)]

\* D19 (absent source key: error in value form, skipped in stream form) is NOT among the repairs: refusing an absent key in the stream
\* form would break sources that legitimately arrive as sparse chunks (PredChunks); it stays a named deviation (known finding)
AllFixes == {"D6", "D7", "D16", "D17", "D18", "D20", "D21", "D24"}

----------------------------------------------------------------------------
(* Generator: declarations grown mapping by mapping *)
VARIABLES decl, var, phase
vars == <<decl, var, phase>>

Mk(pr) == [s |-> SrcPath(pr[1]), t |-> TgtPath(pr[2]), k |-> TKind(TgtPath(pr[2])), sn |-> pr[1], tn |-> pr[2]]
NMaps == Len(AllMaps(decl))
GenInit == decl = <<>> /\ var = "full" /\ phase = "grow"
\* the first AddInput is from p1; a second one (from p2) may be opened once; a mapping joins the last AddInput call
AddToLast(pr) == /\ phase = "grow" /\ Len(decl) > 0 /\ NMaps < MaxMaps /\ Len(decl[Len(decl)].maps) > 0
                 /\ ~(\E i \in 1..Len(decl[Len(decl)].maps) : (decl[Len(decl)].maps[i].sn = "all" /\ pr[2] = "all") \/ (decl[Len(decl)].maps[i].tn = "all" /\ pr[1] = "all"))
                 /\ decl' = [decl EXCEPT ![Len(decl)].maps = Append(@, Mk(pr))] /\ UNCHANGED <<var, phase>>
OpenGroup(pr) == /\ phase = "grow" /\ Len(decl) < (IF SrcKind = "dst" THEN 1 ELSE 2) /\ NMaps < MaxMaps
                 /\ decl' = Append(decl, [pred |-> IF Len(decl) = 0 THEN "p1" ELSE "p2", maps |-> <<Mk(pr)>>]) /\ UNCHANGED <<var, phase>>
\* AddInput(pred) without any mapping (the whole output as the whole input); in play when the whole-input target is
OpenWhole == /\ phase = "grow" /\ Len(decl) < 2 /\ NMaps < MaxMaps /\ SrcKind = "struct" /\ DstKind = "struct" /\ "all" \in TgtNames
             /\ decl' = Append(decl, [pred |-> IF Len(decl) = 0 THEN "p1" ELSE "p2", maps |-> <<>>]) /\ UNCHANGED <<var, phase>>
UsesSrc(names) == \E m \in Range(AllMaps(decl)) : \E n \in names : IsPrefix(SrcPath(n), m.s) /\ n # "all"
Relevant == IF SrcKind = "map" THEN {"dense", "sparse"} ELSE {"full"} \cup (VarSet \cap
               ((IF UsesSrc({"BPS"}) THEN {"nilB", "nilBP"} ELSE {}) \cup (IF UsesSrc({"Mk"}) THEN {"nokey", "nilM"} ELSE {})
               \cup (IF UsesSrc({"XIS"}) THEN {"Xptr", "Xmap", "Xmapmap", "Xmapint", "Xstr", "Xnil"} ELSE {})
               \cup (IF UsesSrc({"AX"}) THEN {"AXint", "AXnil"} ELSE {}) \cup (IF UsesSrc({"YIS", "YMkIS"}) THEN {"Yptr", "Ystr", "Ynil"} ELSE {})))
Finish(v) == /\ phase = "grow" /\ Len(decl) > 0 /\ v \in Relevant /\ var' = v /\ phase' = "done" /\ UNCHANGED decl
GenNext == (\E pr \in Pairs : AddToLast(pr) \/ OpenGroup(pr)) \/ OpenWhole \/ (\E v \in Variants \cup {"dense", "sparse"} : Finish(v))
GenSpec == GenInit /\ [][GenNext]_vars

Reasons(line) == {r[2] : r \in Judge(line)}
\* Impl with every proposed repair satisfies the rule (also with a second Compile)
Allowed == IF var \in {"nokey", "nilM"} THEN {"missing-source-handled-differently"} ELSE {}
FixedDesignHolds == phase = "done" => (Reasons(ModelLine(decl, var, FALSE, AllFixes)) \subseteq Allowed /\ Reasons(ModelLine(decl, var, TRUE, AllFixes)) \subseteq Allowed)
\* the unrepaired Impl: what it predicts is printed with the case (pred) and compared with the verdict on the real code
Emit == phase = "done" =>
  PrintT(<<"CASE", ToJson([decl |-> [g \in 1..Len(decl) |-> [pred |-> decl[g].pred, maps |-> [i \in 1..Len(decl[g].maps) |->
                                       [s |-> decl[g].maps[i].s, t |-> decl[g].maps[i].t, k |-> decl[g].maps[i].k]]]],
                           var |-> var, chk |-> \E g \in 1..Len(decl) : HasChecker(EffMaps(decl[g])), pred |-> SetToSeq(Reasons(ModelLine(decl, var, FALSE, {}))),
                           pred2 |-> SetToSeq(Reasons(ModelLine(decl, var, TRUE, {}))),
                           \* the same for the tree with the repairs that have been applied upstream of this check (fixed: lines)
                           predf |-> SetToSeq(Reasons(ModelLine(decl, var, FALSE, RepoFixes))),
                           predf2 |-> SetToSeq(Reasons(ModelLine(decl, var, TRUE, RepoFixes)))])>>)
\* the predecessors' values of the model, for the cross-check with the harness
SrcFlats == IF SrcKind = "dst" THEN PrintT(<<"SRCFLAT", "full", ToJson(SetToSeq(Flat(DstVal("p1"), <<>>, TRUE)))>>)
            ELSE IF SrcKind = "map" THEN \A v \in {"dense", "sparse"} : PrintT(<<"SRCFLAT", v, ToJson(SetToSeq(Flat(MapVal("p1"), <<>>, TRUE)))>>)
            ELSE \A v \in Variants : PrintT(<<"SRCFLAT", v, ToJson(SetToSeq(Flat(SrcVal("p1", v), <<>>, TRUE)))>>)
ASSUME SrcFlats
=============================================================================
