--------------------------- MODULE TaskManagerInd ---------------------------
(***************************************************************************)
(* Inductive-invariant attempt for TaskManager.tla with Apalache           *)
(* (unbounded in the length of behaviours; the task set is still a fixed   *)
(* finite set):                                                            *)
(*   apalache-mc check --cinit=CInit --init=Init    --inv=IndInv --length=0 TaskManagerInd.tla   (base)         *)
(*   apalache-mc check --cinit=CInit --init=IndInit --inv=IndInv --length=1 TaskManagerInd.tla   (step)         *)
(*   apalache-mc check --cinit=CInit --init=IndInit --inv=Safety --length=0 TaskManagerInd.tla   (IndInv=>Safety)*)
(***************************************************************************)
EXTENDS TaskManager, Apalache

CInit == /\ Tasks = {"t1", "t2", "t3", "t4", "t5", "t6", "t7", "t8"}
         /\ Eager \in BOOLEAN
         /\ MaxSubmits = 8 /\ MaxPerSubmit = 8 /\ MaxPanics = 8
         /\ AllowWaitAll \in BOOLEAN
         /\ Bug = "none"

\* @type: Seq(Str) => Bool;
Distinct(s) == \A i, j \in DOMAIN s : i # j => s[i] # s[j]
InExec(t) == epc[t] \in {"upd", "upd2"}
InColl == cpc \in {"cupd", "cupd2"}
Collected == {t \in Tasks : ccnt[t] >= 1}

Shape ==
  /\ Len(l) <= Cardinality(Tasks) /\ Len(ch) <= 1 /\ Distinct(l)
  /\ \A i \in DOMAIN l : l[i] \in Tasks
  /\ \A i \in DOMAIN ch : ch[i] \in Tasks
  \* mutex coherence
  /\ \A t \in Tasks : InExec(t) <=> mu = t
  /\ InColl <=> mu = Coll
  \* the element being handed over is still the head of the list
  /\ Sending => l # <<>>
  \* collector bookkeeping
  /\ (held # None) <=> cpc \in {"got", "cupd", "cupd2"}
  /\ held # None => (Pushed(held) /\ ccnt[held] = 0)
  /\ InColl => epc[held] = "done"
  /\ (sync # None) <=> cpc = "sync"
  /\ sync # None => (sync \in Tasks /\ epc[sync] # "idle" /\ ccnt[sync] = 0)
  /\ \A t \in Tasks : ccnt[t] >= 1 => epc[t] = "done"
  /\ Collected = retd \cup batch
  /\ cpc \in {"loop", "sync", "wait", "end"} => batch \subseteq retd
  /\ cpc \in {"w0", "recv", "got", "cupd", "cupd2", "ret"} => batch \cap retd = {}
  /\ (~wall /\ cpc \in {"w0", "recv", "got", "cupd", "cupd2"}) => batch = {}
  /\ (NeedAll /\ cpc \in {"w0", "recv", "got", "cupd", "cupd2", "ret"}) => wall
  /\ (NeedAll /\ cpc \in {"loop", "end"}) => num = 0
  /\ cpc = "end" => num = 0
  /\ (cpc = "recv" /\ ch = <<>> /\ LL = <<>>) => \E t \in Tasks : epc[t] \in {"run", "fin", "upd", "upd2"}

\* TypeOK without `l \in Seq(Tasks)` (Apalache cannot enumerate Seq; the element typing is in Shape)
TypeInd == /\ epc \in [Tasks -> {"idle", "run", "fin", "upd", "upd2", "done"}]
           /\ err \in [Tasks -> BOOLEAN]
           /\ mu \in Tasks \cup {None, Coll}
           /\ num \in 0..Cardinality(Tasks)
           /\ cpc \in {"loop", "sync", "wait", "w0", "recv", "got", "cupd", "cupd2", "ret", "end"}
           /\ held \in Tasks \cup {None} /\ sync \in Tasks \cup {None}
           /\ batch \subseteq Tasks /\ retd \subseteq Tasks
           /\ \A t \in Tasks : ccnt[t] \in 0..3
           /\ nsub \in 0..MaxSubmits /\ npanic \in 0..MaxPanics

IndInv == TypeInd /\ Shape /\ NoLoss /\ CollectedOnce /\ ChanCap /\ NoStall /\ NumOK /\ WaitOK /\ EndOK

\* the conjuncts of Safety that are not literally conjuncts of IndInv (TypeOK's Seq typing is replaced by Shape)
Safety2 == Mutex /\ SyncOK /\ PanicIsError

IndInit ==
  /\ epc \in [Tasks -> {"idle", "run", "fin", "upd", "upd2", "done"}]
  /\ err \in [Tasks -> BOOLEAN]
  /\ mu \in Tasks \cup {None, Coll}
  /\ l = Gen(8) /\ ch = Gen(1)
  /\ num \in 0..8
  /\ cpc \in {"loop", "sync", "wait", "w0", "recv", "got", "cupd", "cupd2", "ret", "end"}
  /\ held \in Tasks \cup {None} /\ sync \in Tasks \cup {None}
  /\ batch \in SUBSET Tasks /\ retd \in SUBSET Tasks /\ wall \in BOOLEAN
  /\ ccnt \in [Tasks -> 0..3] /\ nsub \in 0..8 /\ npanic \in 0..8
  /\ IndInv
================================================================================
