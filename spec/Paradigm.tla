------------------------------ MODULE Paradigm ------------------------------
(***************************************************************************)
(* C04: implementation-shaped model of how a compiled graph serves the     *)
(* four calling paradigms, plus the configuration generator.               *)
(*                                                                         *)
(*  Impl  - the derivation table of compose/runnable.go:377-441            *)
(*            i <- i | s | c | t     s <- s | t | i | c                    *)
(*            c <- c | t | i | s     t <- t | s | c | i                    *)
(*          with concat / box at each conversion (runnable.go:187-375);    *)
(*          a graph node only ever uses  i  (value mode) and  t  (stream   *)
(*          mode) of its packer (toComposableRunnable, runnable.go:101)    *)
(*        - the compiled graph is itself a packer with native i (run in    *)
(*          value mode) and native t (run in stream mode); Stream and      *)
(*          Collect are derived from t (toGenericRunnable, :443-475)       *)
(*        - state pre/post handlers are packers with one native form       *)
(*          (value handler: i, stream handler: t) run through the same     *)
(*          wrapper (state.go, graph_manager.go:293-301/:342-348)          *)
(*        - fan-out copies the value / the stream (graph_run.go:813-833),  *)
(*          output keys wrap the value / every chunk, fan-in merges maps   *)
(*          (value mode: duplicate key = error) or merges streams (stream  *)
(*          mode: chunks interleave, nothing notices a duplicate key: D13),*)
(*          input keys pick the value / filter the chunks                  *)
(*          (runnable.go:477-538, utils.go:53-90)                          *)
(*        - a nested graph node is the inner runner's i / t                *)
(*        - a may-assignable edge (any -> string) installs a checker with  *)
(*          a value and a stream form (generic_helper.go:225-243)          *)
(*  The four paradigms are run in lock-step over the program of the        *)
(*  configuration, one action per program element (Step).                  *)
(*  Node semantics: "append my marker at the end", producers split their   *)
(*  output according to oc; this is consistent across the four native      *)
(*  forms for any chunking, so ParadigmRule!Ref is a plain composition.    *)
(***************************************************************************)
EXTENDS ParadigmRule, Json, SequencesExt

CONSTANTS Shapes,      \* shapes in play
          NatFam,      \* "all15" | "six" | "four" : which native-form subsets nodes draw from
          OCs,         \* producer output chunkings in play (subset of 1..3)
          InFam,       \* "all15" | "five" | "three" | "two": which chunkings of the 3-symbol input value "abc" are in play
          Handlers,    \* subset of {"none","val","str"} for pre / post handlers (chain shapes)
          MaxNodes, AllowFail, AllowDup, AllowAny

Forms == <<"I", "S", "C", "T">>
AllSubsets == (SUBSET {"I", "S", "C", "T"}) \ {{}}
SixSubsets == {{"I"}, {"S"}, {"C"}, {"T"}, {"I", "T"}, {"I", "S", "C", "T"}}
NatSets == CASE NatFam = "all15" -> AllSubsets [] NatFam = "six" -> SixSubsets [] NatFam = "four" -> {{"I"}, {"S"}, {"C"}, {"T"}}
Names == <<"a", "b", "c", "d", "e", "f">>
\* every split of "abc" into 1-3 chunks, empty chunks included
In1 == {<<"abc">>}
In2 == {<<"", "abc">>, <<"a", "bc">>, <<"ab", "c">>, <<"abc", "">>}
In3 == {<<"", "", "abc">>, <<"", "a", "bc">>, <<"", "ab", "c">>, <<"", "abc", "">>, <<"a", "", "bc">>, <<"a", "b", "c">>, <<"a", "bc", "">>,
        <<"ab", "", "c">>, <<"ab", "c", "">>, <<"abc", "", "">>}
Inputs == CASE InFam = "all15" -> In1 \cup In2 \cup In3
            [] InFam = "five" -> {<<"abc">>, <<"a", "bc">>, <<"a", "b", "c">>, <<"", "abc">>, <<"ab", "", "c">>}
            [] InFam = "three" -> {<<"abc">>, <<"a", "bc">>, <<"ab", "", "c">>}
            [] InFam = "two" -> {<<"a", "bc">>, <<"ab", "", "c">>}

----------------------------------------------------------------------------
(* A program element: a unit with native forms nat, marker n, output chunking oc, failure mode *)
Unit(n, nat, oc, fail) == [op |-> "unit", n |-> n, nat |-> nat, oc |-> oc, fail |-> fail]
FailOf(cfg, name) == IF cfg.fail.n = name THEN cfg.fail.how ELSE ""
NodeUnits(cfg, nd) ==
  (IF nd.pre = "none" THEN <<>> ELSE <<Unit("(", IF nd.pre = "val" THEN {"I"} ELSE {"T"}, 1, "")>>)
  \o <<Unit(nd.n, Range(nd.nat), nd.oc, FailOf(cfg, nd.n))>>
  \o (IF nd.post = "none" THEN <<>> ELSE <<Unit(")", IF nd.post = "val" THEN {"I"} ELSE {"T"}, 1, "")>>)
RECURSIVE UnitsOf(_, _)
UnitsOf(cfg, nds) == IF Len(nds) = 0 THEN <<>> ELSE NodeUnits(cfg, nds[1]) \o UnitsOf(cfg, Tail(nds))
NilSrc(cfg, nd) == [Unit(nd.n, Range(nd.nat), nd.oc, FailOf(cfg, nd.n)) EXCEPT !.op = "nilsrc"]
OutKey(cfg, i) == IF cfg.dup THEN "k" ELSE cfg.nodes[i].n
Prog(cfg) ==
  LET N == cfg.nodes IN
  CASE cfg.shape \in {"chain", "nested"} -> UnitsOf(cfg, N)
    [] cfg.shape = "fan2" -> <<[op |-> "par", bs |-> [i \in 1..2 |-> [us |-> NodeUnits(cfg, N[i]), k |-> OutKey(cfg, i)]]]>>
    [] cfg.shape = "fan3" -> NodeUnits(cfg, N[1]) \o <<[op |-> "par", bs |-> [i \in 1..2 |-> [us |-> NodeUnits(cfg, N[i + 1]), k |-> OutKey(cfg, i + 1)]]]>>
    \* wide fan-in: k = 4..6 parallel nodes, each its own keyed stream, merged at END (schema.MergeStreamReaders switches from the
    \* static select to reflect.Select above five sources)
    [] cfg.shape = "fank" -> <<[op |-> "par", bs |-> [i \in 1..Len(N) |-> [us |-> NodeUnits(cfg, N[i]), k |-> OutKey(cfg, i)]]]>>
    \* workflow with field mappings that need a run-time check: producer a : string -> map[string]any {x: input, y: marker},
    \* MapFields(x -> X), MapFields(y -> Y) into consumer b : map[string]string -> string (X ++ Y ++ marker)
    \* (fmapn: the same with NESTED source paths o.x / o.y over chunks {o: {x: ..}} / {o: {y: ..}}: every chunk carries the outer key, the
    \* inner key of a mapping may be absent from a chunk and is then skipped at ANY depth of the path; the model is nesting-blind)
    [] cfg.shape \in {"fmap", "fmapn"} -> <<[op |-> "mapsrc", u |-> Unit(N[1].n, Range(N[1].nat), N[1].oc, FailOf(cfg, N[1].n))], [op |-> "fieldmap"],
                               [op |-> "join", u |-> Unit(N[2].n, Range(N[2].nat), N[2].oc, FailOf(cfg, N[2].n)), kx |-> "X", ky |-> "Y"]>>
    \* the edge a -> b carries a NAMED map type (nmap: as the chunk type itself, nmapn: nested under a key of a map[string]any chunk);
    \* wherever the consumer has no native stream input the engine concatenates the chunks (concatMaps keeps the chunk's own type;
    \* the model is type-blind here, the harness's consumer checks the dynamic type)
    [] cfg.shape \in {"nmap", "nmapn"} -> <<[op |-> "mapsrc", u |-> Unit(N[1].n, Range(N[1].nat), N[1].oc, FailOf(cfg, N[1].n))],
                               [op |-> "join", u |-> Unit(N[2].n, Range(N[2].nat), N[2].oc, FailOf(cfg, N[2].n)), kx |-> "x", ky |-> "y"]>>
    \* nil interface values: a "nil source" consumes its input and returns nil (one nil value / oc nil chunks)
    [] cfg.shape = "nil1" -> <<NilSrc(cfg, N[1])>>
    [] cfg.shape \in {"nil2", "nilif"} -> <<NilSrc(cfg, N[1]), NilSrc(cfg, N[2])>>
    [] cfg.shape = "nilin" -> NodeUnits(cfg, N[1])
    [] cfg.shape = "nilbr" -> <<NilSrc(cfg, N[1]), [op |-> "branch"]>> \o NodeUnits(cfg, NodeByName(cfg, cfg.pick))
    \* edge a -> b plus a branch on a whose ends include b: when the branch picks b, b is written twice in one step (value mode: the
    \* same value; stream mode: two copies of a's stream, the surplus one is closed) and runs once
    [] cfg.shape = "ebr" -> NodeUnits(cfg, N[1]) \o <<[op |-> "branch"]>> \o NodeUnits(cfg, N[2])
    \* END with a data predecessor b and an execution-only predecessor c behind a branch (all-predecessor channels): picking c skips b,
    \* END becomes ready holding no value and yields its placeholder: the OUTPUT type's zero value / a one-chunk stream of it
    [] cfg.shape \in {"eskw", "eskg"} -> NodeUnits(cfg, N[1]) \o <<[op |-> "branch"]>> \o NodeUnits(cfg, NodeByName(cfg, cfg.pick))
                                         \o (IF cfg.pick = "b" THEN <<[op |-> "outkey", k |-> "b"]>> ELSE <<[op |-> "nodata"]>>)
    \* fan-out then fan-in without output keys: a's map stream is COPIED to the consumers d and e; d merges it with b's single keyed
    \* value, e with c's (stream mode: mergeValues over the stream copies; array-backed sources are folded into one array)
    [] cfg.shape = "fofi" -> <<[op |-> "fofi", p |-> Unit(N[1].n, Range(N[1].nat), N[1].oc, ""), q |-> <<N[2], N[3]>>, c |-> <<N[4], N[5]>>]>>
    [] cfg.shape = "branch" -> NodeUnits(cfg, N[1]) \o <<[op |-> "branch"]>> \o NodeUnits(cfg, NodeByName(cfg, cfg.pick))
    \* keypt: the input key sits on a PASS-THROUGH node in front of each node (START -> p1[inkey x] -> a[outkey mid] -> p2[inkey mid] -> b[outkey out]):
    \* a pass-through is the identity unit in every paradigm and takes its type from its successor's INPUT side, whose output side
    \* (map[string]any after the output key) differs from it; the lowering is therefore the one of "keys"
    [] cfg.shape \in {"keys", "keypt"} -> IF Len(N) = 1 THEN <<[op |-> "inkey", k |-> "x"]>> \o NodeUnits(cfg, N[1]) \o <<[op |-> "outkey", k |-> "out"]>>
                             ELSE <<[op |-> "inkey", k |-> "x"]>> \o NodeUnits(cfg, N[1]) \o <<[op |-> "outkey", k |-> "mid"], [op |-> "inkey", k |-> "mid"]>>
                                  \o NodeUnits(cfg, N[2]) \o <<[op |-> "outkey", k |-> "out"]>>

----------------------------------------------------------------------------
(* Values in flight.  Value mode: [ok, m] with m a map key -> string ("" = a bare string).  Stream mode: [ok, cs] with cs a       *)
(* sequence of such maps (the chunks).                                                                                          *)
Bare(s) == ("" :> s)
ValOK(m) == [ok |-> TRUE, m |-> m]
ValFail(w) == [ok |-> FALSE, why |-> w]
StrOK(cs) == [ok |-> TRUE, cs |-> cs]
StrFail(w) == [ok |-> FALSE, why |-> w]
CatKey(cs, key) == Cat([i \in 1..Len(cs) |-> IF key \in DOMAIN cs[i] THEN cs[i][key] ELSE ""])
ConcatChunks(cs) == [key \in UNION {DOMAIN cs[i] : i \in 1..Len(cs)} |-> CatKey(cs, key)]     \* concatStreamReader / concatMaps
Box(m) == <<m>>                                                                                 \* StreamReaderFromArray([]T{v})

(* the four native forms of a unit on bare strings *)
SplitOut(u, s) == CASE u.oc = 1 -> <<s \o u.n>> [] u.oc = 2 -> <<s, u.n>> [] u.oc = 3 -> <<"", s, u.n>>
TailOut(u) == CASE u.oc = 1 -> <<u.n>> [] u.oc = 2 -> <<"", u.n>> [] u.oc = 3 -> <<u.n, "">>
NatI(u, s) == s \o u.n
NatS(u, s) == SplitOut(u, s)
NatC(u, ss) == Cat(ss) \o u.n
NatT(u, ss) == ss \o TailOut(u)
First(order, nat) == order[CHOOSE i \in 1..Len(order) : order[i] \in nat /\ \A j \in 1..(i - 1) : order[j] \notin nat]
\* composableRunnable.i of a unit = packer.Invoke:  i <- i | s | c | t
UnitInvoke(u, s) ==
  LET via == First(<<"I", "S", "C", "T">>, u.nat) IN
  CASE via = "I" -> NatI(u, s)
    [] via = "S" -> Cat(NatS(u, s))                   \* invokeByStream: concat the output
    [] via = "C" -> NatC(u, <<s>>)                    \* invokeByCollect: box the input
    [] via = "T" -> Cat(NatT(u, <<s>>))               \* invokeByTransform: box, then concat
\* composableRunnable.t of a unit = packer.Transform:  t <- t | s | c | i
UnitTransform(u, ss) ==
  LET via == First(<<"T", "S", "C", "I">>, u.nat) IN
  CASE via = "T" -> NatT(u, ss)
    [] via = "S" -> NatS(u, Cat(ss))                  \* transformByStream: concat the input
    [] via = "C" -> <<NatC(u, ss)>>                   \* transformByCollect: box the output
    [] via = "I" -> <<NatI(u, Cat(ss))>>              \* transformByInvoke: concat, then box
FormUsed(u, stream) == IF stream THEN First(<<"T", "S", "C", "I">>, u.nat) ELSE First(<<"I", "S", "C", "T">>, u.nat)

Low(K) == IF K = "X" THEN "x" ELSE "y"
Rename(c) == [K \in {K \in {"X", "Y"} : Low(K) \in DOMAIN c} |-> c[Low(K)]]
(* producer string -> map {x: input, y: marker}: one key per chunk in its stream forms *)
MNatI(u, s) == ("x" :> s) @@ ("y" :> u.n)
MNatS(u, s) == CASE u.oc = 1 -> <<MNatI(u, s)>> [] u.oc = 2 -> <<("x" :> s), ("y" :> u.n)>> [] u.oc = 3 -> <<("x" :> s), ("y" :> ""), ("y" :> u.n)>>
MNatT(u, ss) == [i \in 1..Len(ss) |-> ("x" :> ss[i])] \o (CASE u.oc = 1 -> <<("y" :> u.n)>> [] u.oc = 2 -> <<("y" :> ""), ("y" :> u.n)>> [] u.oc = 3 -> <<("y" :> u.n), ("x" :> "")>>)
MapInvoke(u, s) ==
  LET via == First(<<"I", "S", "C", "T">>, u.nat) IN
  CASE via = "I" -> MNatI(u, s) [] via = "S" -> ConcatChunks(MNatS(u, s)) [] via = "C" -> MNatI(u, Cat(<<s>>)) [] via = "T" -> ConcatChunks(MNatT(u, <<s>>))
MapTransform(u, ss) ==
  LET via == First(<<"T", "S", "C", "I">>, u.nat) IN
  CASE via = "T" -> MNatT(u, ss) [] via = "S" -> MNatS(u, Cat(ss)) [] via = "C" -> <<MNatI(u, Cat(ss))>> [] via = "I" -> <<MNatI(u, Cat(ss))>>
(* consumer map {X, Y} -> string X ++ Y ++ marker; its stream forms buffer the map chunks (X and Y chunks interleave) *)
XYk(m, kx, ky) == (IF kx \in DOMAIN m THEN m[kx] ELSE "") \o (IF ky \in DOMAIN m THEN m[ky] ELSE "")
JoinInvokeK(u, m, kx, ky) ==
  LET via == First(<<"I", "S", "C", "T">>, u.nat) IN
  CASE via \in {"I", "C"} -> XYk(m, kx, ky) \o u.n [] via = "S" -> Cat(SplitOut(u, XYk(m, kx, ky))) [] via = "T" -> Cat(<<XYk(m, kx, ky)>> \o TailOut(u))
JoinTransformK(u, cs, kx, ky) ==
  LET via == First(<<"T", "S", "C", "I">>, u.nat)
      m == ConcatChunks(cs)
  IN CASE via = "T" -> <<XYk(m, kx, ky)>> \o TailOut(u) [] via = "S" -> SplitOut(u, XYk(m, kx, ky)) [] via \in {"C", "I"} -> <<XYk(m, kx, ky) \o u.n>>
XY(m) == XYk(m, "X", "Y")
JoinInvoke(u, m) ==
  LET via == First(<<"I", "S", "C", "T">>, u.nat) IN
  CASE via \in {"I", "C"} -> XY(m) \o u.n [] via = "S" -> Cat(SplitOut(u, XY(m))) [] via = "T" -> Cat(<<XY(m)>> \o TailOut(u))
JoinTransform(u, cs) ==
  LET via == First(<<"T", "S", "C", "I">>, u.nat)
      m == ConcatChunks(cs)
  IN CASE via = "T" -> <<XY(m)>> \o TailOut(u) [] via = "S" -> SplitOut(u, XY(m)) [] via \in {"C", "I"} -> <<XY(m) \o u.n>>

RECURSIVE RunUnitsV(_, _)
RunUnitsV(us, s) == IF Len(us) = 0 THEN [ok |-> TRUE, s |-> s]
                    ELSE IF us[1].fail # "" THEN [ok |-> FALSE, why |-> "node-failure"]
                    ELSE RunUnitsV(Tail(us), UnitInvoke(us[1], s))
RECURSIVE RunUnitsS(_, _)
RunUnitsS(us, ss) == IF Len(us) = 0 THEN [ok |-> TRUE, ss |-> ss]
                     ELSE IF us[1].fail # "" THEN [ok |-> FALSE, why |-> "node-failure"]   \* at call time, or as an error item further down
                     ELSE RunUnitsS(Tail(us), UnitTransform(us[1], ss))

(* one program element in value mode *)
StepV(e, x, Fx) ==
  IF ~x.ok THEN x
  ELSE CASE e.op = "unit" -> (LET r == RunUnitsV(<<e>>, x.m[""]) IN IF r.ok THEN ValOK(Bare(r.s)) ELSE ValFail(r.why))
         [] e.op = "branch" -> x                                      \* the condition reads a copy
         \* a nil interface value is an ordinary value of an interface-typed edge: boxed into `any` it is the zero value of the
         \* declared type again at the next node, at a branch and as the graph's result (written "")
         [] e.op = "nilsrc" -> IF e.fail # "" THEN ValFail("node-failure") ELSE ValOK(Bare(""))
         [] e.op = "nodata" -> ValOK(<<>>)
         [] e.op = "fofi" ->
              LET pm == MapInvoke(e.p, x.m[""])
                  side(i) == LET qu == Unit(e.q[i].n, Range(e.q[i].nat), e.q[i].oc, "")
                                 m == pm @@ (qu.n :> UnitInvoke(qu, x.m[""]))                       \* mergeMap of the two predecessors' maps
                             IN Rendered(qu.n, m[qu.n], m["x"], m["y"]) \o e.c[i].n                  \* every native form of a consumer renders the whole map
              IN ValOK((e.c[1].n :> side(1)) @@ (e.c[2].n :> side(2)))                              \* dagChannel's zero value of the graph's output type
         [] e.op = "inkey" -> IF e.k \in DOMAIN x.m THEN ValOK(Bare(x.m[e.k])) ELSE ValFail("cannot find input key")
         [] e.op = "outkey" -> ValOK((e.k :> x.m[""]))
         [] e.op = "par" ->
              LET B == 1..Len(e.bs)
                  r == [i \in B |-> RunUnitsV(e.bs[i].us, x.m[""])]
              IN IF \E i \in B : ~r[i].ok THEN ValFail("node-failure")
                 ELSE IF \E i, j \in B : i # j /\ e.bs[i].k = e.bs[j].k THEN ValFail("duplicated key")    \* mergeMap
                 ELSE ValOK([key \in {e.bs[i].k : i \in B} |-> r[CHOOSE i \in B : e.bs[i].k = key].s])
         [] e.op = "mapsrc" -> IF e.u.fail # "" THEN ValFail("node-failure") ELSE ValOK(MapInvoke(e.u, x.m[""]))
         \* fieldMap in value form: every mapped key must be there; the run-time checker looks at the keys present
         [] e.op = "fieldmap" -> IF {"x", "y"} \subseteq DOMAIN x.m THEN ValOK(("X" :> x.m["x"]) @@ ("Y" :> x.m["y"])) ELSE ValFail("key not found")
         [] e.op = "join" -> IF e.u.fail # "" THEN ValFail("node-failure") ELSE ValOK(Bare(JoinInvokeK(e.u, x.m, e.kx, e.ky)))
(* one program element in stream mode *)
Strs(cs) == [i \in 1..Len(cs) |-> cs[i][""]]
Wrap(k, ss) == [i \in 1..Len(ss) |-> (k :> ss[i])]
StepS(e, x, Fx) ==
  IF ~x.ok THEN x
  ELSE CASE e.op = "unit" -> (LET r == RunUnitsS(<<e>>, Strs(x.cs)) IN IF r.ok THEN StrOK(Wrap("", r.ss)) ELSE StrFail(r.why))
         [] e.op = "branch" -> x
         [] e.op = "nilsrc" -> IF e.fail # "" THEN StrFail("node-failure")
                               ELSE StrOK(Wrap("", IF FormUsed(e, TRUE) \in {"T", "S"} THEN [i \in 1..e.oc |-> ""] ELSE <<"">>))   \* oc nil chunks / one boxed nil
         [] e.op = "nodata" -> StrOK(<< <<>> >>)
         [] e.op = "fofi" ->
              LET ps == MapTransform(e.p, Strs(x.cs))                                              \* one stream, copied to both consumers
                  side(i) == LET qu == Unit(e.q[i].n, Range(e.q[i].nat), e.q[i].oc, "")
                                 m == ConcatChunks(ps \o Wrap(qu.n, UnitTransform(qu, Strs(x.cs))))   \* each consumer: its own copy + its own q
                             IN Rendered(qu.n, m[qu.n], m["x"], m["y"]) \o e.c[i].n
              IN StrOK(<<(e.c[1].n :> side(1)), (e.c[2].n :> side(2))>>)                        \* ... resp. its empty stream: one chunk holding that zero value
         [] e.op = "inkey" -> LET sel == SelectSeq(x.cs, LAMBDA c : e.k \in DOMAIN c)          \* chunks without the key are skipped
                              IN StrOK([i \in 1..Len(sel) |-> Bare(sel[i][e.k])])
         [] e.op = "outkey" -> StrOK(Wrap(e.k, Strs(x.cs)))                                   \* withKey on every chunk
         [] e.op = "par" ->
              LET B == 1..Len(e.bs)
                  r == [i \in B |-> RunUnitsS(e.bs[i].us, Strs(x.cs))]                         \* every branch reads a copy of the stream
              IN IF \E i \in B : ~r[i].ok THEN StrFail("node-failure")
                 ELSE IF "D13" \in Fx /\ \E i, j \in B : i # j /\ e.bs[i].k = e.bs[j].k THEN StrFail("duplicated key")
                 \* as coded: the keyed streams are merged (one interleaving shown; the merge itself - static select up to five
                 \* sources, reflect.Select above - is Streams.tla's business, here every source is drained); a duplicate key goes
                 \* unnoticed and the consumer's concatenation joins the values
                 ELSE StrOK(FlattenSeq([i \in B |-> Wrap(e.bs[i].k, r[i].ss)]))
         [] e.op = "mapsrc" -> IF e.u.fail # "" THEN StrFail("node-failure") ELSE StrOK(MapTransform(e.u, Strs(x.cs)))
         \* fieldMap in stream form, chunk by chunk: a mapped key that is absent from THIS chunk is skipped (it arrives in another
         \* chunk), the run-time checker and the converter see the keys present in the chunk
         [] e.op = "fieldmap" -> StrOK([i \in 1..Len(x.cs) |-> Rename(x.cs[i])])
         [] e.op = "join" -> IF e.u.fail # "" THEN StrFail("node-failure") ELSE StrOK(Wrap("", JoinTransformK(e.u, x.cs, e.kx, e.ky)))

----------------------------------------------------------------------------
(* Generator + lock-step run *)
VARIABLES cfg, phase, pos, acc
vars == <<cfg, phase, pos, acc>>

NoFail == [n |-> "", how |-> ""]
EmptyCfg == [shape |-> "", nodes |-> <<>>, in |-> <<>>, dup |-> FALSE, pick |-> "", bstrm |-> FALSE, z |-> FALSE, fail |-> NoFail, anyout |-> FALSE]
NodesWanted(sh) == CASE sh = "fofi" -> {5} [] sh \in {"ebr", "eskw", "eskg"} -> {3} [] sh \in {"nil1", "nilin"} -> {1} [] sh \in {"nil2", "nilif"} -> {2} [] sh = "nilbr" -> {3} [] sh = "fank" -> 4..MaxNodes [] sh \in {"fmap", "fmapn", "nmap", "nmapn"} -> {2} [] sh = "chain" -> 1..MaxNodes [] sh = "nested" -> 2..MaxNodes [] sh = "fan2" -> {2} [] sh = "fan3" -> {3}
                     [] sh = "branch" -> {3} [] sh \in {"keys", "keypt"} -> 1..(IF MaxNodes > 2 THEN 2 ELSE MaxNodes)
HandlerOK(sh) == sh \in {"chain"}
Init == cfg = EmptyCfg /\ phase = "shape" /\ pos = 0 /\ acc = <<>>
ChooseShape(sh) == /\ phase = "shape" /\ cfg' = [cfg EXCEPT !.shape = sh] /\ phase' = "nodes" /\ UNCHANGED <<pos, acc>>
UsesOC(nat) == "S" \in nat \/ "T" \in nat
AddNode(nat, oc, pre, post) ==
  /\ phase = "nodes" /\ Len(cfg.nodes) < MaxNodes /\ (Len(cfg.nodes) + 1) \in 1..(CHOOSE m \in NodesWanted(cfg.shape) : \A k \in NodesWanted(cfg.shape) : k <= m)
  /\ (UsesOC(nat) \/ oc = 1)                                        \* the chunking only matters for stream-producing forms
  /\ (HandlerOK(cfg.shape) \/ (pre = "none" /\ post = "none"))
  \* wide fan-in: mixed native forms, the first node picks one, the following ones take the next form in the cycle I, S, C, T
  /\ (cfg.shape = "fank" /\ Len(cfg.nodes) > 0 =>
        LET prev == cfg.nodes[Len(cfg.nodes)].nat[1]
            idx == CHOOSE i \in 1..4 : Forms[i] = prev
        IN Cardinality(nat) = 1 /\ nat = {Forms[(idx % 4) + 1]})
  /\ (cfg.shape = "fank" => Cardinality(nat) = 1)
  \* fofi: the producer a is free; the side inputs b, c and the consumers d, e are invoke-only or transform-only, one chunk
  /\ (cfg.shape = "fofi" /\ Len(cfg.nodes) > 0 => nat \in {{"I"}, {"T"}} /\ oc = 1)
  /\ cfg' = [cfg EXCEPT !.nodes = Append(@, [n |-> Names[Len(cfg.nodes) + 1], nat |-> SetToSeq(nat), oc |-> oc, pre |-> pre, post |-> post])]
  /\ UNCHANGED <<phase, pos, acc>>
Executed(c) == IF c.shape \in {"branch", "nilbr", "ebr", "eskw", "eskg"} THEN {"a", c.pick} ELSE {c.nodes[i].n : i \in 1..Len(c.nodes)}
Finish(in, dup, pick, bstrm, z, f, anyout) ==
  /\ phase = "nodes" /\ Len(cfg.nodes) \in NodesWanted(cfg.shape)
  /\ (dup => cfg.shape \in {"fan2", "fan3"} /\ AllowDup)
  /\ (cfg.shape \in {"branch", "nilbr", "eskw", "eskg"} => pick \in {"b", "c"}) /\ (cfg.shape = "ebr" => pick = "b")
  /\ (cfg.shape \notin {"branch", "nilbr", "ebr", "eskw", "eskg"} => pick = "" /\ ~bstrm)
  /\ (z => cfg.shape \in {"keys", "keypt"})
  /\ (anyout => AllowAny /\ cfg.shape = "chain" /\ Len(cfg.nodes) >= 2 /\ Range(cfg.nodes[1].nat) \in {{"I"}, {"C"}} /\ cfg.nodes[1].post = "none")
  /\ (f.n # "" => AllowFail /\ ~dup /\ f.n \in Executed([cfg EXCEPT !.pick = pick])
                  /\ (f.how \in {"item", "eof"} => \E i \in 1..Len(cfg.nodes) : cfg.nodes[i].n = f.n /\ UsesOC(Range(cfg.nodes[i].nat))))
  /\ cfg' = [cfg EXCEPT !.in = in, !.dup = dup, !.pick = pick, !.bstrm = bstrm, !.z = z, !.fail = f, !.anyout = anyout]
  /\ phase' = "run" /\ pos' = 1
  \* the four paradigms start from: Invoke the concatenated value; Stream the boxed value (streamByTransform); Collect and
  \* Transform the chunks themselves.  In the keys shape the bare input is the value under key "x" (plus an unrelated chunk).
  /\ LET wrapIn(ss) == IF cfg.shape = "nilin" THEN [i \in 1..Len(ss) |-> Bare("")]        \* the graph input is nil: one nil value / Len(in) nil chunks
                       ELSE IF cfg.shape \in {"keys", "keypt"} THEN (IF z THEN <<("z" :> "q")>> ELSE <<>>) \o Wrap("x", ss) ELSE Wrap("", ss)
         whole == ConcatChunks(wrapIn(in))
     IN acc' = [I |-> ValOK(whole), S |-> StrOK(Box(whole)), C |-> StrOK(wrapIn(in)), T |-> StrOK(wrapIn(in))]
FailChoices == {NoFail} \cup (IF AllowFail THEN {[n |-> Names[i], how |-> h] : i \in 1..3, h \in {"call", "item", "eof"}} ELSE {})
AsCoded == {}
Step == /\ phase = "run" /\ pos <= Len(Prog(cfg))
        /\ LET e == Prog(cfg)[pos] IN
           acc' = [I |-> StepV(e, acc.I, AsCoded), S |-> StepS(e, acc.S, AsCoded), C |-> StepS(e, acc.C, AsCoded), T |-> StepS(e, acc.T, AsCoded)]
        /\ pos' = pos + 1 /\ UNCHANGED <<cfg, phase>>
Done == /\ phase = "run" /\ pos > Len(Prog(cfg)) /\ phase' = "done" /\ UNCHANGED <<cfg, pos, acc>>
Next == \/ \E sh \in Shapes : ChooseShape(sh)
        \/ \E nat \in NatSets, oc \in OCs \cup {1}, pre \in Handlers, post \in Handlers : AddNode(nat, oc, pre, post)
        \/ \E in \in Inputs, dup \in BOOLEAN, pick \in {"", "b", "c"}, bstrm \in BOOLEAN, z \in BOOLEAN, f \in FailChoices, anyout \in BOOLEAN :
              Finish(in, dup, pick, bstrm, z, f, anyout)
        \/ Step \/ Done
Spec == Init /\ [][Next]_vars

----------------------------------------------------------------------------
(* The results as the rule sees them *)
ChunkRec(m) == SetToSeq({[k |-> key, v |-> m[key]] : key \in DOMAIN m})
ResV(x) == IF x.ok THEN [kind |-> "ok", chunks |-> <<ChunkRec(x.m)>>] ELSE [kind |-> "err", chunks |-> <<>>]
ResS(x) == IF x.ok THEN [kind |-> "ok", chunks |-> [i \in 1..Len(x.cs) |-> ChunkRec(x.cs[i])]] ELSE [kind |-> "err", chunks |-> <<>>]
\* Collect = collectByTransform: the output of the stream-mode run, concatenated
ResC(x) == IF x.ok THEN [kind |-> "ok", chunks |-> <<ChunkRec(ConcatChunks(x.cs))>>] ELSE [kind |-> "err", chunks |-> <<>>]
ModelRes == [I |-> ResV(acc.I), S |-> ResS(acc.S), C |-> ResC(acc.C), T |-> ResS(acc.T)]
Predicted == Judge(cfg, ModelRes)
\* Impl => Rule, except where the model contains a named deviation of the code (D13: duplicate key on fan-in)
LawHolds == phase = "done" => (Predicted = {} \/ (cfg.dup /\ Predicted = {"failure-not-in-every-paradigm"}))
\* which native form serves each unit in value mode and in stream mode (conformance of the derivation table itself)
RECURSIVE FlatUnits(_)
FlatUnits(p) == IF Len(p) = 0 THEN <<>>
                ELSE (IF p[1].op = "unit" THEN <<p[1]>> ELSE IF p[1].op = "par" THEN FlattenSeq([i \in 1..Len(p[1].bs) |-> p[1].bs[i].us])
                      ELSE IF p[1].op \in {"mapsrc", "join"} THEN <<p[1].u>> ELSE IF p[1].op = "nilsrc" THEN <<p[1]>>
                      ELSE IF p[1].op = "fofi" THEN <<p[1].p>> \o [i \in 1..2 |-> Unit(p[1].q[i].n, Range(p[1].q[i].nat), 1, "")] \o [i \in 1..2 |-> Unit(p[1].c[i].n, Range(p[1].c[i].nat), 1, "")]
                      ELSE <<>>) \o FlatUnits(Tail(p))
FormsOf(stream) == LET us == SelectSeq(FlatUnits(Prog(cfg)), LAMBDA u : u.n \notin {"(", ")"}) IN [i \in 1..Len(us) |-> us[i].n \o ":" \o FormUsed(us[i], stream)]
Emit == phase = "done" =>
  PrintT(<<"CASE", ToJson([shape |-> cfg.shape, nodes |-> cfg.nodes, in |-> cfg.in, dup |-> cfg.dup, pick |-> cfg.pick, bstrm |-> cfg.bstrm,
                           z |-> cfg.z, fail |-> cfg.fail, anyout |-> cfg.anyout, pred |-> SetToSeq(Predicted),
                           fv |-> FormsOf(FALSE), fs |-> FormsOf(TRUE)])>>)
=============================================================================
