CONSTANTS
  Mode = "wf"
  N = 4
  MaxEdges = 14
  FailKinds = {"err"}
  AllowDangling = TRUE
  Runs = 2
  RBug = "none"
SPECIFICATION RunSpec
INVARIANT RuleHolds
INVARIANT Compared
CHECK_DEADLOCK FALSE
