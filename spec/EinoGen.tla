------------------------------- MODULE EinoGen -------------------------------
(***************************************************************************)
(* Scenario generator for the run engine: enumerates, exhaustively inside  *)
(* the bounds given by the constants, every configuration                  *)
(*    graph (edges grown in canonical order, branches likewise)            *)
(*  x branch policy (what each branch chooses at value depth 0..D)         *)
(*  x interrupt-before / interrupt-after / rerun marks                     *)
(*  x failing node                                                         *)
(* and prints each one once as <<"CASE", json>>.  A scenario carries only  *)
(* the configuration: the expectation is recomputed from the observations  *)
(* by RunObs, and by EinoRun for the model-level check.                    *)
(* The same growth actions are reused by EinoRun.tla (INSTANCE-free: it    *)
(* EXTENDS this module).                                                   *)
(***************************************************************************)
EXTENDS Naturals, Sequences, FiniteSets, TLC, Json

CONSTANTS Mode,        \* "pregel" | "dag" | "wf"
          N,           \* number of nodes (1..4)
          MaxEdges, MaxBr,
          D,           \* policies are functions of min(depth, D)
          MaxMarks,    \* |before| + |after| + |rerun| <= MaxMarks
          AllowRerun, AllowFail, AllowMulti,
          MaxChoice,   \* set of max-step settings (0 = default) for pregel
          MaxEnds,     \* branches have 2..MaxEnds targets
          AllowDup,    \* any-predecessor mode: admit a branch whose ends include a target the same node also has a plain edge to
          AllowOrphans \* acyclic modes: admit nodes that no control path from START reaches (finding D12)

AllNames == <<"a", "b", "c", "d">>
Nodes == {AllNames[i] : i \in 1..N}
START == "start"
END == "end"
Src == Nodes \cup {START}
Dst == Nodes \cup {END}
Ord(n) == CASE n = START -> 0 [] n = "a" -> 1 [] n = "b" -> 2 [] n = "c" -> 3 [] n = "d" -> 4 [] n = END -> 9
Acyclic == Mode \in {"dag", "wf"}
Kinds == IF Mode = "wf" THEN {"cd", "c", "d"} ELSE {"cd"}
KindRank(k) == CASE k = "cd" -> 0 [] k = "c" -> 1 [] k = "d" -> 2
\* candidate edges <<s, d, kind>>; in acyclic modes only forward pairs (no shape is lost up to renaming)
PairOK(s, d) == /\ ~(s = START /\ d = END)
                /\ (Acyclic => Ord(s) < Ord(d))
EdgeU == {e \in Src \X Dst \X Kinds : PairOK(e[1], e[2])}
ERank(e) == (Ord(e[1]) * 10 + Ord(e[2])) * 3 + KindRank(e[3])
\* candidate branches
EndSets == {E \in SUBSET Dst : Cardinality(E) \in 2..MaxEnds}
BranchU == {b \in [from : Src, ends : EndSets, multi : IF AllowMulti THEN BOOLEAN ELSE {FALSE}] :
              /\ (Acyclic => \A e \in b.ends : Ord(b.from) < Ord(e))
              /\ (Cardinality(b.ends) = 3 => ~b.multi)}
SetCode(E) == (IF "a" \in E THEN 1 ELSE 0) + (IF "b" \in E THEN 2 ELSE 0) + (IF "c" \in E THEN 4 ELSE 0) + (IF "d" \in E THEN 8 ELSE 0) + (IF END \in E THEN 16 ELSE 0)
BRank(b) == (Ord(b.from) * 32 + SetCode(b.ends)) * 2 + (IF b.multi THEN 1 ELSE 0)

VARIABLES phase, edges, brs, deco
gvars == <<phase, edges, brs, deco>>

NoDeco == [pol |-> <<>>, before |-> {}, after |-> {}, rerun |-> {}, fail |-> <<>>, max |-> 0]
GenInit == phase = "e" /\ edges = {} /\ brs = <<>> /\ deco = NoDeco

MaxRank(S, R(_)) == IF S = {} THEN 0 ELSE CHOOSE m \in {R(x) : x \in S} : \A y \in S : R(y) <= m
BrSet == {brs[i] : i \in 1..Len(brs)}
\* one edge per ordered pair; an edge and a branch never share source and target
AddEdge(e) == /\ phase = "e" /\ Cardinality(edges) < MaxEdges
              /\ ERank(e) > MaxRank(edges, ERank)
              /\ ~\E x \in edges : x[1] = e[1] /\ x[2] = e[2]
              /\ edges' = edges \cup {e} /\ UNCHANGED <<phase, brs, deco>>
ToBranches == /\ phase = "e" /\ phase' = "b" /\ UNCHANGED <<edges, brs, deco>>
AddBranch(b) == /\ phase = "b" /\ Len(brs) < MaxBr /\ deco.pol = <<>>
                /\ BRank(b) > MaxRank(BrSet, BRank)
                /\ (AllowDup /\ Mode = "pregel") \/ ~\E x \in edges : x[1] = b.from /\ x[2] \in b.ends
                /\ brs' = Append(brs, b) /\ UNCHANGED <<phase, edges, deco>>

CtrlEdge(s, d) == \E x \in edges : x[1] = s /\ x[2] = d /\ x[3] \in {"cd", "c"}
CtrlSucc(s) == {d \in Dst : CtrlEdge(s, d) \/ \E b \in BrSet : b.from = s /\ d \in b.ends}
RECURSIVE Reach(_, _)
Reach(S, fuel) == LET S2 == S \cup UNION {CtrlSucc(s) : s \in S \ {END}} IN IF fuel = 0 \/ S2 = S THEN S ELSE Reach(S2, fuel - 1)
CtrlDesc(s) == Reach(CtrlSucc(s), 6)
WellFormed ==
  /\ IF Mode = "wf" THEN (\E d \in Nodes : CtrlEdge(START, d)) /\ (\E s \in Nodes : CtrlEdge(s, END))
     ELSE CtrlSucc(START) # {} /\ \E s \in Src : END \in CtrlSucc(s)
  /\ END \in Reach({START}, 6)                                   \* END reachable at all
  /\ (Acyclic /\ ~AllowOrphans) => Nodes \subseteq Reach({START}, 6)
  /\ \A x \in edges : x[3] = "d" => x[2] \in CtrlDesc(x[1])      \* workflow: data-only edges need a control path
  /\ \A n \in Nodes : (\E x \in edges : x[2] = n /\ x[3] = "d") => \E s \in Src : n \in CtrlSucc(s)

PolSet(b) == IF b.multi THEN [0..D -> SUBSET b.ends] ELSE [0..D -> {{e} : e \in b.ends}]
Marks == {m \in [before : SUBSET Nodes, after : SUBSET Nodes, rerun : IF AllowRerun THEN SUBSET Nodes ELSE {{}}] :
            /\ Cardinality(m.before) + Cardinality(m.after) + Cardinality(m.rerun) <= MaxMarks
            /\ Cardinality(m.rerun) <= 1}
Fails == IF AllowFail THEN {<<>>} \cup {<<[n |-> n, kind |-> k]>> : n \in Nodes, k \in {"err", "panic"}} ELSE {<<>>}
\* policies are chosen one branch at a time (a single action choosing all of them has |PolSet|^branches successors, which
\* TLC must enumerate even to pick one at random in simulation mode)
ChoosePol == /\ phase = "b" /\ WellFormed /\ Len(deco.pol) < Len(brs)
             /\ \E p \in PolSet(brs[Len(deco.pol) + 1]) : deco' = [deco EXCEPT !.pol = Append(deco.pol, p)]
             /\ UNCHANGED <<phase, edges, brs>>
Finish == /\ phase = "b" /\ WellFormed /\ Len(deco.pol) = Len(brs)
          /\ \E m \in Marks, f \in Fails, mx \in MaxChoice :
               deco' = [deco EXCEPT !.before = m.before, !.after = m.after, !.rerun = m.rerun, !.fail = f, !.max = mx]
          /\ phase' = "done" /\ UNCHANGED <<edges, brs>>

GenNext == (\E e \in EdgeU : AddEdge(e)) \/ ToBranches \/ (\E b \in BranchU : AddBranch(b)) \/ ChoosePol \/ Finish
GenSpec == GenInit /\ [][GenNext]_gvars

\* ---- emission ----
SeqOfSet(S, R(_)) == LET RECURSIVE F(_)
                         F(T) == IF T = {} THEN <<>> ELSE LET x == CHOOSE y \in T : \A z \in T : R(y) <= R(z) IN <<x>> \o F(T \ {x})
                     IN F(S)
NameSeq(S) == SeqOfSet(S, Ord)
Scenario ==
  [mode |-> Mode, nodes |-> NameSeq(Nodes),
   edges |-> [i \in 1..Cardinality(edges) |-> LET e == SeqOfSet(edges, ERank)[i] IN <<e[1], e[2], e[3]>>],
   branches |-> [i \in 1..Len(brs) |-> [from |-> brs[i].from, ends |-> NameSeq(brs[i].ends), multi |-> brs[i].multi,
                                         pol |-> [d \in 1..(D + 1) |-> NameSeq(deco.pol[i][d - 1])]]],
   max |-> deco.max, before |-> NameSeq(deco.before), after |-> NameSeq(deco.after), rerun |-> NameSeq(deco.rerun),
   state |-> deco.rerun # {}, fail |-> deco.fail]
Emit == phase = "done" => PrintT(<<"CASE", ToJson(Scenario)>>)
================================================================================
