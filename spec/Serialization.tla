---------------------------- MODULE Serialization ----------------------------
(***************************************************************************)
(* C12 -- checkpoint serialisation round-trips every supported value or    *)
(* fails loudly.                                                           *)
(*                                                                         *)
(* internal/serialization/serialization.go is two case analyses over the   *)
(* SHAPE of a Go value (internalMarshal :122-264, internalUnmarshal        *)
(* :266-374, resolvePointerNum / createValueFromType :376-403).  This      *)
(* module transcribes both over an abstract shape grammar, states the      *)
(* round-trip law, and is also the generator of the shapes that the Go     *)
(* harness materialises with reflect and pushes through the REAL           *)
(* Marshal / Unmarshal.                                                    *)
(*                                                                         *)
(* Types are sequences of tokens, outermost first:                         *)
(*    "ptr" T | "slice" T | "arr1" T | "map_<K>" T | "st" T | base         *)
(*    "st" T  is the registered struct  struct{ F T; Z int }               *)
(*    "any"   is only a STATIC type (interface position)                   *)
(*    base    any other token: a registered basic / named basic type,      *)
(*            except "unreg" (a named type that was never registered)      *)
(* Values are records  [t, k, nil, leaf, keys, kids]  carrying their       *)
(* DYNAMIC type t:                                                         *)
(*    k="ptr"   nil or kids=<<pointee>>                                    *)
(*    k="slice" / "arr"  kids = elements (nil flag: nil slice)             *)
(*    k="map"   keys[i] = [kt, kv], kids[i] = value (nil flag: nil map)    *)
(*    k="st"    kids = <<F, Z>>                                            *)
(*    k="leaf"  leaf = palette id of the concrete value                    *)
(*    k="nilif" the nil interface value (only in "any" positions)          *)
(* A value stored in a static "any" position keeps its own dynamic type.   *)
(***************************************************************************)
EXTENDS Integers, Sequences, FiniteSets, TLC, Json, SequencesExt

RangeS(s) == {s[i] : i \in 1..Len(s)}

V(t, k, n, leaf, keys, kids) == [t |-> t, k |-> k, nil |-> n, leaf |-> leaf, keys |-> keys, kids |-> kids]
NILIF == V(<<"nil">>, "nilif", TRUE, "", <<>>, <<>>)
FailV(kind, msg) == V(<<kind>>, kind, FALSE, msg, <<>>, <<>>)      \* kind \in {"err", "panic"}
IsFail(v) == v.k \in {"err", "panic"}

MapToks == {"map_string", "map_int", "map_bool", "map_named", "map_any", "map_skey", "map_okey"}
ArrToks == {"arr1", "arr2"}
Ctors == {"ptr", "slice", "st", "stc", "nil", "err", "panic"} \cup MapToks \cup ArrToks
KeyTypeOf(tok) == CASE tok = "map_string" -> <<"string">> [] tok = "map_int" -> <<"int">> [] tok = "map_bool" -> <<"bool">>
                    [] tok = "map_named" -> <<"named">> [] tok = "map_any" -> <<"any">>
                    [] tok = "map_skey" -> <<"skey">> [] tok = "map_okey" -> <<"okey">>
MapTokOf(kt) == CASE kt = <<"string">> -> "map_string" [] kt = <<"int">> -> "map_int" [] kt = <<"bool">> -> "map_bool"
                  [] kt = <<"named">> -> "map_named" [] kt = <<"any">> -> "map_any"
                  [] kt = <<"skey">> -> "map_skey" [] kt = <<"okey">> -> "map_okey" [] OTHER -> "map_other"

PtrDepth(t) == IF \A i \in 1..Len(t) : t[i] = "ptr" THEN Len(t)
               ELSE (CHOOSE i \in 1..Len(t) : t[i] # "ptr" /\ \A j \in 1..(i - 1) : t[j] = "ptr") - 1
Strip(t) == SubSeq(t, PtrDepth(t) + 1, Len(t))
Ptrs(n) == [i \in 1..n |-> "ptr"]
IsContainerTok(x) == x \in {"slice"} \cup MapToks \cup ArrToks

(* GenericRegister (serialization.go:63-77) as an operator on the registry  reg = [m : name -> type, rm : type -> name]:   *)
(* a name that is taken, or a type that already has a name, is REFUSED and the registry is left as it was.                *)
EmptyReg == [m |-> <<>>, rm |-> <<>>]                       \* functions with empty domain
Register(reg, T, key) == IF key \in DOMAIN reg.m THEN [reg |-> reg, refused |-> TRUE]
                         ELSE IF T \in DOMAIN reg.rm THEN [reg |-> reg, refused |-> TRUE]
                         ELSE [reg |-> [m |-> reg.m @@ (key :> T), rm |-> reg.rm @@ (T :> key)], refused |-> FALSE]
RECURSIVE RegisterAll(_, _)
RegisterAll(reg, attempts) == IF attempts = <<>> THEN reg ELSE RegisterAll(Register(reg, Head(attempts)[1], Head(attempts)[2]).reg, Tail(attempts))
(* what every use of the registry relies on: m and rm are inverse bijections *)
RegistryOK(reg) == /\ \A k \in DOMAIN reg.m : reg.m[k] \in DOMAIN reg.rm /\ reg.rm[reg.m[k]] = k
                   /\ \A T \in DOMAIN reg.rm : reg.rm[T] \in DOMAIN reg.m /\ reg.m[reg.rm[T]] = T
(* In the shape grammar the outcome of the registrations is the predicate Registered: "st T" = struct{F T; Z int} was       *)
(* registered under its own name; "stc T" = the DIFFERENT type struct{F T} whose registration was attempted UNDER THE NAME   *)
(* OF "st T" and refused (the error is ignored, as the library itself does with `_ = GenericRegister`): it is not a         *)
(* registered type, so a value of it must be refused by Marshal -- never written under the name of "st T".                   *)
(* the registry rm / m (serialization.go:29-76): basic kinds, `any`, named basic types and structs that were registered *)
Registered(t) == /\ t # <<>>
                 /\ \/ t[1] = "st"
                    \/ Len(t) = 1 /\ t[1] \notin Ctors /\ t[1] # "unreg"
(* encoding/json refuses these leaves: json.Marshal error at :257 *)
JsonUnsupported(t, leaf) == t[1] \in {"complex64", "complex128"} \/ leaf \in {"nan", "+inf", "-inf"}

--------------------------------------------------------------------------------
(* internalStruct (:96-120).  Type fields hold the registered type itself (the registry is a bijection).  *)

EmptyIS == [isnil |-> FALSE, err |-> "", PointerNum |-> 0, Type |-> <<>>, JSONValue |-> "", StructType |-> <<>>,
            MapKeyPointerNum |-> 0, MapKeyType |-> <<>>, MapValuePointerNum |-> 0, MapValueType |-> <<>>,
            MapKeys |-> <<>>, MapValues |-> <<>>,
            SliceValuePointerNum |-> 0, SliceValueType |-> <<>>, SliceValues |-> <<>>]
NilIS == [EmptyIS EXCEPT !.isnil = TRUE]                   \* (*internalStruct)(nil): "no value" (:123-125)
ErrIS(m) == [EmptyIS EXCEPT !.err = m]
FirstErr(iss) == IF \E i \in 1..Len(iss) : iss[i].err # ""
                 THEN iss[CHOOSE i \in 1..Len(iss) : iss[i].err # "" /\ \A j \in 1..(i - 1) : iss[j].err = ""].err ELSE ""

(* Map keys.  A key is [kt, kv, ka, kb]: basic / named kinds carry their value in kv; the two registered STRUCT key kinds   *)
(*   "skey"  struct{A string; B int}                      (JSON always lists both fields)                               *)
(*   "okey"  struct{A string `omitempty`; B int `omitempty`} (a zero field is left out of the JSON text)                 *)
(* carry their fields in ka / kb (zero: "" / "0").                                                                      *)
K(kt, kv) == [kt |-> kt, kv |-> kv, ka |-> "", kb |-> ""]
SK(kt, a, b) == [kt |-> kt, kv |-> "", ka |-> a, kb |-> b]
StructKeyKinds == {"skey", "okey"}
(* keys travel as sonic.MarshalString(key) (:215): strings and named strings quoted, numbers / booleans bare, struct keys   *)
(* as a JSON object that lists field A (B) iff ha (hb)                                                                  *)
KeyJson(key) == [q |-> key.kt \in {"string", "named"}, kv |-> key.kv, ka |-> key.ka, kb |-> key.kb,
                 ha |-> key.kt = "skey" \/ (key.kt = "okey" /\ key.ka # ""), hb |-> key.kt = "skey" \/ (key.kt = "okey" /\ key.kb # "0")]
(* ... and come back through sonic.UnmarshalString into a holder `reflect.New(rkt)` of the STATIC key type that is        *)
(* allocated FOR EACH ENTRY (:332-337): for `any` the JSON decides string / bool / float64; for a struct key sonic only    *)
(* writes the fields present in the text, the others keep what the holder had -- the zero value, because it is fresh.      *)
ZeroHolder(kt) == SK(kt, "", "0")
KeyDecInto(holder, kty, j) ==
  IF kty = <<"any">>
  THEN K(IF j.q THEN "string" ELSE IF j.kv \in {"true", "false"} THEN "bool" ELSE "float64", j.kv)
  ELSE IF kty[1] \in StructKeyKinds
  THEN SK(kty[1], IF j.ha THEN j.ka ELSE holder.ka, IF j.hb THEN j.kb ELSE holder.kb)
  ELSE K(kty[1], j.kv)
KeyDec(kty, j) == KeyDecInto(ZeroHolder(kty[1]), kty, j)

(* fx: which of the proposed repairs are applied  [nilmulti, ptrcont : BOOLEAN]  (fixes/D9-serialization-pointers.diff) *)
(* nullptr: fixes/D29-serialization-nil-struct-pointer.diff (a null based value with PointerNum > 0 is the typed nil pointer,   *)
(* without handing the pointee type to sonic)                                                                              *)
AsIs == [nilmulti |-> FALSE, ptrcont |-> FALSE, nullptr |-> FALSE]
Fixed == [nilmulti |-> TRUE, ptrcont |-> TRUE, nullptr |-> TRUE]

RECURSIVE EncFrom(_, _, _)
Enc(v, fx) == IF v.k = "nilif" THEN NilIS ELSE EncFrom(v, 0, fx)
EncFrom(v, pn, fx) ==
  IF v.k = "ptr" THEN                                                   \* the pointer loop :132-148
     IF v.nil
     THEN LET base == Strip(v.t)
              n == IF fx.nilmulti THEN pn + PtrDepth(v.t) ELSE pn + 1   \* as coded: only the levels walked so far + 1
          IN IF Registered(base) THEN [EmptyIS EXCEPT !.PointerNum = n, !.Type = base, !.JSONValue = "null"]
             ELSE ErrIS("unknown type")
     ELSE EncFrom(v.kids[1], pn + 1, fx)
  ELSE IF v.k = "st" THEN                                               \* :151-177
     IF ~Registered(v.t) THEN ErrIS("unknown type")
     ELSE LET fs == [i \in 1..Len(v.kids) |-> Enc(v.kids[i], fx)]
              e == FirstErr(fs)
          IN IF e # "" THEN ErrIS(e)
             ELSE [EmptyIS EXCEPT !.PointerNum = pn, !.StructType = v.t, !.MapKeys = <<"F", "Z">>, !.MapValues = fs]
  ELSE IF v.k = "map" THEN                                              \* :178-222
     LET kt == KeyTypeOf(v.t[1])
         et == Tail(v.t)
         vb == Strip(et)
     IN IF ~Registered(kt) \/ ~Registered(vb) THEN ErrIS("unknown type")
        ELSE LET vs == [i \in 1..Len(v.kids) |-> Enc(v.kids[i], fx)]
                 js == [i \in 1..Len(v.keys) |-> KeyJson(v.keys[i])]
                 e == FirstErr(vs)
                 \* MapValues is keyed by the JSON text of the key: a later entry with the same text overwrites
                 keep == SetToSortSeq({i \in 1..Len(js) : \A j \in (i + 1)..Len(js) : js[j] # js[i]}, LAMBDA a, b : a < b)
             IN IF e # "" THEN ErrIS(e)
                ELSE [EmptyIS EXCEPT !.PointerNum = pn, !.MapKeyType = kt, !.MapValuePointerNum = PtrDepth(et), !.MapValueType = vb,
                                     !.MapKeys = [i \in 1..Len(keep) |-> js[keep[i]]], !.MapValues = [i \in 1..Len(keep) |-> vs[keep[i]]]]
  ELSE IF v.k \in {"slice", "arr"} THEN                                 \* :223-247 (arrays share the slice case)
     LET et == Tail(v.t)
         vb == Strip(et)
     IN IF ~Registered(vb) THEN ErrIS("unknown type")
        ELSE LET vs == [i \in 1..Len(v.kids) |-> Enc(v.kids[i], fx)]
                 e == FirstErr(vs)
             IN IF e # "" THEN ErrIS(e)
                ELSE [EmptyIS EXCEPT !.PointerNum = pn, !.SliceValuePointerNum = PtrDepth(et), !.SliceValueType = vb, !.SliceValues = vs]
  ELSE                                                                  \* basic :249-262
     IF ~Registered(v.t) THEN ErrIS("unknown type")
     ELSE IF JsonUnsupported(v.t, v.leaf) THEN ErrIS("json")
     ELSE [EmptyIS EXCEPT !.PointerNum = pn, !.Type = v.t, !.JSONValue = v.leaf]

--------------------------------------------------------------------------------
RECURSIVE MkPtr(_, _)
MkPtr(n, v) == IF n = 0 THEN v ELSE MkPtr(n - 1, V(<<"ptr">> \o v.t, "ptr", FALSE, "", <<>>, <<v>>))
NilPtrOf(t) == V(t, "ptr", TRUE, "", <<>>, <<>>)
(* reflect.New(t).Elem(): what a nil internalStruct becomes in a position of static type t (:303-308, :343-344, :366-368) *)
ZeroOf(t) == IF t = <<"any">> THEN NILIF
             ELSE IF t[1] = "ptr" THEN NilPtrOf(t)
             ELSE IF t[1] = "slice" THEN V(t, "slice", TRUE, "", <<>>, <<>>)
             ELSE IF t[1] \in MapToks THEN V(t, "map", TRUE, "", <<>>, <<>>)
             ELSE V(t, "zero", FALSE, "", <<>>, <<>>)
(* what a "value of type X is not assignable to type Y" panic is about (the harness derives the same class from the     *)
(* text of the real panic)                                                                                            *)
PanicClass(static, t) == IF Strip(static)[1] \in ArrToks /\ Strip(t)[1] = "slice" THEN "array"
                         ELSE IF PtrDepth(static) > PtrDepth(t) /\ Strip(static) = Strip(t)
                              THEN (IF IsContainerTok(Strip(t)[1]) THEN "ptr-to-container" ELSE "nil-multi-ptr")
                              ELSE "other"
(* reflect.Value.Set / SetMapIndex / Append demand assignability: identical type, or an interface position; else they panic *)
Assign(static, val) == IF IsFail(val) THEN val
                       ELSE IF val.k = "nilif" THEN ZeroOf(static)
                       ELSE IF static = <<"any">> \/ static = val.t THEN val
                       ELSE FailV("panic", PanicClass(static, val.t))
FirstFail(vs) == vs[CHOOSE i \in 1..Len(vs) : IsFail(vs[i]) /\ \A j \in 1..(i - 1) : ~IsFail(vs[j])]
AnyFail(vs) == \E i \in 1..Len(vs) : IsFail(vs[i])

(* a nil pointer to a struct travels as JSON null and is decoded by sonic INTO THE STRUCT TYPE (:277-278); sonic refuses, *)
(* even for null, struct types with a field of map type keyed by bool, interface or a struct (observed; an error, so loud)       *)
SonicRejects(t) == t[1] = "st" /\ \E i \in 1..Len(t) : t[i] \in {"map_bool", "map_any", "map_skey", "map_okey"}
RECURSIVE Dec(_, _)
Dec(is, fx) ==
  IF is.isnil THEN NILIF                                                \* :267-269
  ELSE IF is.Type # <<>> THEN                                           \* based type :271-283
     IF ~Registered(is.Type) THEN FailV("err", "unknown type key")
     ELSE IF SonicRejects(is.Type) /\ ~(fx.nullptr /\ is.JSONValue = "null" /\ is.PointerNum > 0) THEN FailV("err", "sonic: unsupported map key type")
     ELSE IF is.JSONValue = "null"
          THEN (IF is.PointerNum = 0 THEN ZeroOf(is.Type) ELSE NilPtrOf(Ptrs(is.PointerNum) \o is.Type))
          ELSE MkPtr(is.PointerNum, V(is.Type, "leaf", FALSE, is.JSONValue, <<>>, <<>>))
  ELSE IF is.StructType # <<>> THEN                                     \* struct :285-315
     LET st == is.StructType
         ft == <<Tail(st), <<"int">>>>
         fv == [i \in 1..Len(is.MapValues) |-> Assign(ft[i], Dec(is.MapValues[i], fx))]
     IN IF ~Registered(st) THEN FailV("err", "unknown type key")
        ELSE IF AnyFail(fv) THEN FirstFail(fv)
        ELSE MkPtr(is.PointerNum, V(st, "st", FALSE, "", <<>>, fv))
  ELSE IF is.MapKeyType # <<>> THEN                                     \* map :317-350
     LET rvt == Ptrs(is.MapValuePointerNum) \o is.MapValueType
         mt == <<MapTokOf(is.MapKeyType)>> \o rvt
         vals == [i \in 1..Len(is.MapValues) |-> Assign(rvt, Dec(is.MapValues[i], fx))]
         keys == [i \in 1..Len(is.MapKeys) |-> KeyDec(is.MapKeyType, is.MapKeys[i])]
         body == V(mt, "map", FALSE, "", keys, vals)
     IN IF ~Registered(is.MapKeyType) \/ ~Registered(is.MapValueType) THEN FailV("err", "unknown type")
        ELSE IF AnyFail(vals) THEN FirstFail(vals)
        ELSE IF fx.ptrcont THEN MkPtr(is.PointerNum, body) ELSE body     \* as coded: PointerNum is ignored (:331)
  ELSE                                                                  \* slice :352-373
     LET rvt == Ptrs(is.SliceValuePointerNum) \o is.SliceValueType
         vals == [i \in 1..Len(is.SliceValues) |-> Assign(rvt, Dec(is.SliceValues[i], fx))]
         body == V(<<"slice">> \o rvt, "slice", Len(vals) = 0, "", <<>>, vals)
     IN IF ~Registered(is.SliceValueType) THEN FailV("err", "unknown type")
        ELSE IF AnyFail(vals) THEN FirstFail(vals)
        ELSE IF fx.ptrcont THEN MkPtr(is.PointerNum, body) ELSE body     \* as coded: PointerNum is ignored (:360)

(* Marshal ; Unmarshal.  Outcome  [enc, dec \in {"ok","err","panic","none"}, out, pclass]                             *)
RoundTrip(v, fx) ==
  LET is == Enc(v, fx) IN
  IF is.err # "" THEN [enc |-> "err", dec |-> "none", out |-> NILIF, pclass |-> ""]
  ELSE IF is.isnil THEN [enc |-> "ok", dec |-> "err", out |-> NILIF, pclass |-> ""]     \* "null" decodes to an all-empty internalStruct: unknown type ""
  ELSE LET r == Dec(is, fx) IN
       IF IsFail(r) THEN [enc |-> "ok", dec |-> r.k, out |-> NILIF, pclass |-> IF r.k = "panic" THEN r.leaf ELSE ""]
       ELSE [enc |-> "ok", dec |-> "ok", out |-> r, pclass |-> ""]

--------------------------------------------------------------------------------
(* THE PROPERTY.  Deep equality with identical dynamic types, nil and empty containers identified.                     *)
RECURSIVE Eq(_, _)
Eq(a, b) ==
  /\ a.t = b.t /\ a.k = b.k
  /\ CASE a.k = "leaf" -> a.leaf = b.leaf
       [] a.k = "ptr" -> a.nil = b.nil /\ (~a.nil => Eq(a.kids[1], b.kids[1]))
       [] a.k = "map" -> /\ Len(a.kids) = Len(b.kids)
                         /\ \A i \in 1..Len(a.keys) : \E j \in 1..Len(b.keys) : a.keys[i] = b.keys[j] /\ Eq(a.kids[i], b.kids[j])
       [] a.k \in {"slice", "arr", "st"} -> Len(a.kids) = Len(b.kids) /\ \A i \in 1..Len(a.kids) : Eq(a.kids[i], b.kids[i])
       [] OTHER -> TRUE

(* o = [enc, dec, out]: round trip, or a loud failure (an error from Marshal or from Unmarshal), never a panic and      *)
(* never a different value.                                                                                            *)
(* "Round-trips or fails loudly": the refusal must come from Marshal.  What Marshal accepted has been written to the store; an  *)
(* Unmarshal error then means a checkpoint that cannot be read back.  (The nil interface is not a value of the universe:       *)
(* Marshal(nil) writes "null", which Unmarshal refuses.)                                                                      *)
Law(v, o) == \/ o.enc = "err"
             \/ o.enc = "ok" /\ o.dec = "err" /\ v.k = "nilif"
             \/ o.enc = "ok" /\ o.dec = "ok" /\ Eq(v, o.out)

--------------------------------------------------------------------------------
(* Structural features of an input shape: the named deviations of the code as it stands (DESIGN 6, D9).                *)
RECURSIVE Sub(_)
Sub(v) == {v} \cup UNION {Sub(v.kids[i]) : i \in 1..Len(v.kids)}
RECURSIVE Pointee(_)
Pointee(v) == IF v.k = "ptr" /\ ~v.nil THEN Pointee(v.kids[1]) ELSE v
FeatPtrContainer(v) == \E s \in Sub(v) : s.k = "ptr" /\ ~s.nil /\ Pointee(s).k \in {"slice", "map", "arr"}
FeatNilMultiPtr(v) == \E s \in Sub(v) : s.k = "ptr" /\ s.nil /\ Len(s.t) >= 2 /\ s.t[2] = "ptr"
FeatPtrNilPtr(v) == \E s \in Sub(v) : s.k = "ptr" /\ ~s.nil /\ s.kids[1].k = "ptr" /\ s.kids[1].nil
FeatAnyKey(v) == \E s \in Sub(v) : s.k = "map" /\ s.t[1] = "map_any" /\ \E i \in 1..Len(s.keys) : s.keys[i].kt # "string"
FeatArray(v) == \E s \in Sub(v) : s.k = "arr"
Feature(v) == IF FeatNilMultiPtr(v) THEN "nil-multi-ptr"
              ELSE IF FeatPtrContainer(v) THEN "ptr-to-container"
              ELSE IF FeatArray(v) THEN "array"
              ELSE IF FeatPtrNilPtr(v) THEN "ptr-to-nil-ptr"
              ELSE IF FeatAnyKey(v) THEN "map-any-key"
              ELSE "none"
Deviations(fx) == {"array", "ptr-to-nil-ptr", "map-any-key"}
                  \cup (IF fx.nilmulti THEN {} ELSE {"nil-multi-ptr"}) \cup (IF fx.ptrcont THEN {} ELSE {"ptr-to-container"})
FeatSonicNilStruct(v) == \E s \in Sub(v) : s.k = "ptr" /\ s.nil /\ SonicRejects(Strip(s.t))
Explained(v, fx) == \/ FeatNilMultiPtr(v) /\ ~fx.nilmulti
                    \/ FeatSonicNilStruct(v) /\ ~fx.nullptr
                    \/ FeatPtrContainer(v) /\ ~fx.ptrcont
                    \/ FeatArray(v) \/ FeatPtrNilPtr(v) \/ FeatAnyKey(v)

(* Where two values differ: the set of signatures of what was lost (every differing position is classified).          *)
RECURSIVE DiffSigs(_, _)
DiffSigs(a, b) ==
  IF Eq(a, b) THEN {}
  ELSE IF a.t # b.t THEN
     {IF Strip(a.t)[1] \in ArrToks /\ Strip(b.t)[1] = "slice" THEN "array-to-slice"
      ELSE IF PtrDepth(a.t) > PtrDepth(b.t) /\ IsContainerTok(Strip(a.t)[1]) THEN "ptr-to-container-lost"
      ELSE IF a.k = "ptr" /\ a.nil /\ PtrDepth(a.t) > PtrDepth(b.t) THEN "nil-multi-ptr-depth-lost"
      ELSE IF b.k = "nilif" THEN "value-became-nil"
      ELSE "dynamic-type-changed"}
  ELSE IF a.k # b.k THEN {"kind-changed"}
  ELSE IF a.k = "leaf" THEN {"leaf-value-changed"}
  ELSE IF a.k = "ptr" THEN
     (IF a.nil # b.nil THEN {IF ~a.nil /\ a.kids[1].k = "ptr" /\ a.kids[1].nil THEN "ptr-to-nil-ptr-collapsed" ELSE "nilness-changed"}
      ELSE DiffSigs(a.kids[1], b.kids[1]))
  ELSE IF a.k = "map" THEN
     (IF \E i \in 1..Len(a.keys) : \A j \in 1..Len(b.keys) : a.keys[i] # b.keys[j]
      THEN {IF a.t[1] = "map_any" THEN "map-any-key-retyped" ELSE "map-key-changed"}
      ELSE {})
     \cup (IF Len(a.kids) # Len(b.kids) /\ \A i \in 1..Len(a.keys) : \E j \in 1..Len(b.keys) : a.keys[i] = b.keys[j] THEN {"map-size-changed"} ELSE {})
     \cup UNION {DiffSigs(a.kids[p[1]], b.kids[p[2]]) : p \in {q \in (1..Len(a.keys)) \X (1..Len(b.keys)) : a.keys[q[1]] = b.keys[q[2]]}}
  ELSE IF Len(a.kids) # Len(b.kids) THEN {"length-changed"}
  ELSE UNION {DiffSigs(a.kids[i], b.kids[i]) : i \in 1..Len(a.kids)}

SigOrder == <<"array-to-slice", "ptr-to-container-lost", "nil-multi-ptr-depth-lost", "ptr-to-nil-ptr-collapsed", "map-any-key-retyped",
              "map-key-changed", "map-size-changed", "length-changed", "leaf-value-changed", "nilness-changed", "value-became-nil",
              "dynamic-type-changed", "kind-changed">>
RECURSIVE JoinSigs(_, _)
JoinSigs(S, i) == IF i > Len(SigOrder) THEN ""
                  ELSE IF SigOrder[i] \in S THEN SigOrder[i] \o (IF \E j \in (i + 1)..Len(SigOrder) : SigOrder[j] \in S THEN "+" ELSE "") \o JoinSigs(S, i + 1)
                  ELSE JoinSigs(S, i + 1)
DiffSig(a, b) == JoinSigs(DiffSigs(a, b), 1)

(* Reason of a rejection, "" when the law holds.                                                                       *)
Reason(v, o) == IF Law(v, o) THEN ""
                ELSE IF o.enc = "panic" THEN "marshal-panic:" \o o.pclass
                ELSE IF o.dec = "panic" THEN "unmarshal-panic:" \o o.pclass
                ELSE IF o.enc = "ok" /\ o.dec = "ok" THEN "loss:" \o DiffSig(v, o.out)
                ELSE IF o.enc = "ok" /\ o.dec = "err"
                     THEN "unreadable:" \o (IF FeatSonicNilStruct(v) THEN "nil-ptr-to-struct-with-nonstring-key-map" ELSE "written-value-refused-by-unmarshal")
                ELSE "malformed-outcome"

================================================================================
