------------------------------- MODULE BuildRule -------------------------------
(***************************************************************************)
(* Property-level definitions for graph CONSTRUCTION in eino (C07, C20).   *)
(*                                                                         *)
(* Everything here is a pure operator over                                 *)
(*   hdr   the configuration of a builder: front end, graph input/output   *)
(*         type, whether the graph has state                               *)
(*   ops   the sequence of calls made on the builder (Add*, Compile)       *)
(*   observations of what the calls returned and of what runs of the       *)
(*         compiled graph did                                              *)
(* and says only what the property statements say:                         *)
(*   C07  an accepted graph has no connection (also through pass-through   *)
(*        nodes) whose two declared types are concrete and different; no   *)
(*        run of an accepted graph panics; a run-time type-check error is  *)
(*        reported exactly when a dynamic value is not assignable          *)
(*   C20  ill-formed sequences (reference predicate IllFormedAt) are       *)
(*        rejected with an error, never a panic; the first Add* error      *)
(*        sticks; every attempt gives the same outcome; after a successful *)
(*        Compile every Add* is refused and the runnable keeps behaving    *)
(*        the same whatever is called later (incl. another Compile)        *)
(* Go's own assignability (Assign / DynOK) is the reference relation, not  *)
(* the builder's implementation of it.                                     *)
(* Used by EinoBuild.tla (implementation-shaped model of the builder,      *)
(* judged by these definitions as invariants) and by BuildObs.tla          *)
(* (observations of the REAL builder, judged line by line by Apply).       *)
(***************************************************************************)
EXTENDS Naturals, Sequences, FiniteSets, TLC, Json

CONSTANT Prop     \* which property's clauses are judged: "C07" | "C20" | "ALL" (the two checks own disjoint reasons)
C07On == Prop \in {"C07", "ALL"}
C20On == Prop \in {"C20", "ALL"}

START == "start"
END == "end"
Range(s) == {s[i] : i \in 1..Len(s)}
Empty == <<>>
Max2(a, b) == IF a > b THEN a ELSE b

--------------------------------------------------------------------------------
(* Type universe of the harness: string, int, an implementing struct,      *)
(* a Stringer-like interface, any, map[string]any; impl2 is a second       *)
(* implementing struct that only occurs as a dynamic value.                *)
Conc == {"str", "int", "impl", "msa", "nmsa", "rec"}     \* nmsa: a DEFINED type whose underlying type is msa (map[string]any); rec: a struct, only used with field mappings
Ifc == {"iface", "any"}
Ty == Conc \cup Ifc
Dyn == {"str", "int", "impl", "impl2", "msa", "nmsa", "rec", "nil"}      \* nil: the untyped nil an interface-typed producer may return
Implements(d, i) == i = "any" \/ (i = "iface" /\ d \in {"impl", "impl2", "iface", "nil"})   \* nil is a legal value of every interface type
\* Go: is a value of static type o assignable to a parameter of type i -- must (always), may (needs a check of the dynamic value), mustnot
Assign(o, i) == IF o = i THEN "must"
                ELSE IF i \in Ifc /\ Implements(o, i) THEN "must"
                ELSE IF o \in Ifc /\ Implements(i, o) THEN "may"
                ELSE "mustnot"
\* what Go's run time accepts: a value of dynamic type d where static type t is declared
DynOK(d, t) == IF t \in Conc THEN d = t ELSE Implements(d, t)
DynOf(t) == {d \in Dyn : DynOK(d, t)}
\* untyped nil: it is a value of no concrete type (a type assertion to any concrete type fails), so a run-time check must refuse it
\* for a non-nillable concrete target; for map targets Go's assignability of the nil literal leaves room, and nothing is demanded
SurelyNotAssignable(d, t) == IF d = "nil" THEN t \in {"str", "int", "impl", "rec"} ELSE ~DynOK(d, t)
MayBeRefused(d, t) == d = "nil" \/ ~DynOK(d, t)

--------------------------------------------------------------------------------
(* Calls.  Every op is a record with the same fields (unused ones "" / <<>>) *)
(*   node    k key, i/o declared input/output type, e dynamic type the body emits, h "" | "pre" | "post" state handler of type t   *)
(*   pass    k key, h/t likewise                                                                                                   *)
(*   edge    a -> b ; x = "fm" when it carries a field mapping (workflow front end)                                                 *)
(*   branch  a source, t condition input type, E ends (sequence), c the end the condition always picks                             *)
(*   compile m "any" | "all" (node trigger mode), x "" | "maxsteps"                                                                 *)
MkOp(op, k, a, b, i, o, e, h, t, E, c, m, x) ==
  [op |-> op, k |-> k, a |-> a, b |-> b, i |-> i, o |-> o, e |-> e, h |-> h, t |-> t, ends |-> E, c |-> c, m |-> m, x |-> x]
NodeOp(k, i, o, e, h, t) == MkOp("node", k, "", "", i, o, e, h, t, <<>>, "", "", "")
PassOp(k, h, t) == MkOp("pass", k, "", "", "", "", "", h, t, <<>>, "", "", "")
EdgeOp(a, b, x) == MkOp("edge", "", a, b, "", "", "", "", "", <<>>, "", "", x)
BranchOp(a, t, E, c) == MkOp("branch", "", a, "", "", "", "", "", t, E, c, "", "")
CompileOp(m, x) == MkOp("compile", "", "", "", "", "", "", "", "", <<>>, "", m, x)
\* sub: a nested graph i -> o added as a node (AddGraphNode); x says which keys it was given: "ik" WithInputKey, "ok" WithOutputKey, "iok" both.
\* With an input (output) key the NODE's declared input (output) type is map[string]any, whatever the inner graph declares.
SubOp(k, i, o, e, x) == MkOp("sub", k, "", "", i, o, e, "", "", <<>>, "", "", x)
EffIn(o) == IF o.op = "sub" /\ o.x \in {"ik", "iok"} THEN "msa" ELSE o.i
EffOut(o) == IF o.op = "sub" /\ o.x \in {"ok", "iok"} THEN "msa" ELSE o.o
\* branch: x = "" a branch object of its own, otherwise the name of a *GraphBranch object that several AddBranch calls share
IsAdd(o) == o.op \in {"node", "sub", "pass", "edge", "branch", "static"}
\* workflow front end: x of an edge says how the input was declared -- "fm"/"fm2" AddInput with a field mapping (to key k / k2),
\* "dfm"/"dfm2" the same WithNoDirectDependency (data only), "c" AddDependency (control only); op "static" = SetStaticValue(k, path x, value e)
IsFM(x) == x \in {"fm", "fm2", "dfm", "dfm2", "fmr"}      \* fmr: key k mapped to FIELD K of a struct-typed target (rec)
HasCtrl(o) == o.x \notin {"dfm", "dfm2"}
HasData(o) == o.x # "c"

(* The graph declared by the calls with index in I *)
DeclIdx(ops, I) == {j \in I : ops[j].op \in {"node", "sub", "pass"}}
Keys(ops, I) == {ops[j].k : j \in DeclIdx(ops, I)}
RecOf(ops, I, k) == ops[CHOOSE j \in DeclIdx(ops, I) : ops[j].k = k /\ \A j2 \in DeclIdx(ops, I) : ops[j2].k = k => j <= j2]
TypedKeys(ops, I) == {k \in Keys(ops, I) : RecOf(ops, I, k).op \in {"node", "sub"}}
PassKeys(ops, I) == {k \in Keys(ops, I) : RecOf(ops, I, k).op = "pass"}
EdgeIdx(ops, I) == {j \in I : ops[j].op = "edge"}
BrIdx(ops, I) == {j \in I : ops[j].op = "branch"}
EdgeSet(ops, I) == {<<ops[j].a, ops[j].b>> : j \in EdgeIdx(ops, I)}
\* edges that hand the whole value over (a field mapping builds a new value instead)
PlainEdgeSet(ops, I) == {<<ops[j].a, ops[j].b>> : j \in {y \in EdgeIdx(ops, I) : ~IsFM(ops[y].x) /\ ops[y].x # "c"}}
DataConn(ops, I) == PlainEdgeSet(ops, I) \cup UNION {{<<ops[j].a, e>> : e \in Range(ops[j].ends)} : j \in BrIdx(ops, I)}
\* every pair along which data can flow: edges and branch ends
ConnSet(ops, I) == EdgeSet(ops, I) \cup UNION {{<<ops[j].a, e>> : e \in Range(ops[j].ends)} : j \in BrIdx(ops, I)}
\* pairs along which data DOES flow given the fixed decisions of the harness conditions
FlowSet(ops, I) == PlainEdgeSet(ops, I) \cup {<<ops[j].a, ops[j].c>> : j \in BrIdx(ops, I)}
OutT(hdr, ops, I, k) == IF k = START THEN hdr.gi ELSE IF k \in TypedKeys(ops, I) THEN EffOut(RecOf(ops, I, k)) ELSE "nil"
InT(hdr, ops, I, k) == IF k = END THEN hdr.go ELSE IF k \in TypedKeys(ops, I) THEN EffIn(RecOf(ops, I, k)) ELSE "nil"

--------------------------------------------------------------------------------
(* C20: the statement's list of ill-formed constructions, as reference predicates *)

\* pass-through nodes whose type can be inferred: connected (in either direction, through other pass-through nodes) to a typed
\* node, START or END, or source of a branch
RECURSIVE TypedFix(_, _, _)
TypedFix(P, C, T) == LET T2 == T \cup {p \in P \ T : \E q \in T : <<p, q>> \in C \/ <<q, p>> \in C}
                     IN IF T2 = T THEN T ELSE TypedFix(P, C, T2)
Inferable(ops, I) == LET P == PassKeys(ops, I)  C == ConnSet(ops, I)
                         T0 == {p \in P : \/ \E c \in C : (c[1] = p /\ c[2] \notin P) \/ (c[2] = p /\ c[1] \notin P)
                                          \/ \E j \in BrIdx(ops, I) : ops[j].a = p}
                     IN TypedFix(P, C, T0)
Untypable(ops, I) == PassKeys(ops, I) \ Inferable(ops, I)
\* a cycle among the nodes (control relation = edges and branch ends)
RECURSIVE TCFix(_, _)
TCFix(C, R) == LET R2 == R \cup UNION {{<<p[1], q[2]>> : q \in {y \in C : y[1] = p[2]}} : p \in R} IN IF R2 = R THEN R ELSE TCFix(C, R2)
TC(C) == TCFix(C, C)
Cyclic(ops, I) == LET C == {c \in ConnSet(ops, I) : c[1] # START /\ c[2] # END} IN \E p \in TC(C) : p[1] = p[2]

\* why call j is ill-formed given the calls before it ("" = it is not)
AddBad(hdr, ops, j) ==
  LET o == ops[j]  Pr == 1..(j - 1)  K == Keys(ops, Pr) IN
  CASE o.op \in {"node", "sub", "pass"} ->
         IF o.k \in {START, END} THEN "reserved-key"
         ELSE IF o.k \in K THEN "duplicate-key"
         ELSE IF o.h # "" /\ ~hdr.state THEN "state-handler-without-state"
         ELSE ""
    [] o.op = "edge" ->
         IF (o.a \notin K \cup {START, END}) \/ (o.b \notin K \cup {START, END}) THEN "unknown-key"
         ELSE IF \E i \in EdgeIdx(ops, Pr) : ops[i].a = o.a /\ ops[i].b = o.b /\ ((HasCtrl(ops[i]) /\ HasCtrl(o)) \/ (HasData(ops[i]) /\ HasData(o)))
              THEN "duplicate-edge"      \* the same pair declared twice as control dependency, or twice as data source
         ELSE ""
    [] o.op = "branch" ->
         IF o.a \notin K \cup {START, END} \/ \E e \in Range(o.ends) : e \notin K \cup {START, END} THEN "unknown-key"
         ELSE IF Len(o.ends) = 1 THEN "single-target-branch"
         ELSE ""
    [] OTHER -> ""
CtrlConnSet(ops, I) == {<<ops[j].a, ops[j].b>> : j \in {y \in EdgeIdx(ops, I) : HasCtrl(ops[y])}}
                       \cup UNION {{<<ops[j].a, e>> : e \in Range(ops[j].ends)} : j \in BrIdx(ops, I)}
\* J = the Add* calls that make up the construction which call jc compiles
CompileBad(hdr, ops, jc, J) ==
  LET o == ops[jc]  C == ConnSet(ops, J) IN
  IF hdr.fe = "chain" THEN      \* a chain connects what is appended by itself: START -> first -> ... -> last -> END
       (IF DeclIdx(ops, J) = {} THEN "no-entry" ELSE IF o.m = "all" THEN "invalid-option-combination" ELSE "")
  \* entry / exit = a CONTROL connection from START / into END (a Workflow's data-only input is no entry or exit edge)
  ELSE IF ~\E c \in CtrlConnSet(ops, J) : c[1] = START THEN "no-entry"
  ELSE IF ~\E c \in CtrlConnSet(ops, J) : c[2] = END THEN "no-exit"
  ELSE IF Untypable(ops, J) # {} THEN "untyped-passthrough"
  ELSE IF o.m = "all" /\ Cyclic(ops, J) THEN "cycle-in-all-predecessor-mode"
  \* invalid option combinations: a step limit is refused wherever the EFFECTIVE mode is all-predecessor -- by option on a graph, by
  \* component kind on a workflow -- at top level as well as for a nested graph compiled with its node's options (sub op: m =
  \* "" graph | "gms" graph + step limit | "gall" all-predecessor | "gallms" both | "wf" workflow | "wfms" workflow + step limit);
  \* a workflow (like a chain) does not take the trigger-mode option
  ELSE IF (o.m = "all" \/ hdr.fe = "wf") /\ o.x = "maxsteps" THEN "invalid-option-combination"
  ELSE IF hdr.fe = "wf" /\ o.m = "all" THEN "invalid-option-combination"
  ELSE IF \E j \in J : ops[j].op = "sub" /\ ops[j].m \in {"gallms", "wfms"} THEN "invalid-option-combination"
  ELSE ""
\* first reason why the construction compiled by call jc is ill-formed
IllFormedWhy(hdr, ops, jc, J) ==
  LET B == {j \in J : AddBad(hdr, ops, j) # ""} IN
  IF B # {} THEN AddBad(hdr, ops, CHOOSE j \in B : \A j2 \in B : j <= j2) ELSE CompileBad(hdr, ops, jc, J)
IllFormedAt(hdr, ops, jc, J) == IllFormedWhy(hdr, ops, jc, J) # ""

--------------------------------------------------------------------------------
(* C07, static part: which declared (static) types reach each consumer.  A pass-through node has no declared type of its own; *)
(* the statement speaks of connections "whose two declared types are both concrete ... also when the types are only         *)
(* inferred through pass-through nodes".  When an interface type adjoins a group of connected pass-through nodes the group   *)
(* may legitimately be typed by that interface (and checked at run time), so only groups all of whose adjoining declared     *)
(* types are concrete carry a static obligation.                                                                             *)
RECURSIVE ClusterFix(_, _, _)
ClusterFix(P, C, X) == LET X2 == X \cup {p \in P : \E q \in X : <<p, q>> \in C \/ <<q, p>> \in C} IN IF X2 = X THEN X ELSE ClusterFix(P, C, X2)
Around(hdr, ops, I, X) ==
  LET P == PassKeys(ops, I)  C == DataConn(ops, I) IN
  {OutT(hdr, ops, I, c[1]) : c \in {y \in C : y[2] \in X /\ y[1] \notin P}}
  \cup {InT(hdr, ops, I, c[2]) : c \in {y \in C : y[1] \in X /\ y[2] \notin P}}
  \cup {ops[j].t : j \in {y \in BrIdx(ops, I) : ops[y].a \in X}}
ConcreteGroup(hdr, ops, I, p) == Around(hdr, ops, I, ClusterFix(PassKeys(ops, I), DataConn(ops, I), {p})) \subseteq Conc
RECURSIVE SFlowFix(_, _, _, _, _)
SFlowFix(hdr, ops, I, C, V) ==
  LET V2 == [n \in DOMAIN V |-> IF n \in PassKeys(ops, I) /\ ConcreteGroup(hdr, ops, I, n)
                                THEN UNION {V[c[1]] : c \in {x \in C : x[2] = n /\ x[1] \in DOMAIN V}} ELSE V[n]]
  IN IF V2 = V THEN V ELSE SFlowFix(hdr, ops, I, C, V2)
SFlow(hdr, ops, I) ==
  LET N == Keys(ops, I) \cup {START} IN
  SFlowFix(hdr, ops, I, DataConn(ops, I), [n \in N |-> IF n \in PassKeys(ops, I) THEN {} ELSE {OutT(hdr, ops, I, n)}])
\* consumers with a declared type: <<what, name, declared type, set of arriving static types>>
Consumers(hdr, ops, I) ==
  LET V == SFlow(hdr, ops, I)  C == DataConn(ops, I)  N == DOMAIN V
      arr(n) == UNION {V[c[1]] : c \in {x \in C : x[2] = n /\ x[1] \in N}}
  IN {<<"node", k, InT(hdr, ops, I, k), arr(k)>> : k \in TypedKeys(ops, I)}
     \cup {<<"end", END, hdr.go, arr(END)>>}
     \cup {<<"branch", ops[j].a, ops[j].t, IF ops[j].a \in N THEN V[ops[j].a] ELSE {}>> : j \in BrIdx(ops, I)}
     \cup {<<"prehandler", k, RecOf(ops, I, k).t, arr(k)>> : k \in {x \in TypedKeys(ops, I) : RecOf(ops, I, x).h = "pre"}}
     \cup {<<"posthandler", k, RecOf(ops, I, k).t, {RecOf(ops, I, k).o}>> : k \in {x \in TypedKeys(ops, I) : RecOf(ops, I, x).h = "post"}}
ConcreteMismatch(hdr, ops, I) == \E c \in Consumers(hdr, ops, I) : c[3] \in Conc /\ \E t \in c[4] \cap Conc : t # c[3]

(* C07, run-time part: what an emitted value reaches, given the fixed branch decisions *)
RECURSIVE VisitFix(_, _, _)
VisitFix(P, F, X) == LET X2 == X \cup {c[2] : c \in {y \in F : y[1] \in X /\ y[2] \in P}} IN IF X2 = X THEN X ELSE VisitFix(P, F, X2)
\* nodes that forward a value emitted by n: n itself and the pass-through nodes it travels through
Carriers(ops, I, n) == VisitFix(PassKeys(ops, I), FlowSet(ops, I), {n})
\* declared types the value is delivered to
Delivered(hdr, ops, I, n) ==
  LET X == Carriers(ops, I, n)  F == FlowSet(ops, I) IN
  {InT(hdr, ops, I, c[2]) : c \in {y \in F : y[1] \in X /\ (y[2] = END \/ y[2] \in TypedKeys(ops, I))}}
  \cup {ops[j].t : j \in {y \in BrIdx(ops, I) : ops[y].a \in X}}
\* lenient variant for justifying a reported type-check error: also the types a carrier may have been inferred to
MaybeChecked(hdr, ops, I, n) ==
  LET P == PassKeys(ops, I)  C == DataConn(ops, I)
      X == ClusterFix(P, C, Carriers(ops, I, n) \cap P)
  IN Delivered(hdr, ops, I, n)
     \cup {OutT(hdr, ops, I, c[1]) : c \in {y \in C : y[2] \in X /\ y[1] \notin P}}
     \cup {InT(hdr, ops, I, c[2]) : c \in {y \in C : y[1] \in X /\ y[2] \notin P}}
     \cup {ops[j].t : j \in {y \in BrIdx(ops, I) : ops[y].a \in X}}
\* emissions of a run: <<node, dynamic type>>
\* (the body of a nested graph logs what the INNER graph got and gave; with an output key the node hands on a map)
Emissions(hdr, ops, I, e) == {<<START, e.d>>} \cup {<<x.n, IF OutT(hdr, ops, I, x.n) # RecOf(ops, I, x.n).o THEN "msa" ELSE x.out>> : x \in Range(e.ex)}
\* declared types the value is handed to in the very step it is emitted (a pass-through node takes a step of its own, and the run
\* may end before the value gets further)
DeliveredAtOnce(hdr, ops, I, n) ==
  LET F == FlowSet(ops, I) IN
  {InT(hdr, ops, I, c[2]) : c \in {y \in F : y[1] = n /\ (y[2] = END \/ y[2] \in TypedKeys(ops, I))}}
  \cup {ops[j].t : j \in {y \in BrIdx(ops, I) : ops[y].a = n}}
Undeliverable(hdr, ops, I, e) == \E m \in Emissions(hdr, ops, I, e) : \E t \in DeliveredAtOnce(hdr, ops, I, m[1]) : SurelyNotAssignable(m[2], t)
CheckJustified(hdr, ops, I, e) == \E m \in Emissions(hdr, ops, I, e) : \E t \in MaybeChecked(hdr, ops, I, m[1]) \ {"nil"} : MayBeRefused(m[2], t)
\* a nil handed over a connection that needs NO run-time check (any -> any, iface -> any ...) is outside the statement: the receiving
\* wrapper's own type assertion fails on it in the unchanged library; a panic of such a run is not judged
\* (likewise in Stream mode: the library's invoke-to-stream adapter panics on a nil result before the value reaches any connection)
NilOverUncheckedConnection(hdr, ops, I, e) ==
  \E m \in Emissions(hdr, ops, I, e) : m[2] = "nil" /\
     (\/ e.mode = "stream"
      \* ... or is merged with another value at a fan-in (the merge reflects on the nil)
      \/ \E y \in {c[2] : c \in {z \in FlowSet(ops, I) : z[1] \in Carriers(ops, I, m[1])}} :
            Cardinality({c \in FlowSet(ops, I) : c[2] = y}) > 1)

--------------------------------------------------------------------------------
(* Outcome of a call: "ok" | "E" an error | "S" the very error value of the first failed Add* | "C" ErrGraphCompiled |    *)
(* "P" the call panicked | "-" not performed (after a panic)                                                             *)
Failed(x) == x \in {"E", "S", "C"}
FirstIn(A, P(_)) == IF \E j \in A : P(j) THEN CHOOSE j \in A : P(j) /\ \A j2 \in A : P(j2) => j <= j2 ELSE 0
\* index of the first successful Compile (0 = none)
FirstCompiled(ops, outs) == FirstIn(1..Len(ops), LAMBDA j : ops[j].op = "compile" /\ outs[j] = "ok")
FirstAddErr(ops, outs) == FirstIn(1..Len(ops), LAMBDA j : IsAdd(ops[j]) /\ outs[j] \in {"E", "S"})
Accepted(ops, outs, jc) == {j \in 1..(jc - 1) : IsAdd(ops[j]) /\ outs[j] = "ok"}

\* the Add* calls that make up what call j compiles: those before it, and before the first successful Compile (later ones must be refused)
Construction(ops, j, jc) == {i \in 1..(j - 1) : IsAdd(ops[i]) /\ (jc = 0 \/ i < jc)}

\* why one attempt's outcome vector contradicts C20 / the static part of C07 ("" = it does not)
OutcomeWhy(hdr, ops, outs) ==
  LET n == Len(ops)  f == FirstAddErr(ops, outs)  jc == FirstCompiled(ops, outs) IN
  IF Len(outs) # n THEN "outcome-vector-length"
  ELSE IF C20On /\ \E j \in 1..n : outs[j] = "P" THEN "call-panicked"
  ELSE IF C20On /\ f # 0 /\ \E j \in (f + 1)..n : outs[j] # "S" THEN "error-not-sticky"
  ELSE IF C20On /\ \E j \in 1..n : ops[j].op = "compile" /\ outs[j] = "ok" /\ IllFormedAt(hdr, ops, j, Construction(ops, j, jc)) THEN "illformed-accepted"
  ELSE IF C20On /\ hdr.fe = "graph" /\ jc # 0 /\ \E j \in (jc + 1)..n : IsAdd(ops[j]) /\ ~Failed(outs[j]) THEN "modified-after-compile"
  \* "can no longer be modified" + "same construction, same outcome": the calls made after the successful Compile are refused and
  \* must leave no trace, so compiling again with the same options ends like the first time (Graph and Chain; a Workflow's
  \* SetStaticValue is not an Add* and legitimately changes what a later Compile sees)
  ELSE IF C20On /\ hdr.fe \in {"graph", "chain"} /\ jc # 0
          /\ \E j \in (jc + 1)..n : /\ ops[j].op = "compile" /\ ops[j].m = ops[jc].m /\ ops[j].x = ops[jc].x /\ outs[j] # "ok"
                                     /\ \A i \in (jc + 1)..(j - 1) : IsAdd(ops[i]) \/ ops[i].op = "compile"
       THEN "recompile-after-refused-calls-differs"
  \* "the same construction sequence gives the same outcome": a construction that Compile refused stays refused when Compile is
  \* simply called again (same options, nothing declared in between) -- every front end
  ELSE IF C20On /\ \E j1 \in 1..n : \E j2 \in (j1 + 1)..n :
            /\ ops[j1].op = "compile" /\ ops[j2].op = "compile" /\ ops[j1].m = ops[j2].m /\ ops[j1].x = ops[j2].x
            /\ Failed(outs[j1]) /\ outs[j2] = "ok" /\ \A i \in (j1 + 1)..(j2 - 1) : ops[i].op = "compile"
       THEN "refused-construction-accepted-on-retry"
  \* a refused Compile must not change the construction: when a Compile was refused for its OPTIONS only (the reference finds nothing else
  \* wrong) and a later Compile of the same declarations comes with acceptable options, it judges the same construction and accepts it.
  \* Demanded only where acceptance cannot hinge on types (every declared type = the graph's input = output type, no handlers): the
  \* statement does not say that every well-formed graph compiles.  Graph and Chain (a Workflow re-Compile is generated with the same options only)
  ELSE IF C20On /\ hdr.fe \in {"graph", "chain"} /\ \E j1 \in 1..n : \E j2 \in (j1 + 1)..n :
            /\ ops[j1].op = "compile" /\ ops[j2].op = "compile" /\ Failed(outs[j1]) /\ outs[j2] # "ok"
            /\ \A i \in (j1 + 1)..(j2 - 1) : ops[i].op = "compile"
            /\ LET J == Construction(ops, j1, jc) IN
                 /\ Construction(ops, j2, jc) = J
                 /\ IllFormedWhy(hdr, ops, j1, J) = "invalid-option-combination" /\ IllFormedWhy(hdr, ops, j2, J) = ""
                 /\ hdr.gi = hdr.go /\ hdr.gi \in Conc
                 /\ \A j \in J : /\ (ops[j].op \in {"node", "sub"} => (ops[j].i = hdr.gi /\ ops[j].o = hdr.gi /\ ops[j].h = "" /\ ops[j].x = ""))
                                  /\ (ops[j].op = "branch" => ops[j].t = hdr.gi)
                                  /\ (ops[j].op = "pass" => ops[j].h = "")
       THEN "compile-refused-for-options-changed-the-construction"
  ELSE IF C07On /\ jc # 0 /\ ConcreteMismatch(hdr, ops, Accepted(ops, outs, jc)) THEN "accepted-concrete-mismatch"
  ELSE ""
\* detail for the reason above (which reference predicate fired)
OutcomeDetail(hdr, ops, outs) ==
  LET jc == FirstCompiled(ops, outs)
      B == {j \in 1..Len(ops) : ops[j].op = "compile" /\ outs[j] = "ok" /\ IllFormedAt(hdr, ops, j, Construction(ops, j, jc))} IN
  IF B # {} THEN (LET j == CHOOSE x \in B : TRUE IN IllFormedWhy(hdr, ops, j, Construction(ops, j, jc))) ELSE ""

--------------------------------------------------------------------------------
(* The rule over observation lines                                           *)
(*   case   the configuration and the calls                                  *)
(*   build  att = outcome vector of every attempt (fresh builder each)       *)
(*   run    a run of the first compiled runnable right after its Compile:    *)
(*          d dynamic type of the input, mode invoke|stream, ex executed     *)
(*          typed nodes [n, got, out], br evaluated conditions [j, got],     *)
(*          res result|typecheck|error|panic|panicerr, rd dynamic type of    *)
(*          the result                                                       *)
(*   probe  the same run repeated on the FIRST runnable after call j         *)
(*   end    counts of run / probe lines written                              *)

Idle == [id |-> "", hdr |-> [id |-> ""], st |-> "idle", skip |-> FALSE, bad |-> "", det |-> "", jc |-> 0, acc |-> {}, base |-> ("-" :> [ex |-> <<>>, br |-> <<>>, res |-> "", rd |-> ""]),
         nrun |-> 0, nprobe |-> 0]
BadS(S, reason, detail) == [S EXCEPT !.skip = TRUE, !.bad = reason, !.det = detail]

OnCase(S, e) == [Idle EXCEPT !.id = e.id, !.hdr = e, !.st = "case"]

SameKind(v) == [i \in 1..Len(v) |-> IF v[i] = "S" THEN "E" ELSE v[i]]
OnBuild(S, e) ==
  LET ops == S.hdr.ops IN
  IF S.st # "case" THEN BadS(S, "build-line-out-of-place", "")
  ELSE IF Len(e.att) = 0 THEN BadS(S, "no-attempt", "")
  \* attempts are compared as accepted? / which calls failed / panic -- not by WHICH error a multi-cause rejection reports (picked by map
  \* iteration: with two independent conflicts in a workflow the first Compile reports either, and only one of them is the sticky kind)
  ELSE IF C20On /\ \E a \in 2..Len(e.att) : SameKind(e.att[a]) # SameKind(e.att[1]) THEN BadS(S, "outcome-not-deterministic", "")
  ELSE LET outs == e.att[1]  why == OutcomeWhy(S.hdr, ops, outs) IN
       IF why # "" THEN BadS(S, why, OutcomeDetail(S.hdr, ops, outs))
       ELSE LET jc == FirstCompiled(ops, outs) IN [S EXCEPT !.st = "built", !.jc = jc, !.acc = Accepted(ops, outs, jc)]

RunKey(e) == e.d \o "/" \o e.mode
RunView(e) == [ex |-> e.ex, br |-> e.br, res |-> e.res, rd |-> e.rd]
RunWhy(S, e) ==
  LET ops == S.hdr.ops  I == S.acc IN
  IF ~DynOK(e.d, S.hdr.gi) THEN "run-input-not-of-graph-input-type"
  ELSE IF \E x \in Range(e.ex) : x.n \notin TypedKeys(ops, I) \/ ~DynOK(x.got, RecOf(ops, I, x.n).i) \/ ~DynOK(x.out, RecOf(ops, I, x.n).o)
       THEN "wrong-type-delivered-to-node"
  ELSE IF \E x \in Range(e.br) : x.j \notin BrIdx(ops, I) \/ ~DynOK(x.got, ops[x.j].t) THEN "wrong-type-delivered-to-branch"
  ELSE IF e.res \notin {"result", "typecheck", "error", "panic", "panicerr"} THEN "unknown-run-outcome"
  ELSE IF ~C07On THEN ""
  ELSE IF e.res \in {"panic", "panicerr"} /\ ~NilOverUncheckedConnection(S.hdr, ops, I, e) THEN "run-panic"
  ELSE IF e.res \in {"panic", "panicerr"} THEN ""
  ELSE IF e.res = "result" /\ ~DynOK(e.rd, S.hdr.go) THEN "wrong-type-result"
  ELSE IF e.res = "result" /\ e.mode = "invoke" /\ Undeliverable(S.hdr, ops, I, e) THEN "mismatch-not-reported"
  ELSE IF e.res = "typecheck" /\ ~CheckJustified(S.hdr, ops, I, e) THEN "typecheck-error-without-mismatch"
  ELSE ""
OnRun(S, e) ==
  IF S.st # "built" \/ S.jc = 0 THEN BadS(S, "run-of-unaccepted-graph", "")
  ELSE IF RunKey(e) \in DOMAIN S.base THEN BadS(S, "run-line-twice", RunKey(e))
  ELSE LET why == RunWhy(S, e) IN
       IF why # "" THEN BadS(S, why, RunKey(e))
       ELSE [S EXCEPT !.base = (RunKey(e) :> RunView(e)) @@ S.base, !.nrun = S.nrun + 1]
OnProbe(S, e) ==
  IF S.st # "built" \/ S.jc = 0 \/ e.j <= S.jc \/ e.j > Len(S.hdr.ops) THEN BadS(S, "probe-line-out-of-place", "")
  ELSE IF RunKey(e) \notin DOMAIN S.base THEN BadS(S, "probe-without-baseline", RunKey(e))
  ELSE IF C20On /\ S.base[RunKey(e)] # RunView(e) THEN BadS(S, "runnable-changed-after-compile", S.hdr.ops[e.j].op)
  ELSE [S EXCEPT !.nprobe = S.nprobe + 1]
OnEnd(S, e) ==
  IF S.st \notin {"built"} THEN BadS(S, "end-line-out-of-place", "")
  ELSE IF e.runs # S.nrun \/ e.probes # S.nprobe THEN BadS(S, "observation-lines-missing", "")
  ELSE [S EXCEPT !.st = "ended"]

Apply(S, e) ==
  IF e.ev = "case" THEN OnCase(S, e)
  ELSE IF S.skip THEN S
  ELSE IF e.ev = "build" THEN OnBuild(S, e)
  ELSE IF e.ev = "run" THEN OnRun(S, e)
  ELSE IF e.ev = "probe" THEN OnProbe(S, e)
  ELSE IF e.ev = "end" THEN OnEnd(S, e)
  ELSE BadS(S, "unknown-line", e.ev)
================================================================================
