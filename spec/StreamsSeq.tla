------------------------------- MODULE StreamsSeq -------------------------------
(***************************************************************************)
(* Generator of SEQUENTIAL histories for C08 binding (a): on reader trees  *)
(* without forwarder goroutines, sequences of complete operations          *)
(* (send / closeSend by a writer, recv / close by a leaf reader) in which  *)
(* every operation is non-blocking in the model state it is issued in and  *)
(* a Recv of a merge has a single possible result, so one goroutine can    *)
(* them against the real package.  Only the operations are emitted; what   *)
(* they must return is decided afterwards by StreamsObs / StreamsLin.      *)
(***************************************************************************)
EXTENDS Streams
CONSTANT MaxLen
VARIABLE hist
svars == <<T, M, G, wst, wi, lst, hist>>
\* run Recv of leaf a to completion: all possible ends, blocked ones marked
RECURSIVE RvAll(_, _)
RvAll(MM, a) == LET O == Rv(MM, T, a, a) IN
                IF O = {} THEN {[blk |-> TRUE, v |-> 0, M |-> MM]}
                ELSE UNION {IF o.t = "val" THEN {[blk |-> FALSE, v |-> o.v, M |-> o.M]} ELSE RvAll(o.M, a) : o \in O}
SInit == Init /\ hist = <<>> /\ Fwd(T) = {} /\ Pipes(T) # {}
Op(a, op) == hist' = Append(hist, [a |-> a, op |-> op])
SSend(p) == /\ wst[p] = "run" /\ wi[p] <= Len(T[p].items)
            /\ LET N == SendStep(Offer(M, p, T[p].items[wi[p]]), T, p) IN
                 /\ N # {}
                 /\ \E X \in N : IF X.snd[p].st = "told" THEN M' = ClearSnd(X, p) /\ wst' = [wst EXCEPT ![p] = "told"] /\ wi' = wi
                                 ELSE M' = ClearSnd(X, p) /\ wst' = wst /\ wi' = [wi EXCEPT ![p] = @ + 1]
            /\ Op(p, "send") /\ UNCHANGED <<T, G, lst>>
SCloseSend(p) == /\ (wst[p] = "told" \/ (wst[p] = "run" /\ wi[p] > Len(T[p].items)))
                 /\ M' = CloseSend(M, p) /\ wst' = [wst EXCEPT ![p] = "done"]
                 /\ Op(p, "closeSend") /\ UNCHANGED <<T, G, wi, lst>>
SRecv(a) == /\ lst[a] = "idle"
            /\ LET O == RvAll(M, a) IN
                 /\ \A o \in O : ~o.blk
                 /\ \A o1, o2 \in O : o1.v = o2.v          \* the select of a merge has one possible result here: what follows
                                                          \* stays non-blocking whatever the real select does
                 /\ \E o \in O : M' = o.M /\ lst' = [lst EXCEPT ![a] = IF o.v = EOFV THEN "eof" ELSE "idle"]
            /\ Op(a, "recv") /\ UNCHANGED <<T, G, wst, wi>>
SClose(a) == /\ lst[a] \in {"idle", "eof"}
             /\ M' = CloseR(M, T, a) /\ lst' = [lst EXCEPT ![a] = "closed"]
             /\ Op(a, "close") /\ UNCHANGED <<T, G, wst, wi>>
SNext == /\ Len(hist) < MaxLen
         /\ \/ \E p \in Pipes(T) : SSend(p) \/ SCloseSend(p)
            \/ \E a \in Leaves(T) : SRecv(a) \/ SClose(a)
SDone == Len(hist) = MaxLen \/ ~ENABLED SNext
Emit == SDone => PrintT(<<"CASE", ToJson([shape |-> G.id, tree |-> T, ops |-> hist])>>)
================================================================================
