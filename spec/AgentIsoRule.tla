------------------------------ MODULE AgentIsoRule ------------------------------
(***************************************************************************)
(* Property-level rule for the agent-level part of C09 ("a compiled        *)
(* runnable - here: the bundled ReAct agent and the host multi-agent - is  *)
(* safe for concurrent use; runs are isolated").                           *)
(*                                                                         *)
(* One agent is called by several goroutines at once.  Chat models, tools  *)
(* and specialists are stateless functions of the messages they receive,   *)
(* and every call has its own tagged conversation, so the whole sequence   *)
(* of observations that a call produces when it runs ALONE is a function   *)
(* of its case (Expected below, the alternation order of C18):             *)
(*   react: user "q|tag|n|d"; n tool rounds, round j calls tool "t" (or    *)
(*          "trd", the return-directly tool, when j = d) with arguments    *)
(*          "tag.j" and call id "ctag.j"; the tools echo name(args); then  *)
(*          the answer "atag", or the result of round d                    *)
(*   host:  user "q|tag|w"; host model sees <<system "hp", user>>; w = 0   *)
(*          it answers "atag"; w = 1 / 2 it hands off to specialist s1     *)
(*          (chat model behind system prompt "sp1") / s2 (lambda), which   *)
(*          sees the call's own input messages and answers "s<w>:atag"     *)
(* Apply(S, e) consumes the per-call projection of the observations        *)
(* (events are attributed to a call by a key carried in the context):      *)
(*   case   id, agent "react"|"host", tag, user, n, d, w, modifier, alt    *)
(*          (alt: this caller passes its own tool set with WithToolList)   *)
(*   call   mode "generate"|"stream"                                       *)
(*   mcall  who, input <<msg>>, tags (tags occurring in the input)         *)
(*   tool   name, args, out, tags                                          *)
(*   answer msg, tags | error text | orphan (an event without call key)    *)
(*   input  first, beyond: the caller's input slice after its calls (first *)
(*          element; non-empty cells of its backing array beyond its len)  *)
(*   tresult out, tags | terror panic, escaped: outcome of a run of the    *)
(*          ToolsNode graph (agent "tools", case fields nc, p)             *)
(*   endcall, end                                                          *)
(* What is demanded: every call produces exactly the observations it       *)
(* would produce alone (histories contain only its own messages, in the    *)
(* C18 order; its own answer), no call fails, Generate and Stream agree,   *)
(* and the framework does not write into the caller-owned input slice.     *)
(***************************************************************************)
EXTENDS Naturals, Sequences, FiniteSets, TLC, Json

Range(s) == {s[i] : i \in 1..Len(s)}
Max2(a, b) == IF a > b THEN a ELSE b

Msg(role, content) == [role |-> role, content |-> content, calls |-> <<>>, tcid |-> ""]
Render(m) == [role |-> m.role, content |-> m.content, calls |-> [i \in 1..Len(m.calls) |-> [id |-> m.calls[i].id, name |-> m.calls[i].name, args |-> m.calls[i].args]], tcid |-> m.tcid]
RenderAll(ms) == [i \in 1..Len(ms) |-> Render(ms[i])]

\* ---- react conversations
UserR(c) == Msg("user", c.user)     \* "q|tag|n|d", or one message shared by all callers of a round (the tag is then carried by the context)
CallR(c, j) == [id |-> "c" \o c.tag \o "." \o ToString(j), name |-> (IF c.d = j THEN "trd" ELSE "t"), args |-> c.tag \o "." \o ToString(j)]
AsstR(c, j) == [role |-> "assistant", content |-> "", calls |-> <<CallR(c, j)>>, tcid |-> ""]
\* the tools echo name(args); the tool set a caller passes per call (WithToolList, c.alt) has the same names and echoes "alt:" name(args)
OutR(c, j) == (IF c.alt THEN "alt:" ELSE "") \o CallR(c, j).name \o "(" \o CallR(c, j).args \o ")"
ToolR(c, j) == [role |-> "tool", content |-> OutR(c, j), calls |-> <<>>, tcid |-> CallR(c, j).id]
FinalR(c) == Msg("assistant", "a" \o c.tag)
Mod(c, h) == IF c.modifier THEN <<Msg("system", "sys")>> \o h ELSE h
RECURSIVE ReactExp(_, _, _)
ReactExp(c, j, hist) ==
  LET mc == [k |-> "mcall", who |-> "chat", input |-> Mod(c, hist)]
      tl == [k |-> "tool", name |-> CallR(c, j).name, args |-> CallR(c, j).args, out |-> OutR(c, j)] IN
  IF j > c.n THEN <<mc, [k |-> "answer", msg |-> FinalR(c)]>>
  ELSE IF c.d = j THEN <<mc, tl, [k |-> "answer", msg |-> ToolR(c, j)]>>
  ELSE <<mc, tl>> \o ReactExp(c, j + 1, hist \o <<AsstR(c, j), ToolR(c, j)>>)

\* ---- host conversations
UserH(c) == Msg("user", c.user)     \* "q|tag|w"
HostExp(c) ==
  LET hc == [k |-> "mcall", who |-> "host", input |-> <<Msg("system", "hp"), UserH(c)>>] IN
  CASE c.w = 0 -> <<hc, [k |-> "answer", msg |-> FinalR(c)]>>
    [] c.w = 1 -> <<hc, [k |-> "mcall", who |-> "s1", input |-> <<Msg("system", "sp1"), UserH(c)>>],
                   [k |-> "answer", msg |-> Msg("assistant", "s1:a" \o c.tag)]>>
    [] OTHER   -> <<hc, [k |-> "mcall", who |-> "s2", input |-> <<UserH(c)>>],
                   [k |-> "answer", msg |-> Msg("assistant", "s2:a" \o c.tag)]>>

\* ---- a ToolsNode in a graph (agent = "tools"): an assistant message with c.nc tool calls c<tag>.<i> / <tag>.<i>; call c.p > 1 (0: none)
\* goes to a tool that panics: the run must then fail with an error that reports the panic, otherwise it returns the nc tool messages
ToolsExp(c) ==
  IF c.p > 0 THEN <<[k |-> "terror"]>>
  ELSE <<[k |-> "tresult", out |-> [i \in 1..c.nc |-> [id |-> "c" \o c.tag \o "." \o ToString(i), role |-> "tool",
                                                        content |-> "t(" \o c.tag \o "." \o ToString(i) \o ")", nil |-> FALSE]]]>>

Expected(c) == IF c.agent = "host" THEN HostExp(c) ELSE IF c.agent = "tools" THEN ToolsExp(c) ELSE ReactExp(c, 1, <<UserR(c)>>)

NoCase == [id |-> "", agent |-> "react", tag |-> "", user |-> "", n |-> 0, d |-> 0, w |-> 0, modifier |-> FALSE, alt |-> FALSE]
Idle == [id |-> "", open |-> FALSE, bad |-> "", c |-> NoCase, incall |-> FALSE, p |-> 1, exp |-> <<>>, answers |-> <<>>, ncalls |-> 0, mode |-> ""]
Bad(S, why) == [S EXCEPT !.bad = why]
Foreign(S, e) == \E t \in Range(e.tags) : t # S.c.tag
Cur(S) == S.exp[S.p]
Due(S, kind) == S.p <= Len(S.exp) /\ Cur(S).k = kind

McallRule(S, e) ==
  IF ~S.incall THEN Bad(S, "component-called-outside-a-call")
  ELSE IF Foreign(S, e) THEN Bad(S, "history-contains-messages-of-another-call")
  ELSE IF ~Due(S, "mcall") THEN Bad(S, "component-called-out-of-turn")
  ELSE IF e.who # Cur(S).who THEN Bad(S, "wrong-component-called")
  ELSE IF RenderAll(e.input) # Cur(S).input THEN Bad(S, "history-is-not-this-calls-own-conversation")
  ELSE [S EXCEPT !.p = @ + 1]
ToolRule(S, e) ==
  IF ~S.incall THEN Bad(S, "tool-run-outside-a-call")
  ELSE IF Foreign(S, e) THEN Bad(S, "tool-arguments-of-another-call")
  ELSE IF ~Due(S, "tool") THEN Bad(S, "tool-run-out-of-turn")
  ELSE IF e.name # Cur(S).name \/ e.args # Cur(S).args THEN Bad(S, "tool-call-is-not-the-one-this-calls-script-asks-for")
  ELSE IF e.out # Cur(S).out THEN Bad(S, "call-answered-by-the-tool-set-of-another-call")
  ELSE [S EXCEPT !.p = @ + 1]
AnswerRule(S, e) ==
  IF ~S.incall THEN Bad(S, "answer-outside-a-call")
  ELSE IF Foreign(S, e) THEN Bad(S, "answer-of-another-call")
  ELSE IF ~Due(S, "answer") THEN Bad(S, "answer-before-the-conversation-was-complete")
  ELSE IF Render(e.msg) # Cur(S).msg THEN Bad(S, "answer-is-not-the-one-this-calls-script-determines")
  ELSE [S EXCEPT !.p = @ + 1, !.answers = Append(@, Render(e.msg))]
ToolsResultRule(S, e) ==
  IF ~S.incall THEN Bad(S, "result-outside-a-call")
  ELSE IF Due(S, "terror") THEN Bad(S, "run-succeeded-although-a-tool-panicked")
  ELSE IF ~Due(S, "tresult") THEN Bad(S, "second-outcome-of-a-call")
  ELSE IF Foreign(S, e) THEN Bad(S, "tool-messages-of-another-call")
  ELSE IF [i \in 1..Len(e.out) |-> [id |-> e.out[i].id, role |-> e.out[i].role, content |-> e.out[i].content, nil |-> e.out[i].nil]] # Cur(S).out
       THEN Bad(S, "tool-messages-are-not-the-answers-to-this-calls-own-tool-calls")
  ELSE [S EXCEPT !.p = @ + 1]
ToolsErrorRule(S, e) ==
  IF ~S.incall THEN Bad(S, "error-outside-a-call")
  ELSE IF Due(S, "tresult") THEN Bad(S, "call-failed")
  ELSE IF ~Due(S, "terror") THEN Bad(S, "second-outcome-of-a-call")
  ELSE IF e.escaped THEN Bad(S, "panic-escaped-the-run")
  ELSE IF ~e.panic THEN Bad(S, "error-does-not-report-the-panic")
  ELSE [S EXCEPT !.p = @ + 1]

EndCallRule(S, e) ==
  IF ~S.incall THEN Bad(S, "endcall-outside-a-call")
  ELSE IF S.p # Len(S.exp) + 1 THEN Bad([S EXCEPT !.incall = FALSE], "call-ended-without-its-answer")
  ELSE IF Len(S.answers) >= 2 /\ S.answers[Len(S.answers)] # S.answers[1] THEN Bad([S EXCEPT !.incall = FALSE], "generate-and-stream-answers-differ")
  ELSE [S EXCEPT !.incall = FALSE]

\* the caller's input slice after its calls: its first element and the cells of its backing array beyond its length
InputRule(S, e) ==
  IF S.incall THEN Bad(S, "input-checked-inside-a-call")
  ELSE IF Len(e.beyond) > 0 THEN Bad(S, "framework-wrote-into-the-callers-input-slice")
  ELSE IF Render(e.first) # (IF S.c.agent = "host" THEN UserH(S.c) ELSE UserR(S.c)) THEN Bad(S, "framework-changed-the-callers-input-message")
  ELSE S

Apply(S, e) ==
  IF e.ev = "case" THEN [Idle EXCEPT !.id = e.id, !.open = TRUE, !.c = e]
  ELSE IF S.bad # "" THEN (IF e.ev = "end" THEN [S EXCEPT !.open = FALSE] ELSE S)
  ELSE IF ~S.open THEN Bad(S, "line-outside-a-case")
  ELSE CASE e.ev = "call" -> IF S.incall THEN Bad(S, "call-inside-a-call")
                             ELSE [S EXCEPT !.incall = TRUE, !.p = 1, !.exp = Expected(S.c), !.ncalls = @ + 1, !.mode = e.mode]
         [] e.ev = "mcall" -> McallRule(S, e)
         [] e.ev = "tool" -> ToolRule(S, e)
         [] e.ev = "answer" -> AnswerRule(S, e)
         [] e.ev = "error" -> Bad(S, "call-failed")
         [] e.ev = "tresult" -> ToolsResultRule(S, e)
         [] e.ev = "terror" -> ToolsErrorRule(S, e)
         [] e.ev = "orphan" -> Bad(S, "event-without-call-context")
         [] e.ev = "input" -> InputRule(S, e)
         [] e.ev = "endcall" -> EndCallRule(S, e)
         [] e.ev = "end" -> IF S.incall THEN Bad([S EXCEPT !.open = FALSE], "case-ended-inside-a-call")
                            ELSE IF S.ncalls = 0 THEN Bad([S EXCEPT !.open = FALSE], "case-without-a-call")
                            ELSE [S EXCEPT !.open = FALSE]
         [] OTHER -> Bad(S, "unknown-observation")
================================================================================
