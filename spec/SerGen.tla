------------------------------- MODULE SerGen -------------------------------
(***************************************************************************)
(* C12: generator of abstract value shapes + model-level check of the     *)
(* round-trip law on the transcription of Serialization.tla.               *)
(***************************************************************************)
EXTENDS Serialization

(* GENERATOR + MODEL CHECK.  Shapes are grown by wrapping (one action per constructor); TLC visits every shape of the   *)
(* bound once, checks the law on the transcription and prints the shape as a case for the Go harness.                  *)
CONSTANTS MaxDepth,        \* container / struct nesting
          MaxPtr,          \* pointer depth at each position
          Bases,           \* base tokens of leaves
          KeyKinds,        \* map key kinds (subset of string,int,bool,named,any)
          ErrDepth,        \* unsupported element types (container directly in a static container position, unreg) only up to this depth
          Fx               \* which transcription is checked: "asis" | "fixed"

fxc == IF Fx = "fixed" THEN Fixed ELSE AsIs

VARIABLES v, d
vars == <<v, d>>

Leaf(b) == V(<<b>>, "leaf", FALSE, "@", <<>>, <<>>)
ZLeaf == V(<<"int">>, "leaf", FALSE, "7", <<>>, <<>>)
KeyFor(kk) == CASE kk = "string" -> K("string", "a") [] kk = "int" -> K("int", "1")
                [] kk = "bool" -> K("bool", "true") [] kk = "named" -> K("named", "a")
AnyKeys == {K("string", "a"), K("int", "1"), K("named", "a"), K("bool", "true")}
Key2 == K("string", "b")

Unsupported(x) == IsContainerTok(Strip(x.t)[1]) \/ "unreg" \in RangeS(x.t)
(* static position: element type = dynamic type of x *)
StaticOK(x) == x.k # "nilif" /\ (Unsupported(x) => d < ErrDepth)
Slice(et, n, kids) == V(<<"slice">> \o et, "slice", n, "", <<>>, kids)
Map(kk, et, n, keys, kids) == V(<<"map_" \o kk>> \o et, "map", n, "", keys, kids)

CfFieldTypes == {<<"int">>, <<"ptr", "int">>, <<"slice", "int">>}     \* field types T for which a conflicting type "stc T" is declared
Wraps(x) ==
  (IF StaticOK(x) THEN
      {Slice(x.t, FALSE, <<x>>), Slice(x.t, TRUE, <<>>), Slice(x.t, FALSE, <<>>),
       V(<<"arr1">> \o x.t, "arr", FALSE, "", <<>>, <<x>>)}
      \cup (IF x.k = "ptr" THEN {Slice(x.t, FALSE, <<x, NilPtrOf(x.t)>>)} ELSE {})
      \cup {Map(kk, x.t, FALSE, <<KeyFor(kk)>>, <<x>>) : kk \in KeyKinds \ ({"any"} \cup StructKeyKinds)}
      \cup (* struct keys: three entries whose keys differ in which field is zero *)
           {Map(kk, x.t, FALSE, <<SK(kk, "a", "0"), SK(kk, "", "7"), SK(kk, "b", "3")>>, <<x, x, x>>) : kk \in KeyKinds \cap StructKeyKinds}
      \cup (IF "any" \in KeyKinds THEN {Map("any", x.t, FALSE, <<k>>, <<x>>) : k \in AnyKeys} ELSE {})
      \cup {Map("string", x.t, TRUE, <<>>, <<>>), Map("string", x.t, FALSE, <<>>, <<>>)}
   ELSE {})
  \cup (* struct field of the value's own type: any type may be a field type *)
     (IF x.k # "nilif" /\ ("unreg" \in RangeS(x.t) => d < ErrDepth) THEN {V(<<"st">> \o x.t, "st", FALSE, "", <<>>, <<x, ZLeaf>>)} ELSE {})
  \cup (* a value of the type whose conflicting registration was refused (declared for these field types), holding x *)
     (IF x.k # "nilif" /\ x.t \in CfFieldTypes THEN {V(<<"stc">> \o x.t, "st", FALSE, "", <<>>, <<x>>)} ELSE {})
  \cup {V(<<"stc", "any">>, "st", FALSE, "", <<>>, <<x>>)}
  \cup (* interface positions *)
     {Slice(<<"any">>, FALSE, <<x, NILIF>>),
      V(<<"st", "any">>, "st", FALSE, "", <<>>, <<x, ZLeaf>>),
      Map("string", <<"any">>, FALSE, <<KeyFor("string"), Key2>>, <<x, NILIF>>)}
  \cup (IF "any" \in KeyKinds /\ x.k # "nilif" THEN {Map("any", <<"any">>, FALSE, <<K("int", "1")>>, <<x>>)} ELSE {})

(* the registration protocol on the transcription: whatever is attempted (2 types x 2 names, up to 3 attempts), the       *)
(* registry stays a bijection and a refused attempt changes nothing                                                       *)
Attempts == {<<T, k>> : T \in {"A", "B"}, k \in {"n1", "n2"}}
ASSUME \A a1, a2, a3 \in Attempts :
         LET r1 == Register(EmptyReg, a1[1], a1[2]) r2 == Register(r1.reg, a2[1], a2[2]) r3 == Register(r2.reg, a3[1], a3[2])
         IN /\ RegistryOK(r1.reg) /\ RegistryOK(r2.reg) /\ RegistryOK(r3.reg)
            /\ (r2.refused => r2.reg = r1.reg) /\ (r3.refused => r3.reg = r2.reg)
            /\ (a2[2] = a1[2] /\ a2[1] # a1[1] => r2.refused /\ a2[1] \notin DOMAIN r2.reg.rm)     \* same name, other type: refused, still unregistered
Init == d = 0 /\ v \in {Leaf(b) : b \in Bases} \cup {NILIF}
WrapPtr == /\ v.k # "nilif" /\ PtrDepth(v.t) < MaxPtr
           /\ v' \in {V(<<"ptr">> \o v.t, "ptr", FALSE, "", <<>>, <<v>>), NilPtrOf(<<"ptr">> \o v.t)}
           /\ d' = d
WrapContainer == /\ d < MaxDepth
                 /\ v' \in Wraps(v)
                 /\ d' = d + 1
Next == WrapPtr \/ WrapContainer
Spec == Init /\ [][Next]_vars

(* Impl => P on the transcription: every shape round-trips or fails loudly, EXCEPT shapes carrying one of the named     *)
(* deviations of the code (with Fx = "fixed": of the code with fixes/D9 applied).                                       *)
ModelLaw == LET o == RoundTrip(v, fxc) IN Law(v, o) \/ Explained(v, fxc)
(* and the deviations are real: a shape that is ONLY "explained" by a repaired deviation must satisfy the law           *)
Outcome(x, fx) == LET o == RoundTrip(x, fx) IN [enc |-> o.enc, dec |-> o.dec, reason |-> Reason(x, o)]
Emit == PrintT(<<"CASE", ToJson([v |-> v, d |-> d, feature |-> Feature(v),
                                 asis |-> Outcome(v, AsIs), fixed |-> Outcome(v, Fixed)])>>)
================================================================================
