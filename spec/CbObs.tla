------------------------------- MODULE CbObs -------------------------------
(***************************************************************************)
(* Trace validation of the handler event logs of REAL runs (written by     *)
(* harness/compose/zz_verif_cb_test.go) against the property-level rule of *)
(* C10 (CbRule!Apply).  One state per trace line; total: a line that       *)
(* contradicts the property prints <<"BAD", case id, line, reason>> and    *)
(* the rest of that case is skipped.                                       *)
(***************************************************************************)
EXTENDS CbRule

Trace == ndJsonDeserialize("trace.ndjson")
ASSUME TLCSet(1, 0)

VARIABLES l, S
vars == <<l, S>>

Init == l = 1 /\ S = Idle
Next == /\ l <= Len(Trace)
        /\ l' = l + 1
        /\ LET T == Apply(S, Trace[l]) IN
             /\ S' = T
             /\ (T.bad # "" /\ (S.bad = "" \/ Trace[l].ev = "case")) => PrintT(<<"BAD", T.id, l, T.bad>>)
Spec == Init /\ [][Next]_vars

HW == TLCSet(1, Max2(l, TLCGet(1)))
Post == PrintT(<<"HW", TLCGet(1)>>)
================================================================================
