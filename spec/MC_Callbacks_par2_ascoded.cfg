CONSTANTS
  Shape = "par2"
  MaxGlobal = 1
  MaxUndes = 4
  MaxOpts = 4
  MaxDOpts = 2
  Multi = FALSE
  AllowFail = TRUE
  CopyFix = FALSE
  Gen = FALSE
  LateFlag = FALSE
  NoRebind = FALSE
  AllowDv = FALSE
  ShareBase = FALSE
  NoBreak = FALSE
  NestedOnce = FALSE
  KeepScope = FALSE
  ExtractFirst = FALSE
SPECIFICATION Spec
INVARIANT RuleOK
CHECK_DEADLOCK FALSE
