---------------------------- MODULE FieldMapRule ----------------------------
(***************************************************************************)
(* Property-level rule of C15 (workflow field mappings).  It says only     *)
(* what the statement says, over OBSERVATIONS:                             *)
(*                                                                         *)
(*   RejectOverlap   a declaration whose target paths overlap (one path    *)
(*                   twice, or a path and one of its prefixes - the empty  *)
(*                   path, i.e. "the whole input", is a prefix of every    *)
(*                   path) is rejected by Compile, whatever the order      *)
(*   NoFalseReject   Compile rejects for a target conflict only if there   *)
(*                   is one                                                *)
(*   Input           for an accepted declaration every run (Invoke and     *)
(*                   Stream, every repetition) hands the successor exactly *)
(*                   Set(zero, {target |-> Get(Out(pred), source)})        *)
(*   Unmodified      the predecessors' outputs are the same before and     *)
(*                   after every run                                       *)
(*   NoPanic         a value whose type can only be checked at run time    *)
(*                   and does not fit is an ERROR in every run; a source   *)
(*                   path that does not exist in the value (absent map key,*)
(*                   nil pointer / interface on the way) is handled the    *)
(*                   same way in every run (error, or the target stays     *)
(*                   zero); never a panic or a hang                        *)
(*                                                                         *)
(* Values are FLATTENED: a value is the set of its leaves                  *)
(*      [p |-> path, k |-> kind, v |-> rendering]                          *)
(* with k in {"s","n"} for string / int leaves and, in a TOTAL flat (the   *)
(* predecessors' outputs), "nil" for a nil pointer / map / interface and   *)
(* "empty" for an empty map.  Flattening is transparent to pointers and    *)
(* interfaces, so Get is "the entries below the source path" and Set is    *)
(* "prefix them with the target path": the reference needs no types.       *)
(* The same operator Judge is applied to the observation lines of the real *)
(* code (FieldMapObs.tla) and to the outcome of the implementation-shaped  *)
(* model (FieldMap.tla).                                                   *)
(***************************************************************************)
EXTENDS Naturals, Sequences, FiniteSets, TLC

Range(s) == {s[i] : i \in 1..Len(s)}
IsPrefix(s, t) == Len(s) <= Len(t) /\ \A i \in 1..Len(s) : s[i] = t[i]

\* all mappings of a declaration, in declaration order: [pred, s, t, k]
\* An AddInput WITHOUT mappings hands the predecessor's entire output over as the entire input: it is the mapping with the empty
\* source and the empty target path.
RECURSIVE AllMaps(_)
AllMaps(decl) ==
  IF Len(decl) = 0 THEN <<>>
  ELSE LET g == decl[1] IN
       (IF Len(g.maps) = 0 THEN <<[pred |-> g.pred, s |-> <<>>, t |-> <<>>, k |-> "tree"]>>
        ELSE [i \in 1..Len(g.maps) |-> [pred |-> g.pred, s |-> g.maps[i].s, t |-> g.maps[i].t, k |-> g.maps[i].k]]) \o AllMaps(Tail(decl))

\* order-free reference relation
Overlap(M) == \E i, j \in 1..Len(M) : i # j /\ IsPrefix(M[i].t, M[j].t)

ZeroLeaf(e) == e.k \in {"nil", "empty"} \/ (e.k = "s" /\ e.v = "") \/ (e.k = "n" /\ e.v = "0")
Sub(F, p) == {[p |-> SubSeq(e.p, Len(p) + 1, Len(e.p)), k |-> e.k, v |-> e.v] : e \in {x \in F : IsPrefix(p, x.p)}}
\* dynamic kind of the value found at a source path
DynKind(sub) == IF Cardinality(sub) = 1 /\ (CHOOSE e \in sub : TRUE).p = <<>> THEN (CHOOSE e \in sub : TRUE).k ELSE "tree"
\* static kind of the target position (carried by the case: "s" string, "n" int, "any" interface, "tree" struct/pointer/map type
\* that the compile-time check already proved equal to the source's static type)
Mismatch(tk, dk) == (tk = "s" /\ dk # "s") \/ (tk = "n" /\ dk # "n")

OutOf(outs, pred) == IF \E i \in 1..Len(outs) : outs[i].pred = pred
                     THEN Range((CHOOSE o \in Range(outs) : o.pred = pred).flat) ELSE {}
DigestOf(outs, pred) == IF \E i \in 1..Len(outs) : outs[i].pred = pred
                        THEN (CHOOSE o \in Range(outs) : o.pred = pred).h ELSE ""

Expected(M, I, outs) ==
  UNION {{[p |-> M[i].t \o e.p, k |-> e.k, v |-> e.v] : e \in {x \in Sub(OutOf(outs, M[i].pred), M[i].s) : ~ZeroLeaf(x)}} : i \in I}

\* verdict on one run r = [mode, kind, in, got, o]
RunBad(M, outs, r) ==
  LET all == 1..Len(M)
      unres == {i \in all : Sub(OutOf(outs, M[i].pred), M[i].s) = {}}
      mism == {i \in all \ unres : Mismatch(M[i].k, DynKind(Sub(OutOf(outs, M[i].pred), M[i].s)))}
      in == Range(r.in)
  IN IF r.kind = "panic" THEN "panic"
     ELSE IF r.kind = "hang" THEN "hang"
     ELSE IF \E o \in Range(r.o) : o.b # o.a THEN "predecessor-output-modified"
     ELSE IF \E o \in Range(r.o) : o.b # DigestOf(outs, o.pred) THEN "predecessor-output-differs-between-runs"
     ELSE IF mism # {} THEN (IF r.kind # "err" THEN "runtime-type-mismatch-not-an-error" ELSE "")
     ELSE IF unres = {} /\ r.kind = "err" THEN "unexpected-error"
     ELSE IF r.kind = "ok" /\ (~r.got \/ in # Expected(M, all \ unres, outs)) THEN "wrong-input"
     ELSE ""

FirstBad(M, outs, rs) ==
  LET bad == {i \in 1..Len(rs) : RunBad(M, outs, rs[i]) # ""} IN
  IF bad = {} THEN {} ELSE {RunBad(M, outs, rs[CHOOSE i \in bad : \A j \in bad : i <= j])}

ModeRuns(runs, mode) == SelectSeq(runs, LAMBDA r : r.mode = mode)
Tag(mode, S) == {<<mode, x>> : x \in S}

\* Judge: the set of <<scope, reason>> pairs of an observation line L = [decl, compile, outs, runs]
Judge(L) ==
  LET M == AllMaps(L.decl)
      ov == Overlap(M)
  IN IF ~L.compile.ok THEN
          (IF L.compile.cls = "panic" THEN {<<"compile", "compile-panic">>}
           \* the same declaration compiled in some builds and was refused in others (type inference of a pass-through node follows map
           \* order): reported as information, the statement of C15 is about declarations Compile accepts (deterministic rejection is C20)
           ELSE IF L.compile.cls = "unstable" THEN {<<"compile", "INFO:compile-outcome-differs-between-builds">>}
           ELSE IF L.compile.cls = "other" THEN {<<"compile", "NOTE:rejected-for-another-reason">>}
           ELSE IF ~ov THEN {<<"compile", "false-reject">>} ELSE {})
     ELSE IF ov THEN {<<"compile", "overlap-accepted">>}
     ELSE IF Len(ModeRuns(L.runs, "invoke")) # L.ri \/ Len(ModeRuns(L.runs, "stream")) # L.rs THEN {<<"cross", "NOTE:runs-missing-from-the-line">>}
     ELSE LET unres == {i \in 1..Len(M) : Sub(OutOf(L.outs, M[i].pred), M[i].s) = {}}
              kinds == {L.runs[i].kind : i \in 1..Len(L.runs)}
          IN Tag("invoke", FirstBad(M, L.outs, ModeRuns(L.runs, "invoke")))
             \cup Tag("stream", FirstBad(M, L.outs, ModeRuns(L.runs, "stream")))
             \cup (IF unres # {} /\ Cardinality(kinds \ {"panic", "hang"}) > 1 THEN {<<"cross", "missing-source-handled-differently">>} ELSE {})
=============================================================================
