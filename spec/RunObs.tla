------------------------------- MODULE RunObs -------------------------------
(***************************************************************************)
(* Trace validation of OBSERVATIONS OF REAL RUNS of the eino run engine    *)
(* against the property-level rule of RunRule.tla (C01, C02, C05, C06,     *)
(* C11, C13).  One state per trace line; the spec is total: a line that    *)
(* contradicts a property prints <<"BAD", case id, line, reason>> and the  *)
(* rest of that case is skipped, so one TLC run reports every violating    *)
(* case of a concatenated trace.                                           *)
(***************************************************************************)
EXTENDS RunRule

Trace == ndJsonDeserialize("trace.ndjson")
ASSUME TLCSet(1, 0)

VARIABLES l, S
vars == <<l, S>>

Init == l = 1 /\ S = Idle
Next == /\ l <= Len(Trace)
        /\ l' = l + 1
        /\ LET T == Apply(S, Trace[l]) IN
             /\ S' = T
             /\ (T.top.bad # "" /\ (S.top.bad = "" \/ Trace[l].ev = "case")) => PrintT(<<"BAD", T.g.id, l, T.top.bad>>)
Spec == Init /\ [][Next]_vars

HW == TLCSet(1, Max2(l, TLCGet(1)))
Post == PrintT(<<"HW", TLCGet(1)>>)
================================================================================
