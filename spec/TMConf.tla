------------------------------- MODULE TMConf -------------------------------
(***************************************************************************)
(* Engine-level rule of C03: "the result of a run, and the set of node     *)
(* executions that feed it, do not depend on the order in which            *)
(* concurrently running nodes finish; every started execution is collected *)
(* exactly once; the run does not hang and does not return before the      *)
(* nodes feeding END have finished; batch = wait for all nodes of a step,  *)
(* eager = start successors as soon as one node finishes".                 *)
(*                                                                         *)
(* The rule is a pure function  Apply(S, e)  over OBSERVATIONS of runs of  *)
(* one graph under several FORCED completion orders (a group = the runs of *)
(* one graph; harness/compose/zz_verif_tm_test.go, order cases):           *)
(*   case    graph (mode, nodes, edges, fail), the forced order / probe    *)
(*   exec    body of node n begins, with its input i (rendered canonically)*)
(*   done    body of n returns its term       failed  body of n fails      *)
(*   abort   body of a rerun node asks for InterruptAndRerun (1st attempt) *)
(*   interrupt  the call returned an interrupt (rerun list)   resume  the  *)
(*           next call with the same checkpoint id begins                  *)
(*   gate    outcome of a wait inside a body: kind order | probe,          *)
(*           res met | released (the run had returned) | timeout           *)
(*   result  value returned by Invoke         error   class, node          *)
(* Per run:                                                                *)
(*   - a node body begins at most once, only after all its predecessors    *)
(*     finished (a completion was neither lost nor invented)               *)
(*   - batch: no body of a later superstep begins while one of an earlier  *)
(*     superstep is still running                                          *)
(*   - eager: a node whose predecessors are done is started although other *)
(*     nodes are still running (the forced order times out otherwise)      *)
(*   - the run returns (no hang); a result only after every feeder of END  *)
(*     finished, in batch mode after every started body finished; an error *)
(*     only names a node that failed                                       *)
(* Across the runs of a group: identical result, identical set of          *)
(* (node, input) executions among the ancestors of END.                    *)
(* When two configured failures exist, which one is reported is left open  *)
(* (the result is "the run fails").                                        *)
(* The same rule judges the model of the run loop (TMRun.tla) and the real *)
(* traces (TMConfObs.tla).  The spec is total: a contradicting line sets   *)
(* bad and the rest of the run is skipped.                                 *)
(***************************************************************************)
EXTENDS Naturals, Sequences, FiniteSets, TLC

START == "start"
END == "end"
Range(s) == {s[i] : i \in 1..Len(s)}

GNodes(g) == Range(g.nodes)
\* edges are <<from, to>> or <<from, to, kind>>, kind "cd" (control + data, default) | "c" (control only: Workflow AddDependency) |
\* "d" (data only: input without direct dependency)
EKind(e) == IF Len(e) >= 3 THEN e[3] ELSE "cd"
GEdges(g) == {<<e[1], e[2]>> : e \in {x \in Range(g.edges) : EKind(x) # "d"}}          \* control edges
DEdges(g) == {<<e[1], e[2]>> : e \in {x \in Range(g.edges) : EKind(x) = "d"}}          \* data-only edges
\* branches: [from, ends, sel] -- the condition of the harness statically selects `sel` (a non-empty subset of `ends`)
GBranches(g) == Range(g.branches)
CtrlPreds(g, n) == {e[1] : e \in {x \in GEdges(g) : x[2] = n}} \cup {b.from : b \in {x \in GBranches(g) : n \in Range(x.ends)}}
Routes(g, p, n) == <<p, n>> \in GEdges(g) \/ \E b \in GBranches(g) : b.from = p /\ n \in Range(b.sel)
\* all-predecessor trigger with skip propagation: a node runs iff some control predecessor ran and routed to it
RECURSIVE RunsOf(_, _)
RunsOf(g, n) == n = START \/ \E p \in CtrlPreds(g, n) : RunsOf(g, p) /\ Routes(g, p, n)
\* superstep in which n is resolved (batch): a running node one step after its last predecessor, a skipped node with it
RECURSIVE LevelOf(_, _)
LevelOf(g, n) == IF n = START \/ CtrlPreds(g, n) = {} THEN 0
                 ELSE LET ls == {LevelOf(g, p) : p \in CtrlPreds(g, n)}
                          m == CHOOSE x \in ls : \A y \in ls : y <= x
                      IN IF RunsOf(g, n) THEN m + 1 ELSE m
\* the running nodes that must have finished before n can start (through skipped nodes transitively)
RECURSIVE DepOf(_, _)
DepOf(g, n) == UNION {IF p = START THEN {} ELSE IF RunsOf(g, p) THEN {p} \cup DepOf(g, p) ELSE DepOf(g, p) : p \in CtrlPreds(g, n)}
RunSet(g) == {n \in GNodes(g) : RunsOf(g, n)}
IsBatch(g) == g.mode \in {"dag", "pregel"}
FailKindOf(g, n) == IF \E f \in Range(g.fail) : f.n = n THEN (CHOOSE f \in Range(g.fail) : f.n = n).kind ELSE "none"

NoRef == [grp |-> "", has |-> FALSE, res |-> "", ex |-> {}]
\* aborted: nodes whose attempt asked for interrupt-and-rerun in the current call; redo: the same after the interrupt was returned
\* (they execute once more after the resume); execs holds <<node, input, attempt>>
Idle == [g |-> [id |-> "", grp |-> ""], begun |-> {}, done |-> {}, failed |-> {}, aborted |-> {}, redo |-> {}, arep |-> {}, execs |-> {},
         st |-> "idle", bad |-> "", ref |-> NoRef]
Bad(S, why) == [S EXCEPT !.st = "skip", !.bad = why]
Running(S) == S.begun \ (S.done \cup S.failed \cup S.aborted \cup S.redo)
RerunNodes(g) == Range(g.rerun)

OnCase(S, e) == [g |-> e, begun |-> {}, done |-> {}, failed |-> {}, aborted |-> {}, redo |-> {}, arep |-> {}, execs |-> {}, st |-> "run", bad |-> "",
                 ref |-> IF e.grp = S.ref.grp THEN S.ref ELSE [NoRef EXCEPT !.grp = e.grp]]

OnExec(S, e) == LET g == S.g  n == e.n IN
  IF n \notin GNodes(g) THEN Bad(S, "exec-of-unknown-node")
  ELSE IF n \in S.begun /\ n \notin S.redo THEN Bad(S, "node-executed-twice")
  ELSE IF \E p \in (CtrlPreds(g, n) \cup {y[1] : y \in {x \in DEdges(g) : x[2] = n}}) \ {START} : p \in Running(S) \/ (g.branches = <<>> /\ p \notin S.done)
       THEN Bad(S, "exec-before-predecessor-finished")
  ELSE IF n \notin S.redo /\ \E s \in S.begun : n \in CtrlPreds(g, s) THEN Bad(S, "predecessor-started-after-successor")
  ELSE IF IsBatch(g) /\ \E m \in Running(S) : LevelOf(g, m) < LevelOf(g, n) THEN Bad(S, "batch-step-overlap")
  ELSE [S EXCEPT !.begun = S.begun \cup {n}, !.redo = S.redo \ {n}, !.execs = S.execs \cup {<<n, e.i, IF n \in S.redo THEN 2 ELSE 1>>}]

\* the attempt of a rerun node ended with InterruptAndRerun
OnAbort(S, e) == IF e.n \notin Running(S) THEN Bad(S, "abort-of-node-not-running")
                 ELSE IF e.n \notin RerunNodes(S.g) \/ \E x \in S.execs : x[1] = e.n /\ x[3] = 2 THEN Bad(S, "unconfigured-abort")
                 ELSE [S EXCEPT !.aborted = S.aborted \cup {e.n}]
\* the call returned an interrupt (rerun request, or a static interrupt-after / interrupt-before mark was hit): the run loop has
\* waited for EVERYTHING it started (waitAll, batch and eager alike) -- nothing is running, every aborted attempt is reported for
\* rerun, every finished interrupt-after node is reported
OnInterrupt(S, e) ==
  LET afterDue == (Range(S.g.after) \cap S.done) \ S.arep IN          \* interrupt-after nodes finished and not yet reported
  IF S.aborted = {} /\ afterDue = {} /\ e.before = <<>> THEN Bad(S, "interrupt-without-cause")
  ELSE IF Running(S) # {} THEN Bad(S, "interrupt-returned-while-node-running")
  ELSE IF Range(e.rerun) # S.aborted THEN Bad(S, "aborted-execution-not-reported-for-rerun")
  ELSE IF Range(e.after) # afterDue THEN Bad(S, "finished-after-node-not-reported")   \* a completion that was not collected is missing here
  ELSE IF ~(Range(e.before) \subseteq Range(S.g.before) \ S.begun) THEN Bad(S, "before-list-names-a-started-node")
  ELSE [S EXCEPT !.redo = S.redo \cup S.aborted, !.aborted = {}, !.arep = S.arep \cup afterDue, !.st = "interrupted"]
OnResume(S, e) == [S EXCEPT !.st = "run"]

OnDone(S, e) == IF e.n \notin Running(S) THEN Bad(S, "done-of-node-not-running")
                ELSE IF FailKindOf(S.g, e.n) # "none" THEN Bad(S, "failing-node-returned-a-value")
                ELSE [S EXCEPT !.done = S.done \cup {e.n}]
OnFailed(S, e) == IF e.n \notin Running(S) THEN Bad(S, "failure-of-node-not-running")
                  ELSE IF FailKindOf(S.g, e.n) # e.kind THEN Bad(S, "unconfigured-failure")
                  ELSE [S EXCEPT !.failed = S.failed \cup {e.n}]

OnGate(S, e) ==
  IF e.kind = "order" /\ e.res = "timeout"
  THEN (IF e.on \in S.begun THEN Bad(S, "forced-order-timeout")
        ELSE IF S.g.mode = "wf" THEN Bad(S, "eager-successor-not-started")
        ELSE Bad(S, "step-node-not-started-concurrently"))
  ELSE S

\* cross-run comparison within the group
Compare(S, res, ex) ==
  IF ~S.ref.has THEN [S EXCEPT !.st = "ended", !.ref = [grp |-> S.ref.grp, has |-> TRUE, res |-> res, ex |-> ex]]
  ELSE IF S.ref.res # res THEN Bad(S, "result-depends-on-completion-order")
  ELSE IF S.ref.ex # ex THEN Bad(S, "executions-depend-on-completion-order")
  ELSE [S EXCEPT !.st = "ended"]

OnResult(S, e) == LET g == S.g  anc == DepOf(g, END) IN
  IF S.failed \cap anc # {} THEN Bad(S, "result-although-a-feeding-node-failed")
  ELSE IF (S.redo \cup S.aborted) \cap anc # {} THEN Bad(S, "result-without-rerun-of-interrupted-node")
  ELSE IF \E p \in anc : p \notin S.done THEN Bad(S, "return-before-end-feeders-finished")
  ELSE IF IsBatch(g) /\ Running(S) # {} THEN Bad(S, "return-while-step-node-running")
  ELSE Compare(S, "ok:" \o e.v, {x \in S.execs : x[1] \in anc})              \* all calls of the case: interrupted + resumed

OnError(S, e) == LET g == S.g IN
  IF e.class = "hang" THEN Bad(S, "run-hangs")
  ELSE IF e.class = "escaped-panic" THEN Bad(S, "panic-escaped-the-run")
  ELSE IF e.class = "stuck" THEN Bad(S, "run-stuck-a-completion-was-lost")        \* nothing running, nothing to start, END not reached
  ELSE IF e.class \notin {"node", "panic"} THEN Bad(S, "unexpected-error")
  ELSE IF e.node \notin S.failed \/ FailKindOf(g, e.node) # (IF e.class = "node" THEN "err" ELSE "panic") THEN Bad(S, "error-names-a-node-that-did-not-fail")
  ELSE IF IsBatch(g) /\ Running(S) # {} THEN Bad(S, "return-while-step-node-running")
  ELSE Compare(S, IF Len(g.fail) = 1 THEN "fail:" \o e.node ELSE "fail", {})

Apply(S, e) ==
  IF e.ev = "case" THEN OnCase(S, e)
  ELSE IF S.st = "interrupted" THEN (IF e.ev = "resume" THEN OnResume(S, e) ELSE S)
  ELSE IF S.st # "run" THEN S                        \* rest of a rejected run; late events after the return
  ELSE IF e.ev = "builderror" THEN [S EXCEPT !.st = "ended", !.bad = "NOTE:builderror"]
  ELSE IF e.ev = "exec" THEN OnExec(S, e)
  ELSE IF e.ev = "done" THEN OnDone(S, e)
  ELSE IF e.ev = "failed" THEN OnFailed(S, e)
  ELSE IF e.ev = "abort" THEN OnAbort(S, e)
  ELSE IF e.ev = "interrupt" THEN OnInterrupt(S, e)
  ELSE IF e.ev = "gate" THEN OnGate(S, e)
  ELSE IF e.ev = "result" THEN OnResult(S, e)
  ELSE IF e.ev = "error" THEN OnError(S, e)
  ELSE Bad(S, "unknown-observation")
================================================================================
