------------------------------- MODULE OptRule -------------------------------
(***************************************************************************)
(* Property-level rule of C16 ("call options reach exactly the nodes they  *)
(* address") as a pure function Apply(S, e) over observation lines.  The   *)
(* same operator judges the implementation-shaped model Options.tla and    *)
(* the records of real runs (OptObs.tla).                                  *)
(*                                                                         *)
(* Options are built by a PROGRAM, the way user code builds them:          *)
(*    stmt i = [op |-> "new", typ, id, n]     (n = number of values in the bundle)                                              *)
(*    stmt i = [op |-> "new", typ, id]        v_i := WithLambdaOption(typ{id}) | WithCallbacks(handler id)   (typ = "cb")       *)
(*    stmt i = [op |-> "des", from, paths]    v_i := v_from.DesignateNodeWithPath(paths...)                                     *)
(* and a call passes the values of some variables.  The rule reads the     *)
(* program with VALUE semantics (an Option is a value; deriving a new one  *)
(* never changes the one it was derived from):                             *)
(*    Paths(v_i) = Paths(v_from) \o paths                                  *)
(* A leaf node n of option type T at path q receives the payload of call   *)
(* option o once                                                           *)
(*    if o is undesignated and typ(o) = T                  (any depth),    *)
(*    and once per path p of o with  p = q,  or  p = path of a graph node  *)
(*    that contains n and typ(o) = T   (an option designated to a graph    *)
(*    node is an undesignated option of that sub-graph);                   *)
(* nothing else.  The call is an error iff some path of some option is     *)
(* empty, names no node, continues below a non-graph node, or designates   *)
(* exactly a leaf whose option type differs (callback options have no      *)
(* type).  A callback option fires for a node it designates (must), may    *)
(* fire for the nodes inside a designated graph node, and an undesignated  *)
(* one fires everywhere; never anywhere else.  A node of call k sees only  *)
(* call k's options.                                                       *)
(*                                                                         *)
(* Lines:  case  id, units: <<[u, path, graph, parent, ot]>>, prog, calls  *)
(*         node  call, u, got: <<payload ids>>, cbs: <<handler ids>>       *)
(*                intr, intrafter  (interrupted run + resuming call)       *)
(*         ret   call, err          done          note (ignored)           *)
(***************************************************************************)
EXTENDS Integers, Sequences, FiniteSets, TLC, Json

Range(s) == {s[i] : i \in 1..Len(s)}
Max2(a, b) == IF a > b THEN a ELSE b
IsPrefix(p, q) == Len(p) <= Len(q) /\ \A i \in 1..Len(p) : p[i] = q[i]
StrictPrefix(p, q) == Len(p) < Len(q) /\ IsPrefix(p, q)
Count(s, x) == Cardinality({i \in 1..Len(s) : s[i] = x})

\* ------------------------------------------------------------------ value semantics of the program
RECURSIVE SemPaths(_, _)
SemPaths(prog, i) == IF prog[i].op = "new" THEN <<>> ELSE SemPaths(prog, prog[i].from) \o prog[i].paths
RECURSIVE Root(_, _)
Root(prog, i) == IF prog[i].op = "new" THEN i ELSE Root(prog, prog[i].from)
\* an option carries a BUNDLE of n values (WithLambdaOption(v1, v2, v3)): the values of option "o1" are "o1", "o1.2", "o1.3"
Val(id, j) == IF j = 1 THEN id ELSE id \o "." \o ToString(j)
SemOpt(prog, i) == [typ |-> prog[Root(prog, i)].typ, id |-> prog[Root(prog, i)].id, n |-> prog[Root(prog, i)].n, paths |-> SemPaths(prog, i)]

\* ------------------------------------------------------------------ Delivered / error, per the statement
Units(c) == Range(c.units)
HasAt(c, p) == \E u \in Units(c) : u.path = p
At(c, p) == CHOOSE u \in Units(c) : u.path = p
Prefixes(p) == {SubSeq(p, 1, k) : k \in 1..(Len(p) - 1)}
PathBad(c, o, p) ==
  \/ Len(p) = 0
  \/ ~HasAt(c, p)                                          \* unknown node, or below a non-graph node
  \/ \E q \in Prefixes(p) : HasAt(c, q) /\ ~At(c, q).graph
  \/ (HasAt(c, p) /\ ~At(c, p).graph /\ o.typ # "cb" /\ At(c, p).ot # o.typ)
OptBad(c, o) == \E i \in 1..Len(o.paths) : PathBad(c, o, o.paths[i])
\* how many times leaf n receives the payload of o
Times(c, o, n) ==
  IF o.typ = "cb" THEN 0
  ELSE IF Len(o.paths) = 0 THEN (IF o.typ = n.ot THEN 1 ELSE 0)
  ELSE Cardinality({i \in 1..Len(o.paths) :
         \/ o.paths[i] = n.path
         \/ (StrictPrefix(o.paths[i], n.path) /\ HasAt(c, o.paths[i]) /\ At(c, o.paths[i]).graph /\ o.typ = n.ot)})
MustFire(o, n) == o.typ = "cb" /\ (Len(o.paths) = 0 \/ \E i \in 1..Len(o.paths) : o.paths[i] = n.path)
MayFire(o, n) == o.typ = "cb" /\ (Len(o.paths) = 0 \/ \E i \in 1..Len(o.paths) : IsPrefix(o.paths[i], n.path))

CallOpts(c, k) == [j \in 1..Len(c.calls[k]) |-> SemOpt(c.prog, c.calls[k][j])]
ExpErr(c, k) == \E j \in 1..Len(c.calls[k]) : OptBad(c, CallOpts(c, k)[j])
RECURSIVE SumTimes(_, _, _, _)
\* how often value v must arrive at leaf n: every delivery of an option brings its whole bundle
SumTimes(c, os, n, v) == IF os = <<>> THEN 0
                         ELSE (IF \E j \in 1..Head(os).n : Val(Head(os).id, j) = v THEN Times(c, Head(os), n) ELSE 0) + SumTimes(c, Tail(os), n, v)
AllIds(c) == UNION {{Val(c.prog[i].id, j) : j \in 1..c.prog[i].n} : i \in {j \in 1..Len(c.prog) : c.prog[j].op = "new"}}
\* ... in order: a non-first value of a bundle directly follows its predecessor
BundleOrderOK(c, got) ==
  \A i \in 1..Len(got) : \A k \in {x \in 1..Len(c.prog) : c.prog[x].op = "new"} : \A j \in 2..c.prog[k].n :
     got[i] = Val(c.prog[k].id, j) => (i > 1 /\ got[i - 1] = Val(c.prog[k].id, j - 1))

\* ------------------------------------------------------------------ the rule
Idle == [id |-> "", c |-> [units |-> <<>>, prog |-> <<>>, calls |-> <<>>, intr |-> "", intrafter |-> FALSE], bad |-> "", seen |-> {}, ret |-> <<>>]
Bad(S, r) == [S EXCEPT !.bad = r]

Node(S, e) ==
  LET c == S.c IN
  IF e.call \notin 1..Len(c.calls) THEN Bad(S, "node-line-of-unknown-call")
  ELSE IF ~\E u \in Units(c) : u.u = e.u /\ ~u.graph THEN Bad(S, "node-line-of-unknown-unit")
  ELSE LET n == CHOOSE u \in Units(c) : u.u = e.u
           os == CallOpts(c, e.call)
           ids == AllIds(c) \cup Range(e.got) \cup Range(e.cbs)
       IN IF <<e.call, e.u>> \in S.seen THEN Bad(S, "node-ran-twice")
          ELSE IF \E id \in Range(e.got) : id \notin UNION {{Val(os[j].id, x) : x \in 1..os[j].n} : j \in {x \in 1..Len(os) : os[x].typ # "cb"}}
               THEN Bad(S, "node-received-an-option-of-another-call-or-unknown")
          ELSE IF \E id \in ids : Count(e.got, id) > SumTimes(c, os, n, id) THEN Bad(S, "option-reached-a-node-it-does-not-address")
          ELSE IF \E id \in ids : Count(e.got, id) < SumTimes(c, os, n, id) THEN Bad(S, "option-did-not-reach-an-addressed-node")
          ELSE IF ~BundleOrderOK(c, e.got) THEN Bad(S, "option-bundle-not-delivered-whole-and-in-order")
          ELSE IF \E h \in Range(e.cbs) : ~\E j \in 1..Len(os) : os[j].id = h /\ MayFire(os[j], n)
               THEN Bad(S, "callback-fired-for-a-node-it-does-not-address")
          ELSE IF \E j \in 1..Len(os) : MustFire(os[j], n) /\ os[j].id \notin Range(e.cbs)
               THEN Bad(S, "designated-callback-did-not-fire")
          ELSE [S EXCEPT !.seen = @ \cup {<<e.call, e.u>>}]

\* Interrupted run + resuming call (c.intr = the leaf with the interrupt-before / -after mark; calls = <<first call, resuming call>>):
\* the leaves in front of the mark execute in call 1, which returns the interrupt; the others execute in call 2; every one of them
\* receives exactly the options of the call in which it executes (Node, above, is already per call).
LeafOrder(c) == SelectSeq(c.units, LAMBDA u : ~u.graph)
FirstResumed(c) == LET ls == LeafOrder(c) i == CHOOSE j \in 1..Len(ls) : ls[j].u = c.intr IN IF c.intrafter THEN i + 1 ELSE i
FinalIntr(S) ==
  LET c == S.c ls == LeafOrder(c) f == FirstResumed(c) IN
  IF Len(c.calls) # 2 \/ 1 \notin DOMAIN S.ret \/ 2 \notin DOMAIN S.ret THEN "no-return-observed"
  ELSE IF ~S.ret[1] THEN "interrupt-not-reported"
  ELSE IF S.ret[2] THEN "resuming-call-failed"
  ELSE IF \E i \in 1..Len(ls) : (i < f) # (<<1, ls[i].u>> \in S.seen) \/ (i >= f) # (<<2, ls[i].u>> \in S.seen)
       THEN "node-executed-in-the-wrong-call-or-not-at-all"
  ELSE ""
Final(S) ==
  LET c == S.c IN
  IF c.intr # "" THEN FinalIntr(S)
  ELSE IF \E k \in 1..Len(c.calls) : k \notin DOMAIN S.ret THEN "no-return-observed"
  ELSE IF \E k \in 1..Len(c.calls) : ExpErr(c, k) /\ ~S.ret[k] THEN "invalid-designation-not-reported-as-error"
  ELSE IF \E k \in 1..Len(c.calls) : ~ExpErr(c, k) /\ S.ret[k] THEN "error-without-invalid-designation"
  ELSE IF \E k \in 1..Len(c.calls), u \in Units(c) : ~ExpErr(c, k) /\ ~u.graph /\ <<k, u.u>> \notin S.seen THEN "node-did-not-run"
  ELSE ""

Apply(S, e) ==
  IF e.ev = "case" THEN [Idle EXCEPT !.id = e.id, !.c = e]
  ELSE IF S.bad # "" \/ e.ev = "note" THEN S
  ELSE IF e.ev = "node" THEN Node(S, e)
  ELSE IF e.ev = "ret" THEN [S EXCEPT !.ret = @ @@ (e.call :> e.err)]
  ELSE IF e.ev = "done" THEN Bad(S, Final(S))
  ELSE Bad(S, "unknown-line")

RECURSIVE ApplyAll(_, _)
ApplyAll(S, es) == IF es = <<>> THEN S ELSE ApplyAll(Apply(S, Head(es)), Tail(es))
================================================================================
