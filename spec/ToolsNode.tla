------------------------------- MODULE ToolsNode -------------------------------
(***************************************************************************)
(* Implementation-shaped model of compose.ToolsNode.Invoke / Stream        *)
(* (compose/tool_node.go:173-352) together with the scenario generator of  *)
(* C17.                                                                    *)
(*                                                                         *)
(* Setup phase (canonical growth, nothing big in Init):                    *)
(*   calls (1..MaxCalls tool calls over the pool ta,tb,tc used in first-   *)
(*   occurrence order, or the unknown name zz), then per used tool its     *)
(*   kind (invokable-only / streamable-only / both), behaviour (ok / fail  *)
(*   / panic / failmid = error item in the middle of its stream) and       *)
(*   number of chunks, then the unknown-tool handler (none / ok / fail).   *)
(*   A decoy tool t0 is always registered first, so that tool indexes and  *)
(*   call indexes differ.                                                  *)
(* Run phase, one action per step of the code:                             *)
(*   GenTasks   genToolCallTasks: unknown name without handler => error    *)
(*   Spawn      the `go func` loop for tasks 2..N (tool_node.go:254-266)   *)
(*   Step(i)    the next step of tool call i: return of the run function   *)
(*              (value / error / panic / stream) and, for a streaming      *)
(*              tool, one step per chunk.  Task 1 runs inline on the       *)
(*              caller (no recover), tasks 2..N in goroutines with recover.*)
(*              runnablePacker fallbacks: an invokable-only tool in Stream *)
(*              is streamByInvoke (one array chunk), a streamable-only     *)
(*              tool in Invoke is invokeByStream (reads its own stream to  *)
(*              EOF inside the task).                                      *)
(*   InlineDone / WaitDone   wg.Wait()                                     *)
(*   Assemble   the index loop: first task with err => error, else the     *)
(*              list (Invoke) or N converted streams merged (Stream)       *)
(*   Recv       the caller reads the merged stream: any source that has an *)
(*              element is chosen (MergeStreamReaders); each element is a  *)
(*              sparse list with one filled position                       *)
(*   Finish     EOF of the merged stream; the result is the position-wise  *)
(*              concatenation (schema/message.go:44-80)                    *)
(* Every observable step is fed to ToolsRule!Apply; the invariant RuleOK   *)
(* says that no behaviour (= no completion order) is rejected by the       *)
(* property-level rule.  `sched` records the order of the gated tool steps *)
(* and is what the Go harness forces on the real ToolsNode.                *)
(*                                                                         *)
(* Bug # "none" seeds a defect into the model (sensitivity of the rule):   *)
(*   "reverse"   output[i] built from tasks[n-1-i]                         *)
(*   "sharedidx" the stream convert closure uses the shared loop variable  *)
(*   "donebeforeerr" a panicking worker goroutine calls wg.Done() before   *)
(*               its recover handler has stored the error                  *)
(*   "erriseof"  invokeByStream's concat ends on errors.Is(err, io.EOF)    *)
(*   "cancelonreturn" per-call context cancelled when the run function     *)
(*               returns                                                   *)
(*   "dropempty" the stream convert function skips empty frames            *)
(*   "concatinplace" the concatenation of message lists writes its result  *)
(*               into the first frame instead of a fresh list              *)
(*   "noinlinewait" the result is assembled without waiting for the        *)
(*               goroutines (wg.Wait dropped)                              *)
(***************************************************************************)
EXTENDS ToolsRule

CONSTANTS MaxCalls,     \* 1..4
          MaxTools,     \* 1..3 distinct known tools
          Modes,        \* subset of {"invoke", "stream"}
          Graphs,       \* subset of BOOLEAN: inside a graph?
          Handlers,     \* subset of {"none", "ok", "fail"} used when an unknown name is called
          Kinds,        \* subset of {"inv", "str", "both"}
          Behs,         \* subset of {"ok", "empty", "fail", "panic", "failmid"}
          MaxChunks,    \* 1..2
          AllowUnknown, \* BOOLEAN
          MaxFaulty,    \* at most this many tools with beh # ok
          Consumers,    \* 1 | 2: how many consumers concatenate the streamed output (2: a branch condition / callback handler / second
                        \* successor gets a copy of the stream; copies share the frames)
          Eager,        \* TRUE: generation mode (no gratuitous interleavings of ungated steps)
          Bug

Pool == <<"ta", "tb", "tc">>
Unknown == "zz"
Ids == <<"k1", "k2", "k3", "k4">>
Args == <<"a1", "a2", "a3", "a4">>
Decoy == [name |-> "t0", kind |-> "inv", beh |-> "ok", chunks |-> 1]

VARIABLES pc, sc, spawned, ts, S, sched, frames      \* frames: the elements of the output stream received so far, <<[i, c]>>
vars == <<pc, sc, spawned, ts, S, sched, frames>>

N == Len(sc.calls)
PoolIdx(nm) == CHOOSE j \in 1..3 : Pool[j] = nm
UsedCount == Cardinality({sc.calls[i].name : i \in 1..N} \ {Unknown})
HasUnknown == \E i \in 1..N : sc.calls[i].name = Unknown
NewTask == [step |-> 0, done |-> FALSE, err |-> "", output |-> "", avail |-> <<>>, eof |-> FALSE, seen |-> FALSE]

Init == /\ pc = "calls"
        /\ sc \in [mode : Modes, graph : Graphs, handler : {"none"}, calls : {<<>>}, tools : {<<Decoy>>}]
        /\ spawned = 0 /\ ts = <<>> /\ S = Idle /\ sched = <<>> /\ frames = <<>>

--------------------------------------------------------------------------------
(* setup *)
AddCall(nm) ==
  /\ pc = "calls" /\ N < MaxCalls
  /\ \/ nm = Unknown /\ AllowUnknown
     \/ \E j \in 1..3 : nm = Pool[j] /\ j <= MaxTools /\ j <= UsedCount + 1
  /\ sc' = [sc EXCEPT !.calls = Append(@, [id |-> Ids[N + 1], name |-> nm, args |-> Args[N + 1]])]
  /\ UNCHANGED <<pc, spawned, ts, S, sched, frames>>

ToTools == /\ pc = "calls" /\ N >= 1 /\ pc' = "tools" /\ UNCHANGED <<sc, spawned, ts, S, sched, frames>>

Faulty == Cardinality({j \in 1..Len(sc.tools) : sc.tools[j].beh \notin {"ok", "empty"}})
\* attributes that cannot matter are fixed: chunks only for a tool that streams in this mode, failmid likewise
Streams(kind) == IF sc.mode = "invoke" THEN kind = "str" ELSE kind \in {"str", "both"}
AddTool(k, b, ch) ==
  /\ pc = "tools" /\ Len(sc.tools) - 1 < UsedCount
  /\ k \in Kinds /\ b \in Behs /\ ch \in 1..MaxChunks
  /\ (b \notin {"ok", "empty"} => Faulty < MaxFaulty)
  /\ (~Streams(k) => ch = 1 /\ b # "failmid")
  /\ (b \in {"fail", "panic"} => ch = 1)
  /\ (b = "failmid" => ch = MaxChunks)
  /\ sc' = [sc EXCEPT !.tools = Append(@, [name |-> Pool[Len(sc.tools)], kind |-> k, beh |-> b, chunks |-> ch])]
  /\ UNCHANGED <<pc, spawned, ts, S, sched, frames>>

CaseEv == [ev |-> "case", id |-> "model", mode |-> sc.mode, graph |-> sc.graph, handler |-> sc.handler, calls |-> sc.calls, tools |-> sc.tools]
Start(h) ==
  /\ pc = "tools" /\ Len(sc.tools) - 1 = UsedCount
  /\ IF HasUnknown THEN h \in Handlers ELSE h = "none"
  /\ sc' = [sc EXCEPT !.handler = h]
  /\ pc' = "gen"
  /\ ts' = [i \in 1..N |-> NewTask]
  /\ S' = Apply(Idle, [ev |-> "case", id |-> "model", mode |-> sc.mode, graph |-> sc.graph, handler |-> h, calls |-> sc.calls, tools |-> sc.tools])
  /\ UNCHANGED <<spawned, sched, frames>>

--------------------------------------------------------------------------------
(* the tools as the harness implements them *)
IsUnknown(i) == sc.calls[i].name = Unknown
ToolOf(i) == CHOOSE t \in Range(sc.tools) : t.name = sc.calls[i].name
Form(i) == IF IsUnknown(i) THEN "i"
           ELSE IF sc.mode = "invoke" THEN (IF ToolOf(i).kind = "str" THEN "s" ELSE "i")
           ELSE (IF ToolOf(i).kind = "inv" THEN "i" ELSE "s")
\* beh "empty": the tool works, its whole output is the empty string (a streaming tool emits only "" frames)
Empty(i) == ~IsUnknown(i) /\ ToolOf(i).beh = "empty"
Beh(i) == IF IsUnknown(i) THEN (IF sc.handler = "fail" THEN "fail" ELSE "ok")
          ELSE IF Form(i) = "i" /\ ToolOf(i).beh = "failmid" THEN "fail"
          ELSE IF ToolOf(i).beh = "empty" THEN "ok" ELSE ToolOf(i).beh
NChunks(i) == IF Form(i) = "s" THEN ToolOf(i).chunks ELSE 1
ChunkSeq(i) == LET nm == sc.calls[i].name
                   ar == sc.calls[i].args IN
               IF Empty(i) THEN [k \in 1..NChunks(i) |-> ""]
               ELSE IF NChunks(i) = 1 THEN <<nm \o "(" \o ar \o ")">> ELSE <<nm \o "(", ar \o ")">>
FullOut(i) == IF Empty(i) THEN "" ELSE sc.calls[i].name \o "(" \o sc.calls[i].args \o ")"
NSteps(i) == IF Form(i) = "i" \/ Beh(i) \in {"fail", "panic"} THEN 1
             ELSE IF Beh(i) = "failmid" THEN 3 ELSE 1 + NChunks(i)
TEnd(i, res, out) == [ev |-> "tend", name |-> sc.calls[i].name, args |-> sc.calls[i].args, h |-> IsUnknown(i), res |-> res, out |-> out]
ErrOf(i) == <<[name |-> sc.calls[i].name, args |-> sc.calls[i].args]>>
EndEv == [ev |-> "end"]
Finish2(S0, e) == Apply(Apply(S0, e), EndEv)

--------------------------------------------------------------------------------
(* run *)
GenTasks ==
  /\ pc = "gen"
  /\ IF Unhandled(S.c)
     THEN /\ S' = Finish2(S, [ev |-> "error", as |-> TRUE, errs |-> <<>>, panic |-> FALSE]) /\ pc' = "done" /\ UNCHANGED spawned
     ELSE /\ pc' = (IF N = 1 THEN "inline" ELSE "spawn") /\ spawned' = 1 /\ UNCHANGED S
  /\ UNCHANGED <<sc, ts, sched, frames>>

Spawn == /\ pc = "spawn"
         /\ spawned' = spawned + 1
         /\ pc' = (IF spawned + 1 = N THEN "inline" ELSE "spawn")
         /\ UNCHANGED <<sc, ts, S, sched, frames>>

Running == pc \in {"spawn", "inline", "wait"}
CanRun(i) == IF i = 1 THEN pc = "inline" ELSE (Running /\ i <= spawned /\ (Eager => pc \in {"inline", "wait"}))
NoPending == \A j \in 1..N : ts[j].avail = <<>>

\* first step: the run function of the tool returns
Ret(i) ==
  /\ pc # "done" /\ Len(ts) = N /\ CanRun(i) /\ ts[i].step = 0
  /\ sched' = Append(sched, i)
  /\ LET b == Beh(i) f == Form(i) IN
     CASE b = "panic" ->
            IF i = 1
            THEN \* inline task: no recover in parallelRunToolCall; a graph run recovers and fails, otherwise the caller sees it
                 /\ S' = Finish2(Apply(S, TEnd(i, "panic", "")),
                                 IF sc.graph THEN [ev |-> "error", as |-> TRUE, errs |-> <<>>, panic |-> TRUE] ELSE [ev |-> "escaped"])
                 /\ pc' = "done" /\ UNCHANGED ts
            ELSE /\ S' = Apply(S, TEnd(i, "panic", ""))
                 \* worker goroutine: recover() stores the error, then wg.Done(); "donebeforeerr": Done first, the error later (StoreErr)
                 /\ ts' = [ts EXCEPT ![i].step = 1, ![i].done = TRUE, ![i].err = (IF Bug = "donebeforeerr" THEN "" ELSE "panic")] /\ UNCHANGED pc
       [] b = "fail" ->
            /\ S' = Apply(S, TEnd(i, "err", ""))
            /\ ts' = [ts EXCEPT ![i].step = 1, ![i].done = TRUE, ![i].err = "err"] /\ UNCHANGED pc
       [] b \in {"ok", "failmid"} /\ f = "i" ->
            /\ S' = Apply(S, TEnd(i, "ok", FullOut(i)))
            /\ ts' = [ts EXCEPT ![i].step = 1, ![i].done = TRUE, ![i].output = FullOut(i)] /\ UNCHANGED pc
       [] b \in {"ok", "failmid"} /\ f = "s" ->
            /\ S' = Apply(S, TEnd(i, IF b = "ok" THEN "ok" ELSE "errmid", IF b = "ok" THEN FullOut(i) ELSE ""))
            \* Stream: the task is complete when the reader is returned; Invoke (invokeByStream): it goes on reading
            /\ ts' = [ts EXCEPT ![i].step = 1, ![i].done = (sc.mode = "stream")] /\ UNCHANGED pc
  /\ UNCHANGED <<sc, spawned, frames>>

\* later steps of a streaming tool: its producer sends chunk k (the last one also closes), or the error item
\* "cancelonreturn": the per-call context is cancelled when the run function returns, so in the Stream form the producer of a
\* streaming tool (it looks at its context between chunks) gives up with the context's error
Item(i, k) == IF Beh(i) = "failmid" /\ k = 2 THEN "ERR"
              ELSE IF Bug = "cancelonreturn" /\ sc.mode = "stream" THEN "ERR" ELSE ChunkSeq(i)[k]
Send(i) ==
  /\ pc # "done" /\ Len(ts) = N /\ Form(i) = "s" /\ ts[i].step >= 1 /\ ts[i].step < NSteps(i)
  /\ sched' = Append(sched, i)
  /\ LET k == ts[i].step
         last == k + 1 = NSteps(i) IN
     IF sc.mode = "invoke"
     THEN \* invokeByStream inside the task: concat reads the item at once
          /\ Running
          \* "erriseof": concat takes an error item whose chain contains io.EOF for the end of the stream: the task ends with what it has
          /\ ts' = IF Item(i, k) = "ERR" THEN [ts EXCEPT ![i].step = k + 1, ![i].done = TRUE, ![i].err = (IF Bug = "erriseof" THEN "" ELSE "err")]
                   ELSE [ts EXCEPT ![i].step = k + 1, ![i].output = @ \o Item(i, k), ![i].done = last]
     ELSE /\ pc = "consume" /\ (Eager => NoPending)
          /\ ts' = [ts EXCEPT ![i].step = k + 1, ![i].avail = Append(@, Item(i, k)), ![i].eof = last]
  /\ UNCHANGED <<pc, sc, spawned, S, frames>>

StoreErr(i) == /\ Bug = "donebeforeerr" /\ i > 1 /\ Len(ts) = N /\ Beh(i) = "panic" /\ ts[i].done /\ ts[i].err = "" /\ pc \in {"inline", "wait", "asm"}
               /\ ts' = [ts EXCEPT ![i].err = "panic"]
               /\ UNCHANGED <<pc, sc, spawned, S, sched, frames>>

InlineDone == /\ pc = "inline" /\ ts[1].done
              /\ pc' = (IF N = 1 \/ Bug = "noinlinewait" THEN "asm" ELSE "wait")
              /\ UNCHANGED <<sc, spawned, ts, S, sched, frames>>
WaitDone == /\ pc = "wait" /\ \A i \in 2..N : ts[i].done
            /\ pc' = "asm" /\ UNCHANGED <<sc, spawned, ts, S, sched, frames>>

Src(i) == IF Bug = "reverse" THEN N + 1 - i ELSE i
ErrEv(i) == [ev |-> "error", as |-> TRUE, errs |-> (IF ts[i].err = "err" THEN ErrOf(i) ELSE <<>>), panic |-> (ts[i].err = "panic")]
Assemble ==
  /\ pc = "asm"
  /\ LET bad == {i \in 1..N : ts[i].err # ""} IN
     IF bad # {}
     THEN LET first == CHOOSE i \in bad : \A j \in bad : i <= j IN
          /\ S' = Finish2(S, ErrEv(first)) /\ pc' = "done" /\ UNCHANGED ts
     ELSE IF sc.mode = "invoke"
     THEN /\ S' = Finish2(S, [ev |-> "result", out |-> [i \in 1..N |-> [id |-> sc.calls[Src(i)].id, role |-> "tool",
                                                                         content |-> ts[Src(i)].output, nil |-> FALSE]]])
          /\ pc' = "done" /\ UNCHANGED ts
     ELSE \* Stream: tasks whose packer is streamByInvoke hold a one-element array reader
          /\ ts' = [i \in 1..N |-> IF Form(i) = "i" THEN [ts[i] EXCEPT !.avail = <<ts[i].output>>, !.eof = TRUE] ELSE ts[i]]
          /\ pc' = "consume" /\ UNCHANGED S
  /\ UNCHANGED <<sc, spawned, sched, frames>>

Recv(i) ==
  /\ pc = "consume" /\ ts[i].avail # <<>>
  /\ LET it == Head(ts[i].avail) IN
     IF it = "ERR"
     THEN /\ S' = Finish2(S, [ev |-> "error", as |-> TRUE, errs |-> ErrOf(i), panic |-> FALSE]) /\ pc' = "done" /\ UNCHANGED <<ts, frames>>
     ELSE IF Bug = "sharedidx"
     THEN \* ret[n] with the shared loop variable: index out of range, recovered into an error item of the stream
          /\ S' = Finish2(S, [ev |-> "error", as |-> TRUE, errs |-> <<>>, panic |-> TRUE]) /\ pc' = "done" /\ UNCHANGED <<ts, frames>>
     ELSE IF Bug = "dropempty" /\ it = ""
     THEN \* the convert function answers ErrNoValue for an empty frame: the frame is skipped
          /\ ts' = [ts EXCEPT ![i].avail = Tail(@)] /\ UNCHANGED <<S, pc, frames>>
     ELSE /\ S' = Apply(S, [ev |-> "chunk", n |-> N, items |-> <<[i |-> i, id |-> sc.calls[i].id, role |-> "tool", content |-> it]>>])
          /\ ts' = [ts EXCEPT ![i].avail = Tail(@), ![i].output = (IF Form(i) = "s" THEN @ \o it ELSE @), ![i].seen = TRUE]
          /\ frames' = Append(frames, [i |-> i, c |-> it])
          /\ UNCHANGED pc
  /\ UNCHANGED <<sc, spawned, sched>>

\* EOF of the merged stream; the library concatenation is position-wise (schema/message.go:44-80): the first consumer's result
\* is what the model accumulated in .output.  A second consumer concatenates its own copy of the stream, which shares the frames:
\* with Bug = "concatinplace" the first concatenation wrote its result into the first frame (ret := mas[0]).
ConcatOf(fs, p) == LET RECURSIVE F(_) F(k) == IF k > Len(fs) THEN "" ELSE (IF fs[k].i = p THEN fs[k].c ELSE "") \o F(k + 1) IN F(1)
Second(p) == IF Bug = "concatinplace" /\ Len(frames) >= 2
             THEN ts[p].output \o ConcatOf(Tail(frames), p)       \* frame 1 already holds the first result at every position
             ELSE ConcatOf(frames, p)
SeenBy(p) == \E k \in 1..Len(frames) : frames[k].i = p
Finish ==
  /\ pc = "consume" /\ \A i \in 1..N : ts[i].eof /\ ts[i].avail = <<>>
  /\ LET res == [ev |-> "result", out |-> [i \in 1..N |-> IF ts[i].seen THEN [id |-> sc.calls[i].id, role |-> "tool", content |-> ts[i].output, nil |-> FALSE]
                                                          ELSE [id |-> "", role |-> "", content |-> "", nil |-> TRUE]]]
         sn == [ev |-> "seen", who |-> "second", out |-> [i \in 1..N |-> IF SeenBy(i) THEN [id |-> sc.calls[i].id, role |-> "tool", content |-> Second(i), nil |-> FALSE]
                                                                          ELSE [id |-> "", role |-> "", content |-> "", nil |-> TRUE]]] IN
       S' = IF Consumers = 2 THEN Finish2(Apply(S, sn), res) ELSE Finish2(S, res)
  /\ pc' = "done"
  /\ UNCHANGED <<sc, spawned, ts, sched, frames>>

\* terminal stuttering step (absent in generation mode, so that a simulated behaviour ends, and prints its CASE, once)
Done == pc = "done" /\ ~Eager /\ UNCHANGED vars

Next == \/ \E nm \in {Unknown} \cup Range(Pool) : AddCall(nm)
        \/ ToTools
        \/ \E k \in Kinds, b \in Behs, ch \in 1..MaxChunks : AddTool(k, b, ch)
        \/ \E h \in {"none"} \cup Handlers : Start(h)
        \/ GenTasks \/ Spawn
        \/ \E i \in 1..Len(ts) : Ret(i) \/ Send(i) \/ Recv(i) \/ StoreErr(i)
        \/ InlineDone \/ WaitDone \/ Assemble \/ Finish \/ Done
Spec == Init /\ [][Next]_vars /\ WF_vars(Next)

--------------------------------------------------------------------------------
(* what TLC checks *)
RuleOK == S.bad = ""                                   \* Impl => P for every completion order
Closed == pc = "done" => (S.term # "" /\ ~S.open)      \* every call ends with exactly one outcome
Terminates == <>(pc = "done")                          \* no completion order blocks the call

Scenario == [mode |-> sc.mode, graph |-> sc.graph, handler |-> sc.handler, calls |-> sc.calls, tools |-> sc.tools,
             sched |-> sched, term |-> S.term]
Emit == pc = "done" => PrintT(<<"CASE", ToJson(Scenario)>>)
================================================================================
