CONSTANTS
  Tasks = {t1, t2, t3, t4}
  Eager = FALSE
  MaxSubmits = 2
  MaxPerSubmit = 4
  MaxPanics = 1
  AllowWaitAll = FALSE
  Bug = "none"
SPECIFICATION Spec
SYMMETRY Sym
INVARIANT TypeOK
INVARIANT NoLoss
INVARIANT CollectedOnce
INVARIANT ChanCap
INVARIANT Mutex
INVARIANT NoStall
INVARIANT NumOK
INVARIANT WaitOK
INVARIANT SyncOK
INVARIANT PanicIsError
INVARIANT EndOK
