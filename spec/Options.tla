------------------------------- MODULE Options -------------------------------
(***************************************************************************)
(* Implementation-shaped model of eino's call-option plumbing (C16).       *)
(*                                                                         *)
(*   compose/graph_call_options.go:43-83   Option{options, handler, paths};*)
(*        DesignateNode / DesignateNodeWithPath:                           *)
(*             o.paths = append(o.paths, path...)      (o is a COPY of the *)
(*        receiver, but its paths header still points into the receiver's  *)
(*        backing array: defect D11); deepCopy for nested graphs           *)
(*   compose/utils.go:309-370              extractOption: per run, options *)
(*        distributed to the nodes of one graph level by type (undesignated)*)
(*        or by path; nested graphs get deep copies with the path shortened*)
(*   compose/utils.go:214-261              callback options: graph level = *)
(*        options without path, node level = options with a 1-element path *)
(*        equal to the node key; inherited through the context             *)
(*                                                                         *)
(* Option values are records whose `paths` is a Go slice header (arr, len, *)
(* cap) over a heap of arrays (GoSlice.tla, 8-byte elements), so that two  *)
(* options derived from one base can share a backing array.  TLC grows a   *)
(* program of option constructions statement by statement, then picks one  *)
(* or two calls (lists of option variables), routes them through the graph *)
(* tree exactly as extractOption / initNodeCallbacks do, and feeds what    *)
(* every node receives to OptRule!Apply, the rule that also judges the     *)
(* records of real runs (OptObs.tla).  The rule reads the program with     *)
(* value semantics; the model executes it with slice semantics.            *)
(*                                                                         *)
(* CopyFix = TRUE models the proposed repair (fixes/D11-designate-node).   *)
(***************************************************************************)
EXTENDS OptRule, GoSlice

CONSTANTS Tree,        \* "std" | "deep" | "par" (three leaves running in parallel in one super step) | "twosub" (two nested graphs whose
                       \* inner node has the SAME key)
          PU,          \* path universe: 0 tiny | 1 small | 2 full
          MaxStmts,    \* program length
          MaxNew,      \* number of "new" statements
          MaxPer,      \* paths per DesignateNode call (1..MaxPer)
          Window,      \* a "des" statement derives from one of the last Window variables
          Types,       \* option types of "new" statements, subset of {"T1","T2","T3","cb"}
          NCalls,      \* 1 | 2 calls
          MaxCallOpts, \* options per call
          CallWindow,  \* ... taken from the last CallWindow variables
          MinStmts,    \* calls are made once the program has MinStmts..MaxStmts statements
          MinCallOpts, \* a call passes MinCallOpts..MaxCallOpts options
          CallMode,    \* "subsets": any increasing list of variables (above) | "final": the one call that passes every option value
                       \* no later statement derives from (what user code does with the options it has built)
          SubKind,     \* what the nested graphs are built with: "graph" | "chain" | "workflow" (the harness builds them so)
          MaxBundle,   \* a "new" statement builds an option from 1..MaxBundle values in one WithLambdaOption call
          Modes,       \* call paradigms of a case, subset of {"invoke", "stream"}
          AllowKeyed,  \* TRUE: one node (leaf or nested graph, not the first of its graph) may be added with WithInputKey (its predecessor with
                       \* the matching WithOutputKey)
          DedupIgnoresHead, \* seeded variant of samePathBefore (the D28 repair): paths compared from index 1, the nested graph's key ignored
          FirstOnly,   \* seeded variant of extractOption: a designated component option reaches its node with opt.options[0] only
          KeyedStreamDrops, \* seeded variant of inputKeyedComposableRunnable: the stream-path wrapper calls the inner transform without opts
          AllowIntr,   \* TRUE: the case is "interrupted run + resuming call": the graph is compiled with a checkpoint store and ONE interrupt mark
                       \* (before / after a leaf, possibly inside a nested graph); call 1 runs up to the mark, call 2 (same checkpoint id,
                       \* its own options) resumes.  Needs NCalls = 2 and a path universe without invalid paths (PU = 3).
          RestoreDropsOpts, \* seeded variant of restoreTasks: tasks rebuilt from the checkpoint do not get the resuming call's options
          CopyFix,
          CbCopyFix,       \* TRUE = AppendHandlers as it stands (copies the inherited handler list); FALSE = seeded variant / old D4:
                           \* append(cbm.handlers, designated...) in place
          SubByComponent   \* seeded variant of extractOption: a node is taken for a nested graph iff its component is Graph
                           \* (as coded: iff it has no option type, which holds for nested Chains and Workflows too)

\* ------------------------------------------------------------------ the graph tree (a chain at every level)
\* gk = component of a graph unit (Graph | Chain | Workflow); the top graph is always a plain Graph
UU(id, path, graph, parent, ot) == [u |-> id, path |-> path, graph |-> graph, parent |-> parent, ot |-> ot,
                                    gk |-> IF ~graph THEN "" ELSE IF parent = "" THEN "graph" ELSE SubKind]
UnitSeq ==
  IF Tree = "twosub"
  THEN << UU("top", <<>>, TRUE, "", ""), UU("a", <<"a">>, FALSE, "top", "T1"), UU("sa", <<"sa">>, TRUE, "top", ""),
          UU("xa", <<"sa", "x">>, FALSE, "sa", "T1"), UU("sb", <<"sb">>, TRUE, "top", ""), UU("xb", <<"sb", "x">>, FALSE, "sb", "T2") >>
  ELSE IF Tree = "par"
  THEN << UU("top", <<>>, TRUE, "", ""), UU("p1", <<"p1">>, FALSE, "top", "T1"), UU("p2", <<"p2">>, FALSE, "top", "T2"),
          UU("p3", <<"p3">>, FALSE, "top", "T1") >>
  ELSE IF Tree = "std"
  THEN << UU("top", <<>>, TRUE, "", ""), UU("a", <<"a">>, FALSE, "top", "T1"), UU("b", <<"b">>, FALSE, "top", "T2"),
          UU("c", <<"c">>, FALSE, "top", "none"), UU("sub", <<"sub">>, TRUE, "top", ""),
          UU("s1", <<"sub", "s1">>, FALSE, "sub", "T1"), UU("s2", <<"sub", "s2">>, FALSE, "sub", "T2") >>
  ELSE << UU("top", <<>>, TRUE, "", ""), UU("a", <<"a">>, FALSE, "top", "T1"), UU("sub", <<"sub">>, TRUE, "top", ""),
          UU("s1", <<"sub", "s1">>, FALSE, "sub", "T2"), UU("in", <<"sub", "in">>, TRUE, "sub", ""),
          UU("t1", <<"sub", "in", "t1">>, FALSE, "in", "T1"), UU("t2", <<"sub", "in", "a">>, FALSE, "in", "T2") >>
UnitSet == Range(UnitSeq)
Kids(g) == SelectSeq(UnitSeq, LAMBDA u : u.parent = g)          \* in chain order
KeyOf(u) == u.path[Len(u.path)]
PathU ==
  IF PU = 3 THEN {u.path : u \in {x \in UnitSet : x.parent # ""}}            \* every node and nested graph, nothing invalid
  ELSE IF Tree = "twosub" THEN {<<"a">>, <<"sa">>, <<"sa", "x">>, <<"sb", "x">>}
  ELSE IF Tree = "par" THEN (IF PU <= 1 THEN {<<"p1">>, <<"p2">>} ELSE {<<"p1">>, <<"p2">>, <<"p3">>, <<"zz">>})
  ELSE IF Tree = "std"
  THEN (IF PU = 0 THEN {<<"a">>, <<"sub", "s1">>, <<"zz">>}
        ELSE IF PU = 1 THEN {<<"a">>, <<"sub">>, <<"sub", "s1">>, <<"zz">>}
        ELSE {<<"a">>, <<"b">>, <<"c">>, <<"sub">>, <<"sub", "s1">>, <<"sub", "s2">>, <<"zz">>, <<"sub", "zz">>, <<"a", "x">>, <<"sub", "s1", "x">>})
  ELSE (IF PU <= 1 THEN {<<"a">>, <<"sub", "in">>, <<"sub", "in", "t1">>, <<"sub", "in", "a">>}
        ELSE {<<"a">>, <<"sub">>, <<"sub", "s1">>, <<"sub", "in">>, <<"sub", "in", "t1">>, <<"sub", "in", "a">>, <<"sub", "a">>, <<"in">>, <<"sub", "in", "zz">>})
PathLists == UNION {{s \in [1..k -> PathU] : \A i, j \in 1..k : i # j => s[i] # s[j]} : k \in 1..MaxPer}

\* ------------------------------------------------------------------ state
VARIABLES phase, prog, vals, heap, na, calls, S, intr
vars == <<phase, prog, vals, heap, na, calls, S, intr>>
\* intr = [u, after]: interrupt before (after = FALSE) / after (TRUE) leaf u; u = "" none
NoIntr == [u |-> "", after |-> FALSE, mode |-> "invoke", keyed |-> ""]
Keyable == {UnitSeq[i].u : i \in {j \in 1..Len(UnitSeq) : UnitSeq[j].parent # "" /\ Tree # "par"
                                                          /\ \E k \in 1..(j - 1) : UnitSeq[k].parent = UnitSeq[j].parent}}
LeafSeq == SelectSeq(UnitSeq, LAMBDA u : ~u.graph)                 \* = execution order (every level is a chain)
LeafIdx(id) == CHOOSE i \in 1..Len(LeafSeq) : LeafSeq[i].u = id
LastOfItsGraph(id) == ~\E j \in 1..Len(UnitSeq) : UnitSeq[j].parent = (CHOOSE x \in UnitSet : x.u = id).parent
                                                    /\ j > (CHOOSE i \in 1..Len(UnitSeq) : UnitSeq[i].u = id)
IntrMarks == IF ~AllowIntr THEN {[u |-> "", after |-> FALSE]}
             ELSE {[u |-> LeafSeq[i].u, after |-> FALSE] : i \in 1..Len(LeafSeq)}
                  \cup {[u |-> LeafSeq[i].u, after |-> TRUE] : i \in {j \in 1..Len(LeafSeq) : ~LastOfItsGraph(LeafSeq[j].u)}}
IntrChoices == {[u |-> m.u, after |-> m.after, mode |-> md, keyed |-> k] :
                  m \in IntrMarks, md \in Modes, k \in {""} \cup (IF AllowKeyed THEN Keyable ELSE {})}
\* first leaf that executes in the resuming call
FirstRes == IF intr.after THEN LeafIdx(intr.u) + 1 ELSE LeafIdx(intr.u)
ExecIn(k, id) == intr.u = "" \/ (IF k = 1 THEN LeafIdx(id) < FirstRes ELSE LeafIdx(id) >= FirstRes)
\* the tasks restoreTasks rebuilds in call 2, at every level: the unit on the way to the first resumed leaf
Restored(k, u) == intr.u # "" /\ k = 2 /\ IsPrefix(u.path, LeafSeq[FirstRes].path)
\* vals[i] = [typ, id, s]  the Go value of variable i (s = paths slice header)

Init == phase = "prog" /\ prog = <<>> /\ vals = <<>> /\ heap = EmptyHeap /\ na = 1 /\ calls = <<>> /\ S = Idle /\ intr = NoIntr

NNew == Cardinality({i \in 1..Len(prog) : prog[i].op = "new"})
AddNew(t) ==
  /\ phase = "prog" /\ Len(prog) < MaxStmts /\ NNew < MaxNew
  /\ \E n \in 1..(IF t = "cb" THEN 1 ELSE MaxBundle) :
     LET id == "o" \o ToString(NNew + 1) IN
       /\ prog' = Append(prog, [op |-> "new", typ |-> t, id |-> id, n |-> n])
       /\ vals' = Append(vals, [typ |-> t, id |-> id, n |-> n, s |-> NilSlice])        \* make([]*NodePath, 0) / nil
  /\ UNCHANGED <<phase, heap, na, calls, S, intr>>
AddDes(from, ps) ==
  /\ phase = "prog" /\ Len(prog) < MaxStmts /\ from \in 1..Len(prog) /\ from > Len(prog) - Window
  /\ LET r == IF CopyFix THEN CopyAppend(heap, vals[from].s, ps, na) ELSE GoAppend(heap, vals[from].s, ps, na, 8) IN
       /\ heap' = r.h /\ na' = r.na
       /\ vals' = Append(vals, [vals[from] EXCEPT !.s = r.s])
  /\ prog' = Append(prog, [op |-> "des", from |-> from, paths |-> ps])
  /\ UNCHANGED <<phase, calls, S, intr>>

IncSeqs(n, k) == {s \in [1..k -> {i \in 1..n : i > n - CallWindow}] : \A i \in 1..(k - 1) : s[i] < s[i + 1]}
FinalVars == SelectSeq([i \in 1..Len(prog) |-> i], LAMBDA i : ~\E j \in 1..Len(prog) : prog[j].op = "des" /\ prog[j].from = i)
CallLists == IF CallMode = "final" THEN {FinalVars} ELSE UNION {IncSeqs(Len(prog), k) : k \in MinCallOpts..MaxCallOpts}

\* ------------------------------------------------------------------ routing, as coded
\* an option as extractOption sees it at some graph level: [typ, id, paths]   (paths relative to that level)
GoOpt(i) == [typ |-> vals[i].typ, id |-> vals[i].id, n |-> vals[i].n, paths |-> View(heap, vals[i].s)]
Bundle(o) == [j \in 1..o.n |-> Val(o.id, j)]                     \* opt.options
AddAll(m, k, xs) == [m EXCEPT ![k] = @ \o xs]
KidByKey(g, k) == CHOOSE u \in Range(Kids(g)) : KeyOf(u) = k
HasKid(g, k) == \E u \in Range(Kids(g)) : KeyOf(u) = k
Add(m, k, x) == [m EXCEPT ![k] = Append(@, x)]

\* the loop over opt.paths of extractOption; acc = [err, m]
RECURSIVE ExPaths(_, _, _, _)
ExPaths(g, o, ps, acc) ==
  IF ps = <<>> \/ acc.err THEN acc
  ELSE LET p == Head(ps) IN
    IF Len(p) = 0 THEN [acc EXCEPT !.err = TRUE]
    ELSE IF ~HasKid(g, p[1]) THEN [acc EXCEPT !.err = TRUE]                                   \* unknown node
    ELSE LET cur == KidByKey(g, p[1]) IN
      IF Len(p) = 1 THEN
        IF o.typ = "cb" THEN ExPaths(g, o, Tail(ps), acc)                                     \* len(opt.options) == 0: continue
        ELSE IF cur.graph THEN ExPaths(g, o, Tail(ps), [acc EXCEPT !.m = Add(@, cur.u, [o EXCEPT !.paths = <<>>])])
        ELSE IF cur.ot # o.typ THEN [acc EXCEPT !.err = TRUE]                                 \* option type differs
        \* optMap[key] = append(optMap[key], opt.options...)     (FirstOnly: opt.options[0])
        ELSE ExPaths(g, o, Tail(ps), [acc EXCEPT !.m = AddAll(@, cur.u, IF FirstOnly THEN <<o.id>> ELSE Bundle(o))])
      ELSE IF ~cur.graph THEN [acc EXCEPT !.err = TRUE]                                       \* sub path of a component
      \* D28 repair: a callbacks-only option does not forward a nested path an earlier entry of the same list already named
      \* (samePathBefore compares whole paths; DedupIgnoresHead: from index 1 on)
      ELSE IF o.typ = "cb" /\ \E k \in 1..(Len(o.paths) - Len(ps)) :
                                 Len(o.paths[k]) = Len(p) /\ (IF DedupIgnoresHead THEN Tail(o.paths[k]) = Tail(p) ELSE o.paths[k] = p)
           THEN ExPaths(g, o, Tail(ps), acc)
      ELSE ExPaths(g, o, Tail(ps), [acc EXCEPT !.m = Add(@, cur.u, [o EXCEPT !.paths = <<Tail(p)>>])])
\* the undesignated branch: by type, whole option to sub-graphs
RECURSIVE ExCommon(_, _, _, _)
ExCommon(g, o, kids, m) ==
  IF kids = <<>> THEN m
  ELSE LET k == Head(kids) IN
       ExCommon(g, o, Tail(kids), IF k.graph /\ (~SubByComponent \/ k.gk = "graph") THEN Add(m, k.u, o) ELSE IF k.ot = o.typ THEN AddAll(m, k.u, Bundle(o)) ELSE m)
RECURSIVE Extract(_, _, _)
Extract(g, os, acc) ==
  IF os = <<>> \/ acc.err THEN acc
  ELSE LET o == Head(os)
           a1 == IF Len(o.paths) = 0 /\ o.typ # "cb" THEN [acc EXCEPT !.m = ExCommon(g, o, Kids(g), @)] ELSE acc
       IN Extract(g, Tail(os), ExPaths(g, o, o.paths, a1))

\* callbacks of a child: inherited from the context + options of this level with a 1-element path equal to the key
NodeCbs(os, k) == {os[j].id : j \in {x \in 1..Len(os) : os[x].typ = "cb" /\ \E i \in 1..Len(os[x].paths) : os[x].paths[i] = <<k>>}}
RECURSIVE SetToSeq(_)
SetToSeq(T) == IF T = {} THEN <<>> ELSE LET x == CHOOSE y \in T : TRUE IN <<x>> \o SetToSeq(T \ {x})

\* ---- handler lists of the nodes of ONE super step that run in parallel (tree "par"), as Go slices (16-byte elements):
\*   initGraphCallbacks: cbs = append(cbs, opt.handler...) once per undesignated callbacks option (1 -> 2 -> 4 -> 8 ...), kept as is by
\*   InitCallbacks; every task: initNodeCallbacks -> AppendHandlers(ctx, designated handlers of the key) and at once the start
\*   event; the bodies overlap (all nodes are initialised before any ends), then the end events read the lists again.
\* A node's observed handler set = what its list holds at its start  \cup  what it holds at its end.
\* Result: function  kid id -> set of handler ids.   (No global handlers here: On's own append is Callbacks.tla's business.)
ParInit(os, kids) ==
  LET und == SelectSeq(os, LAMBDA o : o.typ = "cb" /\ Len(o.paths) = 0)
      g0  == AppendEach(EmptyHeap, NilSlice, [j \in 1..Len(und) |-> <<und[j].id>>], 1, 16)
  IN [h |-> g0.h, na |-> g0.na, ps |-> g0.s, hdr |-> <<>>, sv |-> <<>>]
RECURSIVE ParInits(_, _, _)
ParInits(os, kids, acc) ==
  IF kids = <<>> THEN acc
  ELSE LET u   == Head(kids)
           des == SelectSeq(os, LAMBDA o : o.typ = "cb" /\ \E i \in 1..Len(o.paths) : o.paths[i] = <<KeyOf(u)>>)
           c1  == AppendEach(acc.h, NilSlice, [j \in 1..Len(des) |-> <<des[j].id>>], acc.na, 16)
           add == View(c1.h, c1.s)
           r   == IF acc.ps.len = 0 THEN c1            \* no manager in the context: InitCallbacks(ctx, info, cbs...)
                  ELSE IF CbCopyFix THEN CopyAppend(c1.h, acc.ps, add, c1.na) ELSE GoAppend(c1.h, acc.ps, add, c1.na, 16)
       IN ParInits(os, Tail(kids), [acc EXCEPT !.h = r.h, !.na = r.na, !.hdr = @ @@ (u.u :> r.s),
                                               !.sv = @ @@ (u.u :> Range(View(r.h, r.s)))])
ParCbs(os, kids) ==
  LET f == ParInits(os, kids, ParInit(os, kids)) IN
  [x \in DOMAIN f.hdr |-> f.sv[x] \cup Range(View(f.h, f.hdr[x]))]

\* run of graph unit g in call k with options os (relative to g) and inherited handlers inh: [err, lines]
RECURSIVE RunG(_, _, _, _)
RECURSIVE RunKids(_, _, _, _, _, _)
RunKids(k, g, os, inh, kids, ex) ==
  IF kids = <<>> THEN [err |-> FALSE, lines |-> <<>>]
  ELSE LET u == Head(kids)
           cbs == IF Tree = "par" /\ g = "top" THEN ParCbs(os, Kids(g))[u.u] ELSE inh \cup NodeCbs(os, KeyOf(u))
           \* runner.restoreTasks: `if opt, ok := optMap[key]; ok { newTask.option = opt }` -- the rebuilt task carries the options the
           \* RESUMING call addressed to it (as every freshly created task does); RestoreDropsOpts: it carries none
           \* a node added with WithInputKey runs behind inputKeyedComposableRunnable, whose Invoke and stream wrappers both pass opts...
           \* (KeyedStreamDrops: the stream wrapper does not)
           mu == IF RestoreDropsOpts /\ Restored(k, u) THEN <<>>
                 ELSE IF KeyedStreamDrops /\ intr.keyed = u.u /\ intr.mode = "stream" THEN <<>> ELSE ex.m[u.u]
       IN IF u.graph
          THEN LET r == RunG(k, u.u, mu, cbs) IN
               IF r.err THEN r
               ELSE LET rest == RunKids(k, g, os, inh, Tail(kids), ex) IN [err |-> rest.err, lines |-> r.lines \o rest.lines]
          ELSE LET rest == RunKids(k, g, os, inh, Tail(kids), ex) IN
               [err |-> rest.err, lines |-> <<[ev |-> "node", call |-> k, u |-> u.u, got |-> mu, cbs |-> SetToSeq(cbs)]>> \o rest.lines]
RunG(k, g, os, inh) ==
  LET ex == Extract(g, os, [err |-> FALSE, m |-> [u \in {x.u : x \in Range(Kids(g))} |-> <<>>]]) IN
  IF ex.err THEN [err |-> TRUE, lines |-> <<>>] ELSE RunKids(k, g, os, inh, Kids(g), ex)

RunCall(k) ==
  LET os == [j \in 1..Len(calls[k]) |-> GoOpt(calls[k][j])]
      inh == {os[j].id : j \in {x \in 1..Len(os) : os[x].typ = "cb" /\ Len(os[x].paths) = 0}}
      r == RunG(k, "top", os, inh)
      \* interrupted run: call 1 executes the leaves in front of the mark and returns the interrupt error, call 2 the others
      mine == SelectSeq(r.lines, LAMBDA ln : ExecIn(k, ln.u))
  IN mine \o <<[ev |-> "ret", call |-> k, err |-> IF intr.u = "" THEN r.err ELSE k = 1]>>
\* a sub-run that fails still let the nodes in front of it run: RunKids returns the error of the failing graph node only,
\* the lines of the leaves before it are kept by the caller
CaseLine == [ev |-> "case", id |-> "m", tree |-> Tree, units |-> UnitSeq, prog |-> prog, calls |-> calls, intr |-> intr.u, intrafter |-> intr.after,
             mode |-> intr.mode, keyed |-> intr.keyed]

Close ==
  /\ phase = "prog" /\ Len(prog) > 0 /\ Len(prog) >= MinStmts
  /\ \E cs \in [1..NCalls -> CallLists] :
       /\ (NCalls = 2 => cs[1] # cs[2])
       /\ calls' = cs
       \* interrupted runs: both calls carry valid designations only (an option error would end the call before / instead of the interrupt)
       /\ (AllowIntr => \A k \in 1..NCalls : ~ExpErr([units |-> UnitSeq, prog |-> prog, calls |-> cs], k))
  /\ intr' \in IntrChoices
  /\ phase' = "route" /\ UNCHANGED <<prog, vals, heap, na, S>>
Route ==
  /\ phase = "route"
  /\ S' = ApplyAll(Idle, <<CaseLine>> \o RunCall(1) \o (IF NCalls = 2 THEN RunCall(2) ELSE <<>>) \o <<[ev |-> "done"]>>)
  /\ phase' = "done" /\ UNCHANGED <<prog, vals, heap, na, calls, intr>>

Next == Close \/ Route \/ (\E t \in Types : AddNew(t)) \/ (\E f \in 1..MaxStmts, ps \in PathLists : AddDes(f, ps))
Spec == Init /\ [][Next]_vars

RuleOK == S.bad = ""
Emit == phase = "done" => PrintT(<<"CASE", ToJson(CaseLine @@ [mbad |-> S.bad])>>)
================================================================================
