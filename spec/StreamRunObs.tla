------------------------------- MODULE StreamRunObs -------------------------------
(* Trace validation of the lifecycle traces of real streaming runs against the rule Apply of StreamRun.tla (C19).         *)
(* One state per line, total; <<"BAD", case, line, why>> for a violated case, <<"NOTE", case, line, what>> for a case the  *)
(* rule cannot decide (run failed outside the scenario's expectation, settling timed out without a parked goroutine).     *)
EXTENDS StreamRun
Trace == ndJsonDeserialize("trace.ndjson")
ASSUME TLCSet(1, 0)
VARIABLES l, S
vars == <<l, S, gvars>>
Init == l = 1 /\ S = Idle /\ GenInit          \* the generator's variables are not used here
Max2(a, b) == IF a > b THEN a ELSE b
Next == /\ l <= Len(Trace) /\ l' = l + 1 /\ UNCHANGED gvars
        /\ LET X == Apply(S, Trace[l]) IN
             /\ S' = X
             /\ (X.bad # "" /\ (S.bad = "" \/ Trace[l].ev = "case")) => PrintT(<<"BAD", X.id, l, X.bad>>)
             /\ (Trace[l].ev = "dump" /\ X.bad = "" /\ X.note # "") => PrintT(<<"NOTE", X.id, l, X.note>>)
Spec == Init /\ [][Next]_vars
HW == TLCSet(1, Max2(l, TLCGet(1)))
Post == PrintT(<<"HW", TLCGet(1)>>)
================================================================================
