------------------------------ MODULE ConcatObs ------------------------------
(***************************************************************************)
(* C14 verdict path: trace validation of OBSERVATIONS OF THE REAL          *)
(* concatenation functions against the law of Concat.tla (part 2).         *)
(* One state per line; total: a contradicting line prints                  *)
(* "BAD|id|line|reason".                                            *)
(*                                                                         *)
(* A line is [ev |-> "cat", id, path, kind, chunks, full, splits]:         *)
(*   chunks  the abstract rendering of the chunk values really built       *)
(*   full    the outcomes [o, v] of three calls on the whole sequence      *)
(*   sh      digests of the same calls made on ONE set of chunk values     *)
(*           (inputs before/after every call, results then and later)      *)
(*   splits  for every split point i: pre = outcome on chunks[1..i],       *)
(*           res = outcome on <<value of pre>> \o chunks[i+1..]            *)
(* The law is evaluated by TLC on these REAL outcomes; the transcription   *)
(* (CatKind ...) is only compared with them to report DRIFT.               *)
(***************************************************************************)
EXTENDS Concat

Trace == ndJsonDeserialize("trace.ndjson")
ASSUME TLCSet(1, 0) /\ TLCSet(2, 0) /\ TLCSet(3, 0) /\ TLCSet(4, 0) /\ TLCSet(5, 0) /\ TLCSet(6, 0)

VARIABLES l
vars == <<l>>

O(x) == [o |-> x.o, v |-> x.v]
ObsReason(e) ==
  LET n == Len(e.chunks)
      full == O(e.full[1])
      outs == {e.full[i].o : i \in 1..Len(e.full)} \cup {e.splits[i].pre.o : i \in 1..Len(e.splits)} \cup {e.splits[i].res.o : i \in 1..Len(e.splits)}
      badSplit == {i \in 1..Len(e.splits) : ~RechunkOK(full, O(e.splits[i].pre), O(e.splits[i].res))}
  IN IF Len(e.full) # 3 \/ Len(e.splits) # Max2(n - 1, 0) \/ Len(e.sh.whole) # 3 \/ Len(e.sh.pre) # Len(e.splits) \/ Len(e.sh.res) # Len(e.splits)
        \/ Len(e.sh.ref.pre) # Len(e.splits) \/ Len(e.sh.ref.res) # Len(e.splits) \/ \E i \in 1..Len(e.splits) : e.splits[i].i # i THEN "incomplete-observation"
     ELSE IF "panic" \in outs THEN "panic:" \o (IF HasNilValue(e.kind, e.chunks) THEN "nil-map-value" ELSE "other")
     ELSE IF outs \ {"ok", "err"} # {} THEN "malformed-outcome"
     ELSE IF \E i \in 2..Len(e.full) : O(e.full[i]) # full THEN "nondeterministic:" \o (IF HasNilValue(e.kind, e.chunks) THEN "nil-map-value" ELSE "other")
     ELSE IF WhyImpure(e.sh) # "" THEN "impure:" \o WhyImpure(e.sh)
     ELSE IF badSplit # {} THEN
          LET i == CHOOSE i \in badSplit : TRUE
              pre == e.splits[i].pre
              res == e.splits[i].res
          IN "rechunk:" \o (IF pre.o # "ok" THEN "prefix-fails-whole-succeeds"
                            ELSE IF (res.o = "ok") # (full.o = "ok") THEN "fails-in-different-cases" ELSE "different-value")
                       \o (IF HasNilValue(e.kind, e.chunks) THEN "(nil-map-value)" ELSE "")
     ELSE IF n >= 2 \/ e.path = "cm" THEN (LET w == Why(e.kind, e.chunks, full, e.elem) IN IF w = "" THEN "" ELSE "rule:" \o w)
     ELSE ""
ModelPath(p, kind) == IF p = "graph" THEN (IF kind = "msg" THEN "cms" ELSE "ci") ELSE p
Agrees(e, fx) == LET p == Cat(ModelPath(e.path, e.kind), e.kind, e.chunks, fx)
                     full == O(e.full[1]) IN
                 \/ p.o = full.o /\ (p.o = "ok" => p.v = full.v)
                 \/ p.o = "panic" /\ full.o = "err"        \* map iteration order decides which failing key is met first
Bump(i) == TLCSet(i, TLCGet(i) + 1)

Init == l = 1
Next == /\ l <= Len(Trace)
        /\ l' = l + 1
        /\ LET e == Trace[l]
               r == ObsReason(e)
               a == Agrees(e, AsIs)
               f == Agrees(e, Fixed)
           IN /\ (r # "" => PrintT("BAD|" \o e.id \o "/" \o e.path \o "|" \o ToString(l) \o "|" \o r) /\ Bump(6))   \* one string: TLC wraps long tuples
              /\ IF a /\ f THEN Bump(2) ELSE IF a THEN Bump(3) ELSE IF f THEN Bump(4)
                 ELSE Bump(5) /\ PrintT("DRIFT|" \o e.id \o "/" \o e.path \o "|" \o ToString(l) \o "|" \o e.full[1].o)
Spec == Init /\ [][Next]_vars

HW == TLCSet(1, Max2(l, TLCGet(1)))
Post == PrintT(<<"HW", TLCGet(1)>>) /\ PrintT(<<"STAT", TLCGet(2), TLCGet(3), TLCGet(4), TLCGet(5), TLCGet(6)>>)
================================================================================
