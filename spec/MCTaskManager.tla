---------------------------- MODULE MCTaskManager ----------------------------
(* TLC wrapper of TaskManager.tla: symmetry set for the safety configurations. *)
EXTENDS TaskManager, TLC
Sym == Permutations(Tasks)
================================================================================
