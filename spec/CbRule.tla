------------------------------- MODULE CbRule -------------------------------
(***************************************************************************)
(* Property-level rule of C10 ("callback handlers fire exactly once per    *)
(* execution, paired, for the right node") as a pure function              *)
(*     Apply(S, e)                                                         *)
(* over observation lines e.  The SAME operator judges                     *)
(*   - the implementation-shaped model Callbacks.tla (as an invariant) and *)
(*   - the ndjson traces of real runs (CbObs.tla).                         *)
(* It says only what the statement says:                                   *)
(*   for every execution unit u that ran and every handler h that applies  *)
(*   to u: exactly one start event and, after it, exactly one of           *)
(*   end / end-stream / error, carrying u's run info and the payload u     *)
(*   consumed / produced; a handler never sees an event of a unit it does  *)
(*   not apply to; stream payload copies are independent (every handler    *)
(*   that reads its copy reads the whole payload, and the data flowing     *)
(*   through the graph is what the nodes produced).                        *)
(*                                                                         *)
(* Lines (field "ev" first):                                               *)
(*   case   id, handlers: <<[id, kind: global|undes|des, paths]>>,         *)
(*          units: <<[u, path, name, comp, typ, graph, parent, src, srcin]>>*)
(*          ends: <<unit ids whose output reaches the result>>             *)
(*   enter  u, in            the body of leaf u got input `in` (u = top:   *)
(*                           the call was made with input `in`; u = nested *)
(*                           graph: the condition of the branch on its     *)
(*                           START was evaluated on `in`)                  *)
(*   exit   u, out, fail     the body of u is about to return out / fail   *)
(*   cb     h, t, name, comp, typ, pl, strm                                *)
(*          handler h was invoked with timing t in                         *)
(*          {start, start_s, end, end_s, error} and run info (name, comp,  *)
(*          typ); pl = rendered payload ("" for a stream: see cbdata)      *)
(*   cbdata h, name, t: start|end, pl, full   what h read from its copy    *)
(*   ret    err, out, outs   the call returned                             *)
(*   done                    end of the case: completeness is judged       *)
(*   crash  msg              the process died in library code during the   *)
(*                           run (e.g. double close of a shared stream)    *)
(*   note   ...              ignored                                       *)
(*                                                                         *)
(* Reading of an ambiguous clause: a handler designated to a graph node    *)
(* (a sub-graph) applies to that node; whether it also fires for the nodes *)
(* INSIDE that sub-graph is left open (MayApply): such events are allowed, *)
(* not required, and if present must still be paired.                      *)
(***************************************************************************)
EXTENDS Integers, Sequences, FiniteSets, TLC, Json

Range(s) == {s[i] : i \in 1..Len(s)}
Max2(a, b) == IF a > b THEN a ELSE b
IsPrefix(p, q) == Len(p) <= Len(q) /\ \A i \in 1..Len(p) : p[i] = q[i]

Units(c) == Range(c.units)
Handlers(c) == Range(c.handlers)
HasUnit(c, id) == \E u \in Units(c) : u.u = id
Unit(c, id) == CHOOSE u \in Units(c) : u.u = id
HasUnitNamed(c, nm) == \E u \in Units(c) : u.name = nm
UnitNamed(c, nm) == CHOOSE u \in Units(c) : u.name = nm
HasHandler(c, id) == \E h \in Handlers(c) : h.id = id
Handler(c, id) == CHOOSE h \in Handlers(c) : h.id = id

\* u.fresh: the unit runs under a callback scope opened with callbacks.InitCallbacks(ctx, info) without handlers inside a node body:
\* only global handlers apply to it, nothing of the enclosing run
Applies(h, u) == IF u.fresh THEN h.kind = "global"
                 ELSE h.kind \in {"global", "undes"} \/ (h.kind = "des" /\ \E i \in 1..Len(h.paths) : h.paths[i] = u.path)
MayApply(h, u) == Applies(h, u) \/ (~u.fresh /\ h.kind = "des" /\ \E i \in 1..Len(h.paths) : IsPrefix(h.paths[i], u.path))

StartT == {"start", "start_s"}
EndT == {"end", "end_s", "error"}
Key(h, u) == h \o "|" \o u
NoRet == [seen |-> FALSE, err |-> FALSE, out |-> "", outs |-> <<>>]
Idle == [id |-> "", c |-> [handlers |-> <<>>, units |-> <<>>, ends |-> <<>>, reject |-> "", rejecttop |-> FALSE], bad |-> "", st |-> <<>>, ins |-> <<>>, outs |-> <<>>,
         data |-> {}, ret |-> NoRet]
Bad(S, r) == [S EXCEPT !.bad = r]

\* ---------------------------------------------------------------- enter / exit
Enter(S, e) ==
  IF ~HasUnit(S.c, e.u) THEN Bad(S, "enter-of-unknown-unit")
  ELSE LET u == Unit(S.c, e.u)
           upstream == IF u.src = "" THEN "?" ELSE
                       IF u.srcin THEN (IF u.src \in DOMAIN S.ins THEN S.ins[u.src] ELSE "?")
                       ELSE (IF u.src \in DOMAIN S.outs THEN S.outs[u.src].pl ELSE "!")
       IN IF e.u \in DOMAIN S.ins THEN Bad(S, "unit-ran-twice")
          ELSE IF upstream = "!" THEN Bad(S, "unit-ran-before-its-predecessor-finished")
          ELSE IF upstream # "?" /\ upstream # e.in THEN Bad(S, "input-differs-from-what-upstream-produced")
          ELSE IF \E h \in Handlers(S.c) : Key(h.id, e.u) \in DOMAIN S.st /\ S.st[Key(h.id, e.u)].spl \notin {"~", e.in}
               THEN Bad(S, "start-payload-mismatch")
          ELSE [S EXCEPT !.ins = @ @@ (e.u :> e.in)]

Exit(S, e) ==
  IF e.u \notin DOMAIN S.ins THEN Bad(S, "exit-without-enter")
  ELSE IF e.u \in DOMAIN S.outs THEN Bad(S, "unit-ran-twice")
  ELSE [S EXCEPT !.outs = @ @@ (e.u :> [pl |-> e.out, fail |-> e.fail])]

\* ---------------------------------------------------------------- handler events
Cb(S, e) ==
  IF ~HasUnitNamed(S.c, e.name) THEN Bad(S, "event-with-run-info-of-no-unit")
  ELSE LET u == UnitNamed(S.c, e.name)
           k == Key(e.h, u.u) IN
    IF e.comp # u.comp \/ e.typ # u.typ THEN Bad(S, "wrong-run-info")
    ELSE IF ~HasHandler(S.c, e.h) THEN Bad(S, "unknown-handler")
    ELSE IF ~MayApply(Handler(S.c, e.h), u) THEN Bad(S, "handler-invoked-for-foreign-unit")
    ELSE IF e.t \in StartT THEN
      IF k \in DOMAIN S.st THEN Bad(S, "start-twice")
      ELSE IF ~u.graph /\ u.u \in DOMAIN S.outs THEN Bad(S, "start-after-unit-finished")
      ELSE IF ~e.strm /\ u.u \in DOMAIN S.ins /\ e.pl # S.ins[u.u] THEN Bad(S, "start-payload-mismatch")
      ELSE [S EXCEPT !.st = @ @@ (k :> [s |-> "started", k |-> "", spl |-> IF e.strm THEN "~" ELSE e.pl, epl |-> ""])]
    ELSE IF e.t \in EndT THEN
      IF k \notin DOMAIN S.st THEN Bad(S, "end-without-start")
      ELSE IF S.st[k].s = "fin" THEN Bad(S, "end-twice")
      ELSE IF ~u.graph /\ u.u \notin DOMAIN S.outs THEN Bad(S, "end-before-unit-finished")
      ELSE IF ~u.graph /\ ((e.t = "error") # S.outs[u.u].fail) THEN Bad(S, "end-kind-contradicts-outcome")
      ELSE IF ~u.graph /\ e.t = "end" /\ ~e.strm /\ e.pl # S.outs[u.u].pl THEN Bad(S, "end-payload-mismatch")
      ELSE [S EXCEPT !.st[k] = [@ EXCEPT !.s = "fin", !.k = e.t, !.epl = IF e.strm \/ e.t = "error" THEN "~" ELSE e.pl]]
    ELSE Bad(S, "unknown-timing")

CbData(S, e) ==
  IF ~e.full THEN S
  ELSE [S EXCEPT !.data = @ \cup {[h |-> e.h, name |-> e.name, t |-> e.t, pl |-> e.pl]}]

\* ---------------------------------------------------------------- completeness at the end of the case
\* a nested graph ran if one of its nodes ran, or if harness-owned code inside it (the condition of a branch on its START) logged `enter`
\* c.reject = a nested graph (fed by START of the top graph) whose run is rejected for its call options: it did run, and failed
Ran(S, u) == \/ u.u \in DOMAIN S.ins
             \/ (u.u = S.c.reject /\ u.parent # "" /\ \E t \in Units(S.c) : t.parent = "" /\ t.u \in DOMAIN S.ins /\ ~S.c.rejecttop)
             \/ (u.graph /\ u.parent # "" /\ \E v \in Units(S.c) : v.parent = u.u /\ v.u \in DOMAIN S.ins)
Failed(S, u) == IF u.parent = "" THEN S.ret.err
                ELSE IF u.graph THEN \/ \E v \in Units(S.c) : v.parent = u.u /\ v.u \in DOMAIN S.outs /\ S.outs[v.u].fail
                                     \/ (u.u \in DOMAIN S.outs /\ S.outs[u.u].fail)     \* the condition of its START branch failed
                                     \/ u.u = S.c.reject
                ELSE u.u \in DOMAIN S.outs /\ S.outs[u.u].fail
DataOK(S, d) ==
  IF ~HasUnitNamed(S.c, d.name) THEN FALSE
  ELSE LET u == UnitNamed(S.c, d.name) IN
       IF d.t = "start" THEN (u.u \in DOMAIN S.ins => d.pl = S.ins[u.u])
       ELSE IF ~u.graph THEN (u.u \in DOMAIN S.outs => d.pl = S.outs[u.u].pl)
       ELSE IF u.parent = "" THEN (S.ret.err \/ d.pl = S.ret.out)
       ELSE TRUE
Final(S) ==
  LET c == S.c
      US == Units(c)
      HS == Handlers(c)
      top == CHOOSE u \in US : u.parent = ""
  IN IF ~S.ret.seen THEN "no-return-observed"
     ELSE IF \E u \in US, h \in HS : Ran(S, u) /\ Applies(h, u) /\ Key(h.id, u.u) \notin DOMAIN S.st THEN "start-missing"
     ELSE IF \E k \in DOMAIN S.st : S.st[k].s # "fin" THEN "end-missing"
     ELSE IF \E u \in US, h \in HS : ~Ran(S, u) /\ Key(h.id, u.u) \in DOMAIN S.st THEN "event-for-unit-that-did-not-run"
     ELSE IF \E u \in US, h \in HS : u.graph /\ Key(h.id, u.u) \in DOMAIN S.st /\ ((S.st[Key(h.id, u.u)].k = "error") # Failed(S, u))
          THEN "end-kind-contradicts-outcome"
     ELSE IF \E h \in HS : Key(h.id, top.u) \in DOMAIN S.st /\ ~S.ret.err /\ S.st[Key(h.id, top.u)].epl \notin {"~", S.ret.out}
          THEN "end-payload-mismatch"
     ELSE IF \E d \in S.data : ~DataOK(S, d) THEN "stream-copy-payload-mismatch"
     ELSE IF ~S.ret.err /\ \E i \in 1..Len(c.ends) : c.ends[i] \notin DOMAIN S.outs THEN "result-without-the-node-that-feeds-it"
     ELSE IF ~S.ret.err /\ \E i \in 1..Len(c.ends) : c.ends[i] \notin DOMAIN S.ret.outs THEN "result-lacks-a-node-output"
     ELSE IF ~S.ret.err /\ \E i \in 1..Len(c.ends) : S.ret.outs[c.ends[i]] # S.outs[c.ends[i]].pl THEN "result-differs-from-what-nodes-produced"
     ELSE ""

\* ---------------------------------------------------------------- the rule
Apply(S, e) ==
  IF e.ev = "case" THEN [Idle EXCEPT !.id = e.id, !.c = e]
  ELSE IF S.bad # "" \/ e.ev = "note" THEN S
  ELSE IF e.ev = "enter" THEN Enter(S, e)
  ELSE IF e.ev = "exit" THEN Exit(S, e)
  ELSE IF e.ev = "cb" THEN Cb(S, e)
  ELSE IF e.ev = "cbdata" THEN CbData(S, e)
  ELSE IF e.ev = "ret" THEN [S EXCEPT !.ret = [seen |-> TRUE, err |-> e.err, out |-> e.out, outs |-> e.outs]]
  ELSE IF e.ev = "crash" THEN Bad(S, "run-crashed")
  ELSE IF e.ev = "done" THEN Bad(S, Final(S))
  ELSE Bad(S, "unknown-line")

RECURSIVE ApplyAll(_, _)
ApplyAll(S, es) == IF es = <<>> THEN S ELSE ApplyAll(Apply(S, Head(es)), Tail(es))
================================================================================
