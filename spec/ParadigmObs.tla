---------------------------- MODULE ParadigmObs ----------------------------
(***************************************************************************)
(* Trace validation of OBSERVATIONS OF REAL compiled graphs called through *)
(* Invoke, Stream, Collect and Transform                                   *)
(* (harness/compose/zz_verif_paradigm_test.go, one line per configuration) *)
(* against the property-level rule ParadigmRule!Judge (C04).  One state    *)
(* per line; total: a line that contradicts the rule prints                *)
(*   <<"BAD", case id, line, reason>>  and every line is consumed.         *)
(* A line whose configuration the harness could not build prints a         *)
(* "NOTE:" reason (machinery problem, never a violation).                  *)
(***************************************************************************)
EXTENDS ParadigmRule, Json

Trace == ndJsonDeserialize("trace.ndjson")
ASSUME TLCSet(1, 0)

VARIABLES l
Init == l = 1
Verdict(L) == IF L.res["I"].kind = "note" THEN {"NOTE:harness-could-not-build"} ELSE Judge(L, L.res)
Next == /\ l <= Len(Trace)
        /\ l' = l + 1
        /\ \A r \in Verdict(Trace[l]) : PrintT(<<"BAD", Trace[l].id, l, r>>)
Spec == Init /\ [][Next]_l

Max2(a, b) == IF a > b THEN a ELSE b
HW == TLCSet(1, Max2(l, TLCGet(1)))
Post == PrintT(<<"HW", TLCGet(1)>>)
=============================================================================
