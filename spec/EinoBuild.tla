------------------------------- MODULE EinoBuild -------------------------------
(***************************************************************************)
(* Implementation-shaped model of eino's graph builder                     *)
(*   compose/graph.go  addNode :161-229, addEdgeWithMappings :231-293,     *)
(*                     addBranch :434-510, addToValidateMap /              *)
(*                     updateToValidateMap :512-595, compile :632-834,     *)
(*                     validateDAG :1006-1051                              *)
(*   compose/utils.go  checkAssignable :287-307                            *)
(*   compose/workflow.go compile :406-481 (deferred inputs, static values) *)
(* State = the fields of *graph that decide acceptance and what the        *)
(* compiled runner shares with the builder:                                *)
(*   nodes (key -> declared or inferred in/out type, "nil" = untyped       *)
(*   pass-through), control edges, data edges, branches, startNodes /      *)
(*   endNodes non-empty, the toValidateMap worklist, the handler maps      *)
(*   (run-time converters on may-assignable edges and branches, pre-node   *)
(*   converters of field mappings), sticky buildError, compiled flag.      *)
(* One action per call; the worklist loop of updateToValidateMap is a      *)
(* sequence of micro-steps, each on an ARBITRARY processable entry (Go map *)
(* iteration order), and the end nodes of a branch are visited in          *)
(* arbitrary order for the same reason.                                    *)
(*                                                                         *)
(* FixD5 / FixD15 / FixD7 = FALSE is the code as it is; TRUE the proposed   *)
(* repairs (fixes/D5-*.diff, D15-*.diff, D7-*.diff).                        *)
(*                                                                         *)
(* The invariants are the property-level definitions of BuildRule.tla      *)
(* applied to the model's own history (calls + outcomes), plus Sound:      *)
(* given where the model installed run-time converters, no dynamic value   *)
(* of a wrong type can arrive at a concretely typed consumer.              *)
(* Terminal histories are printed as conformance cases (Emit).             *)
(***************************************************************************)
EXTENDS BuildRule

CONSTANTS Fam,          \* alphabet family, see below
          MaxAdds,      \* Add* calls before the (first) Compile, after the prologue
          MaxPost,      \* calls after the first Compile
          MaxBr,        \* branch calls
          MaxAfterErr,  \* calls after the first failed Add* (stickiness)
          FixD5, FixD15, FixD7, FixD30

--------------------------------------------------------------------------------
(* Alphabets.  Sequences start with a prologue chosen in Init (declaring    *)
(* nodes is not where orders matter), then any order of the family's calls. *)

T3 == {"str", "int", "any"}
Ord6(k) == CASE k = "n1" -> 1 [] k = "n2" -> 2 [] k = "n3" -> 3 [] k = "n4" -> 4 [] k = "n5" -> 5 [] OTHER -> 6
Hdr(fe, gi, go, st) == [fe |-> fe, gi |-> gi, go |-> go, state |-> st]
Plain(k, i, o, e) == NodeOp(k, i, o, e, "", "")
\* typed-node declarations of the flow families: (in, out, emitted dynamic type)
N1Flow == {Plain("n1", "str", "str", "str"), Plain("n1", "any", "int", "int"), Plain("n1", "int", "any", "str"), Plain("n1", "any", "any", "int"),
           Plain("n1", "any", "any", "nil")}      \* an interface-typed producer that really returns nil
N1Wide == {Plain("n1", x[1], x[2], x[3]) : x \in {y \in Ty \X Ty \X Dyn : DynOK(y[3], y[2])}}

N1Mid == {Plain("n1", "str", "iface", "impl"), Plain("n1", "any", "iface", "impl2"), Plain("n1", "iface", "impl", "impl"), Plain("n1", "impl", "any", "msa"),
          Plain("n1", "msa", "msa", "msa"), Plain("n1", "int", "str", "str"), Plain("n1", "any", "any", "impl"), Plain("n1", "iface", "any", "impl2")}
N2Mid == {Plain("n2", "impl", "str", "str"), Plain("n2", "iface", "int", "int"), Plain("n2", "str", "any", "int"), Plain("n2", "any", "msa", "msa"), Plain("n2", "msa", "iface", "impl2")}
N1Named == {Plain("n1", "nmsa", "nmsa", "nmsa"), Plain("n1", "any", "msa", "msa"), Plain("n1", "msa", "any", "nmsa"), Plain("n1", "any", "any", "msa")}
StaticOp(k, p, v) == MkOp("static", k, "", "", "", "", v, "", "", <<>>, "", "", p)
Inits ==
  CASE Fam = "flow" ->   \* C07 tight universe: one typed node, two pass-through nodes, 3 types
         {<<Hdr("graph", gi, "any", FALSE), <<n, PassOp("p1", "", "")>> \o tail>> :
             gi \in {"str", "any"}, n \in N1Flow, tail \in {<<>>, <<PassOp("p2", "", "")>>}}
    [] Fam = "flowend" ->   \* concretely typed graph output
         {<<Hdr("graph", gi, "str", FALSE), <<n, PassOp("p1", "", "")>>>> : gi \in {"str", "any"}, n \in N1Flow}
    [] Fam = "flown" ->   \* the flow universe over an unnamed composite type and a DEFINED type with the same underlying type
         {<<Hdr("graph", gi, "any", FALSE), <<n, PassOp("p1", "", "")>>>> : gi \in {"msa", "nmsa"}, n \in N1Named}
    [] Fam = "flowio" ->  \* graph input type # graph output type, an interface-typed producer next to START (whose helper describes both types)
         {<<Hdr("graph", "str", "int", FALSE), <<Plain("n1", "str", "any", e), Plain("n2", "str", "int", "int"), PassOp("p1", "", "")>> \o tail
                                                  \o <<EdgeOp(START, "n1", ""), EdgeOp("n2", END, "")>>>> :
             e \in {"str", "int", "nil"}, tail \in {<<>>, <<PassOp("p2", "", "")>>}}
    [] Fam = "flow2" ->  \* two typed nodes, all six types (sampled)
         {<<Hdr("graph", gi, go, FALSE), <<n, m, PassOp("p1", "", ""), PassOp("p2", "", "")>>>> :
             gi \in Ty, go \in {"any", "str", "iface"}, n \in N1Mid, m \in N2Mid}
    [] Fam = "seq" ->    \* C20: whole call sequences with every kind of violation
         {<<Hdr("graph", "str", "str", FALSE), <<>>>>}
    [] Fam = "seqp" ->   \* the same on top of a well-formed graph: a violation (or a cycle, a duplicate ...) at the end of a valid construction
         {<<Hdr("graph", "str", "str", FALSE), <<Plain("n1", "str", "str", "str"), Plain("n2", "str", "str", "str"), EdgeOp(START, "n1", ""), EdgeOp("n1", END, "")>>>>}
    [] Fam = "brshare" -> \* one *GraphBranch object attached to several start nodes, next to branches of their own, with run-time-checked conditions
         {<<Hdr("graph", "str", "any", FALSE), <<Plain("n1", "str", "any", e), Plain("n2", "str", "str", "str"), EdgeOp(START, "n1", ""), EdgeOp("n2", END, "")>>>> :
             e \in {"int", "str"}}
    [] Fam = "sub" ->     \* a nested graph string -> string as a node, with / without input and output key
         {<<Hdr("graph", gi, go, FALSE), <<SubOp("n1", "str", "str", "str", x), PassOp("p1", "", "")>>>> : gi \in {"str", "msa"}, go \in {"str", "msa"}, x \in {"", "ik", "ok", "iok"}}
    [] Fam = "wfpt" ->    \* workflow with a pass-through node between differently typed neighbours, field mappings on one of its edges
         {<<Hdr("wf", "msa", "msa", FALSE), <<Plain("n1", "msa", "msa", "msa"), Plain("n2", "rec", "msa", "msa"), PassOp("p1", "", ""),
                                               EdgeOp(START, "n1", "fm"), EdgeOp("n2", END, "fm")>>>>}
    [] Fam = "subopt" ->  \* a nested graph / workflow as a node, with compile options of its own (trigger mode, step limit)
         {<<Hdr("graph", "str", "str", FALSE), <<[SubOp("n1", "str", "str", "str", "") EXCEPT !.m = h], EdgeOp(START, "n1", ""), EdgeOp("n1", END, "")>>>> :
             h \in {"", "gms", "gall", "gallms", "wf", "wfms"}}
    [] Fam = "cyc" ->    \* cycles behind double connections (an edge AND a branch from the same node into a cycle member), both trigger modes
         {<<Hdr("graph", "str", "str", FALSE), <<Plain("n1", "str", "str", "str"), Plain("n2", "str", "str", "str"), Plain("n3", "str", "str", "str"),
                                                 EdgeOp(START, "n1", ""), EdgeOp("n2", "n3", "")>>>>}
    [] Fam = "chain" ->  \* Chain front end: Append* in every order, Compile, refused Append* after it, Compile again
         {<<Hdr("chain", "str", "str", FALSE), <<>>>>}
    [] Fam = "seqs" ->   \* the same with graph state (state handlers legal)
         {<<Hdr("graph", "str", "str", TRUE), <<Plain("n1", "str", "str", "str")>>>>}
    [] Fam = "wf" ->     \* workflow front end: field mappings, compiled twice
         {<<Hdr("wf", "msa", "msa", FALSE), <<Plain("n1", i, "msa", "msa"), EdgeOp(START, "n1", "fm"), EdgeOp("n1", END, "fm")>> \o st>> :
             i \in {"rec", "msa"}, st \in {<<>>, <<StaticOp("n1", "s", "a")>>}}      \* with / without a static value (workflow.go:436-476)
    [] Fam = "wfin" ->   \* workflow inputs declared in every kind and order: AddInput, AddInputWithOptions(NoDirectDependency), AddDependency
         {<<Hdr("wf", "msa", "msa", FALSE), <<Plain("n1", "msa", "msa", "msa")>>>>}

FlowKeys == {"n1", "n2", "p1", "p2"}
SeqKeys == {"n1", "p1"}
Alphabet(K) ==   \* K = keys declared so far
  CASE Fam \in {"flow", "flowend", "flown"} ->
         {EdgeOp(p[1], p[2], "") : p \in {q \in (K \cup {START}) \X (K \cup {END}) : q[1] # q[2]}}
         \cup {BranchOp(p[1], p[2], <<p[3], END>>, p[4]) : p \in {q \in (K \cup {START}) \X (IF Fam = "flown" THEN {"msa", "nmsa", "any"} ELSE T3) \X K \X (K \cup {END}) :
                                                                  q[1] # q[3] /\ q[4] \in {q[3], END}}}
    [] Fam = "flowio" ->
         {EdgeOp(p[1], p[2], "") : p \in {q \in (K \cup {START}) \X (K \cup {END}) : q[1] # q[2] /\ q[1] # "n2" /\ q # <<START, "n1">> /\ q # <<START, END>>}}
    [] Fam = "wfin" ->
         {EdgeOp(START, "n1", x) : x \in {"fm", "fm2", "dfm", "dfm2", "c"}} \cup {EdgeOp("n1", END, x) : x \in {"fm", "fm2", "dfm", "dfm2", "c"}}
         \cup {EdgeOp(START, END, x) : x \in {"fm", "dfm", "c"}}
    [] Fam = "flow2" ->
         {EdgeOp(p[1], p[2], "") : p \in (K \cup {START}) \X (K \cup {END})}
         \cup {BranchOp(p[1], p[2], <<p[3], p[4]>>, p[5]) : p \in {q \in (K \cup {START}) \X Ty \X K \X (K \cup {END}) \X (K \cup {END}) : q[3] # q[4] /\ q[5] = q[3]}}
    [] Fam \in {"seq", "seqs", "seqp"} ->
         {Plain("n1", "str", "str", "str"), Plain("n2", "str", "int", "int"), Plain(START, "str", "str", "str"), PassOp("p1", "", ""), PassOp(END, "", ""),
          NodeOp("n2", "str", "str", "str", "pre", "str"), NodeOp("n2", "str", "str", "str", "post", "int"), PassOp("p1", "pre", "any"), PassOp("p1", "pre", "str")}
         \cup {EdgeOp(p[1], p[2], "") : p \in {START, "n1", "n2", "p1", "zz"} \X {END, "n1", "n2", "p1", "zz"}}
         \cup {BranchOp(p[1], "str", p[2], p[2][1]) : p \in {START, "n1", "p1", "zz"} \X {<<END>>, <<"n1", END>>, <<"p1", END>>, <<"n1", "zz">>, <<"n1", "p1">>}}
    [] Fam = "brshare" ->
         {BranchOp(p[1], p[2], <<"n2", END>>, p[3]) : p \in {START, "n1", "n2"} \X {"any", "str"} \X {"n2", END}}
         \cup {[BranchOp(a, "str", <<"n2", END>>, END) EXCEPT !.x = "s1"] : a \in {START, "n1", "n2"}}
    [] Fam = "sub" ->
         {EdgeOp(p[1], p[2], "") : p \in {<<START, "n1">>, <<START, "p1">>, <<"p1", "n1">>, <<"n1", "p1">>, <<"n1", END>>, <<"p1", END>>, <<START, END>>}}
    [] Fam = "wfpt" -> {EdgeOp("n1", "p1", x) : x \in {"", "fm", "fmr"}} \cup {EdgeOp("p1", "n2", x) : x \in {"", "fmr"}}
    [] Fam = "subopt" -> {}
    [] Fam = "cyc" ->
         {EdgeOp(p[1], p[2], "") : p \in {q \in {"n1", "n2", "n3"} \X {"n1", "n2", "n3", END} : q[1] # q[2] /\ q # <<"n2", "n3">>}}
         \cup {BranchOp(p[1], "str", p[2], p[2][1]) : p \in {"n1", "n2", "n3"} \X {<<"n2", END>>, <<"n3", END>>, <<"n2", "n3">>}}
    [] Fam = "chain" ->  \* the chain names its nodes itself; the case uses the next free key
         \* (a chain that was refused by Compile can still be appended to, so more keys than MaxAdds are needed)
         LET free == {k \in {"n1", "n2", "n3", "n4", "n5", "n6"} : k \notin K}
             nk == IF free = {} THEN "n6" ELSE CHOOSE k \in free : \A k2 \in free : Ord6(k) <= Ord6(k2) IN
         {Plain(nk, "str", "str", "str"), Plain(nk, "str", "int", "int"), Plain(nk, "int", "str", "str")}
    [] Fam = "wf" -> {}
CompileAlphabet == IF Fam \in {"seq", "seqs", "seqp"} THEN {CompileOp("any", ""), CompileOp("all", ""), CompileOp("all", "maxsteps"), CompileOp("any", "maxsteps")}
                   ELSE IF Fam = "cyc" THEN {CompileOp("any", ""), CompileOp("all", "")}
                   ELSE IF Fam = "subopt" THEN {CompileOp("any", ""), CompileOp("all", ""), CompileOp("any", "maxsteps"), CompileOp("all", "maxsteps")}
                   ELSE IF Fam \in {"wf", "wfin"} THEN {CompileOp("any", ""), CompileOp("any", "maxsteps"), CompileOp("all", "")}
                   ELSE IF Fam = "chain" THEN {CompileOp("any", ""), CompileOp("all", ""), CompileOp("any", "maxsteps")}
                   ELSE {CompileOp("any", "")}
PostAlphabet(K) == IF Fam \in {"seq", "seqs", "seqp", "chain"} THEN Alphabet(K) \cup CompileAlphabet
                   ELSE IF Fam = "wf" THEN   \* on the retained *WorkflowNode handles (these calls return no error value)
                        {CompileOp("any", ""), CompileOp("any", "maxsteps"), StaticOp("n1", "s", "b"), StaticOp("n1", "s2", "b"), EdgeOp(START, "n1", "fm2")}
                   ELSE IF Fam \in {"wfin", "subopt", "wfpt"} THEN CompileAlphabet
                   ELSE {EdgeOp("n1", END, ""), PassOp("p9", "", ""), BranchOp(START, "any", <<"n1", END>>, END), CompileOp("any", "")}

--------------------------------------------------------------------------------
VARIABLES hdr, todo, plen,
          nodes, ctrl, data, brs, tv, mayE, preNode, fmk, berr, compiled, startN, endN,   \* the builder
          ch,                                                                             \* the Chain wrapper: sticky c.err, hasEnd, preNodeKeys
          wf,                                                                             \* the Workflow wrapper: deferred inputs, static values, mapped target paths
          snap,                                                                           \* handler maps as they were when the first runnable was made
          hist, outs, pc, cur
vars == <<hdr, todo, plen, nodes, ctrl, data, brs, tv, mayE, preNode, fmk, berr, compiled, startN, endN, ch, wf, snap, hist, outs, pc, cur>>
builder == <<nodes, ctrl, data, brs, tv, mayE, preNode, fmk, berr, compiled, startN, endN, ch, wf, snap>>
case == <<hdr, todo, plen, hist>>

AllKeys == {"n1", "n2", "n3", "n4", "n5", "n6", "p1", "p2", "p9", "zz"}
NoNode == [kind |-> "none", i |-> "nil", o |-> "nil", s |-> ""]     \* s: nested graph kind + compile options of a sub node
NoCur == [j |-> 0, a |-> "", b |-> "", rem |-> {}, op |-> CompileOp("", "")]
NoSnap == [set |-> FALSE, mayE |-> {}, brmay |-> <<>>, preNode |-> [k \in AllKeys |-> 0]]
Init == /\ \E x \in Inits : hdr = x[1] /\ todo = x[2] /\ plen = Len(x[2])
        /\ nodes = [k \in AllKeys |-> NoNode] /\ ctrl = {} /\ data = {} /\ brs = <<>> /\ tv = {} /\ mayE = {}
        /\ preNode = [k \in AllKeys |-> 0] /\ fmk = {}
        /\ wf = [dfr |-> <<>>, sv |-> {}, mapped |-> {}]
        /\ ch = [err |-> "", hasEnd |-> FALSE, pre |-> "", first |-> ""]
        /\ berr = 0 /\ compiled = FALSE /\ startN = FALSE /\ endN = FALSE /\ snap = NoSnap
        /\ hist = <<>> /\ outs = <<>> /\ pc = "idle" /\ cur = NoCur

Declared == {k \in AllKeys : nodes[k].kind # "none"}
Known(k) == k \in Declared
OutType(k) == IF k = START THEN hdr.gi ELSE IF k = END THEN hdr.go ELSE nodes[k].o
InType(k) == IF k = START THEN hdr.gi ELSE IF k = END THEN hdr.go ELSE nodes[k].i
IsPass(k) == Known(k) /\ nodes[k].kind = "pass"
\* utils.go checkAssignable: nil on either side is must-not
Check(o, i) == IF o = "nil" \/ i = "nil" THEN "mustnot" ELSE Assign(o, i)
Handlers == [mayE |-> mayE, brmay |-> [b \in 1..Len(brs) |-> brs[b].may], preNode |-> preNode]

Finish(o) == outs' = Append(outs, o) /\ pc' = "idle" /\ cur' = NoCur
Fail(j) == berr' = j /\ Finish("E")

--------------------------------------------------------------------------------
(* addNode *)
DoNode(op, j) ==
  LET pass == op.op = "pass"
      bad == \/ op.k \in {START, END} \/ Known(op.k)
             \/ (op.h # "" /\ ~hdr.state)
             \/ (op.h = "pre" /\ (IF pass THEN op.t # "any" ELSE op.t # op.i))
             \/ (op.h = "post" /\ (IF pass THEN op.t # "any" ELSE op.t # op.o))
  IN IF bad THEN Fail(j) /\ UNCHANGED <<nodes, ctrl, data, brs, tv, mayE, preNode, fmk, compiled, startN, endN, ch, wf, snap>>
     \* graph_node.go:94-120: an input / output key makes the node's type map[string]any BEFORE the nested graph's own type is looked at
     ELSE /\ nodes' = [nodes EXCEPT ![op.k] = [kind |-> IF pass THEN "pass" ELSE "typed", i |-> IF pass THEN "nil" ELSE EffIn(op), o |-> IF pass THEN "nil" ELSE EffOut(op),
                                                   s |-> IF op.op = "sub" THEN op.m ELSE ""]]
          /\ Finish("ok") /\ UNCHANGED <<ctrl, data, brs, tv, mayE, preNode, fmk, berr, compiled, startN, endN, ch, wf, snap>>

(* addEdgeWithMappings (control + data edge) up to the call of updateToValidateMap *)
DoEdge(op, j) ==
  LET a == op.a  b == op.b
      bad == a = END \/ b = START \/ (~Known(a) /\ a # START) \/ (~Known(b) /\ b # END) \/ <<a, b>> \in ctrl \/ <<a, b>> \in data
  IN IF bad THEN Fail(j) /\ UNCHANGED <<nodes, ctrl, data, brs, tv, mayE, preNode, fmk, compiled, startN, endN, ch, wf, snap>>
     ELSE /\ ctrl' = ctrl \cup {<<a, b>>} /\ startN' = (startN \/ a = START) /\ endN' = (endN \/ b = END)
          /\ tv' = tv \cup {<<a, b, op.x>>}
          /\ pc' = "upd" /\ cur' = [NoCur EXCEPT !.j = j, !.a = a, !.b = b, !.op = op]
          /\ UNCHANGED <<nodes, data, brs, mayE, preNode, fmk, berr, compiled, ch, wf, snap, outs>>

(* updateToValidateMap: one entry per micro-step, any processable one *)
Processable(p) == ~(OutType(p[1]) = "nil" /\ InType(p[2]) = "nil")
Pending == {p \in tv : Processable(p)}
UpdStep ==
  /\ pc \in {"upd", "brupd"} /\ Pending # {}
  /\ \E p \in Pending :
       LET s == p[1]  e == p[2]  so == OutType(s)  ei == InType(e)  r == Check(so, ei) IN
       /\ tv' = tv \ {p}
       /\ IF so # "nil" /\ ei = "nil" THEN   \* successor pass-through takes the predecessor's type
            /\ nodes' = [nodes EXCEPT ![e].i = so, ![e].o = so]
            /\ UNCHANGED <<mayE, fmk, berr, outs, pc, cur>>
          ELSE IF so = "nil" THEN            \* predecessor pass-through takes the successor's type
            /\ nodes' = [nodes EXCEPT ![s].i = ei, ![s].o = ei]
            /\ UNCHANGED <<mayE, fmk, berr, outs, pc, cur>>
          ELSE IF IsFM(p[3]) THEN            \* field mapping: no whole-value assignability check, converter recorded for the target
            /\ fmk' = fmk \cup {e} /\ UNCHANGED <<nodes, mayE, berr, outs, pc, cur>>
          ELSE IF r = "mustnot" THEN Fail(cur.j) /\ UNCHANGED <<nodes, mayE, fmk>>
          ELSE /\ mayE' = IF r = "may" THEN mayE \cup {<<s, e, ei>>} ELSE mayE     \* the converter checks against the end node's type as it is NOW
               /\ UNCHANGED <<nodes, fmk, berr, outs, pc, cur>>
  /\ UNCHANGED <<case, ctrl, data, brs, preNode, compiled, startN, endN, ch, wf, snap>>
UpdDone ==
  /\ pc \in {"upd", "brupd"} /\ Pending = {}
  /\ IF pc = "upd" THEN /\ data' = data \cup {<<cur.a, cur.b>>} /\ Finish("ok")
                   ELSE /\ pc' = "brloop" /\ UNCHANGED <<data, outs, cur>>
  /\ UNCHANGED <<case, nodes, ctrl, brs, tv, mayE, preNode, fmk, berr, compiled, startN, endN, ch, wf, snap>>

(* addBranch *)
DoBranch(op, j) ==
  LET a == op.a
      bad1 == a = END \/ (~Known(a) /\ a # START) \/ Len(op.ends) = 1
      over == a # START /\ IsPass(a) /\ (~FixD5 \/ nodes[a].o = "nil")    \* graph.go:466-470 re-types the pass-through unconditionally
      nodes2 == IF bad1 \/ ~over THEN nodes ELSE [nodes EXCEPT ![a].i = op.t, ![a].o = op.t]
      so == IF a = START THEN hdr.gi ELSE IF bad1 THEN "nil" ELSE nodes2[a].o
      r == Check(so, op.t)
  IN IF bad1 \/ r = "mustnot" THEN Fail(j) /\ UNCHANGED <<nodes, ctrl, data, brs, tv, mayE, preNode, fmk, compiled, startN, endN, ch, wf, snap>>
     ELSE /\ nodes' = nodes2
          /\ pc' = "brloop" /\ cur' = [NoCur EXCEPT !.j = j, !.a = a, !.b = r, !.rem = Range(op.ends), !.op = op]
          /\ UNCHANGED <<ctrl, data, brs, tv, mayE, preNode, fmk, berr, compiled, startN, endN, ch, wf, snap, outs>>
BrLoop ==
  /\ pc = "brloop"
  /\ IF cur.rem = {} THEN
       /\ brs' = Append(brs, [a |-> cur.a, t |-> cur.op.t, ends |-> Range(cur.op.ends), c |-> cur.op.c, may |-> cur.b = "may", j |-> cur.j,
                            \* graph.go:464 writes the position into the branch OBJECT (shared objects keep the last one); the runner
                            \* finds a branch's checker by its position in the start node's own list (graph_run.go calculateBranch)
                            obj |-> cur.op.x, idx |-> Cardinality({b \in 1..Len(brs) : brs[b].a = cur.a})])
       /\ Finish("ok") /\ UNCHANGED <<tv, berr, startN, endN>>
     ELSE \E e \in cur.rem :
       IF ~Known(e) /\ e # END THEN Fail(cur.j) /\ UNCHANGED <<brs, tv, startN, endN>>
       ELSE /\ tv' = tv \cup {<<cur.a, e, "">>} /\ startN' = (startN \/ cur.a = START) /\ endN' = (endN \/ e = END)
            /\ cur' = [cur EXCEPT !.rem = cur.rem \ {e}] /\ pc' = "brupd"
            /\ UNCHANGED <<brs, berr, outs>>
  /\ UNCHANGED <<case, nodes, ctrl, data, mayE, preNode, fmk, compiled, ch, wf, snap>>

(* compile *)
\* validateDAG: repeatedly release the nodes all of whose non-START control predecessors are released
CtrlPairs == ctrl \cup UNION {{<<brs[b].a, e>> : e \in brs[b].ends} : b \in 1..Len(brs)}
Untyped == {k \in Declared : nodes[k].i = "nil"}
\* a nested graph compiled with its node's options refuses a step limit when its effective mode is all-predecessor
SubRefused(h) == h \in {"gallms", "wfms"}
DagOKOn(C) == LET RECURSIVE Rel(_)
                  Rel(R) == LET R2 == R \cup {n \in Declared : \A p \in C : (p[2] = n /\ p[1] # START) => p[1] \in R} IN IF R2 = R THEN R ELSE Rel(R2)
              IN Rel({}) = Declared

(* Workflow wrapper (workflow.go:167-336, :406-481): AddInput / AddInputWithOptions / AddDependency only record a closure; Compile    *)
(* performs them in declaration order: target-path bookkeeping (checkAndAddMappedPath) first, then addEdgeWithMappings with          *)
(* noControl (WithNoDirectDependency) or noData (AddDependency); then the static values of every node are checked against the        *)
(* mapped paths and installed as a pre-node handler built from a SNAPSHOT of the values.                                            *)
PathOf(x) == CASE x \in {"fm", "dfm"} -> "k" [] x = "fmr" -> "K" [] x \in {"fm2", "dfm2"} -> "k2" [] x = "c" -> "" [] OTHER -> "*"
NoCtrl(x) == x \in {"dfm", "dfm2"}
NoData(x) == x = "c"
\* types during the fold (R.nodes), worklist R.pend as in updateToValidateMap.  As coded a pass-through end takes the other end's type
\* also across an edge WITH field mappings (where the two types are not meant to be equal); FixD30: such an entry waits until both
\* ends are typed (fixes/D30-*.diff)
OutOn(N, k) == IF k = START THEN hdr.gi ELSE IF k = END THEN hdr.go ELSE N[k].o
InOn(N, k) == IF k = START THEN hdr.gi ELSE IF k = END THEN hdr.go ELSE N[k].i
ProcOn(N, p) == LET so == OutOn(N, p[1])  ei == InOn(N, p[2]) IN
                /\ ~(so = "nil" /\ ei = "nil")
                /\ ((FixD30 /\ IsFM(p[3])) => (so # "nil" /\ ei # "nil"))
\* the mapped-edge part of updateToValidateMap (graph.go:573-593; it also runs right after an inference across that edge):
\* field_mapping.go validateFieldMapping, static part -- the source must have key k (a map), the target the mapped key / field:
\* "fmr" names field K (struct rec or a map), the others key k / k2 (a map; the harness names K for a DECLARED rec node)
FmStep(Rp, p, so, ei) ==
  IF so \in {"msa", "nmsa", "any"}
     /\ (IF p[3] = "fmr" THEN ei \in {"rec", "msa", "any"}
         ELSE ei \in {"msa", "any"} \/ (ei = "rec" /\ p[2] # END /\ nodes[p[2]].kind = "typed"))
  THEN [Rp EXCEPT !.fmk = Rp.fmk \cup {p[2]}]
  ELSE [Rp EXCEPT !.res = "E", !.sticky = TRUE]
RECURSIVE Settle(_)
Settle(R) ==
  LET P == {p \in R.pend : ProcOn(R.nodes, p)} IN
  IF P = {} \/ R.res # "ok" THEN R
  ELSE LET p == CHOOSE q \in P : TRUE  so == OutOn(R.nodes, p[1])  ei == InOn(R.nodes, p[2])
           Rp == [R EXCEPT !.pend = R.pend \ {p}]
           Rfwd == [Rp EXCEPT !.nodes[p[2]].i = so, !.nodes[p[2]].o = so]
           Rbwd == [Rp EXCEPT !.nodes[p[1]].i = ei, !.nodes[p[1]].o = ei]
       IN Settle(IF so # "nil" /\ ei = "nil" THEN (IF IsFM(p[3]) THEN FmStep(Rfwd, p, so, so) ELSE Rfwd)
                 ELSE IF so = "nil" THEN (IF IsFM(p[3]) THEN FmStep(Rbwd, p, ei, ei) ELSE Rbwd)
                 ELSE IF IsFM(p[3]) THEN FmStep(Rp, p, so, ei)
                 ELSE IF Check(so, ei) = "mustnot" THEN [Rp EXCEPT !.res = "E", !.sticky = TRUE]
                 ELSE Rp)
\* the inputs are performed node by node in the iteration order of the workflowNodes MAP (ord = some order of the target nodes),
\* each node's inputs in declaration order
PermSeqs(T) == {q \in [1..Cardinality(T) -> T] : \A x, y \in 1..Cardinality(T) : q[x] = q[y] => x = y}
WfOrders == IF hdr.fe = "wf" THEN PermSeqs({wf.dfr[i].b : i \in 1..Len(wf.dfr)}) ELSE {<<>>}
IdxSeq(ord) == LET all == [i \in 1..Len(wf.dfr) |-> i]
                   F[k \in 0..Len(ord)] == IF k = 0 THEN <<>> ELSE F[k - 1] \o SelectSeq(all, LAMBDA i : wf.dfr[i].b = ord[k])
               IN F[Len(ord)]
RECURSIVE WfFold(_, _, _)
WfFold(i, R, idx) ==
  IF i > Len(idx) \/ R.res # "ok" THEN R
  ELSE LET e == wf.dfr[idx[i]]  a == e.a  b == e.b  p == PathOf(e.x)
           clash == p # "" /\ \E m \in R.mapped : m[1] = b /\ (m[2] = p \/ m[2] = "*" \/ p = "*")
           unknown == a = END \/ b = START \/ (~Known(a) /\ a # START) \/ (~Known(b) /\ b # END)
           dupc == ~NoCtrl(e.x) /\ <<a, b>> \in R.ctrl
           dupd == ~NoData(e.x) /\ <<a, b>> \in R.data
           R1 == [R EXCEPT !.mapped = IF p = "" THEN R.mapped ELSE R.mapped \cup {<<b, p>>}]
           R2 == IF NoCtrl(e.x) THEN R1 ELSE [R1 EXCEPT !.ctrl = R1.ctrl \cup {<<a, b>>}, !.startN = R1.startN \/ a = START, !.endN = R1.endN \/ b = END]
           R3 == IF NoData(e.x) THEN R2 ELSE Settle([R2 EXCEPT !.pend = R2.pend \cup {<<a, b, e.x>>}])
           R4 == IF NoData(e.x) \/ R3.res # "ok" THEN R3 ELSE [R3 EXCEPT !.data = R3.data \cup {<<a, b>>}]
       IN IF clash THEN [R EXCEPT !.res = "E"]                          \* a workflow-level error, not recorded in buildError
          ELSE IF compiled THEN [R1 EXCEPT !.res = "C"]                   \* graph.go:235 (before the deferred recorder of buildError)
          ELSE IF unknown \/ dupc THEN [R1 EXCEPT !.res = "E", !.sticky = TRUE]
          ELSE IF dupd THEN [R2 EXCEPT !.res = "E", !.sticky = TRUE]       \* graph.go:277-282, also when this declaration carries control
          ELSE WfFold(i + 1, R4, idx)

DoCompileO(op, j, ord) ==
  LET isWf == hdr.fe = "wf"
      \* chain.go:88-121 addEndIfNeeded: END edge added once; before that the chain's own sticky error c.err is returned.
      \* Error VALUES (the harness tells "the very error seen before" from a new one): B = gg.buildError (= c.err of a failed Append*),
      \* X = ErrChainCompiled stored by a refused Append*, F = a fresh error
      isCh == hdr.fe = "chain"
      chV == IF ~isCh \/ ch.hasEnd THEN ""
             ELSE IF ch.err = "compiled" THEN "X" ELSE IF ch.err = "build" THEN "B"
             ELSE IF ch.pre = "" THEN "F"
             ELSE IF berr # 0 THEN "B"
             ELSE IF Check(OutType(ch.pre), hdr.go) = "mustnot" THEN "B!"      \* the END edge is refused now and recorded in buildError
             ELSE ""
      addEnd == isCh /\ ~ch.hasEnd /\ chV = ""
      endP == IF addEnd THEN {<<ch.pre, END>>} ELSE {}
      R0 == [ctrl |-> ctrl \cup endP, data |-> data \cup endP, fmk |-> fmk, startN |-> startN, endN |-> endN \/ addEnd, mapped |-> wf.mapped, res |-> "ok", sticky |-> FALSE,
             nodes |-> nodes, pend |-> tv]
      R == IF isWf /\ berr = 0 THEN WfFold(1, R0, IdxSeq(ord)) ELSE R0
      UntypedR == {k \in Declared : R.nodes[k].i = "nil"}
      \* workflow.go:436-447: a static value's path must not be mapped yet -- after a first Compile its own path is
      svClash == isWf /\ R.res = "ok" /\ \E m \in wf.sv : m \in R.mapped
      wfres == IF R.res # "ok" THEN R.res ELSE IF svClash THEN "E" ELSE "ok"
      err1 == ~R.startN \/ ~R.endN \/ R.pend # {} \/ (FixD15 /\ UntypedR # {})
      \* graph.go:673-685: one more pre-node converter per field-mapped target, appended to the map the runners share
      pre2 == IF FixD7 THEN preNode ELSE [k \in AllKeys |-> IF k \in R.fmk THEN preNode[k] + 1 ELSE preNode[k]]
      dag == op.m = "all" \/ isWf
      cpairs == R.ctrl \cup UNION {{<<brs[b].a, e>> : e \in brs[b].ends} : b \in 1..Len(brs)}
      res0 == IF berr # 0 THEN "S"
             ELSE IF wfres # "ok" THEN wfres
             ELSE IF isWf /\ op.m = "all" THEN "E"          \* graph.go:640-644: chain and workflow refuse the trigger-mode option
             ELSE IF err1 THEN "E"
             \* graph.go:697-705 compileIfNeeded: a nested graph is compiled with the node's own compile options, its refusal is the parent's
             ELSE IF \E k \in Declared : SubRefused(nodes[k].s) THEN "E"
             ELSE IF dag /\ ~DagOKOn(cpairs) THEN "E"
             ELSE IF UntypedR # {} THEN "P"              \* graph.go:809-811 dereferences the nil genericHelper of an untyped node
             ELSE IF dag /\ op.x = "maxsteps" THEN "E"      \* graph.go:853: tested on the DERIVED mode (a workflow is all-predecessor by kind)
             ELSE "ok"
      \* graph.go:640-644: a chain refuses the trigger-mode option (after addEndIfNeeded)
      V == IF chV # "" THEN (IF chV = "B!" THEN "B" ELSE chV)
           ELSE IF isCh /\ op.m = "all" THEN "F"
           ELSE IF isCh /\ res0 = "S" THEN "B" ELSE IF isCh /\ res0 = "E" THEN "F" ELSE ""
      res == IF ~isCh \/ V = "" THEN res0
             ELSE IF ch.first # "" /\ V # "F" /\ ch.first = V THEN "S" ELSE "E"
      mutates == berr = 0 /\ wfres = "ok" /\ ~err1 /\ V = ""
  IN /\ preNode' = IF mutates THEN pre2 ELSE preNode
     /\ compiled' = (compiled \/ res = "ok")
     /\ snap' = IF res = "ok" /\ ~snap.set THEN [set |-> TRUE, mayE |-> mayE, brmay |-> Handlers.brmay, preNode |-> pre2] ELSE snap
     /\ ctrl' = R.ctrl /\ data' = R.data /\ fmk' = R.fmk /\ startN' = R.startN /\ endN' = R.endN
     /\ berr' = IF R.sticky \/ chV = "B!" THEN j ELSE berr
     /\ ch' = [ch EXCEPT !.hasEnd = ch.hasEnd \/ addEnd, !.first = IF V # "" /\ ch.first = "" THEN V ELSE ch.first]
     /\ wf' = [wf EXCEPT !.dfr = IF isWf /\ berr = 0 /\ R.res = "ok" THEN <<>> ELSE wf.dfr,
                         !.mapped = IF wfres = "ok" /\ berr = 0 THEN R.mapped \cup wf.sv ELSE R.mapped]
     /\ Finish(res)
     /\ nodes' = R.nodes /\ tv' = R.pend
     /\ UNCHANGED <<brs, mayE>>
DoCompile(op, j) == \E ord \in WfOrders : DoCompileO(op, j, ord)

--------------------------------------------------------------------------------
(* chain.go:522-566 Chain.addNode (the Append calls): returns nothing, the first failure is kept in c.err and reported by Compile.          *)
(* Only typed nodes are appended here, so the edge from the previous node is validated at once (no worklist).                      *)
DoAppend(op, j) ==
  LET prev == IF ch.pre = "" THEN START ELSE ch.pre
      r == Check(OutType(prev), op.i)
      node == [kind |-> "typed", i |-> op.i, o |-> op.o, s |-> ""]
  IN /\ Finish("ok")
     /\ IF ch.err # "" THEN UNCHANGED builder
        ELSE IF compiled THEN ch' = [ch EXCEPT !.err = "compiled"]        \* refused: ErrChainCompiled goes into c.err
                              /\ UNCHANGED <<nodes, ctrl, data, brs, tv, mayE, preNode, fmk, berr, compiled, startN, endN, wf, snap>>
        ELSE /\ nodes' = [nodes EXCEPT ![op.k] = node]
             /\ ctrl' = ctrl \cup {<<prev, op.k>>} /\ startN' = (startN \/ prev = START)
             /\ IF r = "mustnot" THEN berr' = j /\ ch' = [ch EXCEPT !.err = "build"] /\ UNCHANGED <<data, mayE>>
                ELSE /\ data' = data \cup {<<prev, op.k>>}
                     /\ mayE' = IF r = "may" THEN mayE \cup {<<prev, op.k, op.i>>} ELSE mayE
                     /\ ch' = [ch EXCEPT !.pre = op.k] /\ berr' = berr
             /\ UNCHANGED <<brs, tv, preNode, fmk, compiled, endN, wf, snap>>

Call(op) ==
  /\ pc = "idle"
  /\ hist' = Append(hist, op)
  /\ LET j == Len(hist) + 1 IN
     IF op.op = "compile" THEN DoCompile(op, j)
     ELSE IF op.op = "static" THEN      \* WorkflowNode.SetStaticValue: writes the node's own map, no check of any kind
          /\ wf' = [wf EXCEPT !.sv = wf.sv \cup {<<op.k, op.x>>}] /\ Finish("ok")
          /\ UNCHANGED <<nodes, ctrl, data, brs, tv, mayE, preNode, fmk, berr, compiled, startN, endN, ch, snap>>
     ELSE IF hdr.fe = "wf" /\ op.op = "edge" THEN    \* deferred to Compile; the call itself returns nothing
          /\ wf' = [wf EXCEPT !.dfr = Append(wf.dfr, op)] /\ Finish("ok")
          /\ UNCHANGED <<nodes, ctrl, data, brs, tv, mayE, preNode, fmk, berr, compiled, startN, endN, ch, snap>>
     ELSE IF hdr.fe = "chain" /\ op.op = "node" THEN DoAppend(op, j)
     ELSE IF berr # 0 THEN Finish("S") /\ UNCHANGED builder                 \* sticky build error first ...
     ELSE IF compiled THEN Finish("C") /\ UNCHANGED builder                \* ... then the compiled flag
     ELSE IF op.op \in {"node", "sub", "pass"} THEN DoNode(op, j)
     ELSE IF op.op = "edge" THEN DoEdge(op, j)
     ELSE DoBranch(op, j)

NBr == Cardinality({j \in 1..Len(hist) : hist[j].op = "branch"})
NAdd == Cardinality({j \in 1..Len(hist) : IsAdd(hist[j])})
FirstCompileIdx == FirstIn(1..Len(hist), LAMBDA j : hist[j].op = "compile")
AfterErr == IF berr = 0 THEN 0 ELSE Len(hist) - berr
Panicked == \E j \in 1..Len(outs) : outs[j] = "P"
Prologue == /\ todo # <<>> /\ Call(Head(todo)) /\ todo' = Tail(todo) /\ UNCHANGED <<hdr, plen>>
\* workflow front end: nothing more is tried after a Compile that failed (the wrapper's bookkeeping is then half done)
\* workflow front end: after a Compile that failed only one more Compile is tried (does the refusal last?); the wrapper's bookkeeping
\* is half done then, and what a third call returns depends on the iteration order of the node map
WfFailIdx == IF hdr.fe = "wf" THEN FirstIn(1..Len(outs), LAMBDA i : hist[i].op = "compile" /\ outs[i] # "ok") ELSE 0
WfStopped == WfFailIdx # 0 /\ Len(hist) > WfFailIdx
Free ==
  /\ todo = <<>> /\ pc = "idle" /\ ~Panicked /\ ~WfStopped /\ UNCHANGED <<hdr, todo, plen>>
  /\ LET K == Declared  fc == FirstCompileIdx IN
     IF fc = 0 THEN
        \/ \E op \in Alphabet(K) : /\ NAdd - plen < MaxAdds
                                  /\ (berr = 0 \/ AfterErr < MaxAfterErr)
                                  /\ (op.op = "branch" => NBr < MaxBr)
                                  /\ Call(op)
        \/ \E op \in CompileAlphabet : Call(op)
     ELSE \E op \in PostAlphabet(K) : /\ Len(hist) - fc < MaxPost
                                        /\ (WfFailIdx # 0 => (op.op = "compile" /\ op.m = hist[WfFailIdx].m /\ op.x = hist[WfFailIdx].x))
                                        /\ Call(op)
Next == Prologue \/ Free \/ UpdStep \/ UpdDone \/ BrLoop
Spec == Init /\ [][Next]_vars

--------------------------------------------------------------------------------
(* Property level, on the model's own history *)
AtRest == pc = "idle"
Why == IF AtRest THEN OutcomeWhy(hdr, hist, outs) ELSE ""
NoPanic == Why # "call-panicked"                 \* C20: never a panic
Sticky == Why # "error-not-sticky"                \* C20: the first Add* error sticks
Reject == Why # "illformed-accepted"              \* C20: ill-formed constructions are rejected
FrozenCalls == Why # "modified-after-compile"     \* C20: no Add* succeeds after a successful Compile
Static == Why # "accepted-concrete-mismatch"      \* C07: no accepted connection between different concrete types
AllOutcome == Why = ""
\* C20: what the first runnable shares with the builder stays as it was when the runnable was made
FrozenMaps == snap.set => (snap.mayE = mayE /\ snap.brmay = Handlers.brmay /\ snap.preNode = preNode)
\* C07: given where run-time converters were installed, no dynamic value of a wrong type reaches a concretely typed consumer
Conn == data \cup UNION {{<<brs[b].a, e>> : e \in brs[b].ends} : b \in 1..Len(brs)}
FlowNodes == Declared \cup {START}
RECURSIVE DFlow(_)
DFlow(V) ==
  LET arrive(s, e) == {d \in V[s] : \A m \in mayE : (m[1] = s /\ m[2] = e) => DynOK(d, m[3])}
      inp(n) == UNION {arrive(p[1], n) : p \in {q \in Conn : q[2] = n}}
      V2 == [n \in FlowNodes |-> IF n = START THEN DynOf(hdr.gi)
                                  ELSE IF nodes[n].kind = "typed" THEN (IF inp(n) = {} THEN {} ELSE DynOf(nodes[n].o))
                                  ELSE inp(n)]
  IN IF V2 = V THEN V ELSE DFlow(V2)
VF == DFlow([n \in FlowNodes |-> IF n = START THEN DynOf(hdr.gi) ELSE {}])
Arrive(s, e) == {d \in VF[s] : \A m \in mayE : (m[1] = s /\ m[2] = e) => DynOK(d, m[3])}
Sound == (AtRest /\ compiled /\ Untyped = {}) =>
           /\ \A p \in Conn : (p[2] = END \/ nodes[p[2]].kind = "typed") => \A d \in Arrive(p[1], p[2]) : DynOK(d, InType(p[2]))
           /\ \A b \in 1..Len(brs) : \A d \in (IF brs[b].may THEN {x \in VF[brs[b].a] : DynOK(x, brs[b].t)} ELSE VF[brs[b].a]) : DynOK(d, brs[b].t)

--------------------------------------------------------------------------------
(* Conformance cases: every maximal history *)
Terminal == /\ AtRest /\ todo = <<>> /\ FirstCompileIdx # 0
            /\ (Len(hist) - FirstCompileIdx = MaxPost \/ Panicked \/ WfStopped)
Emit == Terminal => PrintT(<<"CASE", ToJson([fe |-> hdr.fe, gi |-> hdr.gi, go |-> hdr.go, state |-> hdr.state, ops |-> hist, pred |-> outs])>>)
================================================================================
