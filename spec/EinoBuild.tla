------------------------------- MODULE EinoBuild -------------------------------
(***************************************************************************)
(* Implementation-shaped model of eino's graph builder                     *)
(*   compose/graph.go  addNode :161-229, addEdgeWithMappings :231-293,     *)
(*                     addBranch :434-510, addToValidateMap /              *)
(*                     updateToValidateMap :512-595, compile :632-834,     *)
(*                     validateDAG :1006-1051                              *)
(*   compose/utils.go  checkAssignable :287-307                            *)
(*   compose/workflow.go compile :406-481 (deferred inputs, static values) *)
(* State = the fields of *graph that decide acceptance and what the        *)
(* compiled runner shares with the builder:                                *)
(*   nodes (key -> declared or inferred in/out type, "nil" = untyped       *)
(*   pass-through), control edges, data edges, branches, startNodes /      *)
(*   endNodes non-empty, the toValidateMap worklist, the handler maps      *)
(*   (run-time converters on may-assignable edges and branches, pre-node   *)
(*   converters of field mappings), sticky buildError, compiled flag.      *)
(* One action per call; the worklist loop of updateToValidateMap is a      *)
(* sequence of micro-steps, each on an ARBITRARY processable entry (Go map *)
(* iteration order), and the end nodes of a branch are visited in          *)
(* arbitrary order for the same reason.                                    *)
(*                                                                         *)
(* FixD5 / FixD15 / FixD7 = FALSE is the code as it is; TRUE the proposed   *)
(* repairs (fixes/D5-*.diff, D15-*.diff, D7-*.diff).                        *)
(*                                                                         *)
(* The invariants are the property-level definitions of BuildRule.tla      *)
(* applied to the model's own history (calls + outcomes), plus Sound:      *)
(* given where the model installed run-time converters, no dynamic value   *)
(* of a wrong type can arrive at a concretely typed consumer.              *)
(* Terminal histories are printed as conformance cases (Emit).             *)
(***************************************************************************)
EXTENDS BuildRule

CONSTANTS Fam,          \* alphabet family, see below
          MaxAdds,      \* Add* calls before the (first) Compile, after the prologue
          MaxPost,      \* calls after the first Compile
          MaxBr,        \* branch calls
          MaxAfterErr,  \* calls after the first failed Add* (stickiness)
          FixD5, FixD15, FixD7

--------------------------------------------------------------------------------
(* Alphabets.  Sequences start with a prologue chosen in Init (declaring    *)
(* nodes is not where orders matter), then any order of the family's calls. *)

T3 == {"str", "int", "any"}
Hdr(fe, gi, go, st) == [fe |-> fe, gi |-> gi, go |-> go, state |-> st]
Plain(k, i, o, e) == NodeOp(k, i, o, e, "", "")
\* typed-node declarations of the flow families: (in, out, emitted dynamic type)
N1Flow == {Plain("n1", "str", "str", "str"), Plain("n1", "any", "int", "int"), Plain("n1", "int", "any", "str"), Plain("n1", "any", "any", "int")}
N1Wide == {Plain("n1", x[1], x[2], x[3]) : x \in {y \in Ty \X Ty \X Dyn : DynOK(y[3], y[2])}}

N1Mid == {Plain("n1", "str", "iface", "impl"), Plain("n1", "any", "iface", "impl2"), Plain("n1", "iface", "impl", "impl"), Plain("n1", "impl", "any", "msa"),
          Plain("n1", "msa", "msa", "msa"), Plain("n1", "int", "str", "str"), Plain("n1", "any", "any", "impl"), Plain("n1", "iface", "any", "impl2")}
N2Mid == {Plain("n2", "impl", "str", "str"), Plain("n2", "iface", "int", "int"), Plain("n2", "str", "any", "int"), Plain("n2", "any", "msa", "msa"), Plain("n2", "msa", "iface", "impl2")}
Inits ==
  CASE Fam = "flow" ->   \* C07 tight universe: one typed node, two pass-through nodes, 3 types
         {<<Hdr("graph", gi, "any", FALSE), <<n, PassOp("p1", "", "")>> \o tail>> :
             gi \in {"str", "any"}, n \in N1Flow, tail \in {<<>>, <<PassOp("p2", "", "")>>}}
    [] Fam = "flowend" ->   \* concretely typed graph output
         {<<Hdr("graph", gi, "str", FALSE), <<n, PassOp("p1", "", "")>>>> : gi \in {"str", "any"}, n \in N1Flow}
    [] Fam = "flow2" ->  \* two typed nodes, all six types (sampled)
         {<<Hdr("graph", gi, go, FALSE), <<n, m, PassOp("p1", "", ""), PassOp("p2", "", "")>>>> :
             gi \in Ty, go \in {"any", "str", "iface"}, n \in N1Mid, m \in N2Mid}
    [] Fam = "seq" ->    \* C20: whole call sequences with every kind of violation
         {<<Hdr("graph", "str", "str", FALSE), <<>>>>}
    [] Fam = "seqp" ->   \* the same on top of a well-formed graph: a violation (or a cycle, a duplicate ...) at the end of a valid construction
         {<<Hdr("graph", "str", "str", FALSE), <<Plain("n1", "str", "str", "str"), Plain("n2", "str", "str", "str"), EdgeOp(START, "n1", ""), EdgeOp("n1", END, "")>>>>}
    [] Fam = "seqs" ->   \* the same with graph state (state handlers legal)
         {<<Hdr("graph", "str", "str", TRUE), <<Plain("n1", "str", "str", "str")>>>>}
    [] Fam = "wf" ->     \* workflow front end: field mappings, compiled twice
         {<<Hdr("wf", "msa", "msa", FALSE), <<[Plain("n1", i, "msa", "msa") EXCEPT !.x = x], EdgeOp(START, "n1", "fm"), EdgeOp("n1", END, "fm")>>>> :
             i \in {"rec", "msa"}, x \in {"", "sv"}}      \* x = "sv": the node also has a static value (workflow.go:436-476)

FlowKeys == {"n1", "n2", "p1", "p2"}
SeqKeys == {"n1", "p1"}
Alphabet(K) ==   \* K = keys declared so far
  CASE Fam \in {"flow", "flowend"} ->
         {EdgeOp(p[1], p[2], "") : p \in {q \in (K \cup {START}) \X (K \cup {END}) : q[1] # q[2]}}
         \cup {BranchOp(p[1], p[2], <<p[3], END>>, p[4]) : p \in {q \in (K \cup {START}) \X T3 \X K \X (K \cup {END}) : q[1] # q[3] /\ q[4] \in {q[3], END}}}
    [] Fam = "flow2" ->
         {EdgeOp(p[1], p[2], "") : p \in (K \cup {START}) \X (K \cup {END})}
         \cup {BranchOp(p[1], p[2], <<p[3], p[4]>>, p[5]) : p \in {q \in (K \cup {START}) \X Ty \X K \X (K \cup {END}) \X (K \cup {END}) : q[3] # q[4] /\ q[5] = q[3]}}
    [] Fam \in {"seq", "seqs", "seqp"} ->
         {Plain("n1", "str", "str", "str"), Plain("n2", "str", "int", "int"), Plain(START, "str", "str", "str"), PassOp("p1", "", ""), PassOp(END, "", ""),
          NodeOp("n2", "str", "str", "str", "pre", "str"), NodeOp("n2", "str", "str", "str", "post", "int"), PassOp("p1", "pre", "any"), PassOp("p1", "pre", "str")}
         \cup {EdgeOp(p[1], p[2], "") : p \in {START, "n1", "n2", "p1", "zz"} \X {END, "n1", "n2", "p1", "zz"}}
         \cup {BranchOp(p[1], "str", p[2], p[2][1]) : p \in {START, "n1", "p1", "zz"} \X {<<END>>, <<"n1", END>>, <<"p1", END>>, <<"n1", "zz">>, <<"n1", "p1">>}}
    [] Fam = "wf" -> {}
CompileAlphabet == IF Fam \in {"seq", "seqs", "seqp"} THEN {CompileOp("any", ""), CompileOp("all", ""), CompileOp("all", "maxsteps"), CompileOp("any", "maxsteps")}
                   ELSE {CompileOp("any", "")}
PostAlphabet(K) == IF Fam \in {"seq", "seqs", "seqp"} THEN Alphabet(K) \cup CompileAlphabet
                   ELSE IF Fam = "wf" THEN {CompileOp("any", "")}     \* (the workflow Add* calls return no error value)
                   ELSE {EdgeOp("n1", END, ""), PassOp("p9", "", ""), BranchOp(START, "any", <<"n1", END>>, END), CompileOp("any", "")}

--------------------------------------------------------------------------------
VARIABLES hdr, todo, plen,
          nodes, ctrl, data, brs, tv, mayE, preNode, fmk, berr, compiled, startN, endN,   \* the builder
          snap,                                                                           \* handler maps as they were when the first runnable was made
          hist, outs, pc, cur
vars == <<hdr, todo, plen, nodes, ctrl, data, brs, tv, mayE, preNode, fmk, berr, compiled, startN, endN, snap, hist, outs, pc, cur>>
builder == <<nodes, ctrl, data, brs, tv, mayE, preNode, fmk, berr, compiled, startN, endN, snap>>
case == <<hdr, todo, plen, hist>>

AllKeys == {"n1", "n2", "p1", "p2", "p9", "zz"}
NoNode == [kind |-> "none", i |-> "nil", o |-> "nil"]
NoCur == [j |-> 0, a |-> "", b |-> "", rem |-> {}, op |-> CompileOp("", "")]
NoSnap == [set |-> FALSE, mayE |-> {}, brmay |-> <<>>, preNode |-> [k \in AllKeys |-> 0]]
Init == /\ \E x \in Inits : hdr = x[1] /\ todo = x[2] /\ plen = Len(x[2])
        /\ nodes = [k \in AllKeys |-> NoNode] /\ ctrl = {} /\ data = {} /\ brs = <<>> /\ tv = {} /\ mayE = {}
        /\ preNode = [k \in AllKeys |-> 0] /\ fmk = {}
        /\ berr = 0 /\ compiled = FALSE /\ startN = FALSE /\ endN = FALSE /\ snap = NoSnap
        /\ hist = <<>> /\ outs = <<>> /\ pc = "idle" /\ cur = NoCur

Declared == {k \in AllKeys : nodes[k].kind # "none"}
Known(k) == k \in Declared
OutType(k) == IF k = START THEN hdr.gi ELSE IF k = END THEN hdr.go ELSE nodes[k].o
InType(k) == IF k = START THEN hdr.gi ELSE IF k = END THEN hdr.go ELSE nodes[k].i
IsPass(k) == Known(k) /\ nodes[k].kind = "pass"
\* utils.go checkAssignable: nil on either side is must-not
Check(o, i) == IF o = "nil" \/ i = "nil" THEN "mustnot" ELSE Assign(o, i)
Handlers == [mayE |-> mayE, brmay |-> [b \in 1..Len(brs) |-> brs[b].may], preNode |-> preNode]

Finish(o) == outs' = Append(outs, o) /\ pc' = "idle" /\ cur' = NoCur
Fail(j) == berr' = j /\ Finish("E")

--------------------------------------------------------------------------------
(* addNode *)
DoNode(op, j) ==
  LET pass == op.op = "pass"
      bad == \/ op.k \in {START, END} \/ Known(op.k)
             \/ (op.h # "" /\ ~hdr.state)
             \/ (op.h = "pre" /\ (IF pass THEN op.t # "any" ELSE op.t # op.i))
             \/ (op.h = "post" /\ (IF pass THEN op.t # "any" ELSE op.t # op.o))
  IN IF bad THEN Fail(j) /\ UNCHANGED <<nodes, ctrl, data, brs, tv, mayE, preNode, fmk, compiled, startN, endN, snap>>
     ELSE /\ nodes' = [nodes EXCEPT ![op.k] = [kind |-> IF pass THEN "pass" ELSE "typed", i |-> IF pass THEN "nil" ELSE op.i, o |-> IF pass THEN "nil" ELSE op.o]]
          /\ Finish("ok") /\ UNCHANGED <<ctrl, data, brs, tv, mayE, preNode, fmk, berr, compiled, startN, endN, snap>>

(* addEdgeWithMappings (control + data edge) up to the call of updateToValidateMap *)
DoEdge(op, j) ==
  LET a == op.a  b == op.b
      bad == a = END \/ b = START \/ (~Known(a) /\ a # START) \/ (~Known(b) /\ b # END) \/ <<a, b>> \in ctrl \/ <<a, b>> \in data
  IN IF bad THEN Fail(j) /\ UNCHANGED <<nodes, ctrl, data, brs, tv, mayE, preNode, fmk, compiled, startN, endN, snap>>
     ELSE /\ ctrl' = ctrl \cup {<<a, b>>} /\ startN' = (startN \/ a = START) /\ endN' = (endN \/ b = END)
          /\ tv' = tv \cup {<<a, b, op.x>>}
          /\ pc' = "upd" /\ cur' = [NoCur EXCEPT !.j = j, !.a = a, !.b = b, !.op = op]
          /\ UNCHANGED <<nodes, data, brs, mayE, preNode, fmk, berr, compiled, snap, outs>>

(* updateToValidateMap: one entry per micro-step, any processable one *)
Processable(p) == ~(OutType(p[1]) = "nil" /\ InType(p[2]) = "nil")
Pending == {p \in tv : Processable(p)}
UpdStep ==
  /\ pc \in {"upd", "brupd"} /\ Pending # {}
  /\ \E p \in Pending :
       LET s == p[1]  e == p[2]  so == OutType(s)  ei == InType(e)  r == Check(so, ei) IN
       /\ tv' = tv \ {p}
       /\ IF so # "nil" /\ ei = "nil" THEN   \* successor pass-through takes the predecessor's type
            /\ nodes' = [nodes EXCEPT ![e].i = so, ![e].o = so]
            /\ UNCHANGED <<mayE, fmk, berr, outs, pc, cur>>
          ELSE IF so = "nil" THEN            \* predecessor pass-through takes the successor's type
            /\ nodes' = [nodes EXCEPT ![s].i = ei, ![s].o = ei]
            /\ UNCHANGED <<mayE, fmk, berr, outs, pc, cur>>
          ELSE IF p[3] = "fm" THEN           \* field mapping: no whole-value assignability check, converter recorded for the target
            /\ fmk' = fmk \cup {e} /\ UNCHANGED <<nodes, mayE, berr, outs, pc, cur>>
          ELSE IF r = "mustnot" THEN Fail(cur.j) /\ UNCHANGED <<nodes, mayE, fmk>>
          ELSE /\ mayE' = IF r = "may" THEN mayE \cup {<<s, e>>} ELSE mayE
               /\ UNCHANGED <<nodes, fmk, berr, outs, pc, cur>>
  /\ UNCHANGED <<case, ctrl, data, brs, preNode, compiled, startN, endN, snap>>
UpdDone ==
  /\ pc \in {"upd", "brupd"} /\ Pending = {}
  /\ IF pc = "upd" THEN /\ data' = data \cup {<<cur.a, cur.b>>} /\ Finish("ok")
                   ELSE /\ pc' = "brloop" /\ UNCHANGED <<data, outs, cur>>
  /\ UNCHANGED <<case, nodes, ctrl, brs, tv, mayE, preNode, fmk, berr, compiled, startN, endN, snap>>

(* addBranch *)
DoBranch(op, j) ==
  LET a == op.a
      bad1 == a = END \/ (~Known(a) /\ a # START) \/ Len(op.ends) = 1
      over == a # START /\ IsPass(a) /\ (~FixD5 \/ nodes[a].o = "nil")    \* graph.go:466-470 re-types the pass-through unconditionally
      nodes2 == IF bad1 \/ ~over THEN nodes ELSE [nodes EXCEPT ![a].i = op.t, ![a].o = op.t]
      so == IF a = START THEN hdr.gi ELSE IF bad1 THEN "nil" ELSE nodes2[a].o
      r == Check(so, op.t)
  IN IF bad1 \/ r = "mustnot" THEN Fail(j) /\ UNCHANGED <<nodes, ctrl, data, brs, tv, mayE, preNode, fmk, compiled, startN, endN, snap>>
     ELSE /\ nodes' = nodes2
          /\ pc' = "brloop" /\ cur' = [NoCur EXCEPT !.j = j, !.a = a, !.b = r, !.rem = Range(op.ends), !.op = op]
          /\ UNCHANGED <<ctrl, data, brs, tv, mayE, preNode, fmk, berr, compiled, startN, endN, snap, outs>>
BrLoop ==
  /\ pc = "brloop"
  /\ IF cur.rem = {} THEN
       /\ brs' = Append(brs, [a |-> cur.a, t |-> cur.op.t, ends |-> Range(cur.op.ends), c |-> cur.op.c, may |-> cur.b = "may", j |-> cur.j])
       /\ Finish("ok") /\ UNCHANGED <<tv, berr, startN, endN>>
     ELSE \E e \in cur.rem :
       IF ~Known(e) /\ e # END THEN Fail(cur.j) /\ UNCHANGED <<brs, tv, startN, endN>>
       ELSE /\ tv' = tv \cup {<<cur.a, e, "">>} /\ startN' = (startN \/ cur.a = START) /\ endN' = (endN \/ e = END)
            /\ cur' = [cur EXCEPT !.rem = cur.rem \ {e}] /\ pc' = "brupd"
            /\ UNCHANGED <<brs, berr, outs>>
  /\ UNCHANGED <<case, nodes, ctrl, data, mayE, preNode, fmk, compiled, snap>>

(* compile *)
\* validateDAG: repeatedly release the nodes all of whose non-START control predecessors are released
CtrlPairs == ctrl \cup UNION {{<<brs[b].a, e>> : e \in brs[b].ends} : b \in 1..Len(brs)}
RECURSIVE Released(_)
Released(R) == LET R2 == R \cup {n \in Declared : \A p \in CtrlPairs : (p[2] = n /\ p[1] # START) => p[1] \in R}
               IN IF R2 = R THEN R ELSE Released(R2)
DagOK == Released({}) = Declared
Untyped == {k \in Declared : nodes[k].i = "nil"}
DoCompile(op, j) ==
  LET err1 == ~startN \/ ~endN \/ tv # {} \/ (FixD15 /\ Untyped # {})
      \* graph.go:673-685: one more pre-node converter per field-mapped target, appended to the map the runners share
      pre2 == IF FixD7 THEN preNode ELSE [k \in AllKeys |-> IF k \in fmk THEN preNode[k] + 1 ELSE preNode[k]]
      \* workflow.go:436-447: a static value's path is recorded as mapped by the first Compile, a later Compile finds it taken
      sv == hdr.fe = "wf" /\ compiled /\ \E i \in 1..Len(hist) : hist[i].op = "node" /\ hist[i].x = "sv"
      res == IF berr # 0 THEN "S"
             ELSE IF sv THEN "E"
             ELSE IF err1 THEN "E"
             ELSE IF op.m = "all" /\ ~DagOK THEN "E"
             ELSE IF Untyped # {} THEN "P"               \* graph.go:809-811 dereferences the nil genericHelper of an untyped node
             ELSE IF op.m = "all" /\ op.x = "maxsteps" THEN "E"
             ELSE "ok"
      mutates == berr = 0 /\ ~sv /\ ~err1
  IN /\ preNode' = IF mutates THEN pre2 ELSE preNode
     /\ compiled' = (compiled \/ res = "ok")
     /\ snap' = IF res = "ok" /\ ~snap.set THEN [set |-> TRUE, mayE |-> mayE, brmay |-> Handlers.brmay, preNode |-> pre2] ELSE snap
     /\ Finish(res)
     /\ UNCHANGED <<nodes, ctrl, data, brs, tv, mayE, fmk, berr, startN, endN>>

--------------------------------------------------------------------------------
Call(op) ==
  /\ pc = "idle"
  /\ hist' = Append(hist, op)
  /\ LET j == Len(hist) + 1 IN
     IF op.op = "compile" THEN DoCompile(op, j)
     ELSE IF berr # 0 THEN Finish("S") /\ UNCHANGED builder                 \* sticky build error first ...
     ELSE IF compiled THEN Finish("C") /\ UNCHANGED builder                \* ... then the compiled flag
     ELSE IF op.op \in {"node", "pass"} THEN DoNode(op, j)
     ELSE IF op.op = "edge" THEN DoEdge(op, j)
     ELSE DoBranch(op, j)

NBr == Cardinality({j \in 1..Len(hist) : hist[j].op = "branch"})
NAdd == Cardinality({j \in 1..Len(hist) : IsAdd(hist[j])})
FirstCompileIdx == FirstIn(1..Len(hist), LAMBDA j : hist[j].op = "compile")
AfterErr == IF berr = 0 THEN 0 ELSE Len(hist) - berr
Panicked == \E j \in 1..Len(outs) : outs[j] = "P"
Prologue == /\ todo # <<>> /\ Call(Head(todo)) /\ todo' = Tail(todo) /\ UNCHANGED <<hdr, plen>>
Free ==
  /\ todo = <<>> /\ pc = "idle" /\ ~Panicked /\ UNCHANGED <<hdr, todo, plen>>
  /\ LET K == Declared  fc == FirstCompileIdx IN
     IF fc = 0 THEN
        \/ \E op \in Alphabet(K) : /\ NAdd - plen < MaxAdds
                                  /\ (berr = 0 \/ AfterErr < MaxAfterErr)
                                  /\ (op.op = "branch" => NBr < MaxBr)
                                  /\ Call(op)
        \/ \E op \in CompileAlphabet : Call(op)
     ELSE \E op \in PostAlphabet(K) : Len(hist) - fc < MaxPost /\ Call(op)
Next == Prologue \/ Free \/ UpdStep \/ UpdDone \/ BrLoop
Spec == Init /\ [][Next]_vars

--------------------------------------------------------------------------------
(* Property level, on the model's own history *)
AtRest == pc = "idle"
Why == IF AtRest THEN OutcomeWhy(hdr, hist, outs) ELSE ""
NoPanic == Why # "call-panicked"                 \* C20: never a panic
Sticky == Why # "error-not-sticky"                \* C20: the first Add* error sticks
Reject == Why # "illformed-accepted"              \* C20: ill-formed constructions are rejected
FrozenCalls == Why # "modified-after-compile"     \* C20: no Add* succeeds after a successful Compile
Static == Why # "accepted-concrete-mismatch"      \* C07: no accepted connection between different concrete types
AllOutcome == Why = ""
\* C20: what the first runnable shares with the builder stays as it was when the runnable was made
FrozenMaps == snap.set => (snap.mayE = mayE /\ snap.brmay = Handlers.brmay /\ snap.preNode = preNode)
\* C07: given where run-time converters were installed, no dynamic value of a wrong type reaches a concretely typed consumer
Conn == data \cup UNION {{<<brs[b].a, e>> : e \in brs[b].ends} : b \in 1..Len(brs)}
FlowNodes == Declared \cup {START}
RECURSIVE DFlow(_)
DFlow(V) ==
  LET arrive(s, e) == IF <<s, e>> \in mayE THEN {d \in V[s] : DynOK(d, InType(e))} ELSE V[s]
      inp(n) == UNION {arrive(p[1], n) : p \in {q \in Conn : q[2] = n}}
      V2 == [n \in FlowNodes |-> IF n = START THEN DynOf(hdr.gi)
                                  ELSE IF nodes[n].kind = "typed" THEN (IF inp(n) = {} THEN {} ELSE DynOf(nodes[n].o))
                                  ELSE inp(n)]
  IN IF V2 = V THEN V ELSE DFlow(V2)
VF == DFlow([n \in FlowNodes |-> IF n = START THEN DynOf(hdr.gi) ELSE {}])
Arrive(s, e) == IF <<s, e>> \in mayE THEN {d \in VF[s] : DynOK(d, InType(e))} ELSE VF[s]
Sound == (AtRest /\ compiled /\ Untyped = {}) =>
           /\ \A p \in Conn : (p[2] = END \/ nodes[p[2]].kind = "typed") => \A d \in Arrive(p[1], p[2]) : DynOK(d, InType(p[2]))
           /\ \A b \in 1..Len(brs) : \A d \in (IF brs[b].may THEN {x \in VF[brs[b].a] : DynOK(x, brs[b].t)} ELSE VF[brs[b].a]) : DynOK(d, brs[b].t)

--------------------------------------------------------------------------------
(* Conformance cases: every maximal history *)
Terminal == /\ AtRest /\ todo = <<>> /\ FirstCompileIdx # 0
            /\ (Len(hist) - FirstCompileIdx = MaxPost \/ Panicked)
Emit == Terminal => PrintT(<<"CASE", ToJson([fe |-> hdr.fe, gi |-> hdr.gi, go |-> hdr.go, state |-> hdr.state, ops |-> hist, pred |-> outs])>>)
================================================================================
