CONSTANTS
 Caps1 = {0, 1}
 MaxItems1 = 2
 CapsN = {0, 1}
 MaxItemsN = 2
 MaxItems3 = 1
 SplitCount = FALSE
 ErrItems1 = TRUE
 ErrItemsN = FALSE
SPECIFICATION Spec
INVARIANT RuleHolds
INVARIANT ClosedOnce
INVARIANT SourceClosed
INVARIANT Quiesced
INVARIANT AtEOFComplete
