------------------------------ MODULE TMConfObs ------------------------------
(***************************************************************************)
(* Trace validation of OBSERVATIONS OF REAL RUNS under forced completion   *)
(* orders against the engine-level rule of C03 (TMConf.tla).  One state    *)
(* per line; total: a line that contradicts the rule prints                *)
(* <<"BAD", case id, line, reason>> and the rest of that run is skipped.   *)
(***************************************************************************)
EXTENDS TMConf, Json

Trace == ndJsonDeserialize("trace.ndjson")
ASSUME TLCSet(1, 0)

VARIABLES l, S
vars == <<l, S>>

Init == l = 1 /\ S = Idle
Next == /\ l <= Len(Trace)
        /\ l' = l + 1
        /\ LET T == Apply(S, Trace[l]) IN
             /\ S' = T
             /\ (T.bad # "" /\ S.bad = "") => PrintT(<<"BAD", T.g.id, l, T.bad>>)
Spec == Init /\ [][Next]_vars

HW == TLCSet(1, IF l > TLCGet(1) THEN l ELSE TLCGet(1))
Post == PrintT(<<"HW", TLCGet(1)>>)
================================================================================
