------------------------------ MODULE ConcatGen ------------------------------
(***************************************************************************)
(* C14: generator of chunk sequences (grown by AppendChunk over a family   *)
(* alphabet) + model-level check of the law on the transcription of        *)
(* Concat.tla.  Text fragments (content, tool-call arguments, string       *)
(* values) are position tokens ("x2" = text of the 2nd chunk) so that      *)
(* arrival order is visible with a two-letter alphabet.                    *)
(***************************************************************************)
EXTENDS Concat

CONSTANTS Fams,     \* alphabet families enumerated in this run
          MaxLen,   \* maximal number of chunks for the families in LongFams (the others: MaxLen - 1)
          LongFams,
          Fx        \* "asis" | "fixed": which transcription is checked
fxc == IF Fx = "fixed" THEN Fixed ELSE AsIs

VARIABLES cs, Fam
vars == <<cs, Fam>>

Tok(tag, i) == tag \o ToString(i)
Msg(role, name, tcid, content) == [EmptyM EXCEPT !.role = role, !.name = name, !.tcid = tcid, !.content = content]
Call(idx, id, type, fname, args) == [idx |-> idx, id |-> id, type |-> type, fname |-> fname, args |-> args]
Meta(fin, uhas, p, c, t) == [has |-> TRUE, fin |-> fin, uhas |-> uhas, p |-> p, c |-> c, t |-> t]
KV(k, v) == [k |-> k, v |-> v]

XVals(i) == {NilXV, StrXV(Tok("s", i)), IntXV(1), IntXV(2), MapXV(<<KV("n", StrXV(Tok("t", i)))>>), MapXV(<<KV("n", NilXV)>>)}
Extras(i) == {<<>>} \cup {<<KV("k", v)>> : v \in XVals(i)} \cup {<<KV("j", StrXV(Tok("r", i))), KV("k", v)>> : v \in XVals(i)}
             \cup {<<KV("j", StrXV(Tok("r", i)))>>}
BoolXV(n) == [x |-> "bool", s |-> "", n |-> n, m |-> <<>>]
MinXV(n) == [x |-> "min", s |-> "", n |-> n, m |-> <<>>]
SMapXV(m) == [x |-> "smap", s |-> "", n |-> 0, m |-> m]
IMapXV(m) == [x |-> "imap", s |-> "", n |-> 0, m |-> m]
NestExtras(i) == {<<>>} \cup {<<KV("k", v)>> : v \in {NilXV, StrXV(Tok("s", i)), IMapXV(<<>>), IMapXV(<<KV("n", IntXV(0))>>), IMapXV(<<KV("n", IntXV(3))>>),
                                                      IMapXV(<<KV("n", IntXV(5))>>), IMapXV(<<KV("j", IntXV(7)), KV("n", IntXV(0))>>),
                                                      SMapXV(<<>>), SMapXV(<<KV("n", StrXV(Tok("t", i)))>>), SMapXV(<<KV("j", StrXV(Tok("r", i)))>>)}}
Hdr(i) == {Msg(r, "", "", c) : r \in {"", "a", "b"}, c \in {"", Tok("x", i)}}
          \cup {Msg("", n, "", c) : n \in {"a", "b"}, c \in {"", Tok("x", i)}}
          \cup {Msg("", "", t, c) : t \in {"a", "b"}, c \in {"", Tok("x", i)}} \cup {NilM}
Calls1(i) == {Call(ix, id, "", "", a) : ix \in {-1, 0, 1}, id \in {"", "p", "q"}, a \in {"", Tok("u", i)}}
CallsT(i) == {Call(ix, "", ty, "", Tok("u", i)) : ix \in {-1, 0}, ty \in {"", "p", "q"}}
             \cup {Call(ix, "", "", fn, Tok("u", i)) : ix \in {-1, 0}, fn \in {"", "p", "q"}}
Calls2(i) == {Call(ix, id, "", "", Tok("u", i)) : ix \in {-1, 0, 1}, id \in {"", "p"}}
ListItems(i) == {NilM, Msg("", "", "", Tok("x", i)), Msg("b", "", "", ""), [EmptyM EXCEPT !.extra = <<KV("k", NilXV)>>]}

Alphabet(i) ==
  CASE Fam = "hdr" -> Hdr(i)
    [] Fam = "calls" -> {EmptyM} \cup {[EmptyM EXCEPT !.calls = <<c>>] : c \in Calls1(i)}
    [] Fam = "calls3" -> {EmptyM} \cup {[EmptyM EXCEPT !.calls = <<c>>] : c \in {d \in Calls1(i) : d.id # "q"}}
    [] Fam = "callsT" -> {EmptyM} \cup {[EmptyM EXCEPT !.calls = <<c>>] : c \in CallsT(i)}
    [] Fam = "callsTy" -> {EmptyM} \cup {[EmptyM EXCEPT !.calls = <<Call(ix, "", ty, "", Tok("u", i))>>] : ix \in {0, 1}, ty \in {"", "p", "q"}}   \* per-index Type variety
    [] Fam = "calls2" -> {EmptyM} \cup {[EmptyM EXCEPT !.calls = <<c>>] : c \in Calls2(i)}
                         \cup {[EmptyM EXCEPT !.calls = <<c, [d EXCEPT !.args = Tok("v", i)]>>] : c \in Calls2(i), d \in Calls2(i)}
    [] Fam = "many" -> {[EmptyM EXCEPT !.calls = [k \in 1..13 |-> Call(-1, "c" \o ToString(i) \o "_" \o ToString(k), "", "", "")]],   \* > 12 calls: sort stability
                        [EmptyM EXCEPT !.calls = <<Call(1, "p", "", "", Tok("u", i))>>], [EmptyM EXCEPT !.calls = <<Call(0, "", "", "", Tok("u", i))>>]}
    [] Fam = "meta" -> {Msg("", "", "", c) : c \in {"", Tok("x", i)}}
                       \cup {[EmptyM EXCEPT !.meta = m] : m \in {Meta("", FALSE, 0, 0, 0), Meta("f1", FALSE, 0, 0, 0), Meta("f2", FALSE, 0, 0, 0),
                                                                 Meta("", TRUE, 1, 2, 3), Meta("", TRUE, 2, 1, 3), Meta("f1", TRUE, 0, 0, 0), Meta("", TRUE, 3, 3, 6),
                                                                 Meta("", TRUE, 5, 5, 10), Meta("", TRUE, 0, 20, 20)}}     \* non-monotone totals
    [] Fam = "extra" -> {[EmptyM EXCEPT !.extra = e] : e \in Extras(i)}
    [] Fam = "list" -> {[items |-> <<>>]} \cup {[items |-> <<a>>] : a \in ListItems(i)} \cup {[items |-> <<a, b>>] : a \in ListItems(i), b \in ListItems(i) \ {[EmptyM EXCEPT !.extra = <<KV("k", NilXV)>>]}}
    [] Fam = "map" -> {[kv |-> e] : e \in Extras(i)}
    [] Fam = "mapi" -> {[kv |-> a \o b] : a \in {<<>>} \cup {<<KV("j", IntXV(7))>>}, b \in {<<>>} \cup {<<KV("k", IntXV(n))>> : n \in {0, 3, 5}}}
    [] Fam = "mapb" -> {[kv |-> a \o b] : a \in {<<>>} \cup {<<KV("j", BoolXV(1))>>}, b \in {<<>>} \cup {<<KV("k", BoolXV(n))>> : n \in {0, 1}}}
    [] Fam = "mapm" -> {[kv |-> a \o b] : a \in {<<>>} \cup {<<KV("j", MinXV(7))>>}, b \in {<<>>} \cup {<<KV("k", MinXV(n))>> : n \in {0, 3, 5}}}
    [] Fam = "nest" -> {[kv |-> e] : e \in NestExtras(i)}
    [] Fam = "extran" -> {[EmptyM EXCEPT !.extra = e] : e \in NestExtras(i)}
    [] Fam = "str" -> {[s |-> ""], [s |-> Tok("x", i)]}
    [] Fam = "int" -> {[n |-> 0], [n |-> 1], [n |-> 2]}
    [] Fam = "acc" -> {[s |-> "", n |-> 0], [s |-> Tok("x", i), n |-> 1], [s |-> "", n |-> 2]}
    [] Fam = "plain" -> {[n |-> 0], [n |-> 1], [n |-> 2]}
Kind == CASE Fam \in {"hdr", "calls", "calls3", "callsT", "callsTy", "calls2", "many", "meta", "extra", "extran"} -> "msg" [] Fam = "nest" -> "map" [] OTHER -> Fam
Paths == IF Kind = "msg" THEN {"cm", "cms"} ELSE {"ci"}      \* "graph" behaves as "cms" / "ci" in the transcription

Init == cs = <<>> /\ Fam \in Fams
AppendChunk == /\ Len(cs) < (IF Fam \in LongFams THEN MaxLen ELSE MaxLen - 1)
               /\ \E c \in Alphabet(Len(cs) + 1) : cs' = Append(cs, c)
               /\ UNCHANGED Fam
Next == AppendChunk
Spec == Init /\ [][Next]_vars

(* Impl => P on the transcription.  Sequences carrying a nil map value are the named deviation D8 of the code as it     *)
(* stands (panic in toSliceValue); with Fx = "fixed" nothing is exempted.                                              *)
Explained == ~fxc.nilrule /\ HasNilValue(Kind, cs)
LawFor(path) ==
  LET n == Len(cs)
      full == Cat(path, Kind, cs, fxc)
  IN /\ full.o # "panic"
     /\ \A i \in 1..(n - 1) :
          LET pre == Cat(path, Kind, SubSeq(cs, 1, i), fxc)
              res == IF pre.o = "ok" THEN Cat(path, Kind, <<pre.v>> \o SubSeq(cs, i + 1, n), fxc) ELSE pre
          IN RechunkOK(full, pre, res)
     /\ (n >= 2 \/ path = "cm") => Expect(Kind, cs, full, ElemOf(Kind, cs, fxc))
ModelLaw == Explained \/ \A path \in Paths : (cs # <<>> \/ path = "cm") => LawFor(path)
(* determinism of concatToolCalls: the result does not depend on the iteration order of the grouping map *)
CallOrderFree == Kind = "msg" /\ cs # <<>> =>
                   LET calls == FlattenSeq([i \in 1..Len(cs) |-> cs[i].calls])
                   IN \A o1, o2 \in Orders(IdxSet(calls)) : CatCallsIn(calls, o1) = CatCallsIn(calls, o2)
Outcome(fx) == LET path == IF Kind = "msg" THEN "cm" ELSE "ci"
                   o == IF cs = <<>> /\ path # "cm" THEN Fail("err", Dummy(Kind)) ELSE Cat(path, Kind, cs, fx) IN o.o
Emit == PrintT(<<"CASE", ToJson([fam |-> Fam, kind |-> Kind, chunks |-> cs, nilvalue |-> HasNilValue(Kind, cs),
                                 asis |-> Outcome(AsIs), fixed |-> Outcome(Fixed)])>>)
================================================================================
