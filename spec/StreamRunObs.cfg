CONSTANTS
 N = 1
 MaxEdges = 1
 Mode = "dag"
 AllowBranch = FALSE
SPECIFICATION Spec
CONSTRAINT HW
POSTCONDITION Post
CHECK_DEADLOCK FALSE
