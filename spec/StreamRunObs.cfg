CONSTANTS
 N = 1
 MaxEdges = 1
 Mode = "dag"
 AllowBranch = FALSE
 MaxBr = 1
SPECIFICATION Spec
CONSTRAINT HW
POSTCONDITION Post
CHECK_DEADLOCK FALSE
