SPECIFICATION Spec
CONSTRAINT HW
POSTCONDITION Post
CHECK_DEADLOCK FALSE
