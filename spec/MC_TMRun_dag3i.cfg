CONSTANTS
  Mode = "dag"
  N = 3
  MaxEdges = 9
  FailKinds = {}
  AllowDangling = FALSE
  MaxKind = 0
  MaxMark = 2
  MaxRerun = 0
  Runs = 2
  RBug = "none"
SPECIFICATION RunSpec
CONSTRAINT NoBefore
INVARIANT RuleHolds
INVARIANT Compared
CHECK_DEADLOCK FALSE
