---------------------------- MODULE FieldMapObs ----------------------------
(***************************************************************************)
(* Trace validation of OBSERVATIONS OF REAL Workflow compilations and runs *)
(* (harness/compose/zz_verif_fieldmap_test.go, one line per case) against  *)
(* the property-level rule FieldMapRule!Judge (C15).  One state per line;  *)
(* total: a line that contradicts the rule prints                          *)
(*   <<"BAD", case id, line, "<scope>:<reason>">>                          *)
(* (scope = compile | invoke | stream | cross), every line is consumed.    *)
(***************************************************************************)
EXTENDS FieldMapRule, Json

Trace == ndJsonDeserialize("trace.ndjson")
ASSUME TLCSet(1, 0)

VARIABLES l
Init == l = 1
Next == /\ l <= Len(Trace)
        /\ l' = l + 1
        /\ \A r \in Judge(Trace[l]) : PrintT(<<"BAD", Trace[l].id, l, r[1] \o ":" \o r[2]>>)
Spec == Init /\ [][Next]_l

Max2(a, b) == IF a > b THEN a ELSE b
HW == TLCSet(1, Max2(l, TLCGet(1)))
Post == PrintT(<<"HW", TLCGet(1)>>)
=============================================================================
