------------------------------- MODULE ReActRule -------------------------------
(***************************************************************************)
(* Property-level rule for C18 ("The ReAct agent alternates model and      *)
(* tools faithfully and stops").                                           *)
(*                                                                         *)
(* Apply(S, e) consumes ONE observation of a ReAct agent driven by a       *)
(* scripted chat model and recording tools.  The same operator judges the  *)
(* implementation-shaped model spec/ReAct.tla (invariant) and the          *)
(* observation traces of the REAL flow/agent/react agent (ReActObs.tla).   *)
(*                                                                         *)
(* Messages are rendered [role, content, calls <<[id,name,args]>>, tcid].  *)
(* Observations (one JSON object per line, "ev" first):                    *)
(*   case    id, msgs (original input), script <<[content, calls]>> (the   *)
(*           k-th model call answers script[min(k, Len)], so a script      *)
(*           whose last message has tool calls never stops by itself),     *)
(*           tools <<name>>, rd <<name>> (return-directly), maxstep        *)
(*           (0 = default), inplace BOOLEAN (a modifier that edits the     *)
(*           slice it is given in place), modifier BOOLEAN (a modifier that *)
(*           prepends the system message "sys")                            *)
(*   run     mode "generate" | "stream", msgs: the input messages of THIS  *)
(*           run (the two runs of a case use one agent, possibly at the    *)
(*           same time, and are given different inputs)                    *)
(*   mcall   input <<msg>>: what the chat model received                   *)
(*   tool    name, args, out: a tool ran and gave out                      *)
(*   answer  msg: what Generate returned / what the Stream chunks          *)
(*           concatenate to                                                *)
(*   error   steplimit BOOLEAN                                             *)
(*   early   released BOOLEAN: a third run in which the caller read one    *)
(*           chunk of the streamed answer and closed the stream; were the  *)
(*           producer goroutines of the (pipe-backed) model released?      *)
(*   hang    the case was still running when the harness's watchdog fired  *)
(*   endrun, end                                                           *)
(*                                                                         *)
(* What is demanded (nothing else):                                        *)
(*   A1 strict alternation: the model is called only when every tool call  *)
(*      of its previous answer has been run (each exactly once, nothing    *)
(*      else), tools run only for the calls of the last assistant message; *)
(*   A2 the k-th model call receives (the modifier applied to) the         *)
(*      original messages followed, for every earlier round j, by          *)
(*      assistant message j and the tool results of its calls in call      *)
(*      order (role tool, content = what the tool gave, tcid = call id);   *)
(*   A3 the answer is the first assistant message without tool calls, or   *)
(*      the tool result of the first call (in call order) of a             *)
(*      return-directly tool; nothing runs after the answer;               *)
(*   A4 never more than MaxStep supersteps (model call, tools round,       *)
(*      direct return each count one); the step-limit error is returned    *)
(*      exactly when the next superstep would exceed it; no other error;   *)
(*   A5 Generate and Stream give the same answer;                          *)
(*   A6 when the caller closes the streamed answer early, nothing of the   *)
(*      agent keeps the model's stream open: its producer is released.     *)
(* Default MaxStep: number of nodes + 10 as documented at AgentConfig      *)
(* (12; 13 when a return-directly set adds the direct-return node).        *)
(***************************************************************************)
EXTENDS Naturals, Sequences, FiniteSets, TLC, Json

Range(s) == {s[i] : i \in 1..Len(s)}
Max2(a, b) == IF a > b THEN a ELSE b
Min2(a, b) == IF a < b THEN a ELSE b

NoCase == [id |-> "", msgs |-> <<>>, script |-> <<>>, tools |-> <<>>, rd |-> <<>>, maxstep |-> 0, modifier |-> FALSE, inplace |-> FALSE]
NoMsg == [role |-> "", content |-> "", calls |-> <<>>, tcid |-> ""]
Idle == [id |-> "", open |-> FALSE, bad |-> "", c |-> NoCase, inrun |-> FALSE, phase |-> "closed", k |-> 0, steps |-> 0, hist |-> <<>>,
         cur |-> <<>>, pending |-> {}, outs |-> <<>>, started |-> FALSE, expect |-> NoMsg, viard |-> FALSE,
         answers |-> <<>>, nruns |-> 0, mode |-> ""]

AssistantMsg(m) == [role |-> "assistant", content |-> m.content, calls |-> m.calls, tcid |-> ""]
ToolMsg(out, id) == [role |-> "tool", content |-> out, calls |-> <<>>, tcid |-> id]
SysMsg == [role |-> "system", content |-> "sys", calls |-> <<>>, tcid |-> ""]
Render(m) == [role |-> m.role, content |-> m.content, calls |-> [i \in 1..Len(m.calls) |-> [id |-> m.calls[i].id, name |-> m.calls[i].name, args |-> m.calls[i].args]], tcid |-> m.tcid]
RenderAll(ms) == [i \in 1..Len(ms) |-> Render(ms[i])]

MaxStepOf(c) == IF c.maxstep = 0 THEN (IF Len(c.rd) > 0 THEN 13 ELSE 12) ELSE c.maxstep
ScriptAt(c, k) == c.script[Min2(k, Len(c.script))]

Bad(S, why) == [S EXCEPT !.bad = why]

RunRule(S, e) ==
  IF S.inrun THEN Bad(S, "run-started-inside-a-run")
  ELSE [S EXCEPT !.inrun = TRUE, !.phase = "model", !.k = 0, !.steps = 0, !.hist = RenderAll(e.msgs), !.cur = <<>>, !.pending = {},
                 !.outs = <<>>, !.started = FALSE, !.expect = NoMsg, !.viard = FALSE, !.nruns = @ + 1, !.mode = e.mode]

\* modifier: NewPersonaModifier("sys") (builds a new list); inplace: a modifier that replaces the first element of the slice it is
\* given by a copy of that message with "M:" in front of its content, and returns that slice.  Either way the modifier is applied
\* once per call to the agent's own history, which it must not change.
Marked(h) == IF Len(h) = 0 THEN h ELSE [h EXCEPT ![1].content = "M:" \o @]
ModelInput(S) == IF S.c.modifier THEN <<SysMsg>> \o S.hist ELSE IF S.c.inplace THEN Marked(S.hist) ELSE S.hist

McallRule(S, e) ==
  LET inp == RenderAll(e.input) IN
  IF ~S.inrun THEN Bad(S, "model-called-outside-a-run")
  ELSE IF S.phase = "tools" THEN Bad(S, "model-called-before-all-tool-calls-of-the-last-message-were-run")
  ELSE IF S.phase # "model" THEN Bad(S, "model-called-after-the-answer-was-determined")
  ELSE IF S.steps + 1 > MaxStepOf(S.c) THEN Bad(S, "model-called-beyond-the-step-limit")
  ELSE IF Len(inp) # Len(ModelInput(S)) THEN Bad(S, "model-input-has-wrong-number-of-messages")
  ELSE IF inp # ModelInput(S) THEN Bad(S, "model-input-is-not-the-original-messages-plus-earlier-rounds")
  ELSE LET m == ScriptAt(S.c, S.k + 1) IN
       IF Len(m.calls) = 0
       THEN [S EXCEPT !.k = @ + 1, !.steps = @ + 1, !.phase = "answer", !.expect = AssistantMsg(m), !.viard = FALSE]
       ELSE [S EXCEPT !.k = @ + 1, !.steps = @ + 1, !.phase = "tools", !.cur = m.calls, !.pending = 1..Len(m.calls),
                      !.outs = [i \in 1..Len(m.calls) |-> ""], !.started = FALSE, !.hist = Append(@, AssistantMsg(m))]

RdIdx(S) == {i \in 1..Len(S.cur) : S.cur[i].name \in Range(S.c.rd)}
ToolRule(S, e) ==
  IF ~S.inrun THEN Bad(S, "tool-run-outside-a-run")
  ELSE IF S.phase # "tools" THEN Bad(S, "tool-run-although-no-tool-call-is-outstanding")
  ELSE LET cand == {i \in S.pending : S.cur[i].name = e.name /\ S.cur[i].args = e.args} IN
       IF cand = {} THEN Bad(S, "tool-run-that-the-last-assistant-message-did-not-ask-for")
       ELSE IF ~S.started /\ S.steps + 1 > MaxStepOf(S.c) THEN Bad(S, "tools-run-beyond-the-step-limit")
       ELSE LET i == CHOOSE x \in cand : \A y \in cand : x <= y
                outs == [S.outs EXCEPT ![i] = e.out]
                pend == S.pending \ {i} IN
            IF pend # {} THEN [S EXCEPT !.outs = outs, !.pending = pend, !.started = TRUE]
            ELSE LET res == [j \in 1..Len(S.cur) |-> ToolMsg(outs[j], S.cur[j].id)]
                     T == [S EXCEPT !.outs = outs, !.pending = {}, !.started = FALSE, !.steps = @ + 1, !.hist = @ \o res] IN
                 IF RdIdx(S) # {}
                 THEN LET r == CHOOSE x \in RdIdx(S) : \A y \in RdIdx(S) : x <= y IN
                      [T EXCEPT !.phase = "answer", !.expect = res[r], !.viard = TRUE]
                 ELSE [T EXCEPT !.phase = "model"]

AnswerRule(S, e) ==
  IF ~S.inrun THEN Bad(S, "answer-outside-a-run")
  ELSE IF S.phase = "tools" THEN Bad(S, "answer-while-tool-calls-are-outstanding")
  ELSE IF S.phase = "model" THEN Bad(S, "answer-without-asking-the-model-again")
  ELSE IF S.phase # "answer" THEN Bad(S, "second-outcome")
  ELSE IF S.viard /\ S.steps + 1 > MaxStepOf(S.c) THEN Bad(S, "answer-beyond-the-step-limit")
  ELSE IF Render(e.msg) # S.expect
       THEN Bad(S, IF S.viard THEN "answer-is-not-the-result-of-the-first-return-directly-call"
                   ELSE "answer-is-not-the-first-assistant-message-without-tool-calls")
  ELSE [S EXCEPT !.phase = "closed", !.answers = Append(@, Render(e.msg))]

NextWouldExceed(S) ==
  /\ S.steps + 1 > MaxStepOf(S.c)
  /\ \/ S.phase = "model"
     \/ S.phase = "tools" /\ ~S.started
     \/ S.phase = "answer" /\ S.viard
ErrorRule(S, e) ==
  IF ~S.inrun THEN Bad(S, "error-outside-a-run")
  ELSE IF S.phase = "closed" THEN Bad(S, "second-outcome")
  ELSE IF ~e.steplimit THEN Bad(S, "error-that-is-not-the-step-limit-error")
  ELSE IF ~NextWouldExceed(S) THEN Bad(S, "step-limit-error-before-the-limit-was-reached")
  ELSE [S EXCEPT !.phase = "closed", !.answers = Append(@, [role |-> "error", content |-> "steplimit", calls |-> <<>>, tcid |-> ""])]

EndRunRule(S, e) ==
  IF ~S.inrun THEN Bad(S, "endrun-outside-a-run")
  ELSE IF S.phase # "closed" THEN Bad([S EXCEPT !.inrun = FALSE], "run-ended-with-neither-answer-nor-error")
  ELSE IF Len(S.answers) >= 2 /\ S.answers[Len(S.answers)] # S.answers[1] THEN Bad([S EXCEPT !.inrun = FALSE], "generate-and-stream-answers-differ")
  ELSE [S EXCEPT !.inrun = FALSE]

Apply(S, e) ==
  IF e.ev = "case" THEN [Idle EXCEPT !.id = e.id, !.open = TRUE, !.c = e]
  ELSE IF S.bad # "" THEN (IF e.ev = "end" THEN [S EXCEPT !.open = FALSE] ELSE S)
  ELSE IF ~S.open THEN Bad(S, "line-outside-a-case")
  ELSE CASE e.ev = "run" -> RunRule(S, e)
         [] e.ev = "mcall" -> McallRule(S, e)
         [] e.ev = "tool" -> ToolRule(S, e)
         [] e.ev = "answer" -> AnswerRule(S, e)
         [] e.ev = "error" -> ErrorRule(S, e)
         [] e.ev = "endrun" -> EndRunRule(S, e)
         \* A6 (the agent's part of C19): after the caller closed the agent's output stream early, the model's producer is released
         [] e.ev = "early" -> IF S.inrun THEN Bad(S, "early-close-probe-inside-a-run")
                              ELSE IF ~e.released THEN Bad(S, "model-producer-not-released-after-the-caller-closed-the-stream")
                              ELSE S
         [] e.ev = "hang" -> Bad(S, "agent-hangs")     \* "and stops": spec/ReAct.tla satisfies Terminates for every script
         [] e.ev = "end" -> IF S.inrun THEN Bad([S EXCEPT !.open = FALSE], "case-ended-inside-a-run")
                            ELSE IF S.nruns = 0 THEN Bad([S EXCEPT !.open = FALSE], "case-without-a-run")
                            ELSE [S EXCEPT !.open = FALSE]
         [] OTHER -> Bad(S, "unknown-observation")
================================================================================
