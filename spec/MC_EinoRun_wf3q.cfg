CONSTANTS
  Mode = "wf"
  N = 3
  MaxEdges = 4
  MaxBr = 0
  D = 0
  MaxMarks = 0
  AllowRerun = FALSE
  AllowFail = FALSE
  AllowMulti = FALSE
  MaxChoice = {0}
  MaxEnds = 2
  AllowOrphans = FALSE
  AllowDup = FALSE
  StartCheck = TRUE
  MaxCalls = 3
  SubNode = "none"
  InnerBefore = FALSE
  InnerAfter = FALSE
  StaleForward = FALSE
INIT Init
NEXT Next
INVARIANT RuleHolds
CHECK_DEADLOCK FALSE
