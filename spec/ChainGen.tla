------------------------------- MODULE ChainGen -------------------------------
(***************************************************************************)
(* Chains (compose.Chain) as a lowering onto the any-predecessor engine.   *)
(* A chain is a sequence of stages: a single node ("l"), a parallel stage  *)
(* of 2-3 nodes whose outputs are merged by output key ("p"), or a branch  *)
(* stage that picks one of 2 nodes ("b").  The property statement (C01)    *)
(* says a chain is sequential function composition of its stages with      *)
(* parallel stages merged by key; Lower states that as the equivalent      *)
(* graph (edges + branches), and RunRule then judges real chain runs with  *)
(* the superstep rule on that graph.  The module enumerates every stage    *)
(* sequence up to MaxStages with every branch policy and prints each one   *)
(* (stages for the Go harness, lowered graph for the rule).                *)
(***************************************************************************)
EXTENDS Naturals, Sequences, FiniteSets, TLC, Json
CONSTANTS MaxStages, D
Names == <<"a", "b", "c", "d", "e", "f", "g", "h">>
START == "start"
END == "end"
Kinds == {"l", "p2", "p3", "b2"}
Width(k) == CASE k = "l" -> 1 [] k = "p2" -> 2 [] k = "p3" -> 3 [] k = "b2" -> 2
VARIABLES stages, used, pol, phase
vars == <<stages, used, pol, phase>>
Init == stages = <<>> /\ used = 0 /\ pol = <<>> /\ phase = "grow"
LastWidth == IF stages = <<>> THEN 1 ELSE Len(stages[Len(stages)].ns)
AddStage(k) == /\ phase = "grow" /\ Len(stages) < MaxStages /\ used + Width(k) <= Len(Names)
               /\ (k # "l" => LastWidth = 1)                           \* AppendBranch / AppendParallel reject several previous nodes
               /\ stages' = Append(stages, [k |-> IF k = "l" THEN "l" ELSE IF k = "b2" THEN "b" ELSE "p",
                                              ns |-> [i \in 1..Width(k) |-> Names[used + i]]])
               /\ used' = used + Width(k) /\ UNCHANGED <<pol, phase>>
BranchStages == {i \in 1..Len(stages) : stages[i].k = "b"}
Finish == /\ phase = "grow" /\ stages # <<>>
          /\ \E p \in [BranchStages -> [0..D -> 1..2]] : pol' = p
          /\ phase' = "done" /\ UNCHANGED <<stages, used>>
Next == (\E k \in Kinds : AddStage(k)) \/ Finish
Spec == Init /\ [][Next]_vars

\* ---- the lowering ----
Range(s) == {s[i] : i \in 1..Len(s)}
Exits(i) == IF i = 0 THEN {START} ELSE Range(stages[i].ns)
StageEdges(i) == IF stages[i].k = "b" THEN {} ELSE {<<s, n, "cd">> : s \in Exits(i - 1), n \in Range(stages[i].ns)}
EdgeSet == UNION {StageEdges(i) : i \in 1..Len(stages)} \cup {<<s, END, "cd">> : s \in Exits(Len(stages))}
Ord(n) == IF n = START THEN 0 ELSE IF n = END THEN 99 ELSE CHOOSE i \in 1..Len(Names) : Names[i] = n
SeqOf(S, R(_)) == LET RECURSIVE F(_)
                      F(T) == IF T = {} THEN <<>> ELSE LET x == CHOOSE y \in T : \A z \in T : R(y) <= R(z) IN <<x>> \o F(T \ {x})
                  IN F(S)
BranchSeq == SeqOf(BranchStages, LAMBDA i : i)
Scenario ==
  [mode |-> "pregel", lower |-> "chain",
   stages |-> stages,
   nodes |-> SeqOf(UNION {Range(stages[i].ns) : i \in 1..Len(stages)}, Ord),
   edges |-> LET es == SeqOf(EdgeSet, LAMBDA e : Ord(e[1]) * 100 + Ord(e[2])) IN [i \in 1..Len(es) |-> <<es[i][1], es[i][2], es[i][3]>>],
   branches |-> [j \in 1..Len(BranchSeq) |-> LET i == BranchSeq[j] IN
                   [from |-> CHOOSE s \in Exits(i - 1) : TRUE, ends |-> stages[i].ns, multi |-> FALSE,
                    pol |-> [d \in 1..(D + 1) |-> <<stages[i].ns[pol[i][d - 1]]>>]]],
   max |-> 0, before |-> <<>>, after |-> <<>>, rerun |-> <<>>, state |-> FALSE, fail |-> <<>>]
Emit == phase = "done" => PrintT(<<"CASE", ToJson(Scenario)>>)
================================================================================
