------------------------------- MODULE Concat -------------------------------
(***************************************************************************)
(* C14 -- chunk concatenation is total, deterministic and independent of   *)
(* chunk boundaries.                                                       *)
(*                                                                         *)
(* Part 1: TRANSCRIPTION of the case analyses of the code, as operators:   *)
(*   schema.ConcatMessages      schema/message.go:613-742                  *)
(*   concatToolCalls            schema/message.go:512-594 (grouping map in *)
(*                              an arbitrary iteration order + stable sort)*)
(*   concatMessageArray         schema/message.go:44-80                    *)
(*   internal.ConcatItems / concatMaps / concatSliceValue / toSliceValue   *)
(*                              internal/concat.go:90-203, :228-245        *)
(*   the single-chunk short cuts of ConcatMessageStream (message.go:764)   *)
(*   and concatStreamReader (compose/stream_concat.go:73)                  *)
(* Part 2: the PROPERTY-LEVEL law, stated on outcomes only, so that the    *)
(* same definitions judge the transcription (ConcatGen.tla) and the        *)
(* observations of the real functions (ConcatObs.tla).                     *)
(*                                                                         *)
(* Chunk kinds and their abstract values                                   *)
(*   "msg"   M = [nil, role, name, tcid, content, calls, meta, extra]      *)
(*           call = [idx (-1 = no index), id, type, fname, args]           *)
(*           meta = [has, fin, uhas, p, c, t]   (ResponseMeta / TokenUsage)*)
(*           extra = sequence of [k, v] sorted by key; v = XV              *)
(*   XV      [x \in {"nil","str","int","map","other"}, s, n, m]            *)
(*   "list"  [items : Seq(M)]            ([]*Message, M.nil = hole)        *)
(*   "map"   [kv : Seq([k, v : XV])]     (map[string]any)                  *)
(*   "str"   [s]      "int" [n]   "acc" [s, n] (registered custom type:    *)
(*           strings joined, numbers added)   "plain" [n] (struct with no  *)
(*           registered function: the single-non-zero rule)                *)
(* Outcome  [o \in {"ok","err","panic"}, v]                                *)
(***************************************************************************)
EXTENDS Integers, Sequences, FiniteSets, TLC, Json, SequencesExt

RangeS(s) == {s[i] : i \in 1..Len(s)}
RECURSIVE JoinS(_)
JoinS(ss) == IF ss = <<>> THEN "" ELSE Head(ss) \o JoinS(Tail(ss))
Max2(a, b) == IF a > b THEN a ELSE b

NoMeta == [has |-> FALSE, fin |-> "", uhas |-> FALSE, p |-> 0, c |-> 0, t |-> 0]
EmptyM == [nil |-> FALSE, role |-> "", name |-> "", tcid |-> "", content |-> "", calls |-> <<>>, meta |-> NoMeta, extra |-> <<>>]
NilM == [EmptyM EXCEPT !.nil = TRUE]
NilXV == [x |-> "nil", s |-> "", n |-> 0, m |-> <<>>]
StrXV(s) == [x |-> "str", s |-> s, n |-> 0, m |-> <<>>]
IntXV(n) == [x |-> "int", s |-> "", n |-> n, m |-> <<>>]
MapXV(m) == [x |-> "map", s |-> "", n |-> 0, m |-> m]

Ok(v) == [o |-> "ok", v |-> v]
Fail(kind, dummy) == [o |-> kind, v |-> dummy]

KeyOrder == <<"j", "k", "n">>              \* canonical order of the map keys used (the harness sorts the same way)
SortedKeys(S) == SelectSeq(KeyOrder, LAMBDA k : k \in S)
KeysOf(m) == {m[i].k : i \in 1..Len(m)}
ValOf(m, k) == (CHOOSE e \in RangeS(m) : e.k = k).v

(* fx = [nilrule : BOOLEAN]: the proposed repair fixes/D8-concat-nil.diff (nil map values carry nothing) *)
AsIs == [nilrule |-> FALSE]
Fixed == [nilrule |-> TRUE]

--------------------------------------------------------------------------------
(* internal/concat.go: concatMaps :118-166, toSliceValue :228-245, concatSliceValue :168-203                            *)
MinOf(S) == CHOOSE x \in S : \A y \in S : x <= y
RECURSIVE CatMaps(_, _), CatVals(_, _)
CatVals(vals, fx) ==
  LET vs == IF fx.nilrule THEN SelectSeq(vals, LAMBDA x : x.x # "nil") ELSE vals IN
  IF vs = <<>> THEN Ok(NilXV)                                         \* only with the nil rule: every value was nil
  ELSE IF vs[1].x = "nil" THEN Fail("panic", NilXV)                   \* reflect.TypeOf(nil) = nil; reflect.SliceOf(nil) panics (:229-231)
  ELSE IF \E i \in 2..Len(vs) : vs[i].x # vs[1].x THEN Fail("err", NilXV)   \* "unexpected slice element type" (:235-239)
  ELSE IF vs[1].x \in {"map", "imap", "smap"} THEN                           \* element kind map: recurse even for a single value (:152-153)
       LET r == CatMaps([i \in 1..Len(vs) |-> vs[i].m], fx) IN IF r.o = "ok" THEN Ok([MapXV(r.v) EXCEPT !.x = vs[1].x]) ELSE Fail(r.o, NilXV)
  ELSE IF Len(vs) = 1 THEN Ok(vs[1])                                  \* :171-173
  ELSE IF vs[1].x = "str" THEN Ok(StrXV(JoinS([i \in 1..Len(vs) |-> vs[i].s])))   \* concatStrings
  ELSE IF vs[1].x \in {"int", "bool"} THEN Ok(Last(vs))                \* useLast; a zero / false value is a value like any other
  ELSE IF vs[1].x = "min" THEN Ok([vs[1] EXCEPT !.n = MinOf({vs[i].n : i \in 1..Len(vs)})])   \* a registered user function (minimum)
  ELSE Fail("err", NilXV)
CatMaps(ms, fx) ==
  LET keys == SortedKeys(UNION {KeysOf(ms[i]) : i \in 1..Len(ms)})
      per == [j \in 1..Len(keys) |->
                CatVals(LET idx == SelectSeq([i \in 1..Len(ms) |-> i], LAMBDA i : keys[j] \in KeysOf(ms[i]))
                        IN [q \in 1..Len(idx) |-> ValOf(ms[idx[q]], keys[j])], fx)]
  IN \* the keys are visited in map-iteration order and the first failure is returned: if one key panics and another one
     \* errors, the real outcome depends on that order; the transcription reports the panic
     IF \E j \in 1..Len(per) : per[j].o = "panic" THEN Fail("panic", <<>>)
     ELSE IF \E j \in 1..Len(per) : per[j].o = "err" THEN Fail("err", <<>>)
     ELSE Ok([j \in 1..Len(keys) |-> [k |-> keys[j], v |-> per[j].v]])

--------------------------------------------------------------------------------
(* concatToolCalls :512-594.  `order` is the iteration order of the grouping map (a sequence of the distinct indexes).  *)
FirstNonEmpty(ss) == IF \A i \in 1..Len(ss) : ss[i] = "" THEN "" ELSE ss[CHOOSE i \in 1..Len(ss) : ss[i] # "" /\ \A j \in 1..(i - 1) : ss[j] = ""]
Conflict(ss) == \E i, j \in 1..Len(ss) : ss[i] # "" /\ ss[j] # "" /\ ss[i] # ss[j]
RECURSIVE InsertStable(_, _)
InsertStable(x, s) ==   \* insert x (coming from the left part) keeping equal elements in arrival order; index-less (-1) first
  IF s = <<>> THEN <<x>> ELSE IF Head(s).idx < x.idx THEN <<Head(s)>> \o InsertStable(x, Tail(s)) ELSE <<x>> \o s
RECURSIVE StableSort(_)
StableSort(s) == IF s = <<>> THEN <<>> ELSE InsertStable(Head(s), StableSort(Tail(s)))
IdxSet(calls) == {calls[i].idx : i \in 1..Len(calls)} \ {-1}
Group(calls, ix) == SelectSeq(calls, LAMBDA c : c.idx = ix)
MergeGroup(g) == [idx |-> g[1].idx, id |-> FirstNonEmpty([i \in 1..Len(g) |-> g[i].id]), type |-> FirstNonEmpty([i \in 1..Len(g) |-> g[i].type]),
                  fname |-> FirstNonEmpty([i \in 1..Len(g) |-> g[i].fname]), args |-> JoinS([i \in 1..Len(g) |-> g[i].args])]
GroupConflict(g) == Conflict([i \in 1..Len(g) |-> g[i].id]) \/ Conflict([i \in 1..Len(g) |-> g[i].type]) \/ Conflict([i \in 1..Len(g) |-> g[i].fname])
CatCallsIn(calls, order) ==
  IF \E j \in 1..Len(order) : GroupConflict(Group(calls, order[j])) THEN Fail("err", <<>>)
  ELSE LET merged == Group(calls, -1) \o [j \in 1..Len(order) |-> MergeGroup(Group(calls, order[j]))]
       IN Ok(IF Len(merged) > 1 THEN StableSort(merged) ELSE merged)
Orders(S) == {o \in [1..Cardinality(S) -> S] : \A i, j \in 1..Cardinality(S) : i # j => o[i] # o[j]}
CatCalls(calls) == CatCallsIn(calls, CHOOSE o \in Orders(IdxSet(calls)) : TRUE)

(* ConcatMessages :613-742 *)
CatMsgs(cs, fx) ==
  LET hdrErr(i) == \/ cs[i].nil
                   \/ \E j \in 1..(i - 1) : \/ cs[i].role # "" /\ cs[j].role # "" /\ cs[i].role # cs[j].role
                                            \/ cs[i].name # "" /\ cs[j].name # "" /\ cs[i].name # cs[j].name
                                            \/ cs[i].tcid # "" /\ cs[j].tcid # "" /\ cs[i].tcid # cs[j].tcid
      calls == IF cs = <<>> THEN <<>> ELSE FlattenSeq([i \in 1..Len(cs) |-> cs[i].calls])
      tc == CatCalls(calls)
      extras == SelectSeq([i \in 1..Len(cs) |-> cs[i].extra], LAMBDA e : e # <<>>)
      ex == CatMaps(extras, fx)
      metas == SelectSeq([i \in 1..Len(cs) |-> cs[i].meta], LAMBDA m : m.has)
      um == SelectSeq(metas, LAMBDA m : m.uhas)
      MaxOf(S) == CHOOSE x \in S \cup {0} : \A y \in S \cup {0} : x >= y       \* the comparisons start from a zero TokenUsage
      meta == IF metas = <<>> THEN NoMeta
              ELSE [has |-> TRUE, fin |-> (LET fs == SelectSeq([i \in 1..Len(metas) |-> metas[i].fin], LAMBDA f : f # "") IN IF fs = <<>> THEN "" ELSE Last(fs)),
                    uhas |-> um # <<>>, p |-> MaxOf({um[i].p : i \in 1..Len(um)}), c |-> MaxOf({um[i].c : i \in 1..Len(um)}), t |-> MaxOf({um[i].t : i \in 1..Len(um)})]
  IN IF \E i \in 1..Len(cs) : hdrErr(i) THEN Fail("err", EmptyM)
     ELSE IF calls # <<>> /\ tc.o # "ok" THEN Fail(tc.o, EmptyM)
     ELSE IF ex.o # "ok" THEN Fail(ex.o, EmptyM)
     ELSE Ok([nil |-> FALSE,
              role |-> FirstNonEmpty([i \in 1..Len(cs) |-> cs[i].role]), name |-> FirstNonEmpty([i \in 1..Len(cs) |-> cs[i].name]),
              tcid |-> FirstNonEmpty([i \in 1..Len(cs) |-> cs[i].tcid]), content |-> JoinS([i \in 1..Len(cs) |-> cs[i].content]),
              calls |-> IF calls = <<>> THEN <<>> ELSE tc.v, meta |-> meta, extra |-> ex.v])

(* concatMessageArray :44-80 *)
CatLists(ls, fx) ==
  LET n == Len(ls[1].items)
      col(p) == SelectSeq([i \in 1..Len(ls) |-> ls[i].items[p]], LAMBDA m : ~m.nil)
      per == [p \in 1..n |-> IF Len(col(p)) = 0 THEN Ok(NilM) ELSE IF Len(col(p)) = 1 THEN Ok(col(p)[1]) ELSE CatMsgs(col(p), fx)]
  IN IF \E i \in 1..Len(ls) : Len(ls[i].items) # n THEN Fail("err", [items |-> <<>>])
     ELSE IF \E p \in 1..n : per[p].o = "panic" THEN Fail("panic", [items |-> <<>>])
     ELSE IF \E p \in 1..n : per[p].o = "err" THEN Fail("err", [items |-> <<>>])
     ELSE Ok([items |-> [p \in 1..n |-> per[p].v]])

(* map chunk kinds: "map" = map[string]any; concretely typed elements: "mapi" = map[string]int64, "mapb" = map[string]bool,     *)
(* "mapm" = map[string]vfMin (a struct with a registered concat function); XV "imap" = a map[string]int64 held as a value       *)
MapKinds == {"map", "mapi", "mapb", "mapm"}
(* ConcatItems :90-115 + concatSliceValue for the non-map kinds *)
CatKind(kind, cs, fx) ==
  CASE kind = "msg" -> CatMsgs(cs, fx)
    [] kind = "list" -> CatLists(cs, fx)
    [] kind \in MapKinds -> LET r == CatMaps([i \in 1..Len(cs) |-> cs[i].kv], fx) IN IF r.o = "ok" THEN Ok([kv |-> r.v]) ELSE Fail(r.o, [kv |-> <<>>])
    [] kind = "str" -> Ok([s |-> JoinS([i \in 1..Len(cs) |-> cs[i].s])])
    [] kind = "int" -> Ok(Last(cs))
    [] kind = "acc" -> Ok([s |-> JoinS([i \in 1..Len(cs) |-> cs[i].s]), n |-> FoldLeft(LAMBDA a, b : a + b.n, 0, cs)])
    [] kind = "plain" -> LET nz == SelectSeq(cs, LAMBDA c : c.n # 0) IN          \* the single-non-zero rule :181-199
                         IF Len(nz) > 1 THEN Fail("err", [n |-> 0]) ELSE IF Len(nz) = 1 THEN Ok(nz[1]) ELSE Ok([n |-> 0])
Dummy(kind) == CASE kind = "msg" -> EmptyM [] kind = "list" -> [items |-> <<>>] [] kind \in MapKinds -> [kv |-> <<>>]
                 [] kind = "str" -> [s |-> ""] [] kind = "int" -> [n |-> 0] [] kind = "acc" -> [s |-> "", n |-> 0] [] kind = "plain" -> [n |-> 0]

(* The function behind an entry point ("path"):                                                                        *)
(*   "cm"    schema.ConcatMessages                  "cms"   schema.ConcatMessageStream                                 *)
(*   "ci"    internal.ConcatItems under its documented precondition (a single chunk is returned as it is)              *)
(*   "graph" a compose graph that converts the stream into a value (concatStreamReader)                                *)
Cat(path, kind, cs, fx) ==
  IF cs = <<>> THEN (IF path = "cm" THEN CatMsgs(cs, fx) ELSE Fail("err", Dummy(kind)))
  ELSE IF Len(cs) = 1 /\ path # "cm" THEN Ok(cs[1])
  ELSE CatKind(kind, cs, fx)

--------------------------------------------------------------------------------
(* PART 2: THE PROPERTY, on outcomes.  cat(s) is the function under judgement applied to the chunk sequence s.         *)

(* re-chunking: concatenating a prefix first and then the rest gives the same result or fails in the same cases       *)
RechunkOK(full, pre, res) == /\ pre.o # "ok" => full.o # "ok"
                             /\ pre.o = "ok" => (res.o = "ok") = (full.o = "ok") /\ (full.o = "ok" => res.v = full.v)

(* Concatenation is a FUNCTION of the chunk sequence: calling it does not modify its inputs, a result does not change   *)
(* afterwards, and calling it again on the very same chunk values (or on a prefix result obtained earlier) gives what    *)
(* it gives on fresh values.  sh = [in, whole, pre, res, ref] are digests recorded while the whole sequence, every       *)
(* split and the whole sequence again were concatenated ON THE SAME chunk values (see the harness); "" when satisfied.    *)
WhyImpure(sh) ==
  IF \E j \in 1..Len(sh.in) : sh.in[j] # sh.in[1] THEN "input-chunk-modified"
  ELSE IF sh.whole[1] # sh.whole[3] \/ \E i \in 1..Len(sh.pre) : sh.pre[i][1] # sh.pre[i][2] THEN "earlier-result-changed"
  ELSE IF sh.whole[1] # sh.ref.whole \/ sh.whole[2] # sh.ref.whole \/ sh.pre # [i \in 1..Len(sh.pre) |-> <<sh.ref.pre[i], sh.ref.pre[i]>>]
          \/ sh.res # sh.ref.res THEN "depends-on-earlier-calls"
  ELSE ""

(* arrival order of text and tool-call arguments, merging by index; and the field rules that the property record names *)
(* for message concatenation (role / name / id consistency, usage max, finish reason last, extras merged per key)      *)
ExpectCalls(calls, r) ==   \* r: the tool calls of the result
  LET rn == SelectSeq(r, LAMBDA c : c.idx = -1)
      ri == SelectSeq(r, LAMBDA c : c.idx # -1)
  IN /\ rn = Group(calls, -1)                                          \* index-less calls: all kept, unmerged, in arrival order
     /\ Len(ri) = Cardinality(IdxSet(calls))                           \* one call per index ...
     /\ \A i \in 1..Len(ri) : ri[i].idx \in IdxSet(calls)
     /\ \A i \in 1..Len(ri) : ri[i] = MergeGroup(Group(calls, ri[i].idx))   \* ... carrying the fragments of that index in arrival order
     /\ \A i, j \in 1..Len(ri) : i < j => ri[i].idx < ri[j].idx        \* sorted by index
(* elem: what the library's concatenation of the ELEMENT type gives for the values found under a concretely typed key      *)
(* (observed by the harness with internal.ConcatItems on those values alone; computed by ElemOf for the transcription):     *)
(* a sequence of [p, o, n], p = key or "outer/inner".  Concatenating maps is concatenating their values key by key, so     *)
(* the value under a typed key must be exactly that -- zero / false values are values like any other.                      *)
ElemAt(elem, p) == CHOOSE e \in RangeS(elem) : e.p = p
HasElem(elem, p) == \E e \in RangeS(elem) : e.p = p
TypedOK(elem, p, rv) == HasElem(elem, p) => (ElemAt(elem, p).o = "ok" => rv.n = ElemAt(elem, p).n)
RECURSIVE ExpectMap(_, _, _, _)
ExpectMap(ms, r, elem, prefix) ==   \* per-key concatenation of map chunks; keys whose values are nil or of mixed type: no demand
  /\ KeysOf(r) = UNION {KeysOf(ms[i]) : i \in 1..Len(ms)}
  /\ \A k \in KeysOf(r) :
       LET all == LET idx == SelectSeq([i \in 1..Len(ms) |-> i], LAMBDA i : k \in KeysOf(ms[i])) IN [q \in 1..Len(idx) |-> ValOf(ms[idx[q]], k)]
           vals == all
           rv == ValOf(r, k)
       IN IF \E i \in 1..Len(vals) : vals[i].x \notin {"str", "int", "bool", "min", "map", "imap", "smap"} \/ vals[i].x # vals[1].x THEN TRUE
          ELSE IF vals[1].x = "str" THEN rv = StrXV(JoinS([i \in 1..Len(vals) |-> vals[i].s]))   \* text keeps arrival order
          ELSE IF vals[1].x \in {"int", "bool", "min"} THEN
               /\ rv.x = vals[1].x
               /\ (vals[1].x # "min" => \E i \in 1..Len(vals) : rv = vals[i])     \* which number survives is the registered function's business ...
               /\ TypedOK(elem, prefix \o k, rv)                                  \* ... but under a typed key it is what that function gives
          ELSE rv.x = vals[1].x /\ ExpectMap([i \in 1..Len(vals) |-> vals[i].m], rv.m, elem, prefix \o k \o "/")
(* the element concatenations the transcription predicts (same shape as the harness's elem) *)
ElemOfMaps(ms, fx, prefix) ==
  LET keys == SortedKeys(UNION {KeysOf(ms[i]) : i \in 1..Len(ms)})
  IN [j \in 1..Len(keys) |->
        LET idx == SelectSeq([i \in 1..Len(ms) |-> i], LAMBDA i : keys[j] \in KeysOf(ms[i]))
            o == CatVals([q \in 1..Len(idx) |-> ValOf(ms[idx[q]], keys[j])], fx)
        IN [p |-> prefix \o keys[j], o |-> o.o, n |-> o.v.n]]
ElemOf(kind, cs, fx) ==
  IF kind \in {"mapi", "mapb", "mapm"} THEN ElemOfMaps([i \in 1..Len(cs) |-> cs[i].kv], fx, "")
  ELSE IF kind \in {"map", "msg"} THEN
       LET ms == IF kind = "map" THEN [i \in 1..Len(cs) |-> cs[i].kv] ELSE SelectSeq([i \in 1..Len(cs) |-> cs[i].extra], LAMBDA e : e # <<>>)
           outer == SortedKeys(UNION {KeysOf(ms[i]) : i \in 1..Len(ms)})
           typed(k) == SelectSeq([i \in 1..Len(ms) |-> i], LAMBDA i : k \in KeysOf(ms[i]) /\ ValOf(ms[i], k).x \in {"imap", "smap"})
           inner(k) == LET idx == SelectSeq(typed(k), LAMBDA i : ValOf(ms[i], k).x = "imap")
                       IN (IF Len(typed(k)) > 0 /\ \A i \in RangeS(typed(k)) : ValOf(ms[i], k).x = ValOf(ms[typed(k)[1]], k).x
                           THEN <<[p |-> k, o |-> CatVals([q \in 1..Len(typed(k)) |-> ValOf(ms[typed(k)[q]], k)], fx).o, n |-> 0]>> ELSE <<>>)   \* the typed maps themselves
                          \o ElemOfMaps([q \in 1..Len(idx) |-> ValOf(ms[idx[q]], k).m], fx, k \o "/")
       IN IF Len(outer) = 0 THEN <<>> ELSE FlattenSeq([j \in 1..Len(outer) |-> inner(outer[j])])
  ELSE <<>>
(* A map of concatenable things is concatenable: when, under every key, the values (nil ones aside) have one dynamic type and  *)
(* that type's own concatenation of them succeeds -- strings, numbers; nested map[string]any recursively; a nested map of      *)
(* another static type (imap, smap) as observed in elem under p = key -- the map concatenation must not fail.                   *)
HasNilXV(m) == \E i \in 1..Len(m) : m[i].v.x = "nil" \/ \E j \in 1..Len(m[i].v.m) : m[i].v.m[j].v.x = "nil"
RECURSIVE Concatenable(_, _, _)
Concatenable(ms, elem, top) ==
  \A k \in UNION {KeysOf(ms[i]) : i \in 1..Len(ms)} :
     LET idx == SelectSeq([i \in 1..Len(ms) |-> i], LAMBDA i : k \in KeysOf(ms[i]) /\ ValOf(ms[i], k).x # "nil")
         vals == [q \in 1..Len(idx) |-> ValOf(ms[idx[q]], k)]
     IN vals = <<>> \/
        /\ \A i \in 1..Len(vals) : vals[i].x = vals[1].x
        /\ CASE vals[1].x \in {"str", "int", "bool", "min"} -> TRUE
              [] vals[1].x = "map" -> Concatenable([i \in 1..Len(vals) |-> vals[i].m], elem, FALSE)
              [] vals[1].x \in {"imap", "smap"} -> top /\ HasElem(elem, k) /\ ElemAt(elem, k).o = "ok"
              [] OTHER -> FALSE
MsgConflict(cs) == \/ \E i \in 1..Len(cs) : cs[i].nil
                   \/ Conflict([i \in 1..Len(cs) |-> cs[i].role]) \/ Conflict([i \in 1..Len(cs) |-> cs[i].name]) \/ Conflict([i \in 1..Len(cs) |-> cs[i].tcid])
(* "" when the outcome o of concatenating cs satisfies every clause, else the name of the first clause it breaks *)
WhyMsg(cs, o, elem) ==
  IF MsgConflict(cs) THEN (IF o.o = "ok" THEN "conflicting-role-name-or-id-accepted" ELSE "")   \* "returns an error if the messages have different roles or names"
  ELSE IF o.o # "ok" THEN
       (LET calls == FlattenSeq([i \in 1..Len(cs) |-> cs[i].calls])
            ex == SelectSeq([i \in 1..Len(cs) |-> cs[i].extra], LAMBDA e : e # <<>>)
        IN IF (\A ix \in IdxSet(calls) : ~GroupConflict(Group(calls, ix))) /\ ~(\E i \in 1..Len(ex) : HasNilXV(ex[i])) /\ Concatenable(ex, elem, TRUE)
           THEN "refuses-what-its-parts-accept" ELSE "")
  ELSE
    LET r == o.v
        calls == FlattenSeq([i \in 1..Len(cs) |-> cs[i].calls])
        metas == SelectSeq([i \in 1..Len(cs) |-> cs[i].meta], LAMBDA m : m.has)
        um == SelectSeq(metas, LAMBDA m : m.uhas)
        fs == SelectSeq([i \in 1..Len(metas) |-> metas[i].fin], LAMBDA f : f # "")
    IN IF r.nil THEN "nil-result"
       ELSE IF r.content # JoinS([i \in 1..Len(cs) |-> cs[i].content]) THEN "content-not-in-arrival-order"
       ELSE IF r.role # FirstNonEmpty([i \in 1..Len(cs) |-> cs[i].role]) \/ r.name # FirstNonEmpty([i \in 1..Len(cs) |-> cs[i].name])
               \/ r.tcid # FirstNonEmpty([i \in 1..Len(cs) |-> cs[i].tcid]) THEN "role-name-or-id-changed"
       ELSE IF ~ExpectCalls(calls, r.calls) THEN "tool-calls-not-merged-by-index-in-arrival-order"
       ELSE IF r.meta.has # (metas # <<>>) \/ r.meta.uhas # (um # <<>>) THEN "response-meta-presence"
       ELSE IF ~(/\ \A i \in 1..Len(um) : r.meta.p >= um[i].p /\ r.meta.c >= um[i].c /\ r.meta.t >= um[i].t          \* usage: the maximum ...
                 /\ um # <<>> => (\E i \in 1..Len(um) : r.meta.p = um[i].p) /\ (\E i \in 1..Len(um) : r.meta.c = um[i].c) /\ (\E i \in 1..Len(um) : r.meta.t = um[i].t))
            THEN "usage-not-the-maximum"
       ELSE IF r.meta.fin # (IF fs = <<>> THEN "" ELSE Last(fs)) THEN "finish-reason-not-the-last"
       ELSE IF ~ExpectMap(SelectSeq([i \in 1..Len(cs) |-> cs[i].extra], LAMBDA e : e # <<>>), r.extra, elem, "") THEN "extra-not-merged-per-key"
       ELSE ""
Why(kind, cs, o, elem) ==
  CASE kind = "msg" -> WhyMsg(cs, o, elem)
    [] kind \in MapKinds -> IF o.o = "ok" /\ ~ExpectMap([i \in 1..Len(cs) |-> cs[i].kv], o.v.kv, elem, "") THEN "map-not-merged-per-key"
                            ELSE IF o.o = "ok" /\ \E e \in RangeS(elem) : e.o # "ok" THEN "map-accepted-what-its-elements-refuse"
                            ELSE IF o.o = "err" /\ ~(\E i \in 1..Len(cs) : HasNilXV(cs[i].kv)) /\ Concatenable([i \in 1..Len(cs) |-> cs[i].kv], elem, TRUE)
                            THEN "refuses-what-its-parts-accept" ELSE ""
    [] kind = "str" -> IF o.o # "ok" \/ o.v.s # JoinS([i \in 1..Len(cs) |-> cs[i].s]) THEN "text-not-in-arrival-order" ELSE ""
    [] kind = "list" -> IF (\E i \in 1..Len(cs) : Len(cs[i].items) # Len(cs[1].items)) /\ o.o = "ok" THEN "list-length-mismatch-accepted" ELSE ""
    [] OTHER -> ""
Expect(kind, cs, o, elem) == Why(kind, cs, o, elem) = ""

HasNilValue(kind, cs) ==
  CASE kind = "msg" -> \E i \in 1..Len(cs) : HasNilXV(cs[i].extra)
    [] kind = "list" -> \E i \in 1..Len(cs) : \E p \in 1..Len(cs[i].items) : HasNilXV(cs[i].items[p].extra)
    [] kind \in MapKinds -> \E i \in 1..Len(cs) : HasNilXV(cs[i].kv)
    [] OTHER -> FALSE
================================================================================
