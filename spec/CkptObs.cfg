SPECIFICATION TSpec
CONSTRAINT HW
POSTCONDITION Post
CHECK_DEADLOCK FALSE
