SPECIFICATION Spec
CONSTANTS
  MaxDepth = 2
  MaxPtr = 2
  Bases = {"int", "string", "named", "unreg"}
  KeyKinds = {"string", "int", "bool", "named", "any"}
  ErrDepth = 1
  Fx = "asis"
INVARIANT ModelLaw
INVARIANT Emit
CHECK_DEADLOCK FALSE
