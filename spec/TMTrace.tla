------------------------------- MODULE TMTrace -------------------------------
(***************************************************************************)
(* Trace validation of REAL runs of compose.taskManager (C03, layer b).    *)
(*                                                                         *)
(* Input: trace.ndjson, the hook events of many runs, concatenated, each   *)
(* run introduced by a `case` line and closed by an `end` line; lines are  *)
(* sorted by the global ticket taken inside the hook.  Hooks (build tag    *)
(* verif, compose/graph_manager.go):                                       *)
(*   tm.submit    top of submit()               num, tasks (all of them)   *)
(*   tm.push      executor, under mu, after PushBack, BEFORE updateChan    *)
(*   tm.pushdone  executor, under mu, after updateChan                     *)
(*   tm.waitbegin waitOne, after num--, before <-done                      *)
(*   tm.recv      waitOne, after <-done                                    *)
(*   tm.refill    waitOne, under mu, after updateChan    len(l), len(done), num *)
(* plus the harness' own node-body events nb / ne (body begins / ends),    *)
(* ticketed by the same counter, which bind "node execution started" to    *)
(* the submitted task.                                                     *)
(*                                                                         *)
(* The spec is the protocol of TaskManager.tla seen through the hooks:     *)
(* every event is bound to one action, the logged len(l), len(done), num   *)
(* are asserted EXACTLY (they are read under mu / on the run-loop           *)
(* goroutine), and the two steps the hooks cannot see -- the channel send  *)
(* inside updateChan (Handoff) and the channel receive (ChanRecv) -- are   *)
(* silent steps.  Acceptance = the high-water mark of consumed lines       *)
(* reaches the end of the file (TLCSet register, -workers 1).  The driver  *)
(* localises a rejected run by the line at which the mark stops.           *)
(*                                                                         *)
(* What it demands of a run (P_C03, protocol level):                       *)
(*   - every started node execution (nb) belongs to a submitted task, is   *)
(*     pushed once after its body ended (also when it panicked: panic =>   *)
(*     error), handed over through list -> slot -> collector, received     *)
(*     once, in exactly one place at any time (NoLoss)                     *)
(*   - critical sections do not overlap, the slot holds <= 1 task, every   *)
(*     refill really tops the slot up (NoStall)                            *)
(*   - batch mode: submit only when everything earlier has been returned;  *)
(*     eager mode: wait returns after ONE task                             *)
(*   - the first task of a batch (or a lone task) runs synchronously: it   *)
(*     is pushed before the run loop starts waiting                        *)
(*   - the run ends (no `hang`), in batch mode with nothing outstanding    *)
(***************************************************************************)
EXTENDS Naturals, Sequences, FiniteSets, TLC, Json

Trace == ndJsonDeserialize("trace.ndjson")
ASSUME TLCSet(1, 0)

VARIABLES l,         \* next line
          mode,      \* "batch" | "eager" | "eager-int" (eager with static interrupt marks: the interrupt path calls waitAll())
          bad,       \* names of the nodes whose task must carry an error (failing or panicking body)
          pan,       \* names of the nodes whose body panics
          sub, body, fin,   \* submitted tasks: not yet begun / inside the body / body ended, not yet pushed
          lst, ch, num,
          inCS,      \* executor between tm.push and tm.pushdone
          cLocked,   \* the collector has started its updateChan (it holds mu until tm.refill)
          waiting,   \* between tm.waitbegin and tm.recv
          held, collected, all,
          syncT,     \* task that must be pushed before the next tm.waitbegin
          ncoll,     \* tasks returned since the last submit
          phase      \* "idle" | "run"
vars == <<l, mode, bad, pan, sub, body, fin, lst, ch, num, inCS, cLocked, waiting, held, collected, all, syncT, ncoll, phase>>

None == "none"
Range(s) == {s[i] : i \in 1..Len(s)}

Init == /\ l = 1 /\ mode = "batch" /\ bad = {} /\ pan = {} /\ sub = {} /\ body = {} /\ fin = {} /\ lst = <<>> /\ ch = <<>> /\ num = 0
        /\ inCS = None /\ cLocked = FALSE /\ waiting = FALSE /\ held = None /\ collected = {} /\ all = {} /\ syncT = None /\ ncoll = 0
        /\ phase = "idle"

IsEvent(e) == l <= Len(Trace) /\ Trace[l].ev = e /\ l' = l + 1
E == Trace[l]
Quiet == sub = {} /\ body = {} /\ fin = {} /\ lst = <<>> /\ ch = <<>> /\ num = 0 /\ held = None /\ ~waiting /\ inCS = None

Case == /\ IsEvent("case")
        /\ mode' = E.mode /\ bad' = Range(E.bad) /\ pan' = Range(E.pan)
        /\ sub' = {} /\ body' = {} /\ fin' = {} /\ lst' = <<>> /\ ch' = <<>> /\ num' = 0 /\ inCS' = None /\ cLocked' = FALSE
        /\ waiting' = FALSE /\ held' = None /\ collected' = {} /\ all' = {} /\ syncT' = None /\ ncoll' = 0 /\ phase' = "run"

Submit == /\ IsEvent("tm.submit") /\ phase = "run" /\ E.tm = 1
          /\ ~waiting /\ held = None
          /\ E.num = num
          /\ Range(E.tasks) \cap all = {} /\ Cardinality(Range(E.tasks)) = Len(E.tasks)
          /\ (mode = "batch" => Quiet)                                        \* wait() returned everything of the previous step
          /\ sub' = sub \cup Range(E.tasks) /\ all' = all \cup Range(E.tasks)
          /\ num' = num + Len(E.tasks)
          /\ syncT' = IF num = 0 /\ Len(E.tasks) >= 1 /\ (Len(E.tasks) = 1 \/ mode = "batch") THEN E.tasks[1] ELSE None
          /\ ncoll' = 0
          /\ UNCHANGED <<mode, bad, pan, body, fin, lst, ch, inCS, cLocked, waiting, held, collected, phase>>

NodeBegin == /\ IsEvent("nb") /\ phase = "run" /\ E.n \in sub
             /\ sub' = sub \ {E.n} /\ body' = body \cup {E.n}
             /\ UNCHANGED <<mode, bad, pan, fin, lst, ch, num, inCS, cLocked, waiting, held, collected, all, syncT, ncoll, phase>>
NodeEnd == /\ IsEvent("ne") /\ phase = "run" /\ E.n \in body
           /\ body' = body \ {E.n} /\ fin' = fin \cup {E.n}
           /\ UNCHANGED <<mode, bad, pan, sub, lst, ch, num, inCS, cLocked, waiting, held, collected, all, syncT, ncoll, phase>>

Push == /\ IsEvent("tm.push") /\ phase = "run" /\ E.tm = 1
        /\ E.task \in fin /\ inCS = None /\ ~cLocked
        /\ Len(lst) + 1 = E.l
        /\ E.panic = (E.task \in pan) /\ E.err = (E.task \in bad)             \* panic in a node body becomes that task's error
        /\ lst' = Append(lst, E.task) /\ fin' = fin \ {E.task} /\ inCS' = E.task
        /\ UNCHANGED <<mode, bad, pan, sub, body, ch, num, cLocked, waiting, held, collected, all, syncT, ncoll, phase>>
PushDone == /\ IsEvent("tm.pushdone") /\ phase = "run" /\ E.tm = 1
            /\ inCS = E.task /\ Len(lst) = E.l
            /\ inCS' = None
            /\ UNCHANGED <<mode, bad, pan, sub, body, fin, lst, ch, num, cLocked, waiting, held, collected, all, syncT, ncoll, phase>>
\* silent: updateChan moves the head of the overflow list into the empty slot -- only inside somebody's critical section
Handoff == /\ phase = "run" /\ lst # <<>> /\ ch = <<>>
           /\ \/ inCS # None /\ cLocked' = cLocked
              \/ inCS = None /\ held # None /\ ~waiting /\ cLocked' = TRUE
           /\ ch' = <<Head(lst)>> /\ lst' = Tail(lst)
           /\ UNCHANGED <<l, mode, bad, pan, sub, body, fin, num, inCS, waiting, held, collected, all, syncT, ncoll, phase>>
Pushed(t) == t \in all /\ t \notin sub \cup body \cup fin /\ inCS # t
WaitBegin == /\ IsEvent("tm.waitbegin") /\ phase = "run" /\ E.tm = 1
             /\ ~waiting /\ held = None /\ num > 0
             /\ E.num = num - 1
             /\ (syncT # None => Pushed(syncT))                               \* the synchronous task ran on the run-loop goroutine
             /\ num' = num - 1 /\ waiting' = TRUE /\ syncT' = None
             /\ UNCHANGED <<mode, bad, pan, sub, body, fin, lst, ch, inCS, cLocked, held, collected, all, ncoll, phase>>
\* silent: the channel receive itself (no lock)
ChanRecv == /\ phase = "run" /\ waiting /\ held = None /\ ch # <<>>
            /\ held' = Head(ch) /\ ch' = <<>>
            /\ UNCHANGED <<l, mode, bad, pan, sub, body, fin, lst, num, inCS, cLocked, waiting, collected, all, syncT, ncoll, phase>>
Recv == /\ IsEvent("tm.recv") /\ phase = "run" /\ E.tm = 1
        /\ waiting /\ held = E.task /\ E.task \notin collected
        /\ E.err = (E.task \in bad)
        /\ waiting' = FALSE
        /\ UNCHANGED <<mode, bad, pan, sub, body, fin, lst, ch, num, inCS, cLocked, held, collected, all, syncT, ncoll, phase>>
RefillEv == /\ IsEvent("tm.refill") /\ phase = "run" /\ E.tm = 1
            /\ ~waiting /\ held # None /\ inCS = None
            /\ Len(lst) = E.l /\ Len(ch) = E.done /\ num = E.num              \* exact: the collector holds mu and is the only receiver
            /\ ~(lst # <<>> /\ ch = <<>>)                                     \* updateChan ran to completion
            /\ (mode = "eager" => ncoll = 0)                                  \* eager: wait() returns ONE task
            /\ collected' = collected \cup {held} /\ held' = None /\ cLocked' = FALSE /\ ncoll' = ncoll + 1
            /\ UNCHANGED <<mode, bad, pan, sub, body, fin, lst, ch, num, inCS, waiting, all, syncT, phase>>
\* the public call returned (res = "hang": the watchdog fired -- never accepted)
End == /\ IsEvent("end") /\ phase = "run"
       /\ E.res \in {"ok", "err", "interrupt"}
       /\ ~waiting /\ held = None
       /\ (mode = "batch" => Quiet /\ collected = all)
       /\ (E.res = "interrupt" => Quiet /\ collected = all)               \* every started task is collected before the run returns an interrupt
       /\ phase' = "idle"
       /\ UNCHANGED <<mode, bad, pan, sub, body, fin, lst, ch, num, inCS, cLocked, waiting, held, collected, all, syncT, ncoll>>
\* eager mode: executions orphaned by an early return may still end and be pushed after the run returned
Late == /\ phase = "idle" /\ l <= Len(Trace) /\ Trace[l].ev \in {"nb", "ne", "tm.push", "tm.pushdone"} /\ mode # "batch"
        /\ l' = l + 1
        /\ UNCHANGED <<mode, bad, pan, sub, body, fin, lst, ch, num, inCS, cLocked, waiting, held, collected, all, syncT, ncoll, phase>>

\* a TLC-generated order of critical sections could not be followed by the real run (recorded, judged by the driver as drift)
SchedNote == /\ IsEvent("sched.timeout")
             /\ UNCHANGED <<mode, bad, pan, sub, body, fin, lst, ch, num, inCS, cLocked, waiting, held, collected, all, syncT, ncoll, phase>>

Next == SchedNote \/ Case \/ Submit \/ NodeBegin \/ NodeEnd \/ Push \/ PushDone \/ Handoff \/ WaitBegin \/ ChanRecv \/ Recv \/ RefillEv \/ End \/ Late
Spec == Init /\ [][Next]_vars

HW == TLCSet(1, IF l > TLCGet(1) THEN l ELSE TLCGet(1))
Post == PrintT(<<"HW", TLCGet(1)>>)

\* protocol invariants over the reconstructed state
InFlight == sub \cup body \cup fin \cup Range(lst) \cup Range(ch) \cup (IF held = None THEN {} ELSE {held})
Where(t) == (IF t \in sub \cup body \cup fin THEN 1 ELSE 0) + Cardinality({i \in 1..Len(lst) : lst[i] = t})
            + Cardinality({i \in 1..Len(ch) : ch[i] = t}) + (IF held = t THEN 1 ELSE 0) + (IF t \in collected THEN 1 ELSE 0)
NoLoss == \A t \in all : Where(t) = 1
ChanCap == Len(ch) <= 1
NoStall == (lst # <<>> /\ ch = <<>>) => (inCS # None \/ held # None)
NumOK == num + (IF waiting \/ held # None THEN 1 ELSE 0) = Cardinality(all \ collected)
================================================================================
