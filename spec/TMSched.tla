------------------------------- MODULE TMSched -------------------------------
(***************************************************************************)
(* Schedule generator for C03, layer (b): every behaviour of the protocol  *)
(* model TaskManager.tla (one submit of all tasks, then collection until   *)
(* nothing is outstanding) is projected onto the ORDER OF ITS CRITICAL     *)
(* SECTIONS                                                                *)
(*      <<"E", t>>   executor t takes mu (PushBack + updateChan)           *)
(*      <<"C">>      the collector takes mu (updateChan after a receive)   *)
(* and each distinct order is printed once as <<"CASE", json>> when the    *)
(* run loop ends.  The Go harness replays an order on the REAL task        *)
(* manager by holding executors at the gate `tm.exec.prelock` and the      *)
(* collector at the gate `tm.wait.postrecv` and releasing them one by one  *)
(* (acknowledged by the tm.pushdone / tm.refill hook events); the recorded *)
(* hook trace is then validated against TMTrace like any other.            *)
(* The history variables are derived from the step (cs' is a function of   *)
(* the unprimed and primed protocol variables), the protocol actions are   *)
(* used unchanged.                                                         *)
(***************************************************************************)
EXTENDS TaskManager, TLC, Json

VARIABLES cs,      \* sequence of critical-section entries
          syncH    \* the task that ran synchronously on the run-loop goroutine ("none" if there was none)
svars == <<vars, cs, syncH>>

SInit == Init /\ cs = <<>> /\ syncH = None
Entered(t) == epc[t] = "fin" /\ epc'[t] \in {"upd", "done"}
SNext == /\ Next
         /\ cs' = IF \E t \in Tasks : Entered(t) THEN Append(cs, <<"E", CHOOSE t \in Tasks : Entered(t)>>)
                  ELSE IF cpc = "got" /\ cpc' = "cupd" THEN Append(cs, <<"C">>)
                  ELSE cs
         /\ syncH' = IF sync = None /\ sync' # None THEN sync' ELSE syncH
SSpec == SInit /\ [][SNext]_svars

\* one submit, of all tasks
AllAtOnce == nsub >= 1 => Submitted = Tasks
Emit == cpc = "end" => PrintT(<<"CASE", ToJson([eager |-> Eager, k |-> Cardinality(Tasks), sync |-> syncH, cs |-> cs])>>)
================================================================================
