------------------------------ MODULE Callbacks ------------------------------
(***************************************************************************)
(* Implementation-shaped model of eino's callback plumbing (C10).          *)
(*                                                                         *)
(*   internal/callbacks/manager.go   manager{globalHandlers, handlers,     *)
(*                                   runInfo}; newManager copies the       *)
(*                                   global list, KEEPS the slice it gets  *)
(*   internal/callbacks/inject.go    InitCallbacks / AppendHandlers        *)
(*                                   (append(cbm.handlers, hs...)) / On    *)
(*                                   (append(mgr.handlers, global...),     *)
(*                                   timing filter, start in reverse)      *)
(*   compose/utils.go:214-261        initGraphCallbacks (one append per    *)
(*                                   undesignated WithCallbacks option),   *)
(*                                   initNodeCallbacks (one append per     *)
(*                                   option designated to the node key)    *)
(*   compose/utils.go:309-370        designated handlers travel into a     *)
(*                                   sub-graph as deep copies with the     *)
(*                                   path shortened                        *)
(*   compose/graph_manager.go:282    every task: initNodeCallbacks, then   *)
(*   compose/utils.go:162-181        start -> body -> end | error          *)
(*   compose/graph_run.go:104-116    graph: start, nodes, end | error      *)
(*                                                                         *)
(* Handler lists are Go slices (GoSlice.tla): the context manager of a     *)
(* unit holds a header (arr, len, cap) over a shared heap of arrays, so    *)
(* that in-place appends of two parallel units into the spare capacity of  *)
(* the list they both inherited are expressible (defect D4).               *)
(*                                                                         *)
(* Every unit (graph, node, nested graph, nested node) is a little         *)
(* process:  init -> startW -> startR -> run -> endW -> endR -> done       *)
(*   init    AppendHandlers(ctx of the parent, handlers designated to me)  *)
(*   xW      the `append(mgr.handlers, mgr.globalHandlers...)` of On       *)
(*           (a WRITE into the shared array when capacity allows)          *)
(*   xR      the scan of that list + dispatch of the events                *)
(* TLC explores every interleaving of the units that run in parallel.      *)
(* The events are judged by CbRule!Apply, the same rule that judges the    *)
(* traces of the real code (CbObs.tla).                                    *)
(*                                                                         *)
(* CopyFix = TRUE models the proposed repair (fixes/D4-append-handlers):   *)
(* AppendHandlers copies before appending, On scans the two lists without  *)
(* appending.                                                              *)
(* Gen = TRUE turns the model into the scenario generator: the steps the   *)
(* Go harness cannot hold back (init, xW) get priority, the steps it can   *)
(* gate (startR, endW of a leaf = leaving the body, endR) are recorded in  *)
(* `sched`, and every terminal state prints one CASE.                      *)
(***************************************************************************)
EXTENDS CbRule, GoSlice

CONSTANTS Shape,       \* "par2" | "par3" | "seq" | "nest" | "nestdup" | "sbr" | "nsbr" | "tools" | "det"
          MaxGlobal,   \* 0..MaxGlobal global handlers
          MaxUndes,    \* total number of undesignated handlers
          MaxOpts,     \* ... split over at most MaxOpts WithCallbacks options of 1 or 2 handlers
          MaxDOpts,    \* number of designated WithCallbacks(h).DesignateNode...(paths) options
          Multi,       \* admit designated options with two paths
          AllowFail,   \* admit one failing leaf
          CopyFix, Gen,
          LateFlag,    \* seeded variant of runner.run: `haveOnStart = true` only after the fresh-start block (see EndR)
          KeepScope,   \* seeded variant of InitCallbacks: without handlers and globals the context is returned unchanged (see DetInit)
          ExtractFirst,\* seeded variant of runner.run: extractOption in front of the deferred start/end pairing (see Rejected)
          AllowDv,     \* TRUE: the case has a DERIVED callbacks option "dv": base := WithCallbacks(dv) designated stepwise to 1..4 nodes,
                       \* then two siblings first := base.DesignateNode(x), second := base.DesignateNode(y); one of them is passed to the call
          ShareBase,   \* seeded variant of Option.DesignateNodeWithPath (= old D11): o.paths = append(o.paths, path...) without the copy, so
                       \* the siblings share the base's backing array and the later derivation overwrites the earlier one's entry
          NestedOnce,  \* TRUE = proposed repair (fixes/D20-nested-designation-repeated.diff): extractOption forwards a repeated nested path of a
                       \* callbacks-only option once; FALSE = as coded: one deep copy per occurrence, the handler is attached twice inside
          NoBreak,     \* seeded variant of initNodeCallbacks: no `break` after the first path of an option that names the node (see DChunks)
          NoRebind     \* seeded variant of manager.withRunInfo: a manager without per-call handlers is returned unchanged (see ToolInit)

\* ------------------------------------------------------------------ unit tables
U(id, path, graph, parent, src, srcin, pred) ==
  [u |-> id, path |-> path, name |-> "N_" \o id, comp |-> IF graph THEN "Graph" ELSE "Lambda", typ |-> IF graph THEN "" ELSE "T_" \o id,
   graph |-> graph, parent |-> parent, src |-> src, srcin |-> srcin, pred |-> pred, host |-> "", fresh |-> FALSE]
Top == U("top", <<>>, TRUE, "", "", TRUE, "")
Leaf(id, key, pred) == U(id, <<key>>, FALSE, "top", IF pred = "" THEN "top" ELSE pred, pred = "", pred)
UnitSeq ==
  CASE Shape = "par2" -> <<Top, Leaf("a", "a", ""), Leaf("b", "b", "")>>
    [] Shape = "par3" -> <<Top, Leaf("a", "a", ""), Leaf("b", "b", ""), Leaf("c", "c", "")>>
    [] Shape = "seq"  -> <<Top, Leaf("a", "a", ""), Leaf("c", "c", "a")>>
    [] Shape = "nest" -> <<Top, Leaf("a", "a", ""), U("sub", <<"sub">>, TRUE, "top", "top", TRUE, ""),
                           U("s1", <<"sub", "s1">>, FALSE, "sub", "top", TRUE, ""), U("s2", <<"sub", "s2">>, FALSE, "sub", "top", TRUE, "")>>
    \* a top-level node whose KEY equals the key of a node inside the sub-graph
    [] Shape = "nestdup" -> <<Top, Leaf("a", "s1", ""), U("sub", <<"sub">>, TRUE, "top", "top", TRUE, ""),
                              U("s1", <<"sub", "s1">>, FALSE, "sub", "top", TRUE, "")>>
    \* runs that can end INSIDE the initial START step of runner.run: a branch on START with the targets {the leaf, END}
    \* ("sbr": in the top graph; "nsbr": in a nested graph that is the only node of the top graph); see `bsel` below
    \* "det": the body of node a runs a component under a DETACHED callback scope: ctx2 = callbacks.InitCallbacks(ctx, info) with no
    \* handlers, then callbacks.OnStart / OnEnd on ctx2.  That execution is a unit of its own ("da", hosted by a's body) to which only
    \* global handlers apply (fresh = TRUE): per-call and designated handlers of the enclosing run must not see it, and it must not
    \* be reported under a's run info.
    [] Shape = "det"  -> <<Top, Leaf("a", "a", ""), Leaf("b", "b", ""),
                           [U("da", <<"a", "#da">>, FALSE, "top", "", TRUE, "") EXCEPT !.comp = "Detached", !.host = "a", !.fresh = TRUE]>>
    [] Shape = "sbr"  -> <<Top, Leaf("a", "a", "")>>
    \* a ToolsNode executing two tool calls in parallel: each tool call is an execution unit of its own (component Tool, run info =
    \* the tool's name / type), whose context is made by callbacks.ReuseHandlers from the ToolsNode's context (compose/tool_node.go:221-243).
    \* For the rule the ToolsNode is a composite unit like a nested graph (graph = TRUE: it ran / failed iff a tool call did; its own
    \* payload is not compared); tool calls cannot be designated (their pseudo path only says they are inside "tn").
    [] Shape = "tools" -> <<Top, [U("tn", <<"tn">>, TRUE, "top", "top", TRUE, "") EXCEPT !.comp = "ToolsNode"],
                            [U("t1", <<"tn", "#t1">>, FALSE, "tn", "top", TRUE, "") EXCEPT !.comp = "Tool"],
                            [U("t2", <<"tn", "#t2">>, FALSE, "tn", "top", TRUE, "") EXCEPT !.comp = "Tool"]>>
    [] Shape = "nsbr" -> <<Top, U("sub", <<"sub">>, TRUE, "top", "top", TRUE, ""), U("s1", <<"sub", "s1">>, FALSE, "sub", "top", TRUE, "")>>
UnitSet == Range(UnitSeq)
Ids == {u.u : u \in UnitSet}
UR(id) == CHOOSE u \in UnitSet : u.u = id
Leaves == {u.u : u \in {x \in UnitSet : ~x.graph}}
Children(g) == {u.u : u \in {x \in UnitSet : x.parent = g}}
Hosted(id) == UR(id).host # ""
HostedBy(h) == {u.u : u \in {x \in UnitSet : x.host = h}}
Ends == LET last == {id \in Leaves : ~Hosted(id) /\ ~\E v \in UnitSet : v.pred = id} IN
        SelectSeq([i \in 1..Len(UnitSeq) |-> UnitSeq[i].u], LAMBDA id : id \in last)
RECURSIVE InOf(_)
InOf(id) == LET u == UR(id) IN IF u.src = "" THEN "x" ELSE IF u.srcin THEN InOf(u.src) ELSE u.src \o "(" \o InOf(u.src) \o ")"
OutOf(id) == IF id = "top" THEN "R" ELSE id \o "(" \o InOf(id) \o ")"

\* ------------------------------------------------------------------ configurations
RECURSIVE Sum(_)
Sum(s) == IF s = <<>> THEN 0 ELSE Head(s) + Sum(Tail(s))
Splits == {s \in UNION {[1..k -> 1..2] : k \in 0..MaxOpts} : Sum(s) <= MaxUndes}
IsToolCall(id) == id \in {"t1", "t2"} /\ Shape = "tools"
DPaths == {u.path : u \in {x \in UnitSet : x.parent # "" /\ ~IsToolCall(x.u) /\ x.host = ""}}
POrd(p) == CHOOSE i \in 1..Len(UnitSeq) : UnitSeq[i].path = p
\* one option may designate two paths, in EITHER order (extractOption walks opt.paths in order: a top-level path in front of a nested
\* one and the reverse are different executions of that loop)
\* Outside the universe: one option naming a graph node AND a node inside it (the handler is then inherited from the graph node
\* and appended again for the inner node, so it fires twice there; whether that is wanted is not decided by the statement).
\* With Multi a designation list may also name the SAME path twice (lists accumulate through repeated DesignateNode /
\* DesignateNodeWithPath calls): <<p, p>>.
DTargets == {<<p>> : p \in DPaths} \cup (IF Multi THEN {pq \in DPaths \X DPaths : pq[1] = pq[2] \/ (~IsPrefix(pq[1], pq[2]) /\ ~IsPrefix(pq[2], pq[1]))} ELSE {})
DSeqs == UNION {[1..k -> DTargets] : k \in 0..MaxDOpts}
FailSet == {"none"} \cup (IF AllowFail THEN (IF Shape \in {"nest", "nestdup"} THEN {"a", "s1"} ELSE IF Shape = "nsbr" THEN {"s1"} ELSE IF Shape = "tools" THEN {"t1"} ELSE {"a"}) ELSE {})
\* what the branch on START does:  node = selects the leaf (ordinary run) | end = selects END directly (the result is there after
\* the START step) | fail = the condition returns an error | int = the selected leaf is an interrupt-before node (checkpoint store
\* present): runner.run returns from inside the fresh-start block in the last three cases
BranchGraph == IF Shape = "sbr" THEN "top" ELSE IF Shape = "nsbr" THEN "sub" ELSE "none"
BSels == IF Shape = "sbr" THEN {"node", "end", "fail", "int"} ELSE IF Shape = "nsbr" THEN {"node", "end", "fail"} ELSE {"node"}
\* a call option the (sub) graph rejects when it extracts its options: an extra callbacks option "dx" designated to
\*   t1 an unknown top-level node | t2 a path below a top-level leaf | s1 an unknown node inside the nested graph (passes the top-level
\*   check, fails in the nested run) | s2 a path below a leaf of the nested graph.   The rejected run is an execution of that
\*   graph unit: it must still report one start and one error.
BadOpts == {"none"} \cup (IF Shape \in {"par2", "nest", "nestdup"} THEN {"t1", "t2"} ELSE {})
                    \cup (IF Shape \in {"nest", "nestdup"} THEN {"s1", "s2"} ELSE {})
BadPath(b) == CASE b = "t1" -> <<"zz">> [] b = "t2" -> <<UR("a").path[1], "x">> [] b = "s1" -> <<"sub", "zz">> [] b = "s2" -> <<"sub", "s1", "x">>
RejectG(c) == IF c.badopt \in {"t1", "t2"} THEN "top" ELSE IF c.badopt \in {"s1", "s2"} THEN "sub" ELSE ""
\* derived callbacks option: base = the first k entries of the cyclic list of designatable paths, own entries x # y, and which sibling is used
PSeq == SelectSeq([i \in 1..Len(UnitSeq) |-> UnitSeq[i].path], LAMBDA p : p \in DPaths)
NoDv == [k |-> 0, x |-> <<>>, y |-> <<>>, use |-> "none"]
\* (the base names the first designatable node k times -- a node named repeatedly at the top level gets the handler once --, so that
\* the siblings' own entries x, y are the only designations of THEIR nodes and a mix-up is observable)
DvSet == {NoDv} \cup (IF AllowDv THEN {d \in [k : 1..4, x : DPaths \ {PSeq[1]}, y : DPaths \ {PSeq[1]}, use : {"first", "second"}] : d.x # d.y} ELSE {})
DvBase(d) == [i \in 1..d.k |-> PSeq[1]]
\* the designation list of the sibling that is passed to the call, computed on Go slices of *NodePath (8-byte elements):
\*   DesignateNodeWithPath as coded: fresh slice of len(o.paths)+len(path), copy, append;  ShareBase: append onto the base's array
DvPaths(d) ==
  LET b0 == AppendEach(EmptyHeap, NilSlice, [i \in 1..d.k |-> <<DvBase(d)[i]>>], 1, 8)        \* ShareBase grows 1 -> 2 -> 4; the copy variant has len = cap anyway
      b  == IF ShareBase THEN b0 ELSE CopyAppend(b0.h, b0.s, <<>>, b0.na)
      f  == IF ShareBase THEN GoAppend(b.h, b.s, <<d.x>>, b.na, 8) ELSE CopyAppend(b.h, b.s, <<d.x>>, b.na)
      g  == IF ShareBase THEN GoAppend(f.h, b.s, <<d.y>>, f.na, 8) ELSE CopyAppend(f.h, b.s, <<d.y>>, f.na)
  IN IF d.use = "first" THEN View(g.h, f.s) ELSE View(g.h, g.s)
DvIntended(d) == DvBase(d) \o <<IF d.use = "first" THEN d.x ELSE d.y>>
Configs == {c \in [ng : 0..MaxGlobal, split : Splits, dopts : DSeqs, fail : FailSet, bsel : BSels, badopt : BadOpts, dv : DvSet] :
              /\ c.fail # "none" => c.bsel = "node" /\ c.badopt = "none"
              /\ c.dv.k > 0 => c.badopt = "none" /\ c.fail = "none"}
\* all designated options the run sees: [id, paths (as the library reads them)]
AllD(c) == [i \in 1..Len(c.dopts) |-> [id |-> "d" \o ToString(i), paths |-> c.dopts[i]]]
           \o (IF c.dv.k = 0 THEN <<>> ELSE <<[id |-> "dv", paths |-> DvPaths(c.dv)]>>)

GId(i) == "G" \o ToString(i)
UId(i) == "g" \o ToString(i)
DId(i) == "d" \o ToString(i)
Globals(c) == [i \in 1..c.ng |-> GId(i)]
\* the handler lists of the undesignated options, in option order: <<<<g1>>, <<g2, g3>>, ...>>
RECURSIVE UChunks(_, _)
UChunks(split, from) == IF split = <<>> THEN <<>>
                        ELSE <<[i \in 1..Head(split) |-> UId(from + i - 1)]>> \o UChunks(Tail(split), from + Head(split))
\* initNodeCallbacks(key): one chunk per option, in option order, that designates the unit's path
\* (at the top level the option itself, inside a sub-graph its deep copy with the shortened path: same handler)
\*   top level: `for _, k := range opts[i].paths { if len(k.path) == 1 && k.path[0] == key { cbs = append(cbs, handler...); break } }`
\*              -> once per option however often the list names the node (NoBreak: once per occurrence)
\*   nested:    extractOption forwards ONE deep copy per path of length > 1 (paths = [tail]), so the nested graph sees as many
\*              options as the list has occurrences of the path, and each of them matches its key once
Occ(c, i, id) == Cardinality({j \in 1..Len(AllD(c)[i].paths) : AllD(c)[i].paths[j] = UR(id).path})
Times(c, i, id) == IF Occ(c, i, id) = 0 THEN 0
                   ELSE IF UR(id).parent = "top" THEN (IF NoBreak THEN Occ(c, i, id) ELSE 1)
                   ELSE IF NestedOnce /\ ~NoBreak THEN 1 ELSE Occ(c, i, id)
RECURSIVE DChunksFrom(_, _, _)
DChunksFrom(c, id, i) == IF i > Len(AllD(c)) THEN <<>>
                         ELSE [k \in 1..Times(c, i, id) |-> <<AllD(c)[i].id>>] \o DChunksFrom(c, id, i + 1)
DChunks(c, id) == DChunksFrom(c, id, 1)
CaseLine(c) ==
  [ev |-> "case", id |-> "m", shape |-> Shape,
   handlers |-> [i \in 1..c.ng |-> [id |-> GId(i), kind |-> "global", paths |-> <<>>]]
                \o [i \in 1..Sum(c.split) |-> [id |-> UId(i), kind |-> "undes", paths |-> <<>>]]
                \o [i \in 1..Len(c.dopts) |-> [id |-> DId(i), kind |-> "des", paths |-> c.dopts[i]]]
                \o (IF c.badopt = "none" THEN <<>> ELSE <<[id |-> "dx", kind |-> "des", paths |-> <<BadPath(c.badopt)>>]>>)
                \* the derived option: `paths` = what the user's derivation means (value semantics); `derive` tells the harness how to build it
                \o (IF c.dv.k = 0 THEN <<>> ELSE <<[id |-> "dv", kind |-> "des", paths |-> DvIntended(c.dv),
                                                     derive |-> [base |-> DvBase(c.dv), x |-> c.dv.x, y |-> c.dv.y, use |-> c.dv.use]]>>),
   split |-> c.split, ng |-> c.ng, fail |-> c.fail, bsel |-> c.bsel, badopt |-> c.badopt,
   reject |-> IF RejectG(c) = "sub" THEN "sub" ELSE "", rejecttop |-> RejectG(c) = "top",
   units |-> UnitSeq, ends |-> IF c.bsel = "node" /\ RejectG(c) = "" THEN Ends ELSE <<>>]

\* ------------------------------------------------------------------ state
VARIABLES cfg, heap, na, mgr, lst, pc, S, sched
vars == <<cfg, heap, na, mgr, lst, pc, S, sched>>

\* ri = the unit whose RunInfo the manager carries (manager.runInfo)
NoMgr == [on |-> FALSE, hs |-> NilSlice, gl |-> <<>>, ri |-> ""]
NoLst == [s |-> NilSlice, ext |-> <<>>]

Init ==
  /\ cfg \in Configs
  /\ heap = EmptyHeap /\ na = 1
  /\ mgr = [id \in Ids |-> NoMgr]
  /\ lst = [id \in Ids |-> NoLst]
  /\ pc = [id \in Ids |-> IF id = "top" THEN "ginit" ELSE "wait"]
  /\ S = Apply(Idle, CaseLine(cfg))
  /\ sched = <<>>

\* ------------------------------------------------------------------ the library, as coded
\* InitCallbacks(ctx, info, hs...): newManager keeps hs and copies the global list; no manager when both are empty
InitCallbacks(hs) == IF hs.len + cfg.ng = 0 THEN NoMgr ELSE [on |-> TRUE, hs |-> hs, gl |-> Globals(cfg), ri |-> ""]

\* initGraphCallbacks / initNodeCallbacks followed by AppendHandlers(ctx, info, cbs...):
\*   var cbs []Handler; for each matching option: cbs = append(cbs, opt.handler...)
\*   no manager in ctx -> InitCallbacks(ctx, info, cbs...)  else  InitCallbacks(ctx, info, append(cbm.handlers, cbs...)...)
\* Result: [h, na, m]
AppendHandlers(parent, chunks) ==
  LET c1 == AppendEach(heap, NilSlice, chunks, na, 16)
      add == View(c1.h, c1.s)
  IN IF ~parent.on THEN [h |-> c1.h, na |-> c1.na, m |-> InitCallbacks(c1.s)]
     ELSE LET r == IF CopyFix THEN CopyAppend(c1.h, parent.hs, add, c1.na) ELSE GoAppend(c1.h, parent.hs, add, c1.na, 16)
          IN [h |-> r.h, na |-> r.na, m |-> InitCallbacks(r.s)]

Rejected(g) == g # "" /\ RejectG(cfg) = g                           \* extractOption fails for the run of graph g: no node of g starts
Early(g) == (g = BranchGraph /\ cfg.bsel # "node") \/ Rejected(g)   \* the run of g returns before its main loop
EarlyErr == (BranchGraph # "none" /\ cfg.bsel \in {"fail", "int"}) \/ RejectG(cfg) # ""
Failing(id) == IF UR(id).graph THEN (id = "top" /\ (cfg.fail # "none" \/ EarlyErr)) \/ cfg.fail \in Children(id) \/ (Early(id) /\ EarlyErr)
               ELSE cfg.fail = id
EndTiming(id) == IF Failing(id) THEN "error" ELSE "end"
\* the run info a handler is given is the one stored in the manager of the unit's context
Ev(h, t, id) == [ev |-> "cb", h |-> h, t |-> t, name |-> UR(mgr[id].ri).name, comp |-> UR(mgr[id].ri).comp, typ |-> UR(mgr[id].ri).typ,
                 pl |-> IF t = "start" THEN InOf(id) ELSE IF t = "error" THEN "err" ELSE OutOf(id), strm |-> FALSE]
Rev(s) == [i \in 1..Len(s) |-> s[Len(s) + 1 - i]]

\* ------------------------------------------------------------------ steps
Blocked(id) == UR(id).pred # "" /\ cfg.fail = UR(id).pred
CanInit(id) == IF Hosted(id) THEN pc[id] = "wait" /\ pc[UR(id).host] = "run"
               ELSE /\ id # "top" /\ pc[id] = "wait" /\ pc[UR(id).parent] = "run" /\ ~Early(UR(id).parent)
                    /\ (UR(id).pred # "" => pc[UR(id).pred] = "done" /\ ~Blocked(id))
ChildrenDone(g) == Early(g) \/ \A k \in Children(g) : pc[k] = "done" \/ Blocked(k)
CanEndW(id) == pc[id] = "run" /\ (UR(id).graph => ChildrenDone(id)) /\ \A h \in HostedBy(id) : pc[h] = "done"
Ungated == \E id \in Ids : \/ CanInit(id)
                            \/ pc[id] = "startW"
                            \/ (UR(id).graph /\ CanEndW(id))
                            \/ (id = "top" /\ pc[id] \in {"ginit", "startR", "endR", "done"})
                            \/ (Hosted(id) /\ (pc[id] \in {"startR", "endR"} \/ CanEndW(id)))   \* runs inside a body: not gateable on its own
MayGate == Gen => ~Ungated
Rec(id, step) == sched' = IF Gen /\ id # "top" /\ ~Hosted(id) THEN Append(sched, <<id, step>>) ELSE sched

GInit ==
  /\ pc["top"] = "ginit"
  /\ LET r == AppendHandlers(NoMgr, UChunks(cfg.split, 1)) IN
       /\ heap' = r.h /\ na' = r.na /\ mgr' = [mgr EXCEPT !["top"] = [r.m EXCEPT !.ri = "top"]]
  /\ pc' = [pc EXCEPT !["top"] = "startW"]
  /\ UNCHANGED <<cfg, lst, S, sched>>

NodeInit(id) ==
  /\ CanInit(id) /\ ~IsToolCall(id) /\ ~Hosted(id)
  /\ LET r == AppendHandlers(mgr[UR(id).parent], DChunks(cfg, id)) IN
       /\ heap' = r.h /\ na' = r.na /\ mgr' = [mgr EXCEPT ![id] = [r.m EXCEPT !.ri = id]]
  /\ pc' = [pc EXCEPT ![id] = "startW"]
  /\ UNCHANGED <<cfg, lst, S, sched>>

\* a detached scope opened by user code inside a node body: callbacks.InitCallbacks(ctx, info) with NO handlers = newManager(info):
\* no per-call handlers; the global ones if there are any, else ctxWithManager(ctx, nil): nothing fires.
\* KeepScope (seeded variant): `if !ok { return ctx }` -- without global handlers the host's manager (handlers AND run info) stays.
DetInit(id) ==
  /\ CanInit(id) /\ Hosted(id)
  /\ mgr' = [mgr EXCEPT ![id] = IF cfg.ng > 0 THEN [on |-> TRUE, hs |-> NilSlice, gl |-> Globals(cfg), ri |-> id]
                                 ELSE IF KeepScope THEN mgr[UR(id).host] ELSE NoMgr]
  /\ pc' = [pc EXCEPT ![id] = "startW"]
  /\ UNCHANGED <<cfg, heap, na, lst, S, sched>>

\* a tool call: ctx = callbacks.ReuseHandlers(ctx, &RunInfo{tool name, type, Tool}) = the ToolsNode's manager .withRunInfo(info):
\* same handler slice header, same global list, new run info; no manager -> none.
\* NoRebind (seeded variant): `if m == nil || len(m.handlers) == 0 { return m }` -- with global handlers only the run info stays the ToolsNode's.
ToolInit(id) ==
  /\ CanInit(id) /\ IsToolCall(id)
  /\ LET pm == mgr[UR(id).parent] IN
       mgr' = [mgr EXCEPT ![id] = IF ~pm.on THEN NoMgr ELSE IF NoRebind /\ pm.hs.len = 0 THEN pm ELSE [pm EXCEPT !.ri = id]]
  /\ pc' = [pc EXCEPT ![id] = "startW"]
  /\ UNCHANGED <<cfg, heap, na, lst, S, sched>>

\* the append of On:  for _, handler := range append(mgr.handlers, mgr.globalHandlers...)
OnW(id, from, to) ==
  /\ pc[id] = from
  /\ IF ~mgr[id].on THEN UNCHANGED <<heap, na, lst>>
     ELSE IF CopyFix THEN /\ lst' = [lst EXCEPT ![id] = [s |-> mgr[id].hs, ext |-> mgr[id].gl]]
                          /\ UNCHANGED <<heap, na>>
     ELSE LET r == GoAppend(heap, mgr[id].hs, mgr[id].gl, na, 16) IN
            /\ heap' = r.h /\ na' = r.na /\ lst' = [lst EXCEPT ![id] = [s |-> r.s, ext |-> <<>>]]
  /\ pc' = [pc EXCEPT ![id] = to]
\* the scan + dispatch of On (start handlers in reverse order)
Scan(id) == View(heap, lst[id].s) \o lst[id].ext
Dispatch(id, t) == IF ~mgr[id].on THEN <<>>
                   ELSE LET hs == IF t = "start" THEN Rev(Scan(id)) ELSE Scan(id) IN [i \in 1..Len(hs) |-> Ev(hs[i], t, id)]

StartW(id) == OnW(id, "startW", "startR") /\ UNCHANGED <<cfg, mgr, S, sched>>
\* ExtractFirst (seeded variant): extractOption runs before the deferred pairing exists, a rejected run reports nothing at all
Silent(id) == ExtractFirst /\ Rejected(id)
StartR(id) ==
  /\ pc[id] = "startR" /\ (id # "top" /\ ~Hosted(id) => MayGate)
  /\ S' = ApplyAll(S, (IF Silent(id) THEN <<>> ELSE Dispatch(id, "start")) \o (IF UR(id).graph /\ id # "top" /\ id # BranchGraph THEN <<>> ELSE <<[ev |-> "enter", u |-> id, in |-> InOf(id)]>>)
                      \o (IF id = BranchGraph /\ id # "top" /\ cfg.bsel = "fail" THEN <<[ev |-> "exit", u |-> id, out |-> "", fail |-> TRUE]>> ELSE <<>>))
  /\ pc' = [pc EXCEPT ![id] = "run"]
  /\ Rec(id, "startR")
  /\ UNCHANGED <<cfg, heap, na, mgr, lst>>
EndW(id) ==
  /\ CanEndW(id) /\ (~UR(id).graph /\ ~Hosted(id) => MayGate)
  /\ OnW(id, "run", "endR")
  /\ S' = IF UR(id).graph THEN S ELSE Apply(S, [ev |-> "exit", u |-> id, out |-> OutOf(id), fail |-> Failing(id)])
  /\ sched' = IF Gen /\ ~UR(id).graph /\ ~Hosted(id) THEN Append(sched, <<id, "endW">>) ELSE sched
  /\ UNCHANGED <<cfg, mgr>>
EndR(id) ==
  /\ pc[id] = "endR" /\ (id # "top" /\ ~Hosted(id) => MayGate)
  \* runner.run's deferred block:  if !haveOnStart { onGraphStart }; then onGraphError / onGraphEnd.  As coded the flag is set
  \* right after the first onGraphStart, so the compensation never fires for a run that started.  LateFlag: the flag is set only
  \* behind the fresh-start block, whose three early returns (result at once, interrupt-before hit, failing branch) skip it.
  /\ S' = ApplyAll(S, IF Silent(id) THEN <<>>
                       ELSE (IF LateFlag /\ Early(id) THEN Dispatch(id, "start") ELSE <<>>) \o Dispatch(id, EndTiming(id)))
  /\ pc' = [pc EXCEPT ![id] = "done"]
  /\ Rec(id, "endR")
  /\ UNCHANGED <<cfg, heap, na, mgr, lst>>
Finish ==
  /\ pc["top"] = "done"
  /\ S' = ApplyAll(S, << [ev |-> "ret", err |-> Failing("top"), out |-> OutOf("top"), outs |-> IF cfg.bsel = "node" /\ RejectG(cfg) = "" THEN [i \in {Ends[k] : k \in 1..Len(Ends)} |-> OutOf(i)] ELSE <<>>],
                         [ev |-> "done"] >>)
  /\ pc' = [pc EXCEPT !["top"] = "fin"]
  /\ UNCHANGED <<cfg, heap, na, mgr, lst, sched>>

Next == GInit \/ Finish \/ \E id \in Ids : NodeInit(id) \/ ToolInit(id) \/ DetInit(id) \/ StartW(id) \/ StartR(id) \/ EndW(id) \/ EndR(id)
Spec == Init /\ [][Next]_vars

\* ------------------------------------------------------------------ what TLC checks
\* P_C10 on the model: the rule never rejects the model's event sequence (incl. the completeness check at the end)
RuleOK == S.bad = ""
\* fragments kept from the design prototype (DESIGN A.4), stated directly on the heap
Terminated == pc["top"] = "fin"
\* generator
Emit == Terminated => PrintT(<<"CASE", ToJson(CaseLine(cfg) @@ [sched |-> sched, mbad |-> S.bad])>>)
================================================================================
