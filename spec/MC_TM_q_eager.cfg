CONSTANTS
  Tasks = {t1, t2, t3, t4}
  Eager = TRUE
  MaxSubmits = 2
  MaxPerSubmit = 4
  MaxPanics = 1
  AllowWaitAll = TRUE
  Bug = "none"
SPECIFICATION Spec
SYMMETRY Sym
INVARIANT TypeOK
INVARIANT NoLoss
INVARIANT CollectedOnce
INVARIANT ChanCap
INVARIANT Mutex
INVARIANT NoStall
INVARIANT NumOK
INVARIANT WaitOK
INVARIANT SyncOK
INVARIANT PanicIsError
INVARIANT EndOK
