"""Checks of the callback / option family: C10 (callbacks exactly once, paired, right node) and C16 (call options reach exactly
the addressed nodes).

Pipeline of both checks (DESIGN.md 3.5, BUILDING.md):
  1. model level   TLC checks the implementation-shaped model (Callbacks.tla / Options.tla: handler lists and node paths as Go
                   slices over a heap of arrays) against the property-level rule (CbRule / OptRule): the model WITH the proposed
                   repair must satisfy it; what TLC says about the model AS CODED is recorded (it predicts D4 / D11)
  2. generation    TLC enumerates / samples configurations x schedules (Callbacks.tla, Gen = TRUE) resp. option programs
                   (Options.tla)
  3. replay        the Go harness runs every case on the real library and records what handlers / nodes saw
  4. verdict       TLC validates the records against CbObs / OptObs (= the rule applied line by line); only a rejection there,
                   of an observation of REAL code, reproduced by a second run, is a VIOLATION
"""
import concurrent.futures
import json
import os
import random
import time

import cb
import vlib
from vlib import log, Inconclusive


# ------------------------------------------------------------------------------------------------ C10

def _grow(cap, need):
    return need if need > 2 * cap else 2 * cap


def _append(ln, cap, k):
    """(len, cap) after append of k 16-byte elements"""
    if k == 0:
        return ln, cap
    if ln + k <= cap:
        return ln + k, cap
    return ln + k, _grow(cap, ln + k)


def _chunks_len_cap(chunks):
    ln = cap = 0
    for k in chunks:
        ln, cap = _append(ln, cap, k)
    return ln, cap


def cb_spare_capacity(case):
    """Input-side classifier of D4: does some graph unit hand a handler slice with spare capacity (len < cap) to >= 2 children
    (or to children while global handlers exist)?  Only slice arithmetic on the configuration, no observation is used."""
    units = {u["u"]: u for u in case["units"]}
    des = [h for h in case["handlers"] if h["kind"] == "des"]

    def designated(u):
        return [1 for h in des if units[u]["path"] in h["paths"]]

    lc = {}
    ln, cap = _chunks_len_cap(case["split"])
    managed = {"top": ln + case["ng"] > 0}
    lc["top"] = (ln, cap)
    for u in case["units"]:
        if not u["graph"] or u["parent"] == "":
            continue
        cl, cc = _chunks_len_cap(designated(u["u"]))
        pl, pc = lc[u["parent"]]
        if not managed[u["parent"]]:
            lc[u["u"]] = (cl, cc)
        else:
            lc[u["u"]] = _append(pl, pc, cl)
        managed[u["u"]] = lc[u["u"]][0] + case["ng"] > 0
    for g, (ln, cap) in lc.items():
        kids = [u for u in case["units"] if u["parent"] == g]
        if managed[g] and cap > ln and len(kids) >= 2:
            return True
    return False


def cb_nested_repeat(case):
    """Input-side classifier: some callbacks option's designation list names the same NESTED path (length > 1) more than once."""
    for h in case["handlers"]:
        if h["kind"] != "des":
            continue
        ps = [tuple(p) for p in h["paths"] if len(p) > 1]
        if len(ps) != len(set(ps)):
            return True
    return False


def c10_classify(case, reason):
    if reason in ("start-twice", "end-twice") and cb_nested_repeat(case):
        return "nested-path-repeated-in-one-callbacks-option"
    if reason in ("handler-invoked-for-foreign-unit", "end-twice", "start-twice", "start-missing", "end-missing", "end-without-start") \
            and cb_spare_capacity(case):
        return "handler-slice-spare-capacity-shared-by-parallel-nodes"
    return reason


def _par(fns, n=4):
    with concurrent.futures.ThreadPoolExecutor(max_workers=n) as ex:
        futs = [ex.submit(f) for f in fns]
        return [f.result() for f in futs]


C10_ASSUMPTIONS = [
    "a handler designated to a sub-graph node must fire for that node; whether it also fires for the nodes inside the sub-graph is left open (allowed, not required)",
    "which timing (value or stream form) a unit reports is not constrained; only start-kind / end-kind pairing is",
    "every unit runs at most once per call (acyclic shapes); units are identified by the run-info name given with WithNodeName / WithGraphName",
    "the harness can hold back the scan of a handler list (Needed() of the first handler) and the node bodies, not the in-place appends themselves; "
    "the model explores every interleaving, the replayed schedules are those with the un-gateable steps first",
    "payload of a sub-graph unit (as opposed to leaf nodes and the top graph) is not compared",
]


def c10(tier, repo=None):
    t0 = time.time()
    prop = "C10"
    rnd = random.Random(vlib.SEED * 104729 + 10)
    log("[C10] tier=%s seed=%d repo=%s" % (tier, vlib.SEED, repo or vlib.REPO))
    thorough = tier == "thorough"

    # 1. model level ------------------------------------------------------------------------------------------------
    if thorough:
        fixed = [("par2", dict(mg=2, multi=True)), ("seq", dict(mg=2)), ("nestdup", dict(mu=3, mo=3)), ("par3", dict(mu=4, mo=4)),
                 ("nest", dict(mu=3, mo=3)), ("nest", dict(mu=3, mo=3, md=1, multi=True)), ("nestdup", dict(mu=3, mo=3, md=1, multi=True)),
                 ("sbr", dict(mg=2, mu=4, mo=4, md=2)), ("nsbr", dict(mg=2, mu=4, mo=4, md=2, multi=True)), ("tools", dict(mg=2, mu=4, mo=4, md=2)),
                 ("det", dict(mg=2, mu=4, mo=4, md=2)), ("par3", dict(mg=1, mu=2, mo=2, md=1, fail=False, dv=True))]
    else:
        fixed = [("par2", dict(mg=1)), ("seq", dict(mg=1)), ("nestdup", dict(mu=2, mo=2)), ("nest", dict(mg=0, mu=2, mo=2, md=1, multi=True)),
                 ("sbr", dict(mu=3, mo=3, md=1)), ("nsbr", dict(mu=3, mo=3, md=1, multi=True)), ("tools", dict(mg=2, mu=3, mo=3, md=1)),
                 ("det", dict(mg=1, mu=3, mo=3, md=1)), ("par3", dict(mg=0, mu=1, mo=1, md=0, fail=False, dv=True))]
    jobs = [(lambda s=s, kw=kw: cb.cb_model(s, fix=True, workers=1 if not thorough else 2, timeout=1500 if thorough else 170, **kw)) for s, kw in fixed]
    # seeded variants of the model: the rule must reject each of them (sanity of rule + model; otherwise inconclusive)
    variants = [("NoRebind: withRunInfo returns a manager without per-call handlers unchanged (tool calls under the ToolsNode's run info)",
                 "tools", dict(norebind=True, mg=2, mu=3, mo=3, md=1)),
                ("LateFlag: haveOnStart set behind the fresh-start block (graph start compensated a second time)", "sbr", dict(late=True, mu=3, mo=3, md=1)),
                ("KeepScope: InitCallbacks without handlers returns ctx unchanged (detached scope reports to the enclosing node)", "det",
                 dict(keepscope=True, mg=1, mu=2, mo=2, md=1)),
                ("ExtractFirst: extractOption in front of the deferred start/end pairing (rejected run reports nothing)", "nest",
                 dict(extractfirst=True, mu=2, mo=2, md=1)),
                ("ShareBase: DesignateNodeWithPath appends onto the base option's paths array (two derived callbacks options alias)", "par3",
                 dict(mg=0, mu=1, mo=1, md=0, fail=False, dv=True, sharebase=True)),
                ("NoBreak: initNodeCallbacks without the break after the first matching path (a node named twice gets the handler twice)", "par2",
                 dict(nobreak=True, mg=0, mu=2, mo=2, md=1, multi=True))]
    for what, shape, kw in variants:
        jobs.append(lambda shape=shape, kw=kw: cb.cb_model(shape, fix=True, workers=1, timeout=170, **kw))
    jobs.append(lambda: cb.cb_model("par2", fix=False, workers=1, timeout=170, mg=1))
    runs = _par(jobs, 4 if not thorough else 2)
    states = trans = 0
    model_runs = []
    nv = len(variants)
    for (s, kw), run in zip(fixed, runs[:-(nv + 1)]):
        vlib.tlc_must_pass(run, "C10 model (with repair) %s" % s)
        states += run.distinct
        trans += run.generated
        model_runs.append({"model": "Callbacks/CopyFix", "shape": s, "bounds": kw, "distinct": run.distinct, "generated": run.generated,
                           "depth": run.depth, "wall_s": round(run.wall_s, 1), "result": "RuleOK holds"})
        log("  model Callbacks[%s, repaired]: RuleOK holds, %d distinct states, %d generated, depth %d, %.0fs" % (s, run.distinct, run.generated, run.depth, run.wall_s))
    for (what, shape, kw), vr in zip(variants, runs[-(nv + 1):-1]):
        if vr.timed_out or vr.error != "invariant:RuleOK":
            raise Inconclusive("C10 model variant '%s' should violate RuleOK: TLC reported %s\n%s" % (what, vr.error, vr.stdout[-1500:]))
        model_runs.append({"model": "Callbacks/seeded variant " + what, "shape": shape, "distinct": vr.distinct, "wall_s": round(vr.wall_s, 1),
                           "result": "RuleOK violated, as it must be"})
    asis = runs[-1]
    if asis.timed_out or asis.error not in (None, "invariant:RuleOK"):
        raise Inconclusive("C10 model as coded: TLC reported %s\n%s" % (asis.error, asis.stdout[-2000:]))
    model_runs.append({"model": "Callbacks/as-coded", "shape": "par2", "distinct": asis.distinct, "generated": asis.generated, "wall_s": round(asis.wall_s, 1),
                       "result": "RuleOK violated (the model predicts the shared-capacity mix-up, D4)" if asis.error else "RuleOK holds"})
    log("  model Callbacks[par2, as coded]: %s (%d distinct states, %.0fs) -- informational, the verdict comes from the real traces" % (
        "RuleOK VIOLATED: the slice model predicts D4" if asis.error else "RuleOK holds", asis.distinct, asis.wall_s))

    # 2. generation ---------------------------------------------------------------------------------------------------
    if thorough:
        gens = [("par2", dict(mg=2, mu=4, mo=4, md=2, multi=True), None, 4000), ("seq", dict(mg=1), None, 336),
                ("nestdup", dict(mu=3, mo=3), None, 3000), ("nest", dict(mu=3, mo=3), "num=2500", 3000), ("par3", dict(mu=4, mo=4), "num=2500", 3000),
                ("nest", dict(mu=3, mo=3, md=2, multi=True), "num=2000", 2500), ("nestdup", dict(mu=3, mo=3, md=2, multi=True), "num=1500", 2000),
                ("sbr", dict(mg=2, mu=4, mo=4, md=2), None, 2000), ("nsbr", dict(mg=2, mu=4, mo=4, md=2, multi=True), None, 2500),
                ("tools", dict(mg=2, mu=4, mo=4, md=2), None, 3000), ("det", dict(mg=2, mu=4, mo=4, md=2), "num=2000", 3000),
                ("par3", dict(mg=1, mu=2, mo=2, md=1, fail=False, dv=True), "num=1500", 3000)]
    else:
        gens = [("par2", dict(mg=1, mu=3, mo=3, md=2), None, 550), ("par2", dict(mg=1, mu=2, mo=2, md=1, multi=True), None, 180),
                ("seq", dict(mg=1, mu=3, mo=3), None, 60),
                ("nestdup", dict(mu=3, mo=3), "num=150", 220), ("nest", dict(mu=3, mo=3), "num=150", 220), ("par3", dict(mu=3, mo=3), "num=120", 200),
                # one option designated to SEVERAL paths, top-level and nested, in both orders
                ("nest", dict(mu=2, mo=2, md=1, multi=True), "num=150", 250), ("nestdup", dict(mu=2, mo=2, md=1, multi=True), "num=100", 150),
                # runs that end inside the START step (branch on START selects END / fails / interrupt-before), top-level and nested
                ("sbr", dict(mu=2, mo=2, md=1), None, 220), ("nsbr", dict(mu=2, mo=2, md=1, multi=True), None, 260),
                # a ToolsNode with two parallel tool calls (tool-call units); supply includes "global handlers only"
                ("tools", dict(mg=2, mu=2, mo=2, md=1), None, 300),
                # a component run under a detached callback scope (InitCallbacks without handlers) inside a node body
                ("det", dict(mg=1, mu=2, mo=2, md=1), "num=150", 250),
                # a callbacks option that is one of two siblings derived from a base option value designated stepwise to 1..4 nodes
                ("par3", dict(mg=0, mu=1, mo=1, md=0, fail=False, dv=True), "num=150", 300)]

    def gen(shape, kw, sim, limit):
        cases, run = cb.cb_generate(shape, simulate=sim, depth=80 if sim else None, seed=vlib.SEED if sim else None,
                                    workers=2 if sim else (4 if thorough else 2), timeout=1500 if thorough else 170,
                                    tag="_m" if kw.get("multi") else "_dv" if kw.get("dv") else "", **kw)
        for c in cases:
            c["fam"] = shape + ("+multi" if kw.get("multi") else "")
        return shape, kw, sim, limit, cases, run
    res = _par([(lambda g=g: gen(*g)) for g in gens], 4 if not thorough else 2)
    cases, fams = [], []
    for shape, kw, sim, limit, cs, run in res:
        total = len(cs)
        if total > limit:
            rnd.shuffle(cs)
            cs = cs[:limit]
        fams.append({"shape": shape, "bounds": kw, "mode": "simulate " + sim if sim else "exhaustive", "generated_cases": total, "replayed": len(cs),
                     "tlc_distinct": run.distinct, "wall_s": round(run.wall_s, 1)})
        log("  cases %s: %d generated (%s, TLC %d states, %.0fs), %d replayed" % (shape, total, "simulate" if sim else "exhaustive", run.distinct, run.wall_s, len(cs)))
        cases += cs
    cb.cb_decorate(cases, rnd)

    # 3. replay + 4. verdict ------------------------------------------------------------------------------------------
    lines, wall_go, _ = cb.cb_replay(cases, repo=repo)
    log("  replayed %d cases on the real library: %d log lines, %.0fs" % (len(cases), len(lines), wall_go))
    resv = cb.validate("CbObs", lines)
    idx = cb.index_cases(lines)
    build_fail = [ln for ln in lines if ln.startswith('{"ev":"note"') and "BUILD-FAILED" in ln]
    if build_fail:
        raise Inconclusive("harness could not build %d cases, e.g. %s" % (len(build_fail), build_fail[0]))
    bad = [(b[0], b[2]) for b in resv["bad"]]
    unforced = sum(1 for ln in lines if ln.startswith('{"ev":"note"') and "schedule not forced" in ln)
    confirmed = []
    by_id = {c["id"]: c for c in cases}
    if bad:
        again = [by_id[cid] for cid, _ in bad[:300]]
        lines2, _, _ = cb.cb_replay(again, repo=repo)
        res2 = cb.validate("CbObs", lines2, nproc=2)
        bad2 = {b[0] for b in res2["bad"]}
        idx2 = cb.index_cases(lines2)
        for cid, reason in bad[:300]:
            if cid in bad2:
                confirmed.append((cid, reason, idx2[cid][1]))
            else:
                log("  note: rejection of %s (%s) did not reproduce on a second run: not counted" % (cid, reason))
    verdict = vlib.Verdict(prop)
    sig_count = {}
    for cid, reason, obs in confirmed:
        sig = c10_classify(by_id[cid], reason)
        sig_count[sig] = sig_count.get(sig, 0) + 1
        verdict.violation(sig, {"case": by_id[cid], "observations": obs}, reason)
    for sig, k in sorted(sig_count.items()):
        log("  rejected: %d cases with signature %s" % (k, sig))
    code, n_new, n_known = verdict.finish()
    agree = sum(1 for c in cases if (c.get("mbad", "") != "") == (c["id"] in {b[0] for b in bad}))

    race = None
    if thorough:
        sub = cases[:]
        rnd.shuffle(sub)
        sub = sub[:1500]
        lines_r, wall_r, out_r = cb.cb_replay(sub, race=True, repo=repo, timeout=1500)
        reps = cb.race_reports(out_r)
        res_r = cb.validate("CbObs", lines_r)
        race = {"cases": len(sub), "race_reports": [list(r) for r in reps], "rejected_under_race": len(res_r["bad"]), "wall_s": round(wall_r, 1)}
        log("  -race pass: %d cases, %d distinct data-race reports %s, %d cases rejected by CbObs" % (len(sub), len(reps), reps[:4], len(res_r["bad"])))

    def nontrivial(c):
        return len(c["handlers"]) >= 2 and (len([u for u in c["units"] if not u["graph"]]) >= 2 or c.get("bsel", "node") != "node")
    distinct = {json.dumps([c["shape"], c["ng"], c["split"], [h["paths"] for h in c["handlers"]], c["fail"], c.get("bsel"), c["sched"]]) for c in cases if nontrivial(c)}
    some = [idx[k] for k in vlib.sample(sorted(idx.keys()), 3)]
    cov = {"states": states, "transitions": trans, "traces_validated_against_impl": len(idx),
           "samples": [{"case": c, "observations": [json.loads(x) for x in o[1:10]]} for c, o in some],
           "evaluations": len(idx), "distinct_nontrivial": len(distinct),
           "rule": "cases = configurations (global handlers x split of undesignated handlers over WithCallbacks options x designated options x failing node) "
                   "x schedules of the gateable steps, enumerated / sampled by TLC from spec/Callbacks.tla (Gen); call paradigm, node paradigms, stream-copy "
                   "policies spread by VERIF_SEED; each case is run on the real library with the schedule forced by gates and its handler event log is "
                   "validated by TLC against spec/CbObs.tla (CbRule); distinct non-trivial = distinct (shape, supply, failing node, schedule) with >= 2 handlers and >= 2 leaf nodes",
           "exhaustive": False, "model_runs": model_runs, "families": fams, "observation_lines": len(lines),
           "trace_validation_states": resv["states"], "rejected_cases": len(bad), "confirmed": len(confirmed), "known_findings": n_known,
           "signatures": sig_count, "schedules_not_forced": unforced,
           "model_as_coded_agrees_with_real_verdict_on": "%d of %d cases" % (agree, len(cases))}
    if race is not None:
        cov["race_pass"] = race
    vlib.write_evidence(prop, tier, "model_checking", cov, assumptions=C10_ASSUMPTIONS + [
        "TLC, the Json community module and the Go harness (recording handlers, gates) are trusted"],
        wall_s=time.time() - t0, violations=n_new)
    log("[C10] %s: %d cases validated, %d rejected (%d confirmed, %d known), model-as-coded agrees on %d/%d, %.0fs" % (
        "VIOLATION" if code else "ok", len(idx), len(bad), len(confirmed), n_known, agree, len(cases), time.time() - t0))
    return code


# ------------------------------------------------------------------------------------------------ C16

def _grow8(cap, need):
    c = need if need > 2 * cap else 2 * cap
    return c + 1 if c in (5, 7, 9, 11, 13, 15) else c


def opt_shared_slot(case):
    """Input-side classifier of D11: executing the program with Go slice arithmetic (8-byte elements), do two DesignateNode calls
    write the same slot of the same backing array (two options derived from one base whose paths slice has spare capacity)?"""
    vals, writes, na = [], {}, 1
    for st in case["prog"]:
        if st["op"] == "new":
            vals.append((0, 0, 0))
            continue
        arr, ln, cap = vals[st["from"] - 1]
        k = len(st["paths"])
        if ln + k <= cap:
            for slot in range(ln + 1, ln + k + 1):
                writes[(arr, slot)] = writes.get((arr, slot), 0) + 1
            vals.append((arr, ln + k, cap))
        else:
            vals.append((na, ln + k, _grow8(cap, ln + k)))
            na += 1
    return any(v > 1 for v in writes.values())


def opt_par_handler_spare(case):
    """Input-side classifier of handler-slice aliasing seen through C16: tree "par", the undesignated callback options of a call leave
    spare capacity in the graph-level handler slice (1 -> 2 -> 4 -> 8) and >= 2 parallel nodes have callbacks designated to them."""
    if case.get("tree") != "par":
        return False
    prog = case["prog"]

    def sem(i):
        st = prog[i - 1]
        if st["op"] == "new":
            return st["typ"], []
        t, ps = sem(st["from"])
        return t, ps + st["paths"]
    for call in case["calls"]:
        opts = [sem(i) for i in call]
        und = sum(1 for t, ps in opts if t == "cb" and not ps)
        ln, cap = _chunks_len_cap([1] * und)
        des = {tuple(p) for t, ps in opts if t == "cb" for p in ps if len(p) == 1}
        if und > 0 and cap > ln and len(des) >= 2:
            return True
    return False


def c16_classify(case, reason):
    if reason in ("callback-fired-for-a-node-it-does-not-address", "designated-callback-did-not-fire") and opt_par_handler_spare(case):
        return "handler-slice-spare-capacity-shared-by-parallel-nodes"
    if opt_shared_slot(case):
        return "options-derived-from-a-base-with-spare-path-capacity"
    return reason


C16_ASSUMPTIONS = [
    "an option designated to a graph node is read as an undesignated option of that sub-graph (it reaches the nodes of its type inside, no others)",
    "a callback option designated to a graph node must fire for that node and may fire for the nodes inside it",
    "a run whose invalid designation lies inside a nested graph may execute the nodes in front of that nested graph before failing; "
    "they must still receive exactly their options",
    "deliveries are compared as bags of option payload ids per (call, node); the order inside a node's option list is not constrained",
    "mixed option types inside one WithLambdaOption call are outside the universe (the library documents 'assume that types of options are the same')",
]


def c16(tier, repo=None):
    t0 = time.time()
    prop = "C16"
    rnd = random.Random(vlib.SEED * 15485863 + 16)
    thorough = tier == "thorough"
    log("[C16] tier=%s seed=%d repo=%s" % (tier, vlib.SEED, repo or vlib.REPO))
    ALLT = ("T1", "T2", "T3", "cb")
    # parallel designated callbacks over a graph-level handler list built from 0..6 separate WithCallbacks options
    PAR = dict(tree="par", pu=1, ms=8, mn=6, mp=1, w=1, types=("cb",), nc=1, callmode="final", mins=5)
    PARBIG = dict(tree="par", pu=2, ms=10, mn=8, mp=1, w=1, types=("cb",), nc=1, callmode="final", mins=6)
    KIND = dict(pu=2, ms=2, mn=2, mp=2, w=2, types=ALLT, nc=1, mco=2, cw=2)
    # interrupted run + resuming call with its own options (checkpoint store, one interrupt-before / -after mark, also inside a nested graph)
    INTR = dict(pu=3, ms=3, mn=2, mp=1, w=2, types=("T1", "T2", "cb"), nc=2, mco=2, cw=3, intr=True)
    # option bundles of 1..3 values, both call paradigms, one node (leaf or nested graph) behind WithInputKey
    KB = dict(pu=2, ms=2, mn=2, mp=2, w=2, types=("T1", "T2", "cb"), nc=1, mco=2, cw=2, bundle=3, modes=("invoke", "stream"), keyed=True)
    BMK = dict(bundle=3, modes=("invoke", "stream", "collect", "transform"), keyed=True)
    # two nested graphs whose inner node has the same key; callbacks options designated to both inner paths in one list
    TS = dict(tree="twosub", pu=2, ms=2, mn=1, mp=2, w=2, types=("cb", "T1"), nc=1, mco=2, cw=2, modes=("invoke", "collect"))
    INTRGEN = dict(pu=3, ms=5, mn=3, mp=2, w=3, types=("T1", "T2", "cb"), nc=2, mco=3, cw=5, mins=2, intr=True)
    # 1. model level
    if thorough:
        fixed = [("std-chain6", dict(pu=1, ms=6, mco=2, cw=6)), ("std-breadth3", dict(pu=2, ms=3, mn=2, mp=2, w=3, types=ALLT, mco=2, cw=3)),
                 ("deep-chain6", dict(tree="deep", pu=1, ms=6, types=("T1",), cw=3, kind="workflow")),
                 ("std-2calls", dict(pu=0, ms=5, nc=2, mco=2, cw=3, types=("T1", "cb"))),
                 ("par-cb8", PAR), ("std-breadth2-chain", dict(kind="chain", **KIND)), ("std-breadth2-workflow", dict(kind="workflow", **KIND)),
                 ("std-intr", INTR), ("deep-intr", dict(tree="deep", kind="chain", **INTR)),
                 ("std-bundle-keyed", KB), ("deep-bundle-keyed", dict(tree="deep", kind="chain", **KB)), ("twosub", TS)]
    else:
        fixed = [("std-chain6", dict(pu=0, ms=6, mco=2, cw=3)), ("std-breadth2", dict(kind="chain", **KIND)), ("par-cb8", PAR), ("std-intr", INTR), ("std-bundle-keyed", KB), ("twosub", TS)]
    jobs = [(lambda n=n, kw=kw: cb.opt_model(n, fix=True, workers=2, timeout=1700 if thorough else 170, **kw)) for n, kw in fixed]
    # seeded variants of the model: the rule must reject them (sanity of rule + model; else inconclusive)
    jobs.append(lambda: cb.opt_model("par-cb8", fix=True, cbfix=False, workers=1, timeout=170, **PAR))
    jobs.append(lambda: cb.opt_model("std-breadth2", fix=True, bycomp=True, workers=1, timeout=170, kind="chain", **KIND))
    jobs.append(lambda: cb.opt_model("std-intr", fix=True, restoredrops=True, workers=1, timeout=170, **INTR))
    jobs.append(lambda: cb.opt_model("std-bundle-keyed", fix=True, firstonly=True, workers=1, timeout=170, **KB))
    jobs.append(lambda: cb.opt_model("std-bundle-keyed", fix=True, keyeddrops=True, workers=1, timeout=170, **KB))
    jobs.append(lambda: cb.opt_model("twosub", fix=True, deduphead=True, workers=1, timeout=170, **TS))
    jobs.append(lambda: cb.opt_model("std-chain6", fix=False, workers=1, timeout=170, pu=0, ms=6, mco=2, cw=3))
    runs = _par(jobs, 4)
    states = trans = 0
    model_runs = []
    for what, vr in (("AppendHandlers appends in place (handler slice aliasing between parallel designated nodes)", runs[-7]),
                     ("nested graph recognised by component == Graph (Chain / Workflow sub-graphs miss undesignated options)", runs[-6]),
                     ("restoreTasks does not hand the resuming call's options to the tasks rebuilt from the checkpoint", runs[-5]),
                     ("a designated component option reaches its node with opt.options[0] only", runs[-4]),
                     ("the stream wrapper of a node with an input key calls the inner transform without opts", runs[-3]),
                     ("samePathBefore ignores the nested graph's key (same inner key under two nested graphs taken for a repeat)", runs[-2])):
        if vr.timed_out or vr.error != "invariant:RuleOK":
            raise Inconclusive("C16 model variant '%s' should violate RuleOK: TLC reported %s\n%s" % (what, vr.error, vr.stdout[-1500:]))
        model_runs.append({"model": "Options/seeded variant: " + what, "distinct": vr.distinct, "wall_s": round(vr.wall_s, 1),
                           "result": "RuleOK violated, as it must be"})
    for (n, kw), run in zip(fixed, runs[:-7]):
        vlib.tlc_must_pass(run, "C16 model (with repair) %s" % n)
        states += run.distinct
        trans += run.generated
        model_runs.append({"model": "Options/CopyFix", "universe": n, "bounds": kw, "distinct": run.distinct, "generated": run.generated, "depth": run.depth,
                           "wall_s": round(run.wall_s, 1), "result": "RuleOK holds"})
        log("  model Options[%s, repaired]: RuleOK holds, %d distinct states, depth %d, %.0fs" % (n, run.distinct, run.depth, run.wall_s))
    asis = runs[-1]
    if asis.timed_out or asis.error not in (None, "invariant:RuleOK"):
        raise Inconclusive("C16 model as coded: TLC reported %s\n%s" % (asis.error, asis.stdout[-2000:]))
    model_runs.append({"model": "Options/as-coded", "universe": "std-chain6", "distinct": asis.distinct, "wall_s": round(asis.wall_s, 1),
                       "result": "RuleOK violated (the slice model predicts the shared-paths aliasing, D11)" if asis.error else "RuleOK holds"})
    log("  model Options[std-chain6, as coded]: %s (%d distinct states, %.0fs) -- informational" % (
        "RuleOK VIOLATED: the slice model predicts D11" if asis.error else "RuleOK holds", asis.distinct, asis.wall_s))
    # 2. generation
    S = vlib.SEED
    if thorough:
        gens = [("chain6", dict(pu=1, ms=6, mins=4, mco=2, cw=4), "num=6000", 12000),
                ("breadth", dict(pu=2, ms=7, mn=2, mp=2, w=3, types=ALLT, nc=1, mco=3, cw=4, mins=2, kind="chain", **BMK), "num=4000", 8000),
                ("breadth-g", dict(pu=2, ms=7, mn=2, mp=2, w=3, types=ALLT, nc=1, mco=3, cw=4, mins=2, **BMK), "num=3000", 6000),
                ("breadth-wf", dict(pu=2, ms=7, mn=2, mp=2, w=3, types=ALLT, nc=1, mco=3, cw=4, mins=2, kind="workflow"), "num=2000", 4000),
                ("twocalls", dict(pu=2, ms=7, mn=2, mp=2, w=3, types=ALLT, nc=2, mco=3, cw=5, mins=3, kind="workflow"), "num=4000", 8000),
                ("deep", dict(tree="deep", pu=2, ms=6, mn=2, mp=2, w=3, types=ALLT, nc=2, mco=2, cw=4, mins=2, kind="chain", **BMK), "num=3000", 6000),
                ("par", PAR, None, 4000), ("parbig", PARBIG, "num=3000", 6000), ("twosub", TS, None, 6000),
                ("intr", INTRGEN, "num=3000", 6000), ("intr-deep", dict(tree="deep", kind="chain", **INTRGEN), "num=2000", 4000),
                ("intr-wf", dict(kind="workflow", **INTRGEN), "num=1500", 3000)]
    else:
        # nested graphs: chain6 plain Graph, breadth Chain, twocalls Workflow, deep Chain (nested twice)
        gens = [("chain6", dict(pu=1, ms=6, mins=5, mco=2, cw=3, modes=("invoke", "stream", "collect", "transform")), "num=500", 1000),
                ("breadth", dict(pu=2, ms=6, mn=2, mp=2, w=3, types=ALLT, nc=1, mco=3, cw=4, mins=2, kind="chain", **BMK), "num=400", 800),
                ("breadth-g", dict(pu=2, ms=5, mn=2, mp=2, w=3, types=ALLT, nc=1, mco=3, cw=4, mins=2, **BMK), "num=400", 800),
                ("twocalls", dict(pu=2, ms=7, mn=2, mp=2, w=3, types=ALLT, nc=2, mco=3, cw=5, mins=3, kind="workflow", bundle=3, modes=("invoke", "stream", "collect", "transform")), "num=400", 800),
                ("deep", dict(tree="deep", pu=2, ms=6, mn=2, mp=2, w=3, types=ALLT, nc=2, mco=2, cw=4, mins=2, kind="chain", **BMK), "num=300", 600),
                # three parallel leaves; handlers: 0..6 separate undesignated WithCallbacks options + options designated to p1 / p2; exhaustive
                ("par", PAR, None, 3300), ("twosub", TS, None, 1500),
                # interrupted run + resuming call: plain nested Graph, and Chains nested twice
                ("intr", INTRGEN, "num=150", 300), ("intr-deep", dict(tree="deep", kind="chain", **INTRGEN), "num=110", 220)]

    def gen(name, kw, sim, limit):
        cs, run = cb.opt_generate(name, simulate=sim, depth=25 if sim else None, seed=S if sim else None, workers=2, timeout=1500 if thorough else 170, **kw)
        return name, kw, sim, limit, cs, run
    res = _par([(lambda g=g: gen(*g)) for g in gens], 3)
    cases, fams = [], []
    for name, kw, sim, limit, cs, run in res:
        total = len(cs)
        if total > limit:
            rnd.shuffle(cs)
            cs = cs[:limit]
        fams.append({"family": name, "bounds": kw, "mode": ("simulate " + sim) if sim else "exhaustive", "generated_cases": total, "replayed": len(cs), "wall_s": round(run.wall_s, 1)})
        log("  cases %s: %d generated (%s, %.0fs), %d replayed" % (name, total, "simulate" if sim else "exhaustive", run.wall_s, len(cs)))
        cases += cs
    for i, c in enumerate(cases):
        c["id"] = "%s-%d" % (c["fam"], i)
    # 3. replay, 4. verdict
    lines, wall_go, _ = cb.opt_replay(cases, repo=repo)
    log("  replayed %d cases on the real library: %d record lines, %.0fs" % (len(cases), len(lines), wall_go))
    build_fail = [ln for ln in lines if ln.startswith('{"ev":"note"') and "BUILD-FAILED" in ln]
    if build_fail:
        raise Inconclusive("harness could not build %d cases, e.g. %s" % (len(build_fail), build_fail[0]))
    resv = cb.validate("OptObs", lines)
    idx = cb.index_cases(lines)
    bad = [(b[0], b[2]) for b in resv["bad"]]
    by_id = {c["id"]: c for c in cases}
    confirmed = []
    if bad:
        again = [by_id[cid] for cid, _ in bad[:300]]
        lines2, _, _ = cb.opt_replay(again, repo=repo)
        res2 = cb.validate("OptObs", lines2, nproc=2)
        bad2 = {b[0] for b in res2["bad"]}
        idx2 = cb.index_cases(lines2)
        for cid, reason in bad[:300]:
            if cid in bad2:
                confirmed.append((cid, reason, idx2[cid][1]))
            else:
                log("  note: rejection of %s (%s) did not reproduce on a second run: not counted" % (cid, reason))
    verdict = vlib.Verdict(prop)
    sig_count = {}
    for cid, reason, obs in confirmed:
        sig = c16_classify(by_id[cid], reason)
        sig_count[sig] = sig_count.get(sig, 0) + 1
        verdict.violation(sig, {"case": by_id[cid], "observations": obs}, reason)
    for sig, k in sorted(sig_count.items()):
        log("  rejected: %d cases with signature %s" % (k, sig))
    code, n_new, n_known = verdict.finish()
    badset = {b[0] for b in bad}
    agree = sum(1 for c in cases if (c.get("mbad", "") != "") == (c["id"] in badset))
    race = None
    if thorough:
        sub = [c for c in cases if len(c["calls"]) == 2][:3000]
        lines_r, wall_r, out_r = cb.opt_replay(sub, race=True, repo=repo, timeout=1500)
        reps = cb.race_reports(out_r)
        res_r = cb.validate("OptObs", lines_r)
        race = {"cases": len(sub), "race_reports": [list(r) for r in reps], "rejected_under_race": len(res_r["bad"]), "wall_s": round(wall_r, 1)}
        log("  -race pass (two concurrent calls): %d cases, %d distinct data-race reports %s, %d rejected" % (len(sub), len(reps), reps[:4], len(res_r["bad"])))

    def nontrivial(c):
        return any(st["op"] == "des" for st in c["prog"]) and sum(len(x) for x in c["calls"]) >= 2
    distinct = {json.dumps([c["tree"], c["prog"], c["calls"]]) for c in cases if nontrivial(c)}
    some = [idx[k] for k in vlib.sample(sorted(idx.keys()), 3)]
    cov = {"states": states, "transitions": trans, "traces_validated_against_impl": len(idx),
           "samples": [{"case": {k: v for k, v in c.items() if k != "units"}, "observations": [json.loads(x) for x in o[1:10]]} for c, o in some],
           "evaluations": len(idx), "distinct_nontrivial": len(distinct),
           "rule": "cases = option programs (WithLambdaOption of 3 option types / WithCallbacks, then DesignateNode(WithPath) on earlier option values) x "
                   "1-2 calls, sampled by TLC (-simulate, seeded) from spec/Options.tla inside the family bounds; every case is run on the real library "
                   "(two calls concurrently) and the per-node records are validated by TLC against spec/OptObs.tla (OptRule); "
                   "distinct non-trivial = distinct (tree, program, calls) with a designation and >= 2 call options",
           "exhaustive": False, "model_runs": model_runs, "families": fams, "observation_lines": len(lines),
           "trace_validation_states": resv["states"], "rejected_cases": len(bad), "confirmed": len(confirmed), "known_findings": n_known,
           "signatures": sig_count, "model_as_coded_agrees_with_real_verdict_on": "%d of %d cases" % (agree, len(cases))}
    if race is not None:
        cov["race_pass"] = race
    vlib.write_evidence(prop, tier, "model_checking", cov, assumptions=C16_ASSUMPTIONS + [
        "TLC, the Json community module and the Go harness (option-recording lambdas) are trusted"],
        wall_s=time.time() - t0, violations=n_new)
    log("[C16] %s: %d cases validated, %d rejected (%d confirmed, %d known), model-as-coded agrees on %d/%d, %.0fs" % (
        "VIOLATION" if code else "ok", len(idx), len(bad), len(confirmed), n_known, agree, len(cases), time.time() - t0))
    return code


def _c10(tier):
    return c10(tier, repo=os.environ.get("VERIF_REPO"))


def _c16(tier):
    return c16(tier, repo=os.environ.get("VERIF_REPO"))


# ------------------------------------------------------------------------------------------------ C09: callback isolation between runs

def callback_isolation(tier, repo=None):
    """Callback part of C09 (called by lib/checks_engine.py:c09, which owns verdict and evidence): two OVERLAPPING runs of one compiled
    runnable, each with its own per-call compose.WithCallbacks handler, started from a context (callbacks.InitCallbacks, or a node of an
    outer graph run) that already carries 0..7 handlers registered one by one.  Every run is projected to one CbObs case (inherited and
    own handler apply to the run's units, the other run's handler to none) and judged by TLC against spec/CbObs.tla (CbRule).
    The mechanism (two siblings appending their own handler to an inherited slice built by single appends) is the one Callbacks.tla
    model-checks in shape par2; that run supplies states / transitions.
    Returns dict(cases, lines, states, transitions, bad=[(case id, reason)], race_reports, samples, ...)."""
    t0 = time.time()
    thorough = tier == "thorough"
    reps = 6 if thorough else 2
    cases = []
    for mode in ("ctx", "outer"):
        for ninh in range(0, 8):
            for r in range(reps):
                cases.append({"id": "%s-%d-%d" % (mode, ninh, r), "mode": mode, "ninh": ninh})
    log("[callback isolation] tier=%s cases=%d repo=%s" % (tier, len(cases), repo or vlib.REPO))
    with concurrent.futures.ThreadPoolExecutor(max_workers=1) as ex:
        fut = ex.submit(lambda: cb.cb_model("par2", fix=True, workers=2, timeout=600, mg=1 if not thorough else 2))
        all_lines, bad, races, samples = [], [], [], []
        vstates = vtrans = 0
        for race in ((False, True) if thorough else (False,)):
            lines, wall, out = cb.iso_replay(cases, race=race, repo=repo, timeout=900)
            if race:
                races += [list(r) for r in cb.race_reports(out)]
            res = cb.validate("CbObs", lines, nproc=2)
            vstates += res["states"]
            vtrans += res["transitions"]
            all_lines += lines
            bad += [(b[0] + ("/race" if race else ""), b[2]) for b in res["bad"]]
            if not samples:
                idx = cb.index_cases(lines)
                for k in vlib.sample(sorted(idx.keys()), 2):
                    samples.append({"case": idx[k][0], "observations": [json.loads(x) for x in idx[k][1][1:12]]})
        model = fut.result()
    vlib.tlc_must_pass(model, "callback isolation: Callbacks.tla par2 (with repair)")
    return {"states": model.distinct, "transitions": model.generated, "cases": 2 * len(cases) * (2 if thorough else 1), "lines": len(all_lines),
            "bad": bad, "race_reports": races, "samples": samples,
            "model_runs": [{"model": "Callbacks/CopyFix par2", "distinct": model.distinct, "generated": model.generated, "wall_s": round(model.wall_s, 1)}],
            "trace_validation_states": vstates, "wall_s": round(time.time() - t0, 1)}


def _replay_one(prop, path):
    """bin/check <prop> --replay <file>: re-run the recorded case on the current tree and let TLC judge the fresh observation."""
    rep = json.load(open(path))
    case = rep["case"]["case"]
    if prop == "C10":
        lines, _, _ = cb.cb_replay([case], repo=os.environ.get("VERIF_REPO"))
        res = cb.validate("CbObs", lines, nproc=1)
        classify = c10_classify
    else:
        lines, _, _ = cb.opt_replay([case], repo=os.environ.get("VERIF_REPO"))
        res = cb.validate("OptObs", lines, nproc=1)
        classify = c16_classify
    for ln in lines:
        log("  " + ln[:300])
    verdict = vlib.Verdict(prop)
    for b in res["bad"]:
        verdict.violation(classify(case, b[2]), {"case": case, "observations": lines}, b[2])
        log("  rejected by the trace spec: %s (signature %s)" % (b[2], classify(case, b[2])))
    code, n_new, n_known = verdict.finish()
    log("[%s] replay of %s: %s" % (prop, os.path.basename(path), "VIOLATION reproduced" if code else ("known finding reproduced" if n_known else "not rejected on this tree")))
    return code


CHECKS = {"C10": _c10, "C16": _c16}
REPLAY = {"C10": lambda p: _replay_one("C10", p), "C16": lambda p: _replay_one("C16", p)}
