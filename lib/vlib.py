"""Common machinery of the eino verification framework (see DESIGN.md section 3).

  tlc(...)              run TLC on a module of /verif/spec in a scratch directory, parse its output
  validate_traces(...)  validate observation traces of real runs against a property-level trace spec
  go_test(...)          run a Go conformance harness against REPO's current working tree (go test -overlay)
  Verdict               collect violating cases, match known findings, write replays, print the verdict lines
  write_evidence(...)   write /verif/evidence/<id>.json (validated against the schema)

Exit-code contract of a check (bin/check): 0 = property held on everything explored, 1 = VIOLATION line printed,
2 = inconclusive (tool failure, timeout, model/harness problem) -- never reported as a violation.
"""
import atexit
import concurrent.futures
import hashlib
import json
import os
import re
import shutil
import subprocess
import sys
import tempfile
import time

ROOT = os.path.dirname(os.path.dirname(os.path.abspath(__file__)))
REPO = os.environ.get("VERIF_REPO", "/repo")
SPEC = os.path.join(ROOT, "spec")
HARNESS = os.path.join(ROOT, "harness")
SEED = int(os.environ.get("VERIF_SEED", "1") or "1")
NCPU = os.cpu_count() or 4
TLA_CP = "/opt/veriftools/tla/tla2tools.jar:/opt/veriftools/tla/CommunityModules-deps.jar"
GOENV = {"GOFLAGS": "-mod=mod", "GOPROXY": "off", "GOSUMDB": "off", "GOTOOLCHAIN": "local"}
KEEP = os.environ.get("VERIF_KEEP", "") != ""

_scratch_dirs = []


class Inconclusive(Exception):
    """The machinery could not decide (tool failure, timeout, model bug). Mapped to exit 2."""


def log(*a):
    print(*a, flush=True)


def mkscratch(prefix="verif-"):
    d = tempfile.mkdtemp(prefix=prefix)
    _scratch_dirs.append(d)
    return d


def _cleanup():
    if KEEP:
        return
    for d in _scratch_dirs:
        shutil.rmtree(d, ignore_errors=True)


atexit.register(_cleanup)


# --------------------------------------------------------------------------------------------- TLC

class TLCRun:
    def __init__(self):
        self.stdout = ""
        self.exit = None
        self.generated = 0
        self.distinct = 0
        self.depth = 0
        self.wall_s = 0.0
        self.error = None        # None | "invariant:<name>" | "postcondition" | "deadlock" | "temporal" | "action:<name>" | "other"
        self.printed = []        # decoded PrintT tuples: list of lists
        self.timed_out = False
        self.coverage = {}       # action -> (distinct, total) when run with coverage

    def ok(self):
        return self.error is None and not self.timed_out and self.exit == 0

    def tagged(self, tag):
        return [p[1:] for p in self.printed if p and p[0] == tag]


_RE_STATES = re.compile(r"^(\d+) states generated, (\d+) distinct states found", re.M)
_RE_DEPTH = re.compile(r"The depth of the complete state graph search is (\d+)")
_RE_SIM = re.compile(r"The number of states generated: (\d+)")
_RE_PRINT = re.compile(r'^<<(".*)>>$')
_RE_COV = re.compile(r"^<(\w+) line \d+, col \d+ to line \d+, col \d+ of module (\w+)>: (\d+):(\d+)", re.M)


def _parse_value(s, i):
    """Parse one TLC-printed value (string, number, TRUE/FALSE, tuple << .. >>) at s[i:], skipping whitespace/newlines.
    Returns (value, next index) or raises ValueError."""
    n = len(s)
    while i < n and s[i] in " \t\r\n":
        i += 1
    if i >= n:
        raise ValueError("eof")
    if s.startswith("<<", i):
        i += 2
        out = []
        while True:
            while i < n and s[i] in " \t\r\n,":
                i += 1
            if s.startswith(">>", i):
                return out, i + 2
            v, i = _parse_value(s, i)
            out.append(v)
    if s[i] == '"':
        j = i + 1
        while j < n and s[j] != '"':
            j += 2 if s[j] == "\\" else 1
        if j >= n:
            raise ValueError("unterminated string")
        return json.loads(s[i:j + 1].replace("\n", "\\n")), j + 1
    j = i
    while j < n and s[j] not in ", \t\r\n>":
        j += 1
    tok = s[i:j]
    if tok == "":
        raise ValueError("empty token at %d" % i)
    if tok in ("TRUE", "FALSE"):
        return tok == "TRUE", j
    try:
        return int(tok), j
    except ValueError:
        return tok, j


def _parse_tuple(line):
    try:
        v, _ = _parse_value(line, 0)
        return v if isinstance(v, list) else None
    except Exception:
        return None


def parse_printed_tuples(out):
    """All tuples that TLC printed at the start of a line whose first element is a string tag.  TLC pretty-prints long tuples
    over several lines (<< "BAD",\n   "case", ... >>), so this scans the whole output, not single lines."""
    res = []
    for m in re.finditer(r'^<<\s*"', out, re.M):
        try:
            v, _ = _parse_value(out, m.start())
        except Exception:
            continue
        if isinstance(v, list) and v and isinstance(v[0], str):
            res.append(v)
    return res


def tlc(module, cfg, *, files=None, workers=None, timeout=900, simulate=None, depth=None, seed=None,
        deque=False, coverage=False, heap=None, extra=None, specdir=None, keep_stdout=True, stack=None,
        copy_specs=True, scratch=None, env_extra=None):
    """Run TLC on spec/<module>.tla with config file spec/<cfg> (or a cfg given in `files`).

    files: dict name -> content (str) of extra files written into the scratch dir (e.g. trace.ndjson, generated cfg).
    simulate: e.g. "num=1000" -> -simulate num=1000 (then depth = -depth).
    Returns TLCRun. Never raises on a property violation; raises Inconclusive on parse errors of the spec itself.
    """
    specdir = specdir or SPEC
    d = scratch or mkscratch("verif-tlc-")
    if copy_specs:
        for f in os.listdir(specdir):
            if f.endswith(".tla") or f.endswith(".cfg"):
                shutil.copy(os.path.join(specdir, f), os.path.join(d, f))
    for name, content in (files or {}).items():
        with open(os.path.join(d, name), "w") as fh:
            fh.write(content)
    cmd = ["java", "-XX:+UseParallelGC"]
    if str(workers) == "1":
        cmd.append("-XX:ParallelGCThreads=2")      # many single-worker JVMs side by side: do not let each start 16 GC threads
    if heap:
        cmd.append("-Xmx" + heap)
    cmd.append("-Xss" + (stack or "64m"))
    cmd.append("-Djava.io.tmpdir=" + d)          # TLC unpacks its standard modules into java.io.tmpdir and never removes them
    if deque:
        cmd.append("-Dtlc2.tool.queue.IStateQueue=StateDeque")
    cmd += ["-cp", TLA_CP, "tlc2.TLC", "-metadir", os.path.join(d, "meta"), "-workers", str(workers or "auto"),
            "-config", cfg]
    if simulate:
        cmd += ["-simulate", simulate]
    if depth:
        cmd += ["-depth", str(depth)]
    if seed is not None:
        cmd += ["-seed", str(seed)]
    if coverage:
        cmd += ["-coverage", "1"]
    cmd += list(extra or [])
    cmd.append(module + ".tla")
    r = TLCRun()
    t0 = time.time()
    env = dict(os.environ)
    env.pop("JAVA_TOOL_OPTIONS", None)
    env.update(env_extra or {})
    try:
        p = subprocess.run(cmd, cwd=d, stdout=subprocess.PIPE, stderr=subprocess.STDOUT, timeout=timeout, env=env)
        out = p.stdout.decode("utf-8", "replace")
        r.exit = p.returncode
    except subprocess.TimeoutExpired as e:
        out = (e.stdout or b"").decode("utf-8", "replace")
        r.timed_out = True
        r.exit = -1
    r.wall_s = time.time() - t0
    r.stdout = out if keep_stdout else out[-20000:]
    m = None
    for m in _RE_STATES.finditer(out):
        pass
    if m:
        r.generated, r.distinct = int(m.group(1)), int(m.group(2))
    else:
        m = _RE_SIM.search(out)
        if m:
            r.generated = r.distinct = int(m.group(1))
    m = _RE_DEPTH.search(out)
    if m:
        r.depth = int(m.group(1))
    r.printed = parse_printed_tuples(out)
    if coverage:
        for m in _RE_COV.finditer(out):
            r.coverage[m.group(1)] = (int(m.group(3)), int(m.group(4)))
    if "Error:" in out or (r.exit not in (0, -1)):
        m = re.search(r"Error: Invariant (\S+) is violated", out)
        m2 = re.search(r"Error: Action property (\S+) is violated", out)
        if m:
            r.error = "invariant:" + m.group(1)
        elif m2:
            r.error = "action:" + m2.group(1)
        elif "Postcondition" in out and "false" in out:
            r.error = "postcondition"
        elif "Deadlock reached" in out:
            r.error = "deadlock"
        elif "Temporal properties were violated" in out:
            r.error = "temporal"
        elif r.exit != 0:
            r.error = "other"
    return r


def tlc_must_pass(run, what):
    """Model-level check: a failure here is a problem of the model or of the tools, i.e. inconclusive, never a violation."""
    if run.timed_out:
        raise Inconclusive("%s: TLC timed out after %.0fs" % (what, run.wall_s))
    if not run.ok():
        raise Inconclusive("%s: TLC reported %s (exit %s)\n%s" % (what, run.error, run.exit, run.stdout[-3000:]))
    return run


def split_cases(lines, nparts, is_start=None):
    """Split trace lines into <= nparts chunks of similar size, cutting only in front of a case-start line."""
    if is_start is None:
        def is_start(s):
            return s.startswith('{"ev":"case"')
    groups, cur = [], []
    for ln in lines:
        if is_start(ln) and cur:
            groups.append(cur)
            cur = []
        cur.append(ln)
    if cur:
        groups.append(cur)
    total = sum(len(g) for g in groups)
    target = max(1, total // max(1, nparts))
    chunks, cur, size = [], [], 0
    for g in groups:
        cur.extend(g)
        size += len(g)
        if size >= target and len(chunks) < nparts - 1:
            chunks.append(cur)
            cur, size = [], 0
    if cur:
        chunks.append(cur)
    return chunks


def validate_traces(module, cfg, lines, *, nproc=None, timeout=900, deque=False, files=None, is_start=None,
                    trace_name="trace.ndjson", stack=None, heap="3g"):
    """Validate an observation trace (list of ndjson lines, many cases concatenated) against a *total* trace spec.

    A total trace spec consumes every line; when a line contradicts the property it prints
    <<"BAD", case_id, line_no, reason>> and skips to the next case. The spec must print <<"HW", n>> (lines consumed + 1)
    from its postcondition. Returns dict(states=.., bad=[(case_id, reason, global_line)], runs=[TLCRun..]).
    Raises Inconclusive if some chunk was not fully consumed (machinery problem, not a property violation).
    """
    nproc = nproc or min(NCPU // 2, 8)       # measured: 8 JVMs x 18k lines in 6 s, 16 JVMs thrash (35 s)
    chunks = split_cases(lines, nproc, is_start)
    if not chunks:
        return {"states": 0, "transitions": 0, "bad": [], "runs": []}

    def one(chunk):
        return tlc(module, cfg, files=dict(files or {}, **{trace_name: "\n".join(chunk) + "\n"}), workers=1,
                   timeout=timeout, deque=deque, stack=stack, heap=heap)

    with concurrent.futures.ThreadPoolExecutor(max_workers=nproc) as ex:
        runs = list(ex.map(one, chunks))
    bad, states, trans = [], 0, 0
    for chunk, run in zip(chunks, runs):
        if run.timed_out:
            raise Inconclusive("trace validation (%s) timed out" % module)
        hw = [t[0] for t in run.tagged("HW")]
        if run.error not in (None,) or not hw or max(hw) != len(chunk) + 1:
            raise Inconclusive("trace validation (%s): trace not fully consumed (hw=%s of %d lines, error=%s)\n%s" % (
                module, hw, len(chunk), run.error, run.stdout[-3000:]))
        states += run.distinct
        trans += run.generated
        seen = set()
        for t in run.tagged("BAD"):
            key = tuple(map(str, t))
            if key in seen:
                continue
            seen.add(key)
            bad.append(tuple(t))
    return {"states": states, "transitions": trans, "bad": bad, "runs": runs}


# --------------------------------------------------------------------------------------------- Go

def go_test(pkg, overlays, run, *, tags="verif", race=False, env=None, timeout=900, args=None, repo=None, count=1,
            extra_files=None):
    """go test one package of REPO with harness files injected by -overlay (nothing is written into REPO).

    overlays: dict  repo-relative destination (e.g. compose/zz_verif_engine_test.go) -> absolute source path.
    Returns (exit_code, output, wall_s). Build failures are reported as exit code != 0 with 'build failed' in output.
    """
    repo = repo or REPO
    d = mkscratch("verif-go-")
    ov = {"Replace": {os.path.join(repo, k): v for k, v in overlays.items()}}
    ovp = os.path.join(d, "overlay.json")
    with open(ovp, "w") as fh:
        json.dump(ov, fh)
    cmd = ["go", "test", "-overlay", ovp, "-vet=off", "-count=%d" % count, "-run", run, "-timeout", "%ds" % timeout]
    if tags:
        cmd += ["-tags", tags]
    if race:
        cmd.append("-race")
    cmd.append("./" + pkg.strip("/") + "/")
    cmd += list(args or [])
    e = dict(os.environ)
    e.update(GOENV)
    e["VERIF_SEED"] = str(SEED)
    e.update(env or {})
    t0 = time.time()
    try:
        p = subprocess.run(cmd, cwd=repo, stdout=subprocess.PIPE, stderr=subprocess.STDOUT, timeout=timeout + 120, env=e)
        out, code = p.stdout.decode("utf-8", "replace"), p.returncode
    except subprocess.TimeoutExpired as ex:
        out, code = (ex.stdout or b"").decode("utf-8", "replace") + "\n[verif] go test timed out", 124
    return code, out, time.time() - t0


def go_must_run(code, out, what):
    """The harness itself must build and run to completion; otherwise the check is inconclusive (exit 2)."""
    if code != 0:
        raise Inconclusive("%s: go test failed (exit %d)\n%s" % (what, code, out[-6000:]))


# --------------------------------------------------------------------------------------------- findings / verdict

def load_known(prop):
    """known_findings.txt lines:  known: property=C06 sig=<signature> <text>   |   fixed: property=C06 <commit> <text>"""
    known = {}
    p = os.path.join(ROOT, "known_findings.txt")
    if os.path.exists(p):
        for ln in open(p):
            ln = ln.strip()
            m = re.match(r"known:\s+property=(\S+)\s+sig=(\S+)\s*(.*)", ln)
            if m and m.group(1) == prop:
                known[m.group(2)] = m.group(3)
    return known


class Verdict:
    def __init__(self, prop):
        self.prop = prop
        self.known = load_known(prop)
        self.viol = []        # (sig, case, detail)
        self.drift = []
        self.notes = []

    def violation(self, sig, case, detail=""):
        self.viol.append((sig, case, detail))

    def finish(self, max_report=5):
        """Print KNOWN-FINDING / VIOLATION lines; returns (exit_code, n_new_violations, n_known)."""
        by_known, new = {}, []
        for sig, case, detail in self.viol:
            if sig in self.known:
                by_known.setdefault(sig, []).append(case)
            else:
                new.append((sig, case, detail))
        for sig, cases in sorted(by_known.items()):
            log("KNOWN-FINDING: property=%s sig=%s %s (%d cases this run)" % (self.prop, sig, self.known[sig], len(cases)))
        if new:
            os.makedirs(os.path.join(ROOT, "replays"), exist_ok=True)
            for i, (sig, case, detail) in enumerate(new[:max_report]):
                h = hashlib.sha1(json.dumps(case, sort_keys=True, default=str).encode()).hexdigest()[:10]
                path = os.path.join(ROOT, "replays", "%s-%s-%s.json" % (self.prop, sig.replace("/", "_")[:40], h))
                with open(path, "w") as fh:
                    json.dump({"property": self.prop, "sig": sig, "detail": detail, "case": case}, fh, indent=1, default=str)
                log("VIOLATION property=%s replay=%s" % (self.prop, path))
                log("  sig=%s detail=%s" % (sig, str(detail)[:500]))
            if len(new) > max_report:
                log("  (+%d more violating cases not written)" % (len(new) - max_report))
            return 1, len(new), sum(len(v) for v in by_known.values())
        return 0, 0, sum(len(v) for v in by_known.values())


# --------------------------------------------------------------------------------------------- evidence

def write_evidence(prop, tier, level, coverage, *, assumptions=None, wall_s=0.0, violations=0, extra=None):
    ev = {"property_id": prop, "tier": tier if tier in ("quick", "thorough") else "quick", "seed": SEED, "level": level,
          "coverage": coverage, "assumptions": list(assumptions or []), "wall_s": round(float(wall_s), 2),
          "violations": int(violations)}
    if extra:
        ev.update(extra)
    os.makedirs(os.path.join(ROOT, "evidence"), exist_ok=True)
    # runs against another tree (--repo: seeded changes, candidate fixes) must not overwrite the evidence of the real tree
    path = os.path.join(ROOT, "evidence", prop + (".json" if os.path.realpath(REPO) == "/repo" else ".other-tree.json"))
    with open(path, "w") as fh:
        json.dump(ev, fh, indent=1, default=str)
        fh.write("\n")
    schema = "/root/.vp/EVIDENCE.schema.json"
    if os.path.exists(schema) and shutil.which("python3-vt"):
        code = ("import json,jsonschema,sys; jsonschema.validate(json.load(open(sys.argv[1])), json.load(open(sys.argv[2])))")
        p = subprocess.run(["python3-vt", "-c", code, path, schema], stdout=subprocess.PIPE, stderr=subprocess.STDOUT)
        if p.returncode != 0:
            raise Inconclusive("evidence file does not validate: " + p.stdout.decode()[-1500:])
    return path


def sample(lst, k=3):
    """deterministic small sample (first, middle, last)"""
    if len(lst) <= k:
        return list(lst)
    idx = sorted(set([0, len(lst) // 2, len(lst) - 1]))[:k]
    return [lst[i] for i in idx]


def read_ndjson(path):
    out = []
    with open(path) as fh:
        for ln in fh:
            ln = ln.strip()
            if ln:
                out.append(json.loads(ln))
    return out


def read_lines(path):
    with open(path) as fh:
        return [ln.rstrip("\n") for ln in fh if ln.strip()]


def run_check(main):
    """Wrap a check's main(): maps Inconclusive / unexpected exceptions to exit 2."""
    try:
        code = main()
    except Inconclusive as e:
        log("INCONCLUSIVE: " + str(e))
        code = 2
    except Exception as e:  # machinery bug: never a violation
        import traceback
        traceback.print_exc()
        log("INCONCLUSIVE: internal error: %r" % (e,))
        code = 2
    sys.stdout.flush()
    sys.exit(code)
