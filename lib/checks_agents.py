"""Agent-level part of C09 (a compiled runnable is safe for concurrent use; runs are isolated) as a library for the C09 check.

agent_isolation(tier, repo=None) ->
  dict(states, transitions, cases, lines, bad=[(case id, reason)], race_reports=[{top_frame, where, text, count, harness}],
       samples=[...], model_runs=[...], expected_model_finding=..., wall_s=...)

  1. model      TLC checks spec/AgentIso.tla (one compiled ReAct agent, 2-3 concurrent callers, every interleaving) against the
                property-level rule spec/AgentIsoRule.tla (RuleOK) and the shared-variable condition NoRace, in the configuration
                "repaired"; the configuration "as coded" (the convert closure of buildReturnDirectly assigns the constructor's named
                result) must violate NoRace and nothing else (this is D10 at model level), and two seeded defects (state generated
                once at compile time; return-directly id kept in a constructor variable) must be rejected by RuleOK.
                A surprise here raises vlib.Inconclusive.
  2. replay     harness/flow/agent/react/zz_verif_agentconc_test.go and harness/flow/agent/multiagent/host/zz_verif_hostconc_test.go:
                one agent, VERIF_CALLERS goroutines at once, Generate and Stream mixed, VERIF_ROUNDS rounds, tagged conversations
  3. verdict    TLC validates the per-call projections against spec/AgentIsoObs.tla  -> bad
  4. race       the same replays under `go test -race`; DATA RACE blocks with a frame in github.com/cloudwego/eino/ outside
                _test.go files -> race_reports (the traces of these runs are validated too)
No CHECKS entry: the C09 check (lib/checks_engine.py) calls agent_isolation and owns verdict and evidence.
"""
import concurrent.futures
import json
import os
import re
import time

import vlib
from vlib import log, Inconclusive
import checks_tools as ct

H = vlib.HARNESS
HARNESSES = {
    "react": dict(pkg="flow/agent/react", test="^TestVerifAgentConc$", marker="VERIF-AGENTCONC cases=",
                  overlay={"flow/agent/react/zz_verif_agentconc_test.go": os.path.join(H, "flow", "agent", "react", "zz_verif_agentconc_test.go")}),
    "tools": dict(pkg="compose", test="^TestVerifToolsConc$", marker="VERIF-TOOLSCONC cases=",
                  overlay={"compose/zz_verif_toolsconc_test.go": os.path.join(H, "compose", "zz_verif_toolsconc_test.go")}),
    "host": dict(pkg="flow/agent/multiagent/host", test="^TestVerifHostConc$", marker="VERIF-HOSTCONC cases=",
                 overlay={"flow/agent/multiagent/host/zz_verif_hostconc_test.go": os.path.join(H, "flow", "agent", "multiagent", "host", "zz_verif_hostconc_test.go")}),
}
A_ALL = dict(NC=2, Scripts=[0, 10, 11, 20, 21, 22], StateMode="percall", ErrVar="repaired", RdVar="state", InputMode="own", HistMode="copy", ToolsVar="percall", HistAlloc="perrun")
MALFORMED = ("unknown-observation", "line-outside-a-case", "case-not-closed-by-an-end-line", "trace-ends-inside-a-case")


def a_consts(**kw):
    c = dict(A_ALL)
    c.update(kw)
    return c


def model_check(tier):
    """-> (states, transitions, runs, expected_model_finding)"""
    invs = ["RuleOK", "Closed", "NoRace"]
    plan = [("nc2-repaired", a_consts(), None),
            ("nc3-repaired", a_consts(NC=3, Scripts=[0, 11, 21] if tier == "quick" else A_ALL["Scripts"]), None),
            ("nc2-shared-input-slice", a_consts(InputMode="sharedcap"), None),
            ("nc2-err-in-constructor-variable", a_consts(ErrVar="ascoded"), "NoRace"),
            ("nc2-history-adopts-shared-input", a_consts(InputMode="sharedcap", HistMode="adopt"), "RuleOK"),
            ("nc2-history-adopts-own-input", a_consts(HistMode="adopt"), "RuleOK"),
            ("nc2-state-once-at-compile", a_consts(StateMode="shared"), "RuleOK"),
            ("nc2-rdid-in-constructor-variable", a_consts(RdVar="ctor"), "RuleOK"),
            ("nc2-history-buffer-allocated-once", a_consts(HistAlloc="once"), "RuleOK"),
            ("nc2-tool-list-saved-on-the-node", a_consts(ToolsVar="node"), "RuleOK"),
            ("nc2-tool-list-saved-on-the-node-race", a_consts(ToolsVar="node"), "NoRace")]
    states = trans = 0
    runs = []
    for name, consts, expect in plan:
        use = invs if not expect else [expect]      # a seeded defect is checked against the one invariant it must break
        run = vlib.tlc("AgentIso", "mc_%s.cfg" % name, files={"mc_%s.cfg" % name: ct.cfg_text(consts, use)}, workers=4,
                       timeout=900 if tier == "thorough" else 240, heap="4g")
        if expect:
            if run.timed_out or run.error != "invariant:" + expect:
                raise Inconclusive("AgentIso %s: expected a violation of %s, TLC says %s\n%s" % (name, expect, run.error, run.stdout[-2000:]))
        else:
            vlib.tlc_must_pass(run, "model check AgentIso " + name)
        states += run.distinct
        trans += run.generated
        runs.append({"cfg": name, "constants": consts, "distinct": run.distinct, "generated": run.generated, "depth": run.depth,
                     "wall_s": round(run.wall_s, 1), "expected_violation": expect})
        log("  model AgentIso %-34s %7d distinct states, %8d generated, depth %2d, %5.1fs%s" % (
            name, run.distinct, run.generated, run.depth, run.wall_s, ("  (violates %s as expected)" % expect) if expect else ""))
    finding = ("spec/AgentIso.tla with ErrVar = \"ascoded\" (D10: the per-call convert closure of buildReturnDirectly assigned and read the "
               "constructor's named result err, react.go:257/266 before the repair) violates NoRace with 2 callers; with ErrVar = \"repaired\" "
               "(err := local to the closure, fixes/D10-react-return-directly-race.diff) RuleOK, Closed and NoRace hold for 2 and 3 callers, also "
               "when all callers pass one input slice with spare capacity")
    return states, trans, runs, finding


_RE_FUNC = re.compile(r"^  (\S.*)\(.*\)$")
_RE_FILE = re.compile(r"^      (\S+?):(\d+)(?: \+0x[0-9a-f]+)?$")


def parse_race_reports(output, repo, harness):
    """DATA RACE blocks of a `go test -race` output that have a frame in eino code outside _test.go files."""
    reports = {}
    for block in output.split("=================="):
        if "WARNING: DATA RACE" not in block:
            continue
        lines = block.splitlines()
        top = None
        for i in range(len(lines) - 1):
            mf, ml = _RE_FUNC.match(lines[i]), _RE_FILE.match(lines[i + 1])
            if not (mf and ml):
                continue
            fn, path = mf.group(1), ml.group(1)
            if fn.startswith("github.com/cloudwego/eino/") and not path.endswith("_test.go"):
                rel = path[len(repo.rstrip("/")) + 1:] if path.startswith(repo.rstrip("/") + "/") else path
                top = (fn[len("github.com/cloudwego/eino/"):], "%s:%s" % (rel, ml.group(2)))
                break
        if top is None:
            continue
        key = top
        if key in reports:
            reports[key]["count"] += 1
        else:
            reports[key] = {"top_frame": top[0], "where": top[1], "harness": harness, "count": 1, "text": block.strip()[:4000]}
    return list(reports.values())


def replay(name, *, repo, race, callers, rounds, timeout=600):
    h = HARNESSES[name]
    d = vlib.mkscratch("verif-agents-")
    op = os.path.join(d, "obs.ndjson")
    code, output, wall = vlib.go_test(h["pkg"], h["overlay"], h["test"], race=race, timeout=timeout, repo=repo, args=["-test.v"],
                                      env={"VERIF_OUT": op, "VERIF_CALLERS": str(callers), "VERIF_ROUNDS": str(rounds)})
    races = parse_race_reports(output, repo, name) if race else []
    if h["marker"] not in output and os.path.exists(op) and re.search(r"^(panic:|fatal error:)", output, re.M):
        # the test process died.  If the dying goroutine's stack has a frame in eino code outside _test.go files, this is an
        # observation of the framework (no run may kill the process): the cases written so far are kept, the death is reported
        frame = None
        ol = output.splitlines()
        for i in range(len(ol) - 1):
            if ol[i].startswith("github.com/cloudwego/eino/") and not ol[i + 1].strip().split(":")[0].endswith("_test.go"):
                frame = ol[i].split("(")[0][len("github.com/cloudwego/eino/"):]
                break
        if frame:
            lines = vlib.read_lines(op)
            while lines and not lines[-1].startswith('{"ev":"end"'):
                lines.pop()
            return lines, races, wall, [("%s/process" % name, "process-died-in-" + frame)]
    if h["marker"] not in output or not os.path.exists(op):
        raise Inconclusive("agent concurrency harness %s (%s) did not complete\n%s" % (name, "race" if race else "plain", output[-4000:]))
    if code != 0 and not (race and "race detected during execution of test" in output):
        raise Inconclusive("agent concurrency harness %s failed (exit %d)\n%s" % (name, code, output[-4000:]))
    if race and code != 0 and not races:
        # the detector fired, but only in harness code: a problem of the harness, never a violation
        raise Inconclusive("race detector fired outside eino code in harness %s\n%s" % (name, output[:4000]))
    return vlib.read_lines(op), races, wall, []


def validate(lines):
    res = vlib.validate_traces("AgentIsoObs", "AgentIsoObs.cfg", lines, nproc=2, timeout=600, stack="128m")
    bad = [(b[0], b[2]) for b in ct.bad_tuples(res)]
    broken = [b for b in bad if b[1] in MALFORMED]
    if broken:
        raise Inconclusive("agent concurrency trace malformed: %s" % broken[:3])
    return bad, res["states"], res["transitions"]


def agent_isolation(tier, repo=None):
    t0 = time.time()
    repo = repo or vlib.REPO
    callers, rounds = (4, 12) if tier == "quick" else (8, 60)
    callers = int(os.environ.get("VERIF_CALLERS", callers))
    rounds = int(os.environ.get("VERIF_ROUNDS", rounds))
    log("[agent isolation] tier=%s callers=%d rounds=%d repo=%s" % (tier, callers, rounds, repo))
    # the model check (TLC, 4 workers) runs beside the replays (one go test at a time)
    with concurrent.futures.ThreadPoolExecutor(max_workers=1) as ex:
        fut = ex.submit(model_check, tier)
        all_lines, bad, races, samples = [], [], [], []
        vstates = vtrans = ncases = 0
        for race in (False, True):
            for name in ("react", "host", "tools"):
                lines, rr, wall, died = replay(name, repo=repo, race=race, callers=callers, rounds=rounds)
                b, s, tr = validate(lines) if lines else ([], 0, 0)
                b = b + died
                n = sum(1 for ln in lines if ln.startswith('{"ev":"case"'))
                log("  replay %-5s %-5s %4d cases, %5d lines, %2d rejected, %d race reports in eino code, %.0fs" % (
                    name, "race" if race else "plain", n, len(lines), len(b), len(rr), wall))
                tagp = "race:" if race else ""
                bad += [(tagp + cid, reason) for cid, reason in b]
                races += rr
                vstates += s
                vtrans += tr
                ncases += n
                all_lines += lines
                if not race:
                    idx = ct.index_cases(lines)
                    for k in vlib.sample(sorted(idx.keys()), 2):
                        samples.append({"case": idx[k][0], "observations": [json.loads(x) for x in idx[k][1][1:10]]})
        states, trans, runs, finding = fut.result()
    return {"states": states, "transitions": trans, "cases": ncases, "lines": len(all_lines), "bad": bad, "race_reports": races,
            "samples": samples, "model_runs": runs, "expected_model_finding": finding, "trace_validation_states": vstates,
            "callers": callers, "rounds": rounds, "wall_s": round(time.time() - t0, 1)}


if __name__ == "__main__":
    import sys
    r = agent_isolation(sys.argv[1] if len(sys.argv) > 1 else "quick")
    for rep in r["race_reports"]:
        log("RACE %s %s x%d (%s)" % (rep["top_frame"], rep["where"], rep["count"], rep["harness"]))
    log(json.dumps({k: v for k, v in r.items() if k not in ("samples", "model_runs", "race_reports")}, default=str)[:1500])
