#!/usr/bin/env python3
"""Sensitivity driver of the cb family (development tool, not part of bin/check).

  python3 lib/mutate_cb.py C10 [name ...]      apply each seeded mutation of C10 in a scratch worktree that already has the proposed
  python3 lib/mutate_cb.py C16 [name ...]      repairs (fixes/D4-*.diff, fixes/D11-*.diff), build, run the package's own tests,
                                               run `bin/check <prop> --repo <worktree>` and report the exit code; the worktree is removed.
"""
import os
import subprocess
import sys
import time

ROOT = os.path.dirname(os.path.dirname(os.path.abspath(__file__)))
ENV = dict(os.environ, GOFLAGS="-mod=mod", GOPROXY="off", GOSUMDB="off", GOTOOLCHAIN="local")

M = {
    "C10": {
        "drop-onError": ("compose/utils.go", "\t\t\tctx, err = onError(ctx, err)\n\t\t\treturn output, err", "\t\t\treturn output, err"),
        "cpy-len-handlers": ("internal/callbacks/inject.go", "inOuts := cpy(len(handlers) + 1)", "inOuts := cpy(len(handlers))"),
        "node-cb-last-path-element": ("compose/utils.go", "if len(k.path) == 1 && k.path[0] == key {", "if len(k.path) >= 1 && k.path[len(k.path)-1] == key {"),
        "start-skips-first-handler": ("internal/callbacks/inject.go", "for i := len(handlers) - 1; i >= 0; i-- {", "for i := len(handlers) - 1; i > 0; i-- {"),
        "graph-start-twice": ("compose/graph_run.go", "\t\tctx, input = onGraphStart(ctx, input, isStream)\n\t\thaveOnStart = true\n\n\t\tnextTasks, result, err = r.calculateNextTasks",
                              "\t\tctx, input = onGraphStart(ctx, input, isStream)\n\n\t\tnextTasks, result, err = r.calculateNextTasks"),
        # half repairs: need global handler + spare capacity + designated handler + a particular interleaving
        "half-fix-On-still-appends": ("internal/callbacks/inject.go",
                                      "\tfor _, handlers := range [][]Handler{mgr.handlers, mgr.globalHandlers} {\n\t\tfor _, handler := range handlers {\n\t\t\ttimingChecker, ok_ := handler.(TimingChecker)\n\t\t\tif !ok_ || timingChecker.Needed(ctx, mgr.runInfo, timing) {\n\t\t\t\ths = append(hs, handler)\n\t\t\t}\n\t\t}\n\t}",
                                      "\tfor _, handler := range append(mgr.handlers, mgr.globalHandlers...) {\n\t\ttimingChecker, ok_ := handler.(TimingChecker)\n\t\tif !ok_ || timingChecker.Needed(ctx, mgr.runInfo, timing) {\n\t\t\ths = append(hs, handler)\n\t\t}\n\t}"),
        "half-fix-AppendHandlers-still-appends": ("internal/callbacks/inject.go",
                                                  "\tnHandlers := make([]Handler, 0, len(cbm.handlers)+len(handlers))\n\tnHandlers = append(nHandlers, cbm.handlers...)\n\tnHandlers = append(nHandlers, handlers...)\n\treturn InitCallbacks(ctx, info, nHandlers...)",
                                                  "\treturn InitCallbacks(ctx, info, append(cbm.handlers, handlers...)...)"),
        "stream-end-copy-shared-with-flow": ("internal/callbacks/inject.go", "\treturn ctx, inOuts[len(inOuts)-1]", "\treturn ctx, inOuts[0]"),
    },
    "C16": {
        "no-type-filter": ("compose/utils.go", "} else if reflect.TypeOf(opt.options[0]) == c.action.optionType { // assume that types of options are the same",
                           "} else { // assume that types of options are the same"),
        "nested-path-not-shortened": ("compose/utils.go", "nOpt.paths = []*NodePath{NewNodePath(path.path[1:]...)}", "nOpt.paths = []*NodePath{NewNodePath(path.path...)}"),
        "unknown-node-ignored": ("compose/utils.go", "\t\t\t\treturn nil, fmt.Errorf(\"option has designated an unknown node: %s\", path)", "\t\t\t\tcontinue"),
        "wrong-type-not-an-error": ("compose/utils.go", "\t\t\t\t\tif curNode.action.optionType != reflect.TypeOf(opt.options[0]) { // assume that types of options are the same",
                                    "\t\t\t\t\tif false { // assume that types of options are the same"),
        "designated-subgraph-keeps-paths": ("compose/utils.go", "\t\t\t\t\tnOpt := opt.deepCopy()\n\t\t\t\t\tnOpt.paths = []*NodePath{}\n", "\t\t\t\t\tnOpt := opt.deepCopy()\n"),
        "deepcopy-shares-paths": ("compose/graph_call_options.go", "\t\tnPath := *path\n\t\tnPaths[i] = &nPath", "\t\tnPaths[i] = path"),
        "half-fix-designate-appends-in-place": ("compose/graph_call_options.go", "\tnPaths := make([]*NodePath, 0, len(o.paths)+len(path))\n\tnPaths = append(nPaths, o.paths...)\n\to.paths = append(nPaths, path...)",
                                                "\to.paths = append(o.paths, path...)"),
        # options of an earlier call on the same compiled graph are merged into the next call's (needs two calls on one runnable)
        "options-leak-into-next-call": ("compose/graph_run.go",
                                        "\toptMap, extractErr := extractOption(r.chanSubscribeTo, opts...)\n\tif extractErr != nil {",
                                        "\toptMap, extractErr := extractOption(r.chanSubscribeTo, opts...)\n\tif extractErr == nil {\n\t\tvmLeakMu.Lock()\n\t\tfor k, v := range vmLeak[r] {\n\t\t\toptMap[k] = append(optMap[k], v...)\n\t\t}\n\t\tif vmLeak == nil {\n\t\t\tvmLeak = map[*runner]map[string][]any{}\n\t\t}\n\t\tcp := map[string][]any{}\n\t\tfor k, v := range optMap {\n\t\t\tcp[k] = append([]any{}, v...)\n\t\t}\n\t\tvmLeak[r] = cp\n\t\tvmLeakMu.Unlock()\n\t}\n\tif extractErr != nil {",
                                        "\nfunc runnableInvoke(", "\nvar vmLeak map[*runner]map[string][]any\nvar vmLeakMu sync.Mutex\n\nfunc runnableInvoke("),
    },
}


def sh(cmd, cwd=None, timeout=1800):
    p = subprocess.run(cmd, cwd=cwd, shell=isinstance(cmd, str), stdout=subprocess.PIPE, stderr=subprocess.STDOUT, env=ENV, timeout=timeout)
    return p.returncode, p.stdout.decode("utf-8", "replace")


def main():
    prop = sys.argv[1]
    names = sys.argv[2:] or [k for k, v in M[prop].items() if v]
    results = []
    for name in names:
        f, old, new = M[prop][name][:3]
        more = M[prop][name][3:]
        wt = "/tmp/wt-cb-mut-%s" % name
        sh("git -C /repo worktree remove --force %s" % wt)
        code, out = sh("git -C /repo worktree add --detach %s HEAD" % wt)
        if code != 0:
            print(name, "worktree failed", out)
            continue
        try:
            for d in sorted(os.listdir(os.path.join(ROOT, "fixes"))):
                if d.startswith("D4-") or d.startswith("D11-"):
                    c, o = sh("git apply %s" % os.path.join(ROOT, "fixes", d), cwd=wt)
                    if c != 0:
                        print(name, "fix does not apply", d, o)
            p = os.path.join(wt, f)
            s = open(p).read()
            if s.count(old) != 1:
                print(name, "MUTATION DOES NOT APPLY (count=%d)" % s.count(old))
                continue
            s = s.replace(old, new)
            for i in range(0, len(more), 2):
                if s.count(more[i]) < 1:
                    print(name, "EXTRA REPLACEMENT DOES NOT APPLY", more[i][:40])
                s = s.replace(more[i], more[i + 1], 1)
            open(p, "w").write(s)
            c1, o1 = sh("go build ./... ", cwd=wt)
            t0 = time.time()
            c2, o2 = sh("go test -vet=off -count=1 ./compose/ ./callbacks/ ./internal/callbacks/", cwd=wt)
            own = "own tests pass" if c2 == 0 else "OWN TESTS FAIL"
            c3, o3 = sh([os.path.join(ROOT, "bin", "check"), prop, "--repo", wt], cwd=ROOT)
            tail = [ln for ln in o3.splitlines() if ln.startswith("[%s]" % prop) or ln.startswith("  rejected") or ln.startswith("INCONCLUSIVE")]
            results.append((name, c1, own, c3))
            print("MUTATION %-42s build=%d %s check-exit=%d  %s" % (name, c1, own, c3, " | ".join(tail[-4:])), flush=True)
            if c2 != 0:
                print("    " + "\n    ".join([ln for ln in o2.splitlines() if ln.startswith("--- FAIL") or ln.startswith("FAIL")][:6]))
        finally:
            sh("git -C /repo worktree remove --force %s" % wt)
    return 0


if __name__ == "__main__":
    sys.exit(main())
